package srvkit

// Command handling for the in-process server (added for C11; additive: nothing in srvkit.go /
// world.go changes and a Server on which EnableCommands is never called behaves as before).
//
// EnableCommands wires what internal/app/server does for commands:
//
//   - HandlersComponent.Initialize (components_session.go): ConnectionCodeRepository,
//     PortMappingRepo, the BuiltinCloudControl's PortMappingService, the HTTP domain repository
//     with the server's default base domains, services.NewConnectionCodeService;
//   - Server.setupConnectionCodeCommands (connection_code_commands_setup.go): CommandRegistry +
//     CommandExecutor with the session set on it, installed with SessionManager.SetCommandExecutor,
//     then the four handler collections registered through their own exported RegisterHandlers
//     (connection codes, config, mappings, HTTP domains) - the same constructors, the same order.
//
// setupConnectionCodeCommands itself is a method of the unexported-field server.Server and cannot
// be called from here; ServerCommandSetupDrift reads its source and reports when it registers a
// handler collection this file does not know (drivers turn that into "inconclusive").
//
// CommandOptions.Library additionally registers the handlers the command package ships for the
// server side which the server does not wire today: command.RegisterDefaultHandlers (stub
// mapping/transfer/RPC handlers), NotifyClientAckHandler and SendNotifyToClientHandler with the
// session's NotificationService as its NotificationRouter (the only implementation of that
// interface in tunnox-core).

import (
	"bytes"
	"context"
	"encoding/binary"
	"encoding/json"
	"fmt"
	"io"
	"os"
	"path/filepath"
	"reflect"
	"regexp"
	"sort"
	"sync"
	"time"
	"unsafe"

	"tunnox-core/internal/app/server"
	"tunnox-core/internal/cloud/models"
	"tunnox-core/internal/cloud/repos"
	"tunnox-core/internal/cloud/services"
	"tunnox-core/internal/command"
	"tunnox-core/internal/core/idgen"
	"tunnox-core/internal/core/storage"
	coretypes "tunnox-core/internal/core/types"
	"tunnox-core/internal/packet"
	"tunnox-core/internal/protocol/session"
	"tunnox-core/internal/stream"
)

// CommandOptions selects the handler set.
type CommandOptions struct {
	Library     bool     // also register the command package's own server-side handlers (see above)
	BaseDomains []string // HTTP domain base domains; the server's defaults when empty
	EmptyOnly   bool     // install an executor with an empty registry (used to probe which command types never reach the executor)
	// DomainGate, when set, is called at the start of every HTTPDomainMappingRepository.CheckSubdomainAvailable
	// the HTTP domain handlers make (the storage-backed step of HTTPDomainCreate / CheckSubdomain /
	// GenSubdomain that precedes any use of the caller's identity). It may block: that is how a driver plays
	// a slow storage call and schedules concurrent commands.
	DomainGate func(subdomain, baseDomain string)
	// StorageFault, when set, is consulted before every storage read (Get) the command handlers' own
	// repositories and port-mapping service make; a non-nil error is returned to the caller instead of
	// the value (a transient backend read failure). The repositories and a PortMappingService of the
	// server's own type are then built over a read-fault wrapper of the server's storage; everything
	// else (session layer, cloud control) keeps reading the storage directly.
	StorageFault func(key string) error
}

// Commands is the command side of a Server.
type Commands struct {
	Registry    *command.CommandRegistry
	Executor    *command.CommandExecutor
	ConnCodes   *services.ConnectionCodeService
	CodeRepo    *repos.ConnectionCodeRepository
	MappingRepo *repos.PortMappingRepo
	Domains     *repos.HTTPDomainMappingRepository
	Notify      *session.NotificationService // nil unless Library
	BaseDomains []string

	srv    *Server
	mu     sync.Mutex
	frames map[*Transport][]byte // bytes of a packet the server has not finished writing yet
}

// the handler collections setupConnectionCodeCommands registers and EnableCommands mirrors
var mirroredCollections = []string{"Config", "ConnectionCode", "HTTPDomain", "Mapping"}

// EnableCommands installs the command executor and the server's command handlers.
func (s *Server) EnableCommands(o CommandOptions) (*Commands, error) {
	if s.SM.GetCommandExecutor() != nil {
		return nil, fmt.Errorf("srvkit: commands already enabled")
	}
	c := &Commands{BaseDomains: o.BaseDomains, srv: s, frames: map[*Transport][]byte{}}
	if len(c.BaseDomains) == 0 {
		c.BaseDomains = []string{"tunnox.net", "tunnel.test.local"} // HandlersComponent.Initialize
	}
	c.Registry = command.NewCommandRegistry(s.Ctx)
	c.Executor = command.NewCommandExecutor(c.Registry, s.Ctx)
	c.Executor.SetSession(s.SM)
	if err := s.SM.SetCommandExecutor(c.Executor); err != nil {
		return nil, err
	}
	if o.EmptyOnly {
		return c, nil
	}
	repo, pms := s.Repo, s.Cloud.GetPortMappingService()
	if o.StorageFault != nil {
		full, ok := s.Storage.(storage.FullStorage)
		if !ok {
			return nil, fmt.Errorf("srvkit: storage %T cannot be wrapped for read faults", s.Storage)
		}
		repo = repos.NewRepository(&readFaultStorage{FullStorage: full, fault: o.StorageFault})
		pms = services.NewPortMappingService(repos.NewPortMappingRepo(repo), idgen.NewIDManager(s.Storage, s.Ctx), nil, s.Ctx)
	}
	c.CodeRepo = repos.NewConnectionCodeRepository(repo)
	c.MappingRepo = repos.NewPortMappingRepo(repo)
	c.Domains = repos.NewHTTPDomainMappingRepository(repo, c.BaseDomains)
	c.ConnCodes = services.NewConnectionCodeService(c.CodeRepo, pms, c.MappingRepo, nil, s.Ctx)

	if err := server.NewConnectionCodeCommandHandlers(c.ConnCodes, s.SM).RegisterHandlers(c.Registry); err != nil {
		return nil, err
	}
	if err := server.NewConfigCommandHandlers(s.Auth, s.SM).RegisterHandlers(c.Registry); err != nil {
		return nil, err
	}
	if err := server.NewMappingCommandHandlers(c.ConnCodes, s.SM).RegisterHandlers(c.Registry); err != nil {
		return nil, err
	}
	var domainRepo repos.IHTTPDomainMappingRepository = c.Domains
	if o.DomainGate != nil {
		domainRepo = &gatedDomainRepo{IHTTPDomainMappingRepository: c.Domains, gate: o.DomainGate}
	}
	if err := server.NewHTTPDomainCommandHandlers(s.SM, domainRepo).RegisterHandlers(c.Registry); err != nil {
		return nil, err
	}
	if o.Library {
		command.RegisterDefaultHandlers(c.Registry) // the type-0 DefaultHandler is refused by Register (logged only)
		c.Notify = session.NewNotificationService(s.Ctx, s.SM.GetClientRegistry())
		if err := c.Registry.Register(command.NewNotifyClientAckHandler()); err != nil {
			return nil, err
		}
		if err := c.Registry.Register(command.NewSendNotifyToClientHandler(c.Notify)); err != nil {
			return nil, err
		}
	}
	return c, nil
}

// readFaultStorage is the server's storage with a fault point in front of Get.
type readFaultStorage struct {
	storage.FullStorage
	fault func(key string) error
}

func (f *readFaultStorage) Get(key string) (interface{}, error) {
	if err := f.fault(key); err != nil {
		return nil, err
	}
	return f.FullStorage.Get(key)
}

// Cloud read faults: the commands handled in the session layer itself (SOCKS5 tunnel request, traffic report)
// read the mapping they name through the session's cloud-control adapter, not through the handlers'
// repositories. SetCloudReadFault puts a fault point in front of that read (GetPortMapping): a non-nil error
// is returned to the session layer instead of the mapping. nil removes it. Kept beside the adapter (keyed by
// it) so that the adapter type in srvkit.go stays as it is.
var cloudReadFaults sync.Map // *faultyCloud -> func(mappingID string) error

func (f *faultyCloud) GetPortMapping(mappingID string) (*models.PortMapping, error) {
	if g, ok := cloudReadFaults.Load(f); ok {
		if err := g.(func(string) error)(mappingID); err != nil {
			return nil, err
		}
	}
	return f.CloudControlAPI.GetPortMapping(mappingID)
}

// SetCloudReadFault installs (or, with nil, removes) the fault point described above.
func (s *Server) SetCloudReadFault(fault func(mappingID string) error) {
	if fault == nil {
		cloudReadFaults.Delete(s.cloudFault)
		return
	}
	cloudReadFaults.Store(s.cloudFault, fault)
}

// gatedDomainRepo is the real repository with a scheduling seam in front of the availability check.
type gatedDomainRepo struct {
	repos.IHTTPDomainMappingRepository
	gate func(subdomain, baseDomain string)
}

func (g *gatedDomainRepo) CheckSubdomainAvailable(ctx context.Context, subdomain, baseDomain string) (bool, error) {
	g.gate(subdomain, baseDomain)
	return g.IHTTPDomainMappingRepository.CheckSubdomainAvailable(ctx, subdomain, baseDomain)
}

// SetDuplexTimeout shortens the time CommandExecutor.executeDuplex waits for a handler (RPCManager.timeout,
// 30 s, fixed at construction: the executor keeps its RPCManager in an unexported field and offers no
// option). The value is configuration, not behaviour; it is reached through the field because there is
// no other way from outside the package. An error means the executor's layout changed: callers then
// have to wait for the real 30 s.
func (c *Commands) SetDuplexTimeout(d time.Duration) (err error) {
	defer func() {
		if r := recover(); r != nil {
			err = fmt.Errorf("srvkit: cannot reach the executor's RPC manager: %v", r)
		}
	}()
	f := reflect.ValueOf(c.Executor).Elem().FieldByName("rpcManager")
	if !f.IsValid() || f.Kind() != reflect.Ptr || f.IsNil() {
		return fmt.Errorf("srvkit: CommandExecutor has no rpcManager field")
	}
	rm, ok := reflect.NewAt(f.Type(), unsafe.Pointer(f.UnsafeAddr())).Elem().Interface().(*command.RPCManager)
	if !ok || rm == nil {
		return fmt.Errorf("srvkit: CommandExecutor.rpcManager is not a *command.RPCManager")
	}
	rm.SetTimeout(d)
	if rm.GetTimeout() != d {
		return fmt.Errorf("srvkit: RPCManager did not take the timeout")
	}
	return nil
}

// RegisteredCommand is one entry of the real registry.
type RegisteredCommand struct {
	Type   packet.CommandType
	Duplex bool
}

// Listing is CommandRegistry.ListHandlers with each handler's direction, sorted by type.
func (c *Commands) Listing() []RegisteredCommand {
	var out []RegisteredCommand
	for _, t := range c.Registry.ListHandlers() {
		h, ok := c.Registry.GetHandler(t)
		if !ok {
			continue
		}
		out = append(out, RegisteredCommand{Type: t, Duplex: h.GetDirection() == coretypes.DirectionDuplex})
	}
	sort.Slice(out, func(i, j int) bool { return out[i].Type < out[j].Type })
	return out
}

// ServerCommandSetupDrift compares the handler collections that
// internal/app/server/connection_code_commands_setup.go registers (read from the source of the
// checkout the binary was built against: VERIF_REPO, else /repo) with the ones EnableCommands
// mirrors. "" = no drift; otherwise a description for an inconclusive verdict.
func ServerCommandSetupDrift() string {
	repo := os.Getenv("VERIF_REPO")
	if repo == "" {
		repo = "/repo"
	}
	src, err := os.ReadFile(filepath.Join(repo, "internal/app/server/connection_code_commands_setup.go"))
	if err != nil {
		return "cannot read the server's command setup: " + err.Error()
	}
	seen := map[string]bool{}
	for _, m := range regexp.MustCompile(`\bNew(\w+)CommandHandlers\(`).FindAllStringSubmatch(string(src), -1) {
		seen[m[1]] = true
	}
	var got []string
	for k := range seen {
		got = append(got, k)
	}
	sort.Strings(got)
	if fmt.Sprint(got) != fmt.Sprint(mirroredCollections) {
		return fmt.Sprintf("setupConnectionCodeCommands registers %v, srvkit.EnableCommands mirrors %v", got, mirroredCollections)
	}
	if n := len(regexp.MustCompile(`\.Register(Handlers|Handler)?\(`).FindAllString(string(src), -1)); n != len(mirroredCollections) {
		return fmt.Sprintf("setupConnectionCodeCommands has %d registration calls, srvkit.EnableCommands mirrors %d", n, len(mirroredCollections))
	}
	return ""
}

// ---------------------------------------------------------------------------------------------
// frame-aware reading of what the server wrote
//
// Conn.Send / Conn.Drain (srvkit.go) parse whatever bytes are there at the moment and drop an
// incomplete tail. That is right for replies written during HandlePacket, but the server also writes
// from its own goroutines (the configuration push after a handshake): a packet can be half written
// when the bytes are taken. Drain / Send below keep the incomplete tail for the next call, so every
// packet the server writes is seen exactly once and whole.

// Drain returns the complete packets the server wrote to conn since the last call.
func (c *Commands) Drain(conn *Conn) []*packet.TransferPacket {
	b := conn.T.take()
	c.mu.Lock()
	defer c.mu.Unlock()
	buf := append(c.frames[conn.T], b...)
	var out []*packet.TransferPacket
	for len(buf) > 0 {
		n := 1
		if !packet.Type(buf[0]).IsHeartbeat() {
			if len(buf) < 5 {
				break
			}
			n = 5 + int(binary.BigEndian.Uint32(buf[1:5]))
			if len(buf) < n {
				break
			}
		}
		sp := stream.NewStreamProcessor(bytes.NewReader(buf[:n]), io.Discard, c.srv.Ctx)
		if p, _, err := sp.ReadPacket(); err == nil && p != nil {
			out = append(out, p)
		}
		sp.Close()
		buf = buf[n:]
	}
	if len(buf) == 0 {
		delete(c.frames, conn.T)
	} else {
		c.frames[conn.T] = append([]byte(nil), buf...)
	}
	return out
}

// Send is Conn.Send with frame-aware reading and without discarding what was written before the call.
func (c *Commands) Send(conn *Conn, p *packet.TransferPacket) (out []*packet.TransferPacket, herr error, err error) {
	if conn.T.Closed() {
		return nil, nil, ErrTransportClosed
	}
	herr = c.srv.SM.HandlePacket(&coretypes.StreamPacket{ConnectionID: conn.ID, Packet: p, Timestamp: time.Now()})
	return c.Drain(conn), herr, nil
}

// Handshake sends one handshake request; it returns the HandshakeResponse (nil if none was
// written) and every other packet that was read along with it.
func (c *Commands) Handshake(conn *Conn, req *packet.HandshakeRequest) (*packet.HandshakeResponse, []*packet.TransferPacket, error) {
	body, _ := json.Marshal(req)
	out, _, err := c.Send(conn, &packet.TransferPacket{PacketType: packet.Handshake, Payload: body})
	if err != nil {
		return nil, nil, err
	}
	var resp *packet.HandshakeResponse
	var rest []*packet.TransferPacket
	for _, p := range out {
		if resp == nil && p.PacketType&0x3F == packet.HandshakeResp {
			var r packet.HandshakeResponse
			if err := json.Unmarshal(p.Payload, &r); err != nil {
				return nil, nil, fmt.Errorf("srvkit: undecodable handshake response %q: %w", p.Payload, err)
			}
			resp = &r
			continue
		}
		rest = append(rest, p)
	}
	return resp, rest, nil
}

// HandshakeRequest builds the request the client sends (Conn.Phase1 / Phase2 use the same fields).
func HandshakeRequest(clientID int64, connType, challengeResponse string) *packet.HandshakeRequest {
	r := req(clientID, connType)
	r.ChallengeResponse = challengeResponse
	return r
}
