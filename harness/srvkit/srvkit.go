// Package srvkit assembles the tunnox-core server's session/authentication stack in-process,
// the way internal/app/server wires it (components_infra.go, components_session.go,
// storage.go), on memory storage, with fake transports instead of sockets.
//
// Real objects: session.SessionManager, server.ServerAuthHandler, managers.BuiltinCloudControl
// (through the session.CloudControlAdapter), hybrid storage over the memory cache with
// persistence disabled (server.createMemoryStorage), repos.Repository, idgen.IDManager,
// security.SecretKeyManager / BruteForceProtector / IPManager / RateLimiter,
// session.ConnectionStateStore and TunnelRoutingTable.
// Not assembled (they open sockets / need a network): protocol adapters, CrossNodeListener,
// CrossNodePool, TunnelConnectionManager, management API, tunnel handler.
//
// Environment replaced: the transport (Transport, a net.Conn whose remote address is chosen by
// the caller, whose writes are logged and whose closed flag is observable) and the protocol
// adapter's per-connection read loop (adapter.BaseAdapter.handleConnection): Conn.Send hands a
// packet to SessionManager.HandlePacket exactly as handlePacketAndCheckModeSwitch does, and
// Server.Reap / Conn.Disconnect do what cleanupConnection does when the read loop ends
// (SessionManager.CloseConnection + closing the socket).
//
// Process-wide state: the only package-level mutable state of tunnox-core the kit touches is the
// default logger (corelog.SetDefault), which is set to a no-op logger once, because the
// session layer logs several lines per packet. Everything else (registries, storage, id
// generator, protectors) is per Server, so many servers can live and be driven concurrently in
// one process. metrics.SetGlobalMetrics is NOT called (the handshake path does not need it).
package srvkit

import (
	"bytes"
	"context"
	"crypto/hmac"
	"crypto/rand"
	"crypto/sha256"
	"encoding/base64"
	"encoding/hex"
	"encoding/json"
	"errors"
	"fmt"
	"io"
	"net"
	"sort"
	"sync"
	"sync/atomic"
	"time"

	"tunnox-core/internal/app/server"
	"tunnox-core/internal/cloud/factories"
	"tunnox-core/internal/cloud/managers"
	"tunnox-core/internal/cloud/repos"
	"tunnox-core/internal/cloud/services"
	clientsvc "tunnox-core/internal/cloud/services/client"
	"tunnox-core/internal/core/idgen"
	corelog "tunnox-core/internal/core/log"
	"tunnox-core/internal/core/storage"
	coretypes "tunnox-core/internal/core/types"
	"tunnox-core/internal/packet"
	"tunnox-core/internal/protocol/session"
	"tunnox-core/internal/security"
	"tunnox-core/internal/stream"
)

var quietOnce sync.Once

// Options configures a Server. Zero values mean "what the real server uses".
type Options struct {
	HeartbeatTimeout      time.Duration // session.DefaultHeartbeatTimeout when 0
	CleanupInterval       time.Duration // session.DefaultCleanupInterval when 0 (the real sweep ticker)
	MaxConnections        int           // session defaults when 0
	MaxControlConnections int
	BruteForce            *security.BruteForceConfig // nil = security.DefaultBruteForceConfig()
	NodeID                string                     // "node-verif" when empty
	NoConnState           bool                       // do not wire ConnectionStateStore / TunnelRoutingTable
	KeepLogs              bool                       // leave the process-wide default logger alone
	// Storage, when set, is the storage this node's server holds (instead of a private in-memory hybrid
	// storage): several Servers given storages over ONE shared store form a cluster whose nodes share
	// client configs, client runtime state, id generators ... exactly as a deployment does. The Server
	// does not close it.
	Storage storage.Storage
	// MasterKey (base64, 32 bytes) for the SecretKeyManager; random when empty. Nodes sharing a store must
	// share it (stored credentials are encrypted with it).
	MasterKey string
}

// Server is one in-process server assembly.
type Server struct {
	Ctx     context.Context
	SM      *session.SessionManager
	Auth    *server.ServerAuthHandler
	Cloud   *managers.BuiltinCloudControl
	Storage storage.Storage
	Repo    *repos.Repository
	Keys    *security.SecretKeyManager
	Brute   *security.BruteForceProtector
	IPs     *security.IPManager
	Rate    *security.RateLimiter
	NodeID  string

	cancel     context.CancelFunc
	cfgRepo    *repos.ClientConfigRepository
	cloudFault *faultyCloud
	idm        *idgen.IDManager
	csOnce     sync.Once
	cs         *clientsvc.Service
	csErr      error
	mu         sync.Mutex
	conns      []*Conn
}

// NewServer builds the assembly. Close it when done (stops the background goroutines).
func NewServer(o Options) (*Server, error) {
	if !o.KeepLogs {
		quietOnce.Do(func() { corelog.SetDefault(corelog.NewNopLogger()) })
	}
	ctx, cancel := context.WithCancel(context.Background())
	s := &Server{Ctx: ctx, cancel: cancel, NodeID: o.NodeID}
	if s.NodeID == "" {
		s.NodeID = "node-verif"
	}
	fail := func(err error) (*Server, error) { cancel(); return nil, err }

	// StorageComponent (createMemoryStorage): hybrid storage, memory cache, no persistence.
	hc := &storage.HybridStorageConfig{CacheType: "memory", EnablePersistent: false, HybridConfig: storage.DefaultHybridConfig()}
	hc.HybridConfig.EnablePersistent = false
	var st storage.Storage
	var err error
	if o.Storage != nil {
		st = o.Storage
	} else if st, err = storage.NewStorageFactory(ctx).CreateStorage(hc); err != nil {
		return fail(fmt.Errorf("storage: %w", err))
	}
	s.Storage = st
	idm := idgen.NewIDManager(st, ctx)
	s.idm = idm
	s.Repo = repos.NewRepository(st)
	s.cfgRepo = repos.NewClientConfigRepository(s.Repo)

	// CloudControlComponent
	cc := managers.DefaultConfig()
	cc.NodeID = s.NodeID
	s.Cloud = factories.NewBuiltinCloudControlWithRepo(ctx, cc, st, s.Repo)

	// SessionComponent (with explicit config so that the heartbeat timeout can be shortened)
	sc := session.DefaultSessionConfig()
	if o.HeartbeatTimeout > 0 {
		sc.HeartbeatTimeout = o.HeartbeatTimeout
	}
	if o.CleanupInterval > 0 {
		sc.CleanupInterval = o.CleanupInterval
	}
	if o.MaxConnections > 0 {
		sc.MaxConnections = o.MaxConnections
	}
	if o.MaxControlConnections > 0 {
		sc.MaxControlConnections = o.MaxControlConnections
	}
	s.SM = session.NewSessionManagerWithConfig(idm, ctx, sc)

	// SecurityComponent
	s.Brute = security.NewBruteForceProtector(o.BruteForce, ctx)
	s.IPs = security.NewIPManager(st, ctx)
	s.Rate = security.NewRateLimiter(nil, nil, ctx)
	mk := make([]byte, 32)
	if _, err := rand.Read(mk); err != nil {
		return fail(err)
	}
	masterKey := base64.StdEncoding.EncodeToString(mk)
	if o.MasterKey != "" {
		masterKey = o.MasterKey
	}
	s.Keys, err = security.NewSecretKeyManager(&security.SecretKeyConfig{MasterKey: masterKey})
	if err != nil {
		return fail(fmt.Errorf("secret key manager: %w", err))
	}
	s.Cloud.SetSecretKeyManager(s.Keys)

	// HandlersComponent (auth part)
	s.Auth = server.NewServerAuthHandler(s.Cloud, s.SM, s.Brute, s.IPs, s.Rate, s.Keys)
	s.SM.SetAuthHandler(s.Auth)
	s.cloudFault = &faultyCloud{CloudControlAPI: session.NewCloudControlAdapter(s.Cloud)}
	s.SM.SetCloudControl(s.cloudFault)
	s.SM.SetNodeID(s.NodeID)
	if !o.NoConnState {
		s.SM.SetTunnelRoutingTable(session.NewTunnelRoutingTable(st, 30*time.Second))
		s.SM.SetConnectionStateStore(session.NewConnectionStateStore(st, s.NodeID, 5*time.Minute))
	}
	return s, nil
}

// Close shuts the assembly down (SessionManager.Close + context cancel).
func (s *Server) Close() {
	s.SM.Close()
	s.cancel()
}

// ---------------------------------------------------------------------------------------------
// fake transport

// Transport is the fake socket handed to SessionManager.AcceptConnection as reader and writer.
// Reads block until the transport is closed (the kit injects packets through HandlePacket, the
// server never reads); writes are appended to a log the test side parses with a real
// StreamProcessor; Close is idempotent and observable.
type Transport struct {
	remote net.Addr
	mu     sync.Mutex
	out    bytes.Buffer
	closed bool
	done   chan struct{}
	nWrite int
	hook   func()
	after  func() // one-shot, runs after the write that completes the next framed packet
	mark   int    // offset in out at which that packet starts
	failW  bool   // one-shot: the next Write fails (see FailNextWrite)
}

// ErrWriteFailed is what a Write armed with FailNextWrite returns.
var ErrWriteFailed = errors.New("srvkit: injected write failure (broken pipe)")

// FailNextWrite arms a one-shot fault: the next Write on this transport returns an error and writes nothing -
// a socket whose send side broke while the transport itself is still open (the packet being written,
// e.g. a handshake response, is not delivered).
func (t *Transport) FailNextWrite() { t.mu.Lock(); t.failW = true; t.mu.Unlock() }

// AfterNextPacket arms a one-shot hook that runs (on the writer's goroutine, outside the
// transport's lock) right after the Write call that completes the next framed packet with a body
// (type byte, 4-byte big-endian body size, body) - e.g. the handshake response, whose last Write
// is the last thing sendHandshakeResponse does before handleHandshake's registry section.
func (t *Transport) AfterNextPacket(f func()) {
	t.mu.Lock()
	t.after, t.mark = f, t.out.Len()
	t.mu.Unlock()
}

// BeforeNextWrite arms a one-shot hook that runs (on the writer's goroutine, outside the
// transport's lock) at the start of the next Write. Drivers use it as a scheduling seam: the
// handshake response is written right before handleHandshake's registry section.
func (t *Transport) BeforeNextWrite(f func()) { t.mu.Lock(); t.hook = f; t.mu.Unlock() }

// NewTransport creates a fake socket whose peer address is ip:port.
func NewTransport(ip string, port int) *Transport {
	return &Transport{remote: &net.TCPAddr{IP: net.ParseIP(ip), Port: port}, done: make(chan struct{})}
}

func (t *Transport) Read(p []byte) (int, error) { <-t.done; return 0, io.EOF }
func (t *Transport) Write(p []byte) (int, error) {
	t.mu.Lock()
	if h := t.hook; h != nil {
		t.hook = nil
		t.mu.Unlock()
		h()
		t.mu.Lock()
	}
	if t.closed {
		t.mu.Unlock()
		return 0, net.ErrClosed
	}
	if t.failW {
		t.failW = false
		t.mu.Unlock()
		return 0, ErrWriteFailed
	}
	t.nWrite++
	n, err := t.out.Write(p)
	var fire func()
	if t.after != nil {
		if b := t.out.Bytes(); t.mark <= len(b) {
			b = b[t.mark:]
			if len(b) >= 5 && len(b) >= 5+int(uint32(b[1])<<24|uint32(b[2])<<16|uint32(b[3])<<8|uint32(b[4])) {
				fire, t.after = t.after, nil
			}
		}
	}
	t.mu.Unlock()
	if fire != nil {
		fire()
	}
	return n, err
}
func (t *Transport) Close() error {
	t.mu.Lock()
	defer t.mu.Unlock()
	if !t.closed {
		t.closed = true
		close(t.done)
	}
	return nil
}
func (t *Transport) LocalAddr() net.Addr              { return &net.TCPAddr{IP: net.IPv4(127, 0, 0, 1), Port: 7000} }
func (t *Transport) RemoteAddr() net.Addr             { return t.remote }
func (t *Transport) SetDeadline(time.Time) error      { return nil }
func (t *Transport) SetReadDeadline(time.Time) error  { return nil }
func (t *Transport) SetWriteDeadline(time.Time) error { return nil }

// Closed reports whether the server (or the peer) closed the transport.
func (t *Transport) Closed() bool { t.mu.Lock(); defer t.mu.Unlock(); return t.closed }

// take returns and clears the bytes the server wrote so far.
func (t *Transport) take() []byte {
	t.mu.Lock()
	defer t.mu.Unlock()
	b := append([]byte(nil), t.out.Bytes()...)
	t.out.Reset()
	t.mark = 0
	return b
}

// ---------------------------------------------------------------------------------------------
// connections

// Conn is one accepted connection: the server-side id plus the fake transport.
type Conn struct {
	ID  string
	IP  string
	T   *Transport
	srv *Server
}

// NewConn accepts a new connection from remoteIP (SessionManager.AcceptConnection, as
// adapter.initializeConnection does).
func (s *Server) NewConn(remoteIP string) (*Conn, error) {
	s.mu.Lock()
	port := 40000 + len(s.conns)
	s.mu.Unlock()
	t := NewTransport(remoteIP, port)
	sc, err := s.SM.AcceptConnection(t, t)
	if err != nil {
		return nil, err
	}
	c := &Conn{ID: sc.ID, IP: remoteIP, T: t, srv: s}
	s.mu.Lock()
	s.conns = append(s.conns, c)
	s.mu.Unlock()
	return c, nil
}

// Conns returns the connections accepted so far, in accept order.
func (s *Server) Conns() []*Conn {
	s.mu.Lock()
	defer s.mu.Unlock()
	return append([]*Conn(nil), s.conns...)
}

// Closed reports whether the connection's transport is closed.
func (c *Conn) Closed() bool { return c.T.Closed() }

// ErrTransportClosed is returned by Send on a closed transport: a real read loop would have ended.
var ErrTransportClosed = errors.New("srvkit: transport closed, no read loop would deliver this packet")

// Send delivers one packet to the server as the connection's read loop would
// (SessionManager.HandlePacket) and returns the packets the server wrote to this connection
// during the call, decoded with a real StreamProcessor. herr is HandlePacket's error (the read
// loop only logs it).
func (c *Conn) Send(p *packet.TransferPacket) (out []*packet.TransferPacket, herr error, err error) {
	if c.T.Closed() {
		return nil, nil, ErrTransportClosed
	}
	c.T.take()
	herr = c.srv.SM.HandlePacket(&coretypes.StreamPacket{ConnectionID: c.ID, Packet: p, Timestamp: time.Now()})
	return c.Drain(), herr, nil
}

// Drain decodes and returns everything the server wrote to the connection since the last call.
func (c *Conn) Drain() []*packet.TransferPacket {
	b := c.T.take()
	if len(b) == 0 {
		return nil
	}
	sp := stream.NewStreamProcessor(bytes.NewReader(b), io.Discard, c.srv.Ctx)
	defer sp.Close()
	var out []*packet.TransferPacket
	for {
		p, _, err := sp.ReadPacket()
		if err != nil || p == nil {
			return out
		}
		out = append(out, p)
	}
}

// Handshake sends one handshake request and returns the HandshakeResponse the server wrote back
// (nil if it wrote none).
func (c *Conn) Handshake(req *packet.HandshakeRequest) (*packet.HandshakeResponse, error) {
	body, _ := json.Marshal(req)
	out, _, err := c.Send(&packet.TransferPacket{PacketType: packet.Handshake, Payload: body})
	if err != nil {
		return nil, err
	}
	for _, p := range out {
		if p.PacketType&0x3F == packet.HandshakeResp {
			var r packet.HandshakeResponse
			if err := json.Unmarshal(p.Payload, &r); err != nil {
				return nil, fmt.Errorf("srvkit: undecodable handshake response %q: %w", p.Payload, err)
			}
			return &r, nil
		}
	}
	return nil, nil
}

func req(clientID int64, connType string) *packet.HandshakeRequest {
	return &packet.HandshakeRequest{ClientID: clientID, Version: "3.0", Protocol: "tcp", ConnectionType: connType}
}

// FirstConnect asks for a brand-new identity (ClientID 0, token "new-client").
func (c *Conn) FirstConnect(connType string) (clientID int64, secret string, resp *packet.HandshakeResponse, err error) {
	r := req(0, connType)
	r.Token = "new-client"
	resp, err = c.Handshake(r)
	if err != nil || resp == nil || !resp.Success {
		return 0, "", resp, err
	}
	return resp.ClientID, resp.SecretKey, resp, nil
}

// Phase1 announces clientID and returns the challenge the server issued ("" if none).
func (c *Conn) Phase1(clientID int64, connType string) (challenge string, resp *packet.HandshakeResponse, err error) {
	resp, err = c.Handshake(req(clientID, connType))
	if err != nil || resp == nil {
		return "", resp, err
	}
	return resp.Challenge, resp, nil
}

// Phase2 sends a challenge response for clientID.
func (c *Conn) Phase2(clientID int64, response, connType string) (*packet.HandshakeResponse, error) {
	r := req(clientID, connType)
	r.ChallengeResponse = response
	return c.Handshake(r)
}

// Login runs the client's two-phase handshake with the right key; ok = final response success.
func (c *Conn) Login(clientID int64, secret, connType string) (ok bool, err error) {
	ch, _, err := c.Phase1(clientID, connType)
	if err != nil || ch == "" {
		return false, err
	}
	resp, err := c.Phase2(clientID, HMAC(secret, ch), connType)
	return resp != nil && resp.Success, err
}

// Heartbeat sends a heartbeat packet.
func (c *Conn) Heartbeat() error {
	_, _, err := c.Send(&packet.TransferPacket{PacketType: packet.Heartbeat})
	return err
}

// Disconnect is the peer closing the socket: the read loop ends and the adapter's
// cleanupConnection runs (SessionManager.CloseConnection, then the socket is closed).
func (c *Conn) Disconnect() {
	_ = c.srv.SM.CloseConnection(c.ID)
	c.T.Close()
}

// HMAC is the client's challenge response: hex(HMAC-SHA256(secret, nonce))
// (internal/client/control_connection_handshake.go computeChallengeResponse).
func HMAC(secret, nonce string) string {
	h := hmac.New(sha256.New, []byte(secret))
	h.Write([]byte(nonce))
	return hex.EncodeToString(h.Sum(nil))
}

// Reap ends the read loop of every connection whose transport the server has closed (eviction,
// kick, stale sweep): cleanupConnection => SessionManager.CloseConnection. Returns the ids reaped.
func (s *Server) Reap() []string {
	var ids []string
	for _, c := range s.Conns() {
		if c.T.Closed() {
			if _, ok := s.SM.GetConnection(c.ID); ok {
				_ = s.SM.CloseConnection(c.ID)
				ids = append(ids, c.ID)
			}
		}
	}
	return ids
}

// ---------------------------------------------------------------------------------------------
// environment actions

// Ban bans ip in the brute-force protector (what MaxFailures failures lead to).
func (s *Server) Ban(ip string, d time.Duration) { s.Brute.BanIP(ip, d, "verif") }

// Blacklist adds ip to the IP manager's blacklist.
func (s *Server) Blacklist(ip string, d time.Duration) error {
	return s.IPs.AddToBlacklist(ip, d, "verif", "verif")
}

// ExpireCredentials moves the stored expiry of clientID's credentials into the past.
func (s *Server) ExpireCredentials(clientID int64) error {
	cfg, err := s.cfgRepo.GetConfig(clientID)
	if err != nil {
		return err
	}
	past := time.Now().Add(-time.Hour)
	cfg.ExpiresAt = &past
	return s.cfgRepo.UpdateConfig(cfg)
}

// clientService is a second instance of the real client service (services/client.Service) over
// the same repositories and storage as the cloud control's own; BuiltinCloudControl does not
// export its instance, and the management operations below live only there.
func (s *Server) clientService() (*clientsvc.Service, error) {
	s.csOnce.Do(func() {
		sp, err := services.NewSimpleStatsProvider(s.Storage, s.Ctx)
		if err != nil {
			s.csErr = err
			return
		}
		s.cs = clientsvc.NewService(repos.NewClientConfigRepository(s.Repo), repos.NewClientStateRepository(s.Ctx, s.Storage),
			repos.NewClientTokenRepository(s.Ctx, s.Storage), repos.NewClientRepository(s.Repo), repos.NewPortMappingRepo(s.Repo),
			s.idm, sp, s.Ctx)
	})
	return s.cs, s.csErr
}

// BindToUser binds the client to a user through the real service (Service.BindToUser: sets
// UserID, clears the expiry date, anonymous -> registered).
func (s *Server) BindToUser(clientID int64, userID string) error {
	cs, err := s.clientService()
	if err != nil {
		return err
	}
	return cs.BindToUser(clientID, userID)
}

// ExtendExpiration is Service.ExtendExpiration ("manually extend validity"; works for bound and
// unbound clients; 0 clears the date, a negative number of days puts it into the past).
func (s *Server) ExtendExpiration(clientID int64, days int) error {
	cs, err := s.clientService()
	if err != nil {
		return err
	}
	return cs.ExtendExpiration(clientID, days)
}

// CredentialState reads the stored client record: bound to a user? expiry date set and in the past?
func (s *Server) CredentialState(clientID int64) (bound, expiryPast bool, err error) {
	cfg, err := s.cfgRepo.GetConfig(clientID)
	if err != nil || cfg == nil {
		return false, false, fmt.Errorf("srvkit: no stored config for client %d: %v", clientID, err)
	}
	return cfg.UserID != "", cfg.ExpiresAt != nil && time.Now().After(*cfg.ExpiresAt), nil
}

// faultyCloud is the session layer's cloud-control adapter (session.NewCloudControlAdapter over
// the real BuiltinCloudControl) with a switchable outage of the client runtime-state calls the
// session layer makes on close / sweep / heartbeat (DisconnectClient, DisconnectClientIfMatch,
// EnsureClientOnline): they fail like a storage / Redis outage. Everything else passes through.
type faultyCloud struct {
	session.CloudControlAPI
	down atomic.Bool
	hold atomic.Pointer[func(clientID int64, connID string)] // one-shot, see HoldNextDisconnect
}

var errCloudDown = errors.New("srvkit: injected cloud-control outage")

func (f *faultyCloud) DisconnectClient(clientID int64) error {
	if f.down.Load() {
		return errCloudDown
	}
	return f.CloudControlAPI.DisconnectClient(clientID)
}
func (f *faultyCloud) DisconnectClientIfMatch(clientID int64, nodeID, connID string) (bool, error) {
	if h := f.hold.Swap(nil); h != nil {
		(*h)(clientID, connID)
	}
	if f.down.Load() {
		return false, errCloudDown
	}
	return f.CloudControlAPI.DisconnectClientIfMatch(clientID, nodeID, connID)
}
func (f *faultyCloud) EnsureClientOnline(clientID int64, nodeID, connID, ip, protocol, version string) error {
	if f.down.Load() {
		return errCloudDown
	}
	return f.CloudControlAPI.EnsureClientOnline(clientID, nodeID, connID, ip, protocol, version)
}

// HoldNextDisconnect arms a one-shot scheduling seam in the session layer's offline notification
// (CloudControlAPI.DisconnectClientIfMatch, called by RemoveControlConnection and by the callback of the
// heartbeat-timeout sweep between its registry section and CloseConnection): the next call runs f on the
// caller's goroutine before it goes on to the real cloud control - a slow store. f == nil disarms.
func (s *Server) HoldNextDisconnect(f func(clientID int64, connID string)) {
	if f == nil {
		s.cloudFault.hold.Store(nil)
		return
	}
	s.cloudFault.hold.Store(&f)
}

// SetCloudOutage switches the injected outage of the session layer's runtime-state calls on/off.
func (s *Server) SetCloudOutage(down bool) { s.cloudFault.down.Store(down) }

// ReloadIPManager re-creates the IPManager on the same storage - what a restarted server or
// another node sharing the store does in SecurityComponent.Initialize (black/white lists are
// loaded from storage) - and re-creates the auth handler around it (all other parts unchanged).
func (s *Server) ReloadIPManager() {
	s.IPs = security.NewIPManager(s.Storage, s.Ctx)
	s.Auth = server.NewServerAuthHandler(s.Cloud, s.SM, s.Brute, s.IPs, s.Rate, s.Keys)
	s.SM.SetAuthHandler(s.Auth)
}

// CorruptStoredSecret makes the stored SecretKeyEncrypted of the client undecryptable for this
// server (as after a master-key rotation or with a damaged record): it is replaced by the same
// secret sealed under a different random master key - well-formed, non-empty, wrong key.
func (s *Server) CorruptStoredSecret(clientID int64) error {
	cfg, err := s.cfgRepo.GetConfig(clientID)
	if err != nil || cfg == nil {
		return fmt.Errorf("srvkit: no stored config for client %d: %v", clientID, err)
	}
	mk := make([]byte, 32)
	if _, err := rand.Read(mk); err != nil {
		return err
	}
	other, err := security.NewSecretKeyManager(&security.SecretKeyConfig{MasterKey: base64.StdEncoding.EncodeToString(mk)})
	if err != nil {
		return err
	}
	enc, err := other.Encrypt("sealed-under-another-master-key")
	if err != nil {
		return err
	}
	cfg.SecretKeyEncrypted = enc
	return s.cfgRepo.UpdateConfig(cfg)
}

// Kick is SessionManager.KickOldControlConnection.
func (s *Server) Kick(clientID int64, newConnID string) {
	s.SM.KickOldControlConnection(clientID, newConnID)
}

// UnregisterForTunnel is ClientRegistry.Unregister: what handleTunnelOpen / handleExistingBridge do
// to a connection that turns into a data tunnel (registry entry dropped, stream kept open).
func (s *Server) UnregisterForTunnel(connID string) { s.SM.GetClientRegistry().Unregister(connID) }

// SweepNow runs the registry half of the stale sweep immediately with timeout 0 (every registered
// control connection counts as stale): ClientRegistry.CleanupStale with the callback
// cleanupStaleConnections passes for connections without cloud state (SessionManager.CloseConnection).
// For drivers that need the sweep at a chosen instant; the timed path is the real ticker
// (Options.HeartbeatTimeout / CleanupInterval).
func (s *Server) SweepNow() int {
	return s.SM.GetClientRegistry().CleanupStale(0, func(connID string, clientID int64, authenticated bool) error {
		return s.SM.CloseConnection(connID)
	})
}

// Lookup is SessionManager.GetControlConnectionByClientID.
func (s *Server) Lookup(clientID int64) *session.ControlConnection {
	return s.SM.GetControlConnectionByClientID(clientID)
}

// ---------------------------------------------------------------------------------------------
// projections of the registry state

// ConnView is what the server says about one connection id.
type ConnView struct {
	InSession bool  // SessionManager.GetConnection finds it
	InControl bool  // SessionManager.GetControlConnection finds it
	InTunnel  bool  // SessionManager.GetTunnelConnectionByConnID finds it
	Authd     bool  // ControlConnection.IsAuthenticated()
	ClientID  int64 // ControlConnection.GetClientID()
	Closed    bool  // transport closed flag
	InfoFound bool  // SessionManager.GetStreamConnectionInfo finds it
	ClientOf  int64 // SessionManager.GetClientIDByConnectionID
}

// LookupView is the result of a lookup by client id.
type LookupView struct {
	Found    bool
	ConnID   string
	ClientID int64 // the returned connection's own client id
	Authd    bool
}

// Projection is the observable registry state (DESIGN.md C07 "full projection").
type Projection struct {
	Lookup        map[int64]LookupView
	LookupIface   map[int64]LookupView // GetControlConnectionInterface
	Conns         map[string]ConnView
	Authenticated []LookupView // ListAuthenticated, sorted by ConnID
	SessionList   []string     // ids returned by SessionManager.ListConnections, sorted
	Count         int          // GetActiveChannels (control + tunnel registries)
	Stats         session.ConnectionStats
}

// View projects one connection.
func (s *Server) View(c *Conn) ConnView {
	v := ConnView{Closed: c.T.Closed()}
	_, v.InSession = s.SM.GetConnection(c.ID)
	if cc := s.SM.GetControlConnection(c.ID); cc != nil {
		v.InControl, v.Authd, v.ClientID = true, cc.IsAuthenticated(), cc.GetClientID()
	}
	v.InTunnel = s.SM.GetTunnelConnectionByConnID(c.ID) != nil
	_, v.InfoFound = s.SM.GetStreamConnectionInfo(c.ID)
	v.ClientOf = s.SM.GetClientIDByConnectionID(c.ID)
	return v
}

// LookupView projects GetControlConnectionByClientID(clientID).
func (s *Server) LookupView(clientID int64) LookupView {
	cc := s.SM.GetControlConnectionByClientID(clientID)
	if cc == nil {
		return LookupView{}
	}
	return LookupView{Found: true, ConnID: cc.GetConnID(), ClientID: cc.GetClientID(), Authd: cc.IsAuthenticated()}
}

// LookupIfaceView projects GetControlConnectionInterface(clientID), the lookup the HTTP / domain
// proxy layer uses. Found is exactly the caller's test `conn != nil` on the returned interface
// value (an interface wrapping a nil pointer is "found"); the other fields come from the
// interface's methods.
func (s *Server) LookupIfaceView(clientID int64) LookupView {
	ci := s.SM.GetControlConnectionInterface(clientID)
	if ci == nil {
		return LookupView{}
	}
	return LookupView{Found: true, ConnID: ci.GetConnID(), ClientID: ci.GetClientID(), Authd: ci.IsAuthenticated()}
}

// Project takes the full projection for the given client ids and all accepted connections.
func (s *Server) Project(clients []int64) Projection {
	p := Projection{Lookup: map[int64]LookupView{}, LookupIface: map[int64]LookupView{}, Conns: map[string]ConnView{}}
	for _, id := range clients {
		p.Lookup[id] = s.LookupView(id)
		p.LookupIface[id] = s.LookupIfaceView(id)
	}
	for _, c := range s.Conns() {
		p.Conns[c.ID] = s.View(c)
	}
	for _, cc := range s.SM.GetClientRegistry().ListAuthenticated() {
		p.Authenticated = append(p.Authenticated, LookupView{Found: true, ConnID: cc.GetConnID(), ClientID: cc.GetClientID(), Authd: cc.IsAuthenticated()})
	}
	sort.Slice(p.Authenticated, func(i, j int) bool { return p.Authenticated[i].ConnID < p.Authenticated[j].ConnID })
	for _, c := range s.SM.ListConnections() {
		p.SessionList = append(p.SessionList, c.ID)
	}
	sort.Strings(p.SessionList)
	p.Count = s.SM.GetActiveChannels()
	p.Stats = s.SM.GetConnectionStats()
	return p
}
