package srvkit

import (
	"testing"
	"time"
)

// Smoke test of the kit itself (not a property check): the happy paths must work, otherwise
// every driver built on the kit would be vacuous.
func TestKitHappyPaths(t *testing.T) {
	s, err := NewServer(Options{})
	if err != nil {
		t.Fatal(err)
	}
	defer s.Close()
	c1, err := s.NewConn("10.0.0.1")
	if err != nil {
		t.Fatal(err)
	}
	id, secret, resp, err := c1.FirstConnect("control")
	if err != nil || id == 0 || secret == "" {
		t.Fatalf("first connect: id=%d secret=%q resp=%+v err=%v", id, secret, resp, err)
	}
	if lv := s.LookupView(id); !lv.Found || lv.ConnID != c1.ID || lv.ClientID != id || !lv.Authd {
		t.Fatalf("lookup after first connect: %+v", lv)
	}
	// second connection logs in as the same client: the first is evicted and its transport closed
	c2, _ := s.NewConn("10.0.0.2")
	ch, r1, err := c2.Phase1(id, "control")
	if err != nil || ch == "" || r1 == nil || !r1.NeedResponse {
		t.Fatalf("phase1: ch=%q resp=%+v err=%v", ch, r1, err)
	}
	r2, err := c2.Phase2(id, HMAC(secret, ch), "control")
	if err != nil || r2 == nil || !r2.Success {
		t.Fatalf("phase2: %+v %v", r2, err)
	}
	if lv := s.LookupView(id); lv.ConnID != c2.ID {
		t.Fatalf("lookup after re-login: %+v", lv)
	}
	if !c1.Closed() {
		t.Fatalf("evicted connection's transport still open")
	}
	if got := s.Reap(); len(got) != 1 || got[0] != c1.ID {
		t.Fatalf("reap: %v", got)
	}
	p := s.Project([]int64{id})
	if p.Stats.TotalConnections != 1 || p.Stats.ControlConnections != 1 || len(p.Authenticated) != 1 {
		t.Fatalf("projection: %+v", p)
	}
	// wrong key is refused, replay is refused
	c3, _ := s.NewConn("10.0.0.3")
	ch3, _, _ := c3.Phase1(id, "control")
	if r, _ := c3.Phase2(id, HMAC("not-the-key", ch3), "control"); r == nil || r.Success {
		t.Fatalf("wrong key accepted: %+v", r)
	}
	if r, _ := c3.Phase2(id, HMAC(secret, ch3), "control"); r == nil || r.Success {
		t.Fatalf("consumed challenge accepted: %+v", r)
	}
	// environment actions
	s.Ban("10.0.0.4", time.Hour)
	c4, _ := s.NewConn("10.0.0.4")
	if _, _, r, _ := c4.FirstConnect("control"); r == nil || r.Success {
		t.Fatalf("banned address served: %+v", r)
	}
	if err := s.ExpireCredentials(id); err != nil {
		t.Fatal(err)
	}
	c5, _ := s.NewConn("10.0.0.5")
	if ch, r, _ := c5.Phase1(id, "control"); ch != "" || r == nil || r.Success {
		t.Fatalf("expired credentials challenged: %q %+v", ch, r)
	}
	c2.Disconnect()
	if lv := s.LookupView(id); lv.Found {
		t.Fatalf("lookup after disconnect: %+v", lv)
	}
	if !c2.Closed() {
		t.Fatal("disconnect left the transport open")
	}
}

func TestStaleSweep(t *testing.T) {
	s, err := NewServer(Options{HeartbeatTimeout: 100 * time.Millisecond, CleanupInterval: 20 * time.Millisecond})
	if err != nil {
		t.Fatal(err)
	}
	defer s.Close()
	c1, _ := s.NewConn("10.0.0.1")
	id, _, _, _ := c1.FirstConnect("control")
	c2, _ := s.NewConn("10.0.0.2")
	id2, _, _, _ := c2.FirstConnect("control")
	for i := 0; i < 10; i++ {
		time.Sleep(30 * time.Millisecond)
		if err := c2.Heartbeat(); err != nil {
			t.Fatal(err)
		}
	}
	if lv := s.LookupView(id); lv.Found || !c1.Closed() {
		t.Fatalf("stale connection survived: %+v closed=%v", lv, c1.Closed())
	}
	if lv := s.LookupView(id2); !lv.Found || c2.Closed() {
		t.Fatalf("heartbeating connection swept: %+v", lv)
	}
}
