package srvkit

// Environment actions around the handshake that C03 drives (round 3): the operator's whitelist,
// the IPManager re-created over a store that returns values in the other shape, stored secrets
// that this server cannot decrypt (several record shapes), and a secret reset through the real
// cloud control. Add-only companion of the environment actions in srvkit.go.

import (
	"crypto/rand"
	"encoding/base64"
	"fmt"
	"net"

	"tunnox-core/internal/app/server"
	"tunnox-core/internal/core/storage"
	"tunnox-core/internal/security"
)

// Whitelist adds ip (an address or a range) to the IP manager's whitelist.
func (s *Server) Whitelist(ip string) error {
	return s.IPs.AddToWhitelist(ip, "verif", "verif")
}

// stringShape is the server's storage as a Redis-like backend presents it: byte values come
// back as strings (IPManager.loadListFromStorage has a branch for either shape).
type stringShape struct {
	storage.Storage
	storage.ListStore
}

func (w stringShape) Get(key string) (any, error) {
	v, err := w.Storage.Get(key)
	if b, ok := v.([]byte); ok && err == nil {
		return string(b), nil
	}
	return v, err
}

// ReloadIPManagerShape is ReloadIPManager with a choice of the shape in which the shared store
// returns the persisted records: "bytes" (memory backend, as written) or "string" (what a
// Redis-like backend returns). The new manager keeps using that view of the same store.
func (s *Server) ReloadIPManagerShape(shape string) error {
	var st storage.Storage = s.Storage
	if shape == "string" {
		ls, ok := s.Storage.(storage.ListStore)
		if !ok {
			return fmt.Errorf("srvkit: storage %T has no list operations", s.Storage)
		}
		st = stringShape{Storage: s.Storage, ListStore: ls}
	}
	s.IPs = security.NewIPManager(st, s.Ctx)
	s.Auth = server.NewServerAuthHandler(s.Cloud, s.SM, s.Brute, s.IPs, s.Rate, s.Keys)
	s.SM.SetAuthHandler(s.Auth)
	return nil
}

// CorruptStoredSecretAs replaces the stored SecretKeyEncrypted of the client by a value this
// server cannot decrypt. how:
//
//	"rotated"  the secret sealed under a different random master key (well-formed, wrong key)
//	"damaged"  a well-formed base64 value whose content is noise (nonce + ciphertext that does not open)
//	"notb64"   not even base64
//	"short"    well-formed base64, shorter than a GCM nonce
//	"blank"    the empty string (a record without an encrypted secret)
func (s *Server) CorruptStoredSecretAs(clientID int64, how string) error {
	if how == "rotated" || how == "" {
		return s.CorruptStoredSecret(clientID)
	}
	cfg, err := s.cfgRepo.GetConfig(clientID)
	if err != nil || cfg == nil {
		return fmt.Errorf("srvkit: no stored config for client %d: %v", clientID, err)
	}
	switch how {
	case "damaged":
		b := make([]byte, 60)
		if _, err := rand.Read(b); err != nil {
			return err
		}
		cfg.SecretKeyEncrypted = base64.StdEncoding.EncodeToString(b)
	case "notb64":
		cfg.SecretKeyEncrypted = "%%damaged-record%%"
	case "short":
		cfg.SecretKeyEncrypted = base64.StdEncoding.EncodeToString([]byte("short"))
	case "blank":
		cfg.SecretKeyEncrypted = ""
	default:
		return fmt.Errorf("srvkit: unknown corruption %q", how)
	}
	return s.cfgRepo.UpdateConfig(cfg)
}

// ResetSecret is the management operation "reset client credentials" (CloudControl.
// ResetClientCredentials -> Service.ResetSecretKey): a fresh secret is generated and sealed under
// the current master key; the plaintext is returned once.
func (s *Server) ResetSecret(clientID int64) (string, error) {
	return s.Cloud.ResetClientCredentials(clientID)
}

// SetSecret replaces the secret the driver holds for name (after a reset) and returns the old one.
func (w *World) SetSecret(name, secret string) (old string) {
	c := w.creds[name]
	if c == nil {
		return ""
	}
	old, c.Secret = c.Secret, secret
	return old
}

// DeleteClient removes the client's record through the real client service (Service.DeleteClient:
// configuration, state, token, legacy repository entry, id released).
func (s *Server) DeleteClient(clientID int64) error {
	cs, err := s.clientService()
	if err != nil {
		return err
	}
	return cs.DeleteClient(clientID)
}

// NewConnAddr accepts a connection whose transport reports addr as the peer address (any
// net.Addr implementation: *net.TCPAddr with or without an IPv6 zone, *net.UDPAddr, ...);
// label is what Conn.IP shows.
func (s *Server) NewConnAddr(addr net.Addr, label string) (*Conn, error) {
	t := &Transport{remote: addr, done: make(chan struct{})}
	sc, err := s.SM.AcceptConnection(t, t)
	if err != nil {
		return nil, err
	}
	c := &Conn{ID: sc.ID, IP: label, T: t, srv: s}
	s.mu.Lock()
	s.conns = append(s.conns, c)
	s.mu.Unlock()
	return c, nil
}

// AcceptAddr opens the named connection with a peer address of the caller's choice.
func (w *World) AcceptAddr(name string, addr net.Addr, label string) (*Conn, error) {
	if w.conns[name] != nil {
		return nil, fmt.Errorf("srvkit: %s accepted twice", name)
	}
	c, err := w.S.NewConnAddr(addr, label)
	if err != nil {
		return nil, err
	}
	w.conns[name] = c
	w.connByID[c.ID] = name
	return c, nil
}
