package srvkit

// Tunnel part of the kit (added for C04; additive - nothing in srvkit.go / world.go changes).
//
// Real objects added to a Server by EnableTunnels, wired exactly as
// internal/app/server/components_session.go (HandlersComponent.Initialize) does:
// services.ConnectionCodeService (= conncode.Service) over the cloud control's own
// PortMappingService, server.ServerTunnelHandler injected with SessionManager.SetTunnelHandler.
// NewPeer builds a second node (its own SessionManager, ServerAuthHandler, BuiltinCloudControl,
// routing table and connection-state store) over the FIRST node's storage, i.e. a two-node
// cluster sharing one store; EnableCrossNode adds what the real server adds for cross-node
// tunnels (TunnelConnectionManager resolving node addresses through the routing table and a
// CrossNodeListener on a loopback port).
//
// Environment replaced: Duplex is a Transport whose Read side can be fed by the test (the peer
// "writes to its socket"); everything written by the server is still logged by the embedded
// Transport. After a TunnelOpen the bridge's copy loops read from / write to these transports
// directly, exactly as they would use the TCP socket.

import (
	"bytes"
	"context"
	"crypto/rand"
	"encoding/hex"
	"encoding/json"
	"fmt"
	"io"
	"net"
	"runtime"
	"sync"
	"time"

	"tunnox-core/internal/app/server"
	"tunnox-core/internal/cloud/factories"
	"tunnox-core/internal/cloud/managers"
	"tunnox-core/internal/cloud/models"
	"tunnox-core/internal/cloud/repos"
	"tunnox-core/internal/cloud/services"
	"tunnox-core/internal/core/idgen"
	"tunnox-core/internal/packet"
	"tunnox-core/internal/protocol/session"
	"tunnox-core/internal/security"
)

// ---------------------------------------------------------------------------------------------
// feedable transport

// Duplex is a Transport with a readable side: Feed makes bytes available to whoever reads the
// socket on the server side (after a tunnel open: the bridge / the cross-node forwarder).
type Duplex struct {
	*Transport
	imu  sync.Mutex
	in   bytes.Buffer
	wake chan struct{}
	nRd  int // bytes handed to readers so far
	nWt  int // readers blocked in Read right now
}

// NewDuplex creates a feedable fake socket whose peer address is ip:port.
func NewDuplex(ip string, port int) *Duplex {
	return &Duplex{Transport: NewTransport(ip, port), wake: make(chan struct{}, 1)}
}

// Feed appends bytes to the socket's inbound side.
func (d *Duplex) Feed(p []byte) {
	d.imu.Lock()
	d.in.Write(p)
	d.imu.Unlock()
	select {
	case d.wake <- struct{}{}:
	default:
	}
}

// Read blocks until fed bytes are available or the transport is closed.
func (d *Duplex) Read(p []byte) (int, error) {
	for {
		d.imu.Lock()
		if d.in.Len() > 0 {
			n, _ := d.in.Read(p)
			d.nRd += n
			d.imu.Unlock()
			return n, nil
		}
		d.nWt++
		d.imu.Unlock()
		select {
		case <-d.wake:
			d.imu.Lock()
			d.nWt--
			d.imu.Unlock()
		case <-d.Transport.done:
			d.imu.Lock()
			d.nWt--
			d.imu.Unlock()
			return 0, io.EOF
		}
	}
}

// Waiting reports how many readers are blocked in Read right now (> 0 once a bridge's copy loop
// or a cross-node forwarder has taken the socket over).
func (d *Duplex) Waiting() int { d.imu.Lock(); defer d.imu.Unlock(); return d.nWt }

// Consumed reports how many fed bytes the server side has read so far.
func (d *Duplex) Consumed() int { d.imu.Lock(); defer d.imu.Unlock(); return d.nRd }

// Peek returns a copy of everything the server wrote so far without clearing it.
func (t *Transport) Peek() []byte {
	t.mu.Lock()
	defer t.mu.Unlock()
	return append([]byte(nil), t.out.Bytes()...)
}

// TakeRaw returns and clears the raw bytes the server wrote to the connection.
func (c *Conn) TakeRaw() []byte { return c.T.take() }

// NewDuplexConn accepts a new connection (SessionManager.AcceptConnection) over a Duplex.
func (s *Server) NewDuplexConn(remoteIP string) (*Conn, *Duplex, error) {
	s.mu.Lock()
	port := 40000 + len(s.conns)
	s.mu.Unlock()
	d := NewDuplex(remoteIP, port)
	sc, err := s.SM.AcceptConnection(d, d)
	if err != nil {
		return nil, nil, err
	}
	c := &Conn{ID: sc.ID, IP: remoteIP, T: d.Transport, srv: s}
	s.mu.Lock()
	s.conns = append(s.conns, c)
	s.mu.Unlock()
	return c, d, nil
}

// ---------------------------------------------------------------------------------------------
// tunnel handler wiring

// Tunnels is what EnableTunnels added to a Server.
type Tunnels struct {
	S         *Server
	ConnCodes *services.ConnectionCodeService
	Handler   *server.ServerTunnelHandler
	Mappings  services.PortMappingService
}

// EnableTunnels wires the connection-code service and the real ServerTunnelHandler into the
// server's SessionManager (HandlersComponent.Initialize).
func (s *Server) EnableTunnels() *Tunnels {
	connCodeRepo := repos.NewConnectionCodeRepository(s.Repo)
	pms := s.Cloud.GetPortMappingService()
	pmRepo := repos.NewPortMappingRepo(s.Repo)
	cc := services.NewConnectionCodeService(connCodeRepo, pms, pmRepo, nil, s.Ctx)
	h := server.NewServerTunnelHandler(s.Cloud, cc)
	s.SM.SetTunnelHandler(h)
	return &Tunnels{S: s, ConnCodes: cc, Handler: h, Mappings: pms}
}

// NewSecret returns a random mapping secret.
func NewSecret() string {
	b := make([]byte, 16)
	_, _ = rand.Read(b)
	return hex.EncodeToString(b)
}

// CreateMapping creates an active port mapping listen -> target with the given secret through
// the real PortMappingService (what the management API / connection-code activation call).
func (t *Tunnels) CreateMapping(listenID, targetID int64, secret string) (*models.PortMapping, error) {
	return t.Mappings.CreatePortMapping(&models.PortMapping{
		ListenClientID: listenID, TargetClientID: targetID,
		Protocol: models.ProtocolTCP, SourcePort: 18080, TargetHost: "127.0.0.1", TargetPort: 8080,
		ListenAddress: "0.0.0.0:18080", TargetAddress: "tcp://127.0.0.1:8080",
		SecretKey: secret, Status: models.MappingStatusActive, Type: models.MappingTypeAnonymous,
	})
}

// Revoke revokes the mapping through conncode.Service.RevokeMapping (as its listen client).
func (t *Tunnels) Revoke(mappingID string, byClient int64) error {
	return t.ConnCodes.RevokeMapping(mappingID, byClient, "verif")
}

// Expire moves the mapping's expiry into the past (UpdatePortMapping).
func (t *Tunnels) Expire(mappingID string) error {
	m, err := t.Mappings.GetPortMapping(mappingID)
	if err != nil {
		return err
	}
	past := time.Now().Add(-time.Hour)
	m.ExpiresAt = &past
	return t.Mappings.UpdatePortMapping(m)
}

// Deactivate sets the mapping's status to inactive (UpdatePortMappingStatus).
func (t *Tunnels) Deactivate(mappingID string) error {
	return t.Mappings.UpdatePortMappingStatus(mappingID, models.MappingStatusInactive)
}

// SetStatus stores an arbitrary status string (UpdatePortMappingStatus; the field is free-form:
// models.MappingStatusError, or whatever an operator puts through the management API).
func (t *Tunnels) SetStatus(mappingID, status string) error {
	return t.Mappings.UpdatePortMappingStatus(mappingID, models.MappingStatus(status))
}

// Delete removes the mapping (DeletePortMapping).
func (t *Tunnels) Delete(mappingID string) error { return t.Mappings.DeletePortMapping(mappingID) }

// TunnelOpen sends a TunnelOpen packet the way client/tunnel_dialer.go does and returns the
// decoded TunnelOpenAck (nil if the server wrote none), HandlePacket's error and whatever else
// the server wrote during the call.
func (c *Conn) TunnelOpen(req *packet.TunnelOpenRequest) (ack *packet.TunnelOpenAckResponse, herr error, extra []*packet.TransferPacket, err error) {
	body, _ := json.Marshal(req)
	out, herr, err := c.Send(&packet.TransferPacket{PacketType: packet.TunnelOpen, TunnelID: req.TunnelID, Payload: body})
	if err != nil {
		return nil, herr, nil, err
	}
	for _, p := range out {
		if p.PacketType&0x3F == packet.TunnelOpenAck && ack == nil {
			var a packet.TunnelOpenAckResponse
			if e := json.Unmarshal(p.Payload, &a); e != nil {
				return nil, herr, out, fmt.Errorf("srvkit: undecodable tunnel open ack %q: %w", p.Payload, e)
			}
			ack = &a
			continue
		}
		extra = append(extra, p)
	}
	return ack, herr, extra, nil
}

// BridgeView is what the server's bridge for a mapping holds.
type BridgeView struct {
	Exists      bool
	TunnelID    string
	Source      net.Conn // the transport object held as source (nil if none)
	Target      net.Conn // the transport object held as target (nil if none)
	SourceID    string   // TunnelConnection.GetConnectionID of the source ("" if none)
	TargetID    string
	TargetReady bool // bridge.IsTargetReady (target attached locally or announced by another node)
	CrossNode   bool // a cross-node connection is attached to the bridge
}

// Bridge looks the bridge of mappingID up (SessionManager.GetTunnelBridgeByMappingID) and reports
// which connection objects it holds.
func (s *Server) Bridge(mappingID string) BridgeView {
	acc := s.SM.GetTunnelBridgeByMappingID(mappingID, 0)
	if acc == nil {
		return BridgeView{}
	}
	b, ok := acc.(*session.TunnelBridge)
	if !ok || b == nil {
		return BridgeView{}
	}
	v := BridgeView{Exists: true, TunnelID: b.GetTunnelID(), TargetReady: b.IsTargetReady(), CrossNode: b.GetCrossNodeConnection() != nil}
	if tc := b.GetSourceTunnelConn(); tc != nil {
		v.Source, v.SourceID = tc.GetNetConn(), tc.GetConnectionID()
	}
	if tc := b.GetTargetTunnelConn(); tc != nil {
		v.Target, v.TargetID = tc.GetNetConn(), tc.GetConnectionID()
	}
	return v
}

// ---------------------------------------------------------------------------------------------
// second node over the same store

// NewPeer assembles another node of the same cluster: same storage (hence same clients,
// mappings, routing records, node addresses), same master key, its own SessionManager,
// ServerAuthHandler, BuiltinCloudControl, routing table and connection-state store.
func NewPeer(first *Server, o Options) (*Server, error) {
	if o.NodeID == "" || o.NodeID == first.NodeID {
		return nil, fmt.Errorf("srvkit: peer needs its own node id")
	}
	ctx, cancel := context.WithCancel(context.Background())
	s := &Server{Ctx: ctx, cancel: cancel, NodeID: o.NodeID, Storage: first.Storage, Repo: first.Repo, Keys: first.Keys}
	idm := idgen.NewIDManager(s.Storage, ctx)
	s.cfgRepo = repos.NewClientConfigRepository(s.Repo)
	cc := managers.DefaultConfig()
	cc.NodeID = s.NodeID
	s.Cloud = factories.NewBuiltinCloudControlWithRepo(ctx, cc, s.Storage, s.Repo)
	sc := session.DefaultSessionConfig()
	if o.HeartbeatTimeout > 0 {
		sc.HeartbeatTimeout = o.HeartbeatTimeout
	}
	if o.CleanupInterval > 0 {
		sc.CleanupInterval = o.CleanupInterval
	}
	s.SM = session.NewSessionManagerWithConfig(idm, ctx, sc)
	s.Brute = security.NewBruteForceProtector(o.BruteForce, ctx)
	s.IPs = security.NewIPManager(s.Storage, ctx)
	s.Rate = security.NewRateLimiter(nil, nil, ctx)
	s.Cloud.SetSecretKeyManager(s.Keys)
	s.Auth = server.NewServerAuthHandler(s.Cloud, s.SM, s.Brute, s.IPs, s.Rate, s.Keys)
	s.SM.SetAuthHandler(s.Auth)
	s.SM.SetCloudControl(session.NewCloudControlAdapter(s.Cloud))
	s.SM.SetNodeID(s.NodeID)
	s.SM.SetTunnelRoutingTable(session.NewTunnelRoutingTable(s.Storage, 30*time.Second))
	s.SM.SetConnectionStateStore(session.NewConnectionStateStore(s.Storage, s.NodeID, 5*time.Minute))
	return s, nil
}

// CrossNode is what EnableCrossNode added.
type CrossNode struct {
	Addr     string
	Listener *session.CrossNodeListener
	Manager  *session.TunnelConnectionManager
}

// Close stops the listener and the connection manager's background loop.
func (c *CrossNode) Close() {
	c.Listener.Stop()
	c.Manager.Close()
}

// EnableCrossNode gives the node what HandlersComponent adds for cross-node tunnels: a
// TunnelConnectionManager that resolves node addresses through the routing table, and a
// CrossNodeListener. The listener binds a loopback-reachable port picked by the kernel first
// (the real server uses the fixed port 50052); the node's address is registered in the shared
// store under its node id (RegisterNodeAddress), as the real server does.
func (s *Server) EnableCrossNode() (*CrossNode, error) {
	rt := session.NewTunnelRoutingTable(s.Storage, 30*time.Second)
	var lastErr error
	for try := 0; try < 20; try++ {
		probe, err := net.Listen("tcp", "127.0.0.1:0")
		if err != nil {
			return nil, err
		}
		port := probe.Addr().(*net.TCPAddr).Port
		probe.Close()
		l := session.NewCrossNodeListener(s.SM, port)
		if err := l.Start(s.Ctx); err != nil {
			lastErr = err
			continue
		}
		addr := fmt.Sprintf("127.0.0.1:%d", port)
		if err := rt.RegisterNodeAddress(s.NodeID, addr); err != nil {
			l.Stop()
			return nil, err
		}
		s.SM.SetCrossNodeListener(l)
		mgr := session.NewTunnelConnectionManager(rt.GetNodeAddress, session.DefaultTunnelConnectionManagerConfig())
		s.SM.SetTunnelConnectionManager(mgr)
		return &CrossNode{Addr: addr, Listener: l, Manager: mgr}, nil
	}
	return nil, fmt.Errorf("srvkit: no free port for the cross-node listener: %v", lastErr)
}

// ---------------------------------------------------------------------------------------------
// slow mapping store (added for C04 round 3)

// ExpireAt sets the mapping's expiry to t (UpdatePortMapping): the boundary of IsExpired.
func (t *Tunnels) ExpireAt(mappingID string, at time.Time) error {
	m, err := t.Mappings.GetPortMapping(mappingID)
	if err != nil {
		return err
	}
	m.ExpiresAt = &at
	return t.Mappings.UpdatePortMapping(m)
}

// StoredValid reads the mapping back from the store and reports PortMapping.IsValid()
// (false if the mapping does not exist).
func (t *Tunnels) StoredValid(mappingID string) bool {
	m, err := t.Mappings.GetPortMapping(mappingID)
	return err == nil && m != nil && m.IsValid()
}

// WriteGate stands for a slow mapping store: once armed, the next whole-record write
// (UpdatePortMapping) that the connection-code service issues - RecordMappingUsage's write-back,
// RevokeMapping's update - parks until Release. It is an environment seam (the store is
// replaced, not the code): the caller's read has already happened when it parks.
type WriteGate struct {
	mu      sync.Mutex
	armed   bool
	hit     chan struct{} // closed when a write parked
	release chan struct{}
	done    chan struct{} // closed when the parked write has been stored
	goid    int64         // goroutine that issued the parked write
}

// Arm makes the next UpdatePortMapping park.
func (g *WriteGate) Arm() {
	g.mu.Lock()
	defer g.mu.Unlock()
	g.armed, g.hit, g.release, g.done, g.goid = true, make(chan struct{}), make(chan struct{}), make(chan struct{}), 0
}

// Hit is closed when a write has parked at the gate (nil channel if never armed).
func (g *WriteGate) Hit() <-chan struct{} { g.mu.Lock(); defer g.mu.Unlock(); return g.hit }

// Parked reports whether a write is parked now and which goroutine issued it.
func (g *WriteGate) Parked() (bool, int64) {
	g.mu.Lock()
	defer g.mu.Unlock()
	if g.hit == nil {
		return false, 0
	}
	select {
	case <-g.hit:
		select {
		case <-g.done:
			return false, g.goid
		default:
			return true, g.goid
		}
	default:
		return false, 0
	}
}

// Release lets the parked write (if any) go on and waits until it has been stored; it also
// disarms a gate nobody reached.
func (g *WriteGate) Release() {
	g.mu.Lock()
	armed, hit, rel, done := g.armed, g.hit, g.release, g.done
	g.armed = false
	g.mu.Unlock()
	if hit == nil {
		return
	}
	select {
	case <-hit:
		select {
		case <-rel:
		default:
			close(rel)
		}
		<-done
	default:
		_ = armed
	}
}

// GoID is the id of the calling goroutine (parsed from runtime.Stack; test-side only).
func GoID() int64 {
	var buf [64]byte
	n := runtime.Stack(buf[:], false)
	var id int64
	for _, c := range buf[len("goroutine "):n] {
		if c < '0' || c > '9' {
			break
		}
		id = id*10 + int64(c-'0')
	}
	return id
}

type gatedMappings struct {
	services.PortMappingService
	g *WriteGate
}

func (m *gatedMappings) UpdatePortMapping(pm *models.PortMapping) error {
	g := m.g
	g.mu.Lock()
	if !g.armed {
		g.mu.Unlock()
		return m.PortMappingService.UpdatePortMapping(pm)
	}
	g.armed = false
	g.goid = GoID()
	hit, rel, done := g.hit, g.release, g.done
	g.mu.Unlock()
	close(hit)
	<-rel
	err := m.PortMappingService.UpdatePortMapping(pm)
	close(done)
	return err
}

// EnableTunnelsSlowStore is EnableTunnels with the connection-code service talking to the port
// mapping service through a WriteGate (Tunnels.Mappings stays the direct service).
func (s *Server) EnableTunnelsSlowStore() (*Tunnels, *WriteGate) {
	g := &WriteGate{}
	connCodeRepo := repos.NewConnectionCodeRepository(s.Repo)
	pms := s.Cloud.GetPortMappingService()
	pmRepo := repos.NewPortMappingRepo(s.Repo)
	cc := services.NewConnectionCodeService(connCodeRepo, &gatedMappings{PortMappingService: pms, g: g}, pmRepo, nil, s.Ctx)
	h := server.NewServerTunnelHandler(s.Cloud, cc)
	s.SM.SetTunnelHandler(h)
	return &Tunnels{S: s, ConnCodes: cc, Handler: h, Mappings: pms}, g
}

// TrafficBytes reads the mapping back from the store and returns the byte total of its traffic
// statistics (0 if the mapping does not exist). Added for C04 round 3 (additive): a closed
// bridge's final traffic report is a whole-record write the driver waits for.
func (t *Tunnels) TrafficBytes(mappingID string) int64 {
	m, err := t.Mappings.GetPortMapping(mappingID)
	if err != nil || m == nil {
		return 0
	}
	return m.TrafficStats.BytesSent + m.TrafficStats.BytesReceived
}

// StoredMapping reads the mapping record back from the store as it is (nil if it does not
// exist) - the fields, not a validity verdict computed from them. Added for C04 round 3
// (additive).
func (t *Tunnels) StoredMapping(mappingID string) *models.PortMapping {
	m, err := t.Mappings.GetPortMapping(mappingID)
	if err != nil {
		return nil
	}
	return m
}
