----------------------------- MODULE CommandsConc -----------------------------
(* C11, concurrent part: a duplex command is not one step.  CommandExecutor.Execute builds a   *)
(* CommandContext from the connection the packet arrived on (Dispatch), runs the handler on    *)
(* its own goroutine and waits for it at most RPCManager.timeout; the handler may spend any    *)
(* time in storage before it uses ctx.ClientID, and the executor sends the response to         *)
(* ctx.ConnectionID after the handler returned (Release = the storage call returns: use         *)
(* identity, produce the effect, route the response).  If the wait times out (Timeout) Execute  *)
(* returns while the handler is still running.                                                  *)
(*                                                                                            *)
(* Two commands in flight: pa on A's control connection vA (HTTPDomainCreate), pb on another    *)
(* connection (B's vB with HTTPDomainCreate or HTTPDomainCheckSubdomain, or the                 *)
(* unauthenticated c1 with HTTPDomainCheckSubdomain).  The context is per-call state            *)
(* (Pooled = FALSE: the code as it is, `return &types.CommandContext{...}`).  Pooled = TRUE is   *)
(* the deviation "contexts are recycled when Execute returns": after a timeout the object a     *)
(* running handler still reads is zeroed and handed to the next dispatch - TLC rejects it       *)
(* (EffIdIsAuth / ResponseToSender violated after <<D pa, T pa, D pb, R pa>>).                   *)
(* The two commands carry different command ids or the SAME one (sid; the id is chosen by the    *)
(* client): the code as it is never looks at it before the response is built.  Dedupe = TRUE is   *)
(* the deviation "a command whose id equals that of a command still in flight is a                *)
(* retransmission: attach it to the running one and hand both the same result" - the second       *)
(* sender is answered with what was produced for the first (EffIdIsAuth violated after            *)
(* <<D pa, D pb, R pa>> with sid; CommandsConc_show_dedupe.cfg).                                  *)
(* Every maximal interleaving is emitted as a behaviour; the driver realises it with a gate in  *)
(* front of HTTPDomainMappingRepository.CheckSubdomainAvailable and a short duplex timeout.     *)
EXTENDS Naturals, Sequences, FiniteSets, TLC, Json

CONSTANTS Pooled, Dedupe, Whos, SameIds, Emit

Procs == {"pa", "pb"}
None  == "none"
Zero  == [conn |-> "", id |-> None]

VARIABLES who,    \* connection / command of pb: "vB:create" | "vB:check" | "c1:check"
          sid,    \* pb's command id equals pa's
          pc,     \* p -> "idle" | "parked" (handler inside the storage call) | "done"
          waiting,\* p -> Execute has not returned yet
          ref,    \* p -> context object the handler of p reads
          objs,   \* context objects (heap): object id -> [conn, id]
          pool,   \* recycled objects (only when Pooled)
          eff,    \* p -> identity the effect was produced for
          resp,   \* p -> connection the response was written to
          hist
vars == <<who, sid, pc, waiting, ref, objs, pool, eff, resp, hist>>

ConnOf(p) == IF p = "pa" THEN "vA" ELSE IF who = "c1:check" THEN "c1" ELSE "vB"
AuthOf(c) == CASE c = "vA" -> "A" [] c = "vB" -> "B" [] OTHER -> None

Init == /\ who \in Whos /\ sid \in SameIds
        /\ pc = [p \in Procs |-> "idle"] /\ waiting = [p \in Procs |-> FALSE]
        /\ ref = [p \in Procs |-> 0] /\ objs = <<>> /\ pool = {}
        /\ eff = [p \in Procs |-> "unset"] /\ resp = [p \in Procs |-> "unset"] /\ hist = <<>>

Step(op, p) == hist' = Append(hist, [op |-> op, p |-> p])

\* Execute: createCommandContext, start the handler, which enters the storage call
Other(p) == IF p = "pa" THEN "pb" ELSE "pa"
InFlight(q) == pc[q] = "parked" /\ waiting[q]
Attaches(p) == Dedupe /\ sid /\ InFlight(Other(p))

Dispatch(p) ==
  /\ pc[p] = "idle" /\ ~Attaches(p)
  /\ LET reuse == Pooled /\ pool # {}
         o == IF reuse THEN CHOOSE x \in pool : TRUE ELSE Len(objs) + 1
         rec == [conn |-> ConnOf(p), id |-> AuthOf(ConnOf(p))]
     IN /\ objs' = IF reuse THEN [objs EXCEPT ![o] = rec] ELSE Append(objs, rec)
        /\ pool' = pool \ {o}
        /\ ref' = [ref EXCEPT ![p] = o]
  /\ pc' = [pc EXCEPT ![p] = "parked"] /\ waiting' = [waiting EXCEPT ![p] = TRUE]
  /\ Step("D", p) /\ UNCHANGED <<who, sid, eff, resp>>

\* (deviation) executeDuplex finds a command with the same id in flight: no context, no handler - wait for that one's result
Attach(p) ==
  /\ pc[p] = "idle" /\ Attaches(p)
  /\ pc' = [pc EXCEPT ![p] = "attached"] /\ waiting' = [waiting EXCEPT ![p] = TRUE]
  /\ Step("D", p) /\ UNCHANGED <<who, sid, ref, objs, pool, eff, resp>>

Recycle(o) == IF Pooled THEN /\ objs' = [objs EXCEPT ![o] = Zero] /\ pool' = pool \cup {o}
                        ELSE UNCHANGED <<objs, pool>>

\* the duplex wait times out: Execute returns, the handler is still in the storage call
Timeout(p) ==
  /\ pc[p] = "parked" /\ waiting[p]
  /\ waiting' = [waiting EXCEPT ![p] = FALSE]
  /\ Recycle(ref[p])
  /\ Step("T", p) /\ UNCHANGED <<who, sid, pc, ref, eff, resp>>

\* the storage call returns: the handler uses ctx.ClientID, the executor writes the response to ctx.ConnectionID
Release(p) ==
  /\ pc[p] = "parked"
  /\ LET q == Other(p)
         both == pc[q] = "attached"              \* the attached caller gets the same result, on its own connection
     IN /\ eff' = [x \in Procs |-> IF x = p \/ (x = q /\ both) THEN objs[ref[p]].id ELSE eff[x]]
        /\ resp' = [x \in Procs |-> IF x = p THEN objs[ref[p]].conn ELSE IF x = q /\ both THEN ConnOf(q) ELSE resp[x]]
        /\ pc' = [x \in Procs |-> IF x = p \/ (x = q /\ both) THEN "done" ELSE pc[x]]
        /\ waiting' = [x \in Procs |-> IF x = p \/ (x = q /\ both) THEN FALSE ELSE waiting[x]]
  /\ IF waiting[p] THEN Recycle(ref[p]) ELSE UNCHANGED <<objs, pool>>
  /\ Step("R", p) /\ UNCHANGED <<who, sid, ref>>

Next == \E p \in Procs : Dispatch(p) \/ Attach(p) \/ Timeout(p) \/ Release(p)
Spec == Init /\ [][Next]_vars

AllDone == \A p \in Procs : pc[p] = "done"
\* side effect only: one behaviour per maximal interleaving
EmitBeh == (Emit /\ AllDone) => PrintT("BEH " \o ToJson([reg |-> "server", conc |-> TRUE, who |-> who, sid |-> sid, steps |-> hist]))

\* the property: the effect is produced for, and the response goes to, the connection the command arrived on
EffIdIsAuth      == \A p \in Procs : pc[p] = "done" => eff[p] = AuthOf(ConnOf(p))
ResponseToSender == \A p \in Procs : pc[p] = "done" => resp[p] = ConnOf(p)
=============================================================================
