-------------------------- MODULE BruteForceTrace --------------------------
(* C18 judge (property level).  It knows nothing of how the protector, the IP manager or the   *)
(* limiter are built; it evaluates the statement's timed predicates on what callers saw,        *)
(* using the integer-millisecond monotonic timestamps taken just before (t0, rounded down)      *)
(* and just after (t1, rounded up) every call of the real code.                                 *)
(*                                                                                            *)
(* Alphabet, per trace (every call event carries ip, t0, t1):                                   *)
(*   Cfg    [thr, perm, win, ban, bld, burst, rate, mS, mE, slack, aTol]   thresholds; window,      *)
(*          ban and blacklist durations in ms AS CONFIGURED IN THE REAL OBJECTS; rate in tokens  *)
(*          per second; safety margins in ms; rate slack in milli-tokens; aTol = how much earlier *)
(*          than logged an Async run may have happened (free-running logs)                       *)
(*   Hs     [kind, res, cred]   one HandleHandshake call: kind Bad|Good|Zero|Anon|Anon2 (the last *)
(*          two are the request shapes the handler treats as a registration), res =              *)
(*          "bl" (refused: blacklisted) | "ban" (refused: too many failures) | "rate" (refused:  *)
(*          limiter) | "fail" (credentials checked and rejected) | "ok"; cred = number of        *)
(*          credential-store calls the handler made during the call                              *)
(*   Query  [bl, ban]           IsAllowed / IsBanned asked directly (TRUE = refused)              *)
(*   QueryN [n, no]             IsAllowed asked n times in a row; no = answers "not refused"      *)
(*   Take   [ok]                RateLimiter.AllowIP asked directly                                *)
(*   TakeBatch [n, ok]          n AllowIP calls released together by a start barrier for an address *)
(*                              without a bucket, inside one bracket; ok = admitted                 *)
(*   Async  [what]              a spawned `go UnbanIP` ("unban") / `go RemoveFromBlacklist`        *)
(*                              ("unbl") ran now (only used to name the history shape)            *)
(*   CleanStart [what], Clean [what]   a clean-up pass ("bf" protector, "ip" IP manager) begins / has   *)
(*          ended (Clean carries the bracket of the whole pass); Blk [dur] = lifetime of this order in   *)
(*          ms when it is not cfg.bld                                                                     *)
(*   MUnban, MUnbl [form], Blk [perm, form, fault], Wl [on, form], Clean [what], Tick   operator    *)
(*          actions (fault = TRUE: the storage write behind the order failed)                       *)
(*          and clean-up runs; form = "ip" (entry is the address itself) | "net" (a CIDR range      *)
(*          containing it) | "other" (a range not containing it)                                    *)
(*   Reload                     the IPManager was replaced by a fresh one over the same storage     *)
(*                                                                                            *)
(* Clauses (detail = history shape):                                                            *)
(*   BanHolds        an answer "not banned" whose call started >= mS after a failing handshake    *)
(*                   returned that was (with margin mE) the thr-th inside the window - or the      *)
(*                   perm-th since the last success - and, for the temporary ban, ended >= mE      *)
(*                   before ban ms after that handshake STARTED.  Operator unbans cancel.          *)
(*   NeverSpurious   an answer "banned" for which no failing handshake exists that could have      *)
(*                   been the thr-th inside the window (margins the other way, successes           *)
(*                   ignored) and whose ban could still run; judged at the end of the trace         *)
(*   BlacklistHolds  a not-whitelisted address passes the blacklist gate inside the period of the   *)
(*                   operator's latest blacklist order for an entry (exact or range) covering it -  *)
(*                   on whichever manager instance answers, also after a Reload                     *)
(*   GateOrder       a handshake refused by a gate made a credential-store call                     *)
(*   RateBound       the admitted anonymous registrations whose call brackets lie inside [a, b]     *)
(*                   number at most burst + rate * (b - a) (+ slack milli-tokens for the            *)
(*                   millisecond rounding), for every bracket start a and bracket end b              *)
(* Where the statement is silent the judge is silent: what a success does to the failure count,   *)
(* which reason wins when two gates would refuse, refusals of never-blacklisted addresses.         *)
EXTENDS VLib, Integers

IPS == {"a", "b"}
VARIABLES cfg,
          fs,        \* ip -> all failed authentications [t0, t1] (never reset: used for "may refuse")
          sf,        \* ip -> failed authentications certainly still counted by any reading (since the last success / record-dropping clean-up)
          lastSucc, lastMU,   \* ip -> t1 of the last success / operator unban (-1: none)
          lastClean,          \* ip -> t1 of the last clean-up run of the protector (-1: none)
          ob,        \* ip -> set of obligations [from, to, perm, born]
          aU, aL,    \* ip -> t1 of asynchronous unban / un-blacklist runs
          blo, wlst, \* ip -> per entry form ("ip" exact address, "net" range containing it): the operator's
                     \*       latest blacklist order [k, from, to, born, end]; whitelisted through that form?
          cl,        \* call brackets of the protector's clean-up passes
          lastReload,\* trace line of the last Reload (a fresh IPManager over the same storage), -1: none
          ipc, ipe,  \* t0 of the IP manager's clean-up pass that is in progress, t1 of the last one that ended (-1: none)
          bfc,       \* t0 of the protector's clean-up pass that is in progress (-1: none)
          adm,       \* ip -> admitted anonymous registrations [t0, t1]
          refs       \* ip -> answers "banned" [t0, t1], justified at End
vars == <<l, viol, cfg, fs, sf, lastSucc, lastMU, lastClean, ob, aU, aL, blo, wlst, lastReload, ipc, ipe, bfc, cl, adm, refs>>

NoCfg == [thr |-> 0]
NoBl == [k |-> "none", from |-> 0, to |-> 0, born |-> 0, end |-> 0, line |-> 0, flt |-> FALSE, cln |-> FALSE]
\* entry forms covering the address: itself, a narrow and a wide CIDR range (overlapping, independent
\* lifetimes); "other" = an entry that does not cover the address: no demand follows from it
FORMS == {"ip", "net", "net2"}
NoBls == [f \in FORMS |-> NoBl]
NoWls == [f \in FORMS |-> FALSE]
Each(v) == [i \in IPS |-> v]
Reset == /\ cfg' = NoCfg /\ fs' = Each(<<>>) /\ sf' = Each(<<>>) /\ lastSucc' = Each(-1) /\ lastMU' = Each(-1) /\ lastClean' = Each(-1)
         /\ ob' = Each({}) /\ aU' = Each(<<>>) /\ aL' = Each(<<>>) /\ blo' = Each(NoBls) /\ wlst' = Each(NoWls) /\ lastReload' = -1 /\ ipc' = -1 /\ ipe' = -1 /\ bfc' = -1 /\ cl' = <<>>
         /\ adm' = Each(<<>>) /\ refs' = Each(<<>>)
Init == /\ l = 1 /\ viol = {} /\ cfg = NoCfg /\ fs = Each(<<>>) /\ sf = Each(<<>>) /\ lastSucc = Each(-1) /\ lastMU = Each(-1) /\ lastClean = Each(-1)
        /\ ob = Each({}) /\ aU = Each(<<>>) /\ aL = Each(<<>>) /\ blo = Each(NoBls) /\ wlst = Each(NoWls) /\ lastReload = -1 /\ ipc = -1 /\ ipe = -1 /\ bfc = -1 /\ cl = <<>>
        /\ adm = Each(<<>>) /\ refs = Each(<<>>)

Up(f, i, v) == [f EXCEPT ![i] = v]
Iv == [t0 |-> Ev.t0, t1 |-> Ev.t1]

\* ---- ban clause ------------------------------------------------------------------------------
\* failures of list s certainly inside the window that ends with failure f
CertainIn(s, f) == Cardinality({x \in 1..Len(s) : f.t1 - s[x].t0 < cfg.win - cfg.mE})
\* obligations a new failed authentication f creates, given the strict list s (f already appended)
NewOb(i, s, f) ==
  IF f.t0 <= lastSucc[i] \/ f.t0 <= lastMU[i] THEN {}
  ELSE (IF CertainIn(s, f) >= cfg.thr THEN {[from |-> f.t1 + cfg.mS, to |-> f.t0 + cfg.ban - cfg.mE, perm |-> FALSE, born |-> f.t1, f0 |-> f.t0]} ELSE {})
  \cup (IF Len(s) >= cfg.perm THEN {[from |-> f.t1 + cfg.mS, to |-> 0, perm |-> TRUE, born |-> f.t1, f0 |-> f.t0]} ELSE {})

Binding(i, q) == {o \in ob[i] : o.from <= q.t0 /\ (o.perm \/ q.t1 <= o.to)}
\* history shape: an asynchronous unban ran after the obligation arose ("lateUnban"); another failing
\* handshake was in flight together with the one that created it ("overlapFail"); neither ("plain")
\* a clean-up pass of the protector was under way when the obligation arose ("lateClean")
Cause(i, o) == LET late == \E x \in 1..Len(aU[i]) : aU[i][x] + cfg.aTol >= o.born
                   ovl  == Cardinality({x \in 1..Len(fs[i]) : fs[i][x].t0 <= o.born /\ fs[i][x].t1 >= o.f0}) >= 2
                   cln  == \/ \E x \in 1..Len(cl) : cl[x].t0 <= o.born /\ cl[x].t1 >= o.born
                           \/ (bfc >= 0 /\ bfc <= o.born)
               IN IF cln THEN "lateClean"
                  ELSE IF ovl /\ late THEN "overlapFail+lateUnban" ELSE IF late THEN "lateUnban"
                  ELSE IF ovl THEN "overlapFail" ELSE "plain"
\* the answer "not banned" over call interval q
NotBanned(i, q) ==
  LET b == Binding(i, q) IN
  IF b = {} THEN {}
  ELSE LET o == IF \E x \in b : x.perm THEN CHOOSE x \in b : x.perm ELSE CHOOSE x \in b : TRUE
       IN {V("BanHolds", (IF o.perm THEN "perm" ELSE "temp") \o ":" \o Cause(i, o))}

\* ---- blacklist clause ------------------------------------------------------------------------
\* history shape of a blacklist violation: the lazy removal ran after the order ("lateUnbl"); the
\* order for the other entry form has run out by now ("shadowed": its expired entry is found first);
\* the manager was re-created from storage after the order was given ("afterReload"); none ("plain")
BlCause(i, f, b, q) ==
  IF b.flt THEN "storageFault"
  ELSE IF \E x \in 1..Len(aL[i]) : aL[i][x] + cfg.aTol >= b.born THEN "lateUnbl"
  ELSE IF b.cln THEN (IF lastReload > b.line THEN "cleanRace+reload" ELSE "cleanRace")
  ELSE IF \E g \in FORMS \ {f} : blo[i][g].k = "temp" /\ q.t1 >= blo[i][g].end THEN "shadowed"
  ELSE IF lastReload > b.line THEN "afterReload"
  ELSE "plain"
Whitelisted(i) == \E f \in FORMS : wlst[i][f]
NotBlacklisted(i, q) ==
  LET bind == {f \in FORMS : blo[i][f].k # "none" /\ blo[i][f].from <= q.t0 /\ (blo[i][f].k = "perm" \/ q.t1 <= blo[i][f].to)} IN
  IF Whitelisted(i) \/ bind = {} THEN {}
  ELSE LET f == IF "net2" \in bind THEN "net2" ELSE IF "net" \in bind THEN "net" ELSE "ip"  b == blo[i][f]
       IN {V("BlacklistHolds", b.k \o ":" \o BlCause(i, f, b, q) \o ":" \o f)}

\* ---- rate clause -----------------------------------------------------------------------------
\* An admission logged with call bracket [t0, t1] took its token somewhere inside the bracket
\* (handshakes may overlap and are logged when they return).  For every pair of a bracket start a
\* and a bracket end b, the admissions whose brackets lie inside [a, b] all happened inside [a, b]:
\* their number is bounded by burst + rate * (b - a).  Judged at the end of the trace.
RateViol(i) ==
  LET s == adm[i]  n == Len(s) IN
  IF \E x, y \in 1..n :
        /\ s[x].t0 <= s[y].t1
        /\ Cardinality({z \in 1..n : s[z].t0 >= s[x].t0 /\ s[z].t1 <= s[y].t1}) * 1000000
             > cfg.burst * 1000000 + cfg.rate * 1000 * (s[y].t1 - s[x].t0) + cfg.slack * 1000
  THEN {V("RateBound", s[n].how)} ELSE {}

\* ---- "may refuse" (end of trace) -------------------------------------------------------------
PossIn(s, f) == Cardinality({x \in 1..Len(s) : s[x].t0 <= f.t1 /\ f.t0 - s[x].t1 < cfg.win + cfg.mE})
Justified(i, r) ==
  \/ \E x \in 1..Len(fs[i]) : /\ PossIn(fs[i], fs[i][x]) >= cfg.thr
                              /\ fs[i][x].t0 <= r.t1
                              /\ r.t0 <= fs[i][x].t1 + cfg.ban + cfg.mE
  \/ Cardinality({x \in 1..Len(fs[i]) : fs[i][x].t0 <= r.t1}) >= cfg.perm
EndViol == UNION {(IF \A x \in 1..Len(refs[i]) : Justified(i, refs[i][x]) THEN {} ELSE {V("NeverSpurious", "belowThreshold")})
                  \cup RateViol(i) : i \in IPS}

\* ---- events ----------------------------------------------------------------------------------
TrCfg == /\ Is("Cfg") /\ cfg' = Ev /\ l' = l + 1
         /\ UNCHANGED <<viol, fs, sf, lastSucc, lastMU, lastClean, ob, aU, aL, blo, wlst, lastReload, ipc, ipe, bfc, cl, adm, refs>>

TrHs ==
  /\ Is("Hs")
  /\ LET i == Ev.ip  q == Iv  r == Ev.res
         passedBl  == r # "bl"
         passedBan == r \in {"rate", "fail", "ok"}
         \* a failure certainly still counted afterwards: it began after the last success returned, and a
         \* clean-up run it overlaps with cannot have found it outside the window
         counted == q.t0 > lastSucc[i] /\ lastClean[i] - q.t0 < cfg.win - cfg.mE
         s1 == IF r = "fail" /\ q.t0 > lastSucc[i] THEN Append(sf[i], q) ELSE sf[i]     \* what this failure itself saw, at least
         s2 == IF r = "ok" THEN <<>> ELSE IF r = "fail" /\ ~counted THEN sf[i] ELSE s1
         admitted == Ev.kind \in {"Anon", "Anon2"} /\ Ev.cred > 0    \* a registration was granted (credentials issued)
         a2 == IF admitted THEN Append(adm[i], [t0 |-> q.t0, t1 |-> q.t1, how |-> "handshake"]) ELSE adm[i]
     IN /\ viol' = viol \cup (IF passedBl THEN NotBlacklisted(i, q) ELSE {})
                        \cup (IF passedBan THEN NotBanned(i, q) ELSE {})
                        \cup (IF r \in {"bl", "ban", "rate"} /\ Ev.cred > 0 THEN {V("GateOrder", r)} ELSE {})
        /\ fs' = IF r = "fail" THEN Up(fs, i, Append(fs[i], q)) ELSE fs
        /\ sf' = Up(sf, i, s2)
        /\ ob' = IF r = "fail" /\ q.t0 > lastSucc[i] THEN Up(ob, i, ob[i] \cup NewOb(i, s1, q))
                 \* a success erases the failure record: a failing handshake that returned after this
                 \* successful one began may have counted from zero - its demand is dropped
                 ELSE IF r = "ok" THEN Up(ob, i, {o \in ob[i] : o.born <= q.t0})
                 ELSE ob
        /\ lastSucc' = IF r = "ok" THEN Up(lastSucc, i, q.t1) ELSE lastSucc
        /\ adm' = Up(adm, i, a2)
        /\ refs' = IF r = "ban" THEN Up(refs, i, Append(refs[i], q)) ELSE refs
  /\ l' = l + 1 /\ UNCHANGED <<cfg, lastMU, lastClean, aU, aL, blo, wlst, lastReload, ipc, ipe, bfc, cl>>

TrQuery ==
  /\ Is("Query")
  /\ LET i == Ev.ip  q == Iv IN
     /\ viol' = viol \cup (IF ~Ev.bl THEN NotBlacklisted(i, q) ELSE {}) \cup (IF ~Ev.ban THEN NotBanned(i, q) ELSE {})
     /\ refs' = IF Ev.ban THEN Up(refs, i, Append(refs[i], q)) ELSE refs
  /\ l' = l + 1 /\ UNCHANGED <<cfg, fs, sf, lastSucc, lastMU, lastClean, ob, aU, aL, blo, wlst, lastReload, ipc, ipe, bfc, cl, adm>>

\* n IsAllowed look-ups in a row inside one bracket (the range scan follows Go's randomised map
\* iteration: the same state is asked many times); no = how many of them did not refuse
TrQueryN ==
  /\ Is("QueryN")
  /\ viol' = viol \cup (IF Ev.no > 0 THEN NotBlacklisted(Ev.ip, Iv) ELSE {})
  /\ l' = l + 1 /\ UNCHANGED <<cfg, fs, sf, lastSucc, lastMU, lastClean, ob, aU, aL, blo, wlst, lastReload, ipc, ipe, bfc, cl, adm, refs>>

\* n AllowIP calls made at the same time (start barrier) by an address that had no bucket before,
\* all inside one bracket; ok = how many were admitted
TrTakeBatch ==
  /\ Is("TakeBatch")
  /\ viol' = viol \cup (IF Ev.ok * 1000000 > cfg.burst * 1000000 + cfg.rate * 1000 * (Ev.t1 - Ev.t0) + cfg.slack * 1000
                        THEN {V("RateBound", "concurrentFirst")} ELSE {})
  /\ l' = l + 1 /\ UNCHANGED <<cfg, fs, sf, lastSucc, lastMU, lastClean, ob, aU, aL, blo, wlst, lastReload, ipc, ipe, bfc, cl, adm, refs>>

TrTake ==
  /\ Is("Take")
  /\ adm' = IF Ev.ok THEN Up(adm, Ev.ip, Append(adm[Ev.ip], [t0 |-> Ev.t0, t1 |-> Ev.t1, how |-> "allowIP"])) ELSE adm
  /\ l' = l + 1 /\ UNCHANGED <<viol, cfg, fs, sf, lastSucc, lastMU, lastClean, ob, aU, aL, blo, wlst, lastReload, ipc, ipe, bfc, cl, refs>>

TrAsync ==
  /\ Is("Async")
  /\ aU' = IF Ev.what = "unban" THEN Up(aU, Ev.ip, Append(aU[Ev.ip], Ev.t1)) ELSE aU
  /\ aL' = IF Ev.what = "unbl"  THEN Up(aL, Ev.ip, Append(aL[Ev.ip], Ev.t1)) ELSE aL
  /\ l' = l + 1 /\ UNCHANGED <<viol, cfg, fs, sf, lastSucc, lastMU, lastClean, ob, blo, wlst, lastReload, ipc, ipe, bfc, cl, adm, refs>>

TrMUnban == /\ Is("MUnban") /\ ob' = Up(ob, Ev.ip, {}) /\ lastMU' = Up(lastMU, Ev.ip, Ev.t1)
            /\ l' = l + 1 /\ UNCHANGED <<viol, cfg, fs, sf, lastSucc, lastClean, aU, aL, blo, wlst, lastReload, ipc, ipe, bfc, cl, adm, refs>>

\* A blacklist order given while the storage write failed (fault): whether the new entry took effect
\* is the implementation's business, but a failed update never lifts what was in force - the demand
\* becomes the weaker of the previous and the new order (none if there was no previous one).
TrBlk == /\ Is("Blk")
         /\ LET d   == IF "dur" \in DOMAIN Ev /\ ~Ev.perm THEN Ev.dur ELSE cfg.bld       \* lifetime of this order
                new == [k |-> IF Ev.perm THEN "perm" ELSE "temp", from |-> Ev.t1 + cfg.mS,
                        to |-> Ev.t0 + d - cfg.mE, born |-> Ev.t1, end |-> Ev.t1 + d, line |-> l, flt |-> FALSE, cln |-> ipc >= 0 \/ ipe > Ev.t0 + 1]     \* a pass of the IP manager's clean-up overlaps the call (beyond the rounding of the two clocks)
                old == blo[Ev.ip][Ev.form]
                weak == IF old.k = "none" THEN old
                        ELSE IF new.k = "perm" THEN [old EXCEPT !.flt = TRUE]
                        ELSE IF old.k = "perm" THEN [new EXCEPT !.from = old.from, !.born = old.born, !.line = old.line, !.flt = TRUE]
                        ELSE [old EXCEPT !.to = IF new.to < old.to THEN new.to ELSE old.to, !.flt = TRUE]
            IN blo' = IF Ev.form \in FORMS
                      THEN Up(blo, Ev.ip, [blo[Ev.ip] EXCEPT ![Ev.form] = IF "fault" \in DOMAIN Ev /\ Ev.fault THEN weak ELSE new])
                      ELSE blo
         /\ l' = l + 1 /\ UNCHANGED <<viol, cfg, fs, sf, lastSucc, lastMU, lastClean, ob, aU, aL, wlst, lastReload, ipc, ipe, bfc, cl, adm, refs>>

TrMUnbl == /\ Is("MUnbl")
           /\ blo' = IF Ev.form \in FORMS THEN Up(blo, Ev.ip, [blo[Ev.ip] EXCEPT ![Ev.form] = NoBl]) ELSE blo
           /\ l' = l + 1 /\ UNCHANGED <<viol, cfg, fs, sf, lastSucc, lastMU, lastClean, ob, aU, aL, wlst, lastReload, ipc, ipe, bfc, cl, adm, refs>>

\* whitelisting (either form) suspends the demand; when the last whitelist entry goes, it resumes for
\* calls that begin after the removal returned
TrWl == /\ Is("Wl")
        /\ LET w2 == IF Ev.form \in FORMS THEN [wlst[Ev.ip] EXCEPT ![Ev.form] = Ev.on] ELSE wlst[Ev.ip]
               resumed == ~Ev.on /\ ~(\E f \in FORMS : w2[f])
           IN /\ wlst' = Up(wlst, Ev.ip, w2)
              /\ blo' = IF resumed
                        THEN Up(blo, Ev.ip, [f \in FORMS |-> IF blo[Ev.ip][f].from < Ev.t1 + cfg.mS
                                                              THEN [blo[Ev.ip][f] EXCEPT !.from = Ev.t1 + cfg.mS] ELSE blo[Ev.ip][f]])
                        ELSE blo
        /\ l' = l + 1 /\ UNCHANGED <<viol, cfg, fs, sf, lastSucc, lastMU, lastClean, ob, aU, aL, lastReload, ipc, ipe, bfc, cl, adm, refs>>

\* the demands outlive the manager instance: nothing changes but the history shape
TrReload == /\ Is("Reload") /\ lastReload' = l
            /\ l' = l + 1 /\ UNCHANGED <<viol, cfg, fs, sf, lastSucc, lastMU, lastClean, ob, aU, aL, blo, wlst, ipc, ipe, bfc, cl, adm, refs>>

\* a clean-up run of the protector drops a failure record whose window is empty - and with it the
\* lifetime count: unless some counted failure is certainly still inside the window, forget them
TrClean ==
  /\ Is("Clean")
  /\ sf' = IF Ev.what = "bf"
           THEN [i \in IPS |-> IF \E x \in 1..Len(sf[i]) : Ev.t1 - sf[i][x].t0 < cfg.win - cfg.mE THEN sf[i] ELSE <<>>]
           ELSE sf
  /\ lastClean' = IF Ev.what = "bf" THEN Each(Ev.t1) ELSE lastClean
  /\ cl' = IF Ev.what = "bf" THEN Append(cl, Iv) ELSE cl
  /\ ipc' = IF Ev.what = "ip" THEN -1 ELSE ipc
  /\ ipe' = IF Ev.what = "ip" THEN Ev.t1 ELSE ipe
  /\ bfc' = IF Ev.what = "bf" /\ "part" \notin DOMAIN Ev THEN -1 ELSE bfc      \* (part: the pass goes on after its first section)
  /\ l' = l + 1 /\ UNCHANGED <<viol, cfg, fs, lastSucc, lastMU, ob, aU, aL, blo, wlst, lastReload, adm, refs>>

\* a clean-up pass begins (only used to name the history shape)
TrCleanStart ==
  /\ Is("CleanStart")
  /\ ipc' = IF Ev.what = "ip" THEN Ev.t0 ELSE ipc
  /\ l' = l + 1 /\ UNCHANGED <<viol, cfg, fs, sf, lastSucc, lastMU, lastClean, ob, aU, aL, blo, wlst, lastReload, ipe, bfc, cl, adm, refs>>

TrTick == Is("Tick") /\ l' = l + 1 /\ UNCHANGED <<viol, cfg, fs, sf, lastSucc, lastMU, lastClean, ob, aU, aL, blo, wlst, lastReload, ipc, ipe, bfc, cl, adm, refs>>

TrEnd == /\ Is("End")
         /\ PrintT("VERDICT " \o ToJson([tr |-> Ev.tr, viol |-> SetToSeq(viol \cup (IF cfg = NoCfg THEN {} ELSE EndViol))]))
         /\ l' = l + 1 /\ viol' = {} /\ Reset

Next == TrCleanStart \/ TrTakeBatch \/ TrQueryN \/ TrReload \/ TrCfg \/ TrHs \/ TrQuery \/ TrTake \/ TrAsync \/ TrMUnban \/ TrBlk \/ TrMUnbl \/ TrWl \/ TrClean \/ TrTick \/ TrEnd
Spec == Init /\ [][Next]_vars
=============================================================================
