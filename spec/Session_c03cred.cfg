\* C03, credential lifetime in depth: one client, control-type messages, with the stored expiry date rewritten
\* (Service.ExtendExpiration - for anonymous clients and for clients bound to a user), binding (clears the date) and
\* deletion of the record: every message class behind every record history; short enough to be driven completely.
CONSTANTS
  Conn <- Conn2
  Client <- Client1
  MaxNonce = 2
  MaxFail = 3
  MaxCtl = 0
  Faults = {}
  Ops = {"Msg", "Expire", "Bind", "Delete"}
  Types = {"control"}
  PreAccept = TRUE
  Fixes = @@FIXES@@
  Split = FALSE
  MaxLevel = @@LEVEL@@
  Emit = @@EMIT@@
INIT Init
NEXT Next
VIEW view
INVARIANTS TypeOK OnlyProven StepsOK ProvenIssued C07InvMasked C07OneMasked
CHECK_DEADLOCK FALSE
