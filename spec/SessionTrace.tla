---------------------------- MODULE SessionTrace ----------------------------
(* Property-level judge of C03 over traces recorded on the real server assembly (the judge    *)
(* of C07 is SessionTraceReg.tla).  It knows nothing about how the code is structured: only    *)
(* what the statement says about what a peer and a caller can observe.  Deterministic and      *)
(* total: one step per trace line, a violated clause is added to `viol`, never blocks.          *)
EXTENDS VLib

None == "none"

\* =========================================================================================
\* C03 - only a proven key holder is ever authenticated as a client
\*
\* Events (one per handshake message / environment action, all connections pre-accepted):
\*  Msg: c, k ("FC" | "P1" | "P2"), id (claimed client name or "none"), type ("control" | "tunnel"),
\*       key  (whose secret keyed the response: a client name = that client's stored secret as it is now, "old" = the
\*             secret of the claimed client that was handed out first and has been reset since, "empty" = the empty
\*             key, or "garbage"),
\*       over (index of the challenge of connection c the response was computed over, 0 = none),
\*       out  [got, success, need, newid (identity issued, or "none"), nonce (index of the challenge
\*             carried by the response, 0 = none)],
\*       post [conns: c -> [authd, cid, rawcid (identity the connection object carries, authenticated or not)], lookup: X -> connection name or "none"]
\*       newban ("temp" | "perm": the protector's own table shows a ban of c's address made on this message - accumulated
\*             failures - that outlasts the trace / has no expiry date; "none" otherwise)
\*  Env: k ("Ban": address of c banned through the protector from now on (how = "temp": outlasts the trace, "perm": no
\*       expiry date, "lapsed": a ban that has run out already - not banned), until "Unban" lifts it; the protector's
\*       clean-up tick "Cleanup" and the passage of time inside a trace lift nothing; "Blacklist": address of c on the operator's
\*       blacklist from now on - whatever the shape of the entry and however often the server is restarted
\*       ("Reload": the address manager is re-created from the shared storage; the lists are what they were);
\*       "Whitelist": address of c on the operator's whitelist - the statement is silent about an address on both
\*       lists, so such an address counts as not blacklisted (a ban still bars it); "Expire" | "Bind": client id's
\*       stored expiry date rewritten, isexp = it lies in the past now (for bound and unbound clients alike);
\*       "Corrupt": the stored secret of id cannot be decrypted by the server any more, "Rekey": it was replaced by
\*       a fresh one - neither makes anybody else a key holder; "Delete": the record of id was removed, the server
\*       does not know the client any more; other kinds, e.g. the protector's clean-up pass,
\*       change nothing the statement talks about), c / id
\* Judge state: known / expired clients, banned (barred), blacklisted (bl) and whitelisted (wl) addresses
\* (= connections), challenges issued
\* and accepted per connection, proved = pairs <<c, X>> "X was issued on c or c answered its
\* latest challenge with X's key", pre = previous post-state.
\* chalFor = triples <<c, n, X>> "challenge n of connection c was issued in answer to a phase 1 naming X"
VARIABLES known, expired, barred, bl, wl, issuedN, usedN, proved, pre, hasPre, chalFor
avars == <<l, viol, known, expired, barred, bl, wl, issuedN, usedN, proved, pre, hasPre, chalFor>>

Init == /\ l = 1 /\ viol = {} /\ known = {} /\ expired = {} /\ barred = {} /\ bl = {} /\ wl = {}
            /\ issuedN = {} /\ usedN = {} /\ proved = {} /\ pre = <<>> /\ hasPre = FALSE /\ chalFor = {}

Latest(c) == LET ns == {p[2] : p \in {q \in issuedN : q[1] = c}} IN
             IF ns = {} THEN 0 ELSE CHOOSE n \in ns : \A m \in ns : m <= n

PreAuthd(d)  == IF hasPre /\ d \in DOMAIN pre.conns THEN pre.conns[d].authd ELSE FALSE
PreCid(d)    == IF hasPre /\ d \in DOMAIN pre.conns THEN pre.conns[d].cid ELSE None
PreLookup(X) == IF hasPre /\ X \in DOMAIN pre.lookup THEN pre.lookup[X] ELSE None

KeyClass(e)   == IF e.key = e.id THEN "own" ELSE IF e.key = "garbage" THEN "garbage" ELSE IF e.key = "empty" THEN "empty"
                 ELSE IF e.key = "old" THEN "old" ELSE "foreign"
NonceClass(e) == IF e.over = 0 THEN "none"
                 ELSE IF <<e.c, e.over>> \in usedN THEN "used"
                 ELSE IF e.over = Latest(e.c) THEN "latest" ELSE "stale"
ClientClass(e) == IF e.id \notin known THEN "unknown" ELSE IF e.id \in expired THEN "expired" ELSE "ok"
AddrClass(e)   == IF e.c \in barred \/ (e.c \in bl /\ e.c \notin wl) THEN "barred" ELSE "ok"
OutClass(e)    == IF e.out.success THEN "success" ELSE IF e.out.need THEN "challenge" ELSE "fail"
MsgShape(e)    == e.k \o ":" \o e.type \o ":" \o OutClass(e)

\* is this successful response one the statement allows?
Legit(e) == CASE e.k = "FC" -> e.out.newid # None /\ e.out.newid \notin known /\ AddrClass(e) = "ok"
              [] e.k = "P2" -> KeyClass(e) = "own" /\ NonceClass(e) = "latest" /\ ClientClass(e) = "ok" /\ AddrClass(e) = "ok"
              [] OTHER -> FALSE
Who(e) == IF e.k = "FC" THEN e.out.newid ELSE e.id
\* an out-of-order phase 2: the challenge it answers was issued for a phase 1 that named another client
OutOfOrder(e) == e.k = "P2" /\ e.over > 0 /\ <<e.c, e.over, e.id>> \notin chalFor

TrMsg ==
  /\ Is("Msg")
  /\ LET e   == Ev
         ok  == e.out.success
         pv  == IF ok /\ Legit(e) THEN proved \cup {<<e.c, Who(e)>>} ELSE proved
         cs  == DOMAIN e.post.conns
         xs  == DOMAIN e.post.lookup
         chg == {X \in xs : e.post.lookup[X] # PreLookup(X)}
         v1  == IF ok /\ ~Legit(e)
                THEN {V("Accept", IF e.k = "P2" THEN "P2:key=" \o KeyClass(e) \o ":nonce=" \o NonceClass(e) \o ":client=" \o ClientClass(e) \o ":addr=" \o AddrClass(e)
                                  ELSE e.k \o ":addr=" \o AddrClass(e))} ELSE {}
         v2  == IF \E d \in cs : e.post.conns[d].authd /\ <<d, e.post.conns[d].cid>> \notin pv
                THEN {V("AuthWithoutProof", MsgShape(e))} ELSE {}
         v3  == IF ~ok /\ \E d \in cs : e.post.conns[d].authd /\ (~PreAuthd(d) \/ PreCid(d) # e.post.conns[d].cid)
                THEN {V("NonSuccessChangedAuth", MsgShape(e))} ELSE {}
         v4  == IF ~ok /\ \E X \in chg : ~(e.post.lookup[X] = None \/ (e.post.lookup[X] = e.c /\ PreAuthd(e.c) /\ PreCid(e.c) = X))
                THEN {V("NonSuccessInstalled", MsgShape(e))} ELSE {}
         v5  == IF \E X \in chg : e.post.lookup[X] # None /\
                      ~(e.post.lookup[X] = e.c /\ e.c \in cs /\ e.post.conns[e.c].authd /\ e.post.conns[e.c].cid = X)
                THEN {V("InstalledWithoutAuth", MsgShape(e))} ELSE {}
         \* an out-of-order phase 2 changed which client an authenticated connection is authenticated as ...
         flip == /\ ok /\ OutOfOrder(e) /\ PreAuthd(e.c) /\ e.c \in cs /\ e.post.conns[e.c].authd
                 /\ e.post.conns[e.c].cid # PreCid(e.c)
         v6  == IF flip THEN {V("IdentityFlipped", MsgShape(e))} ELSE {}
         \* ... and made it the control channel of the client it now claims to be
         v7  == IF flip /\ \E X \in chg : X # PreCid(e.c) /\ e.post.lookup[X] = e.c
                THEN {V("ControlChannelTakenOver", MsgShape(e))} ELSE {}
         \* a connection that is not authenticated carries an identity (what GetClientID / GetClientIDByConnectionID hand to
         \* the consumers that take "client id # 0" for "authenticated") nobody proved on it
         v8  == IF \E d \in cs : ~e.post.conns[d].authd /\ e.post.conns[d].rawcid # None /\ <<d, e.post.conns[d].rawcid>> \notin pv
                THEN {V("IdentityWithoutProof", MsgShape(e))} ELSE {}
         \* a clause is reported once per trace, with the detail of the message at which it was first violated
         new == {v \in v1 \cup v2 \cup v3 \cup v4 \cup v5 \cup v6 \cup v7 \cup v8 : v.c \notin {w.c : w \in viol}}
     IN /\ viol' = viol \cup new
        /\ proved' = pv
        /\ known' = IF e.out.newid # None THEN known \cup {e.out.newid} ELSE known
        /\ issuedN' = IF e.out.nonce > 0 THEN issuedN \cup {<<e.c, e.out.nonce>>} ELSE issuedN
        /\ usedN' = IF ok /\ e.k = "P2" /\ e.over > 0 THEN usedN \cup {<<e.c, e.over>>} ELSE usedN
        /\ pre' = e.post /\ hasPre' = TRUE
        /\ chalFor' = IF e.k = "P1" /\ e.out.nonce > 0 THEN chalFor \cup {<<e.c, e.out.nonce, e.id>>} ELSE chalFor
        \* the protector itself declared the address banned on this message (accumulated failures): banned from now on
        /\ barred' = IF e.newban \in {"temp", "perm"} THEN barred \cup {e.c} ELSE barred
  /\ l' = l + 1 /\ UNCHANGED <<expired, bl, wl>>

TrEnv ==
  /\ Is("Env")
  /\ barred' = IF Ev.k = "Ban" /\ Ev.how # "lapsed" THEN barred \cup {Ev.c}   \* "lapsed": the ban has run out already
                ELSE IF Ev.k = "Unban" THEN barred \ {Ev.c} ELSE barred          \* lifted by the operator
  /\ bl' = IF Ev.k = "Blacklist" THEN bl \cup {Ev.c} ELSE bl
  /\ wl' = IF Ev.k = "Whitelist" THEN wl \cup {Ev.c} ELSE wl
  /\ expired' = IF Ev.k \in {"Expire", "Bind"}   \* isexp: the stored expiry date of the client lies in the past now
                THEN (IF Ev.isexp THEN expired \cup {Ev.id} ELSE expired \ {Ev.id}) ELSE expired
  /\ known' = IF Ev.k = "Delete" THEN known \ {Ev.id} ELSE known   \* the record is gone: an unknown client from now on
  /\ l' = l + 1 /\ UNCHANGED <<viol, issuedN, usedN, proved, pre, hasPre, chalFor>>

TrEndAuth == /\ Is("End") /\ EmitVerdict
             /\ l' = l + 1 /\ viol' = {} /\ known' = {} /\ expired' = {} /\ barred' = {} /\ bl' = {} /\ wl' = {}
             /\ issuedN' = {} /\ usedN' = {} /\ proved' = {} /\ pre' = <<>> /\ hasPre' = FALSE /\ chalFor' = {}

Next == TrMsg \/ TrEnv \/ TrEndAuth
=============================================================================
