\* C02 liveness under weak fairness on the copiers, the clock, Close and the lifecycle goroutine
\* (not on the environment): after any end closes or fails the other end observes closure and the
\* tunnel is unregistered; a tunnel whose target never comes is forgotten; the copiers always catch
\* up.  The bridge AS FOUND; "Known" forms: the limiter deviation, the crash on a nil forwarder and
\* the stale replaced source connection are excused.
CONSTANTS
  BUF = 3
  MaxSends = @@MAXS@@
  MaxSlow = 5
  Lims = {"none", "tiny", "edge", "large"}
  Classes = @@CLS@@
  Faults = @@FAULTS@@
  Replace = @@REPL@@
  ExtCloseOn = TRUE
  DevLimiter = TRUE
  DevNilFwd = TRUE
  DevStaleSrc = TRUE
  DevSleepLimiter = FALSE
  DevWriteLock = FALSE
  DevRouteFirst = FALSE
  DevCleanupFirst = FALSE
  RegLegs = {"F"}
  DevIdleSweep = TRUE
  DevFwdNoEof = TRUE
  SrcKinds = @@SK@@
  ErrClasses = @@EC@@
  PollOn = @@POLL@@
  RetryOn = {}
  RetryWriteOn = {}
  DevBufio = FALSE
  AttachKinds = @@AK@@
  HoldOn = @@HOLD@@
  Gen = FALSE
  Emit = FALSE
SPECIFICATION LiveSpec
VIEW view
INVARIANTS TypeOK
PROPERTIES ClosureSeenKnown ForgottenKnown NeverAttached CatchUpKnown
CHECK_DEADLOCK FALSE
