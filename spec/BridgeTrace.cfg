\* C02 judge: deterministic and total over the event alphabet; the whole file must be consumed.
INIT Init
NEXT Next
POSTCONDITION Consumed
CHECK_DEADLOCK FALSE
