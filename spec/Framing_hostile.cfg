\* C05: one hostile frame of every class; allocation ledger bound, no allocation for an oversize
\* declared length, termination on every finite input.  DEV = {} contract / as found.
CONSTANTS
  Mode = "hostile"
  MaxPkts = 1
  MaxLen = 2
  BodyClasses = {"any"}
  Flags = {"none"}
  MaxFrames = 1
  Threads = {1}
  MaxStall = 1
  Chunking = "all"
  Dev = @@DEV@@
  Emit = FALSE
SPECIFICATION Spec
INVARIANTS TypeOK @@ALLOC@@ NoAllocForOversize RetainBound ProgressPossible
PROPERTY Termination
CHECK_DEADLOCK FALSE
