\* C13 - named deviation of spec/MemImpl.tla: CompareAndSwap before repair 0513ecc (zero Expiration treated as expired, ttl 0 stored as "expires now"). Expected: StoresAgree / AnswersAgree violated.
\*   tlc -config MemImpl_show_oldcas.cfg MemImpl.tla      (the same constants with Sweep = "locked", Evict = "recheck",
\*   LazyReads / OldCAS / OldSetExp = FALSE pass: ./check C13)
CONSTANTS
  Keys = {"s1"}
  Vals = {"a", "b"}
  MaxClock = 2
  OldCAS = TRUE
  OldSetExp = FALSE
  Procs = {"p1"}
  Sweepers = {"ex"}
  Sweep = "locked"
  Evict = "recheck"
  LazyReads = FALSE
  Emit = FALSE
INIT Init
NEXT Next
INVARIANTS TypeOK StoresAgree AnswersAgree NeverExpiringStays
PROPERTY SilentInvisible
CHECK_DEADLOCK FALSE
