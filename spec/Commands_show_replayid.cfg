\* Documentation only (not run by the check): the neighbour of Commands_show_replay.cfg: the cache keyed by the CommandId alone - B's
\* MappingGet answer also comes back for a command of ANOTHER type that carries its id.
CONSTANTS
  Sets = {"server", "special"}
  WVs = {"base"}
  Fixes = {"trafficParty", "dnsAuth", "domainAuth", "notifyAuth", "socksAuth"}
  Devs = {"replayById"}
  MaxCmds = 1
  RespToo = FALSE
  Emit = FALSE
INIT Init
NEXT Next
VIEW view
INVARIANTS TypeOK EffIdIsAuth UnauthNoEffect UnauthRefused PartyOnly CreatedForCaller DeliveredToParty
CHECK_DEADLOCK FALSE
