\* (ii) UDP - SEEDED: the code as found (before C12-1/C12-2): both deviations on.
\* Liveness is checked as  <>(returned \/ devSpin \/ devBlocked): the relay terminates on every
\* route that does not take one of the two named deviations.  Same bounds as Relay_udp.cfg.
CONSTANTS
  MaxSend = 1
  EofWithData = TRUE
  ShapesA <- LocalShapes
  ShapesB <- AllShapes
  DevDeadlineAt = "none"
  DevDeadlineHits = {"read"}
  Monitor = FALSE
  IdleMax = 2
  DevMonNoFeed = FALSE
  Reactive = FALSE
  DevNoSignalOnError = FALSE
  DevCloseWriterFallback = FALSE
  Emit = FALSE
  Classes = {1, 2, 3, 4}
  BatchSize = 32
  BatchBuf = 22
  High = 100
  MaxT = 2
  MaxU = 1
  TSeqs <- TAll
  USeqs <- USmall
  Cuts = "all"
  Chunks = {0}
  Paces = {"burst"}
  DevSpin = TRUE
  DevNoUnblock = TRUE
  DevAliasFlush = FALSE
  SockBatch = FALSE
  DevNoInnerFlush = FALSE
  SockQueue = FALSE
  DevQueueRefs = FALSE
  DevSockDeadline = FALSE
  DevDropOnClose = FALSE
SPECIFICATION USpec
INVARIANTS UTypeOK UDatagrams UComplete UCompleteAny UEncoded UFlushed UMutex UBuf UBatchFits UNoSpuriousEnd
PROPERTIES UDelivMonotone UEventuallyFlushed UTerminationExcused
CHECK_DEADLOCK FALSE
