\* X06 exhaustive check of the pending-table model (template: the @@..@@ fields are filled by harness/drivers/x06).
\*   mc:req:fixed   Variant "req", RegFirst TRUE    INVS OneOutcome RightWaiter AtMostOnce NoLoss NoLeak BufOwned NoDeviation
\*   mc:req:asis    Variant "req", RegFirst FALSE   INVS ... NoLossOrDev ...            (LateRegister)
\*   mc:tun:fixed   Variant "tun", Atomic Told Wired TRUE   INVS ... NoOrphan Settled NoDeviation
\*   mc:tun:asis    Variant "tun", Atomic Told FALSE, Wired TRUE (the managers as found, driven through their API)
\*                  INVS ... NoOrphanOrDev SettledOrDev
\*   mc:tun:unwired Variant "tun", all FALSE (the system as found)   INVS ... NoLossOrDev
\*   live:*         SPEC LiveSpec, PROPS Returns ReaderFree (MaxExp = MaxReq: never binding)
\* Eager = FALSE: every interleaving of Take.  Emit = FALSE: hist stays empty.
\* Bounds: NW handler goroutines, NR readers, MaxReq requests = ids, MaxMsg arriving responses / connections,
\*         MaxExp timer expiries, one Cancel, one Offline.
CONSTANTS
  Variant = @@VARIANT@@
  NW = @@NW@@
  NR = @@NR@@
  MaxReq = @@MAXREQ@@
  MaxMsg = @@MAXMSG@@
  MaxExp = @@MAXEXP@@
  MaxCancel = @@MAXCANCEL@@
  MaxOff = @@MAXOFF@@
  Kinds = @@KINDS@@
  Unknown = @@UNKNOWN@@
  RegFirst = @@REGFIRST@@
  Atomic = @@ATOMIC@@
  Told = @@TOLD@@
  Wired = @@WIRED@@
  Eager = FALSE
  Emit = FALSE
SPECIFICATION @@SPEC@@
INVARIANTS TypeOK @@INVS@@
@@PROPS@@
CHECK_DEADLOCK FALSE
