\* C20: all negotiation paths x truncation x chunking for the three server profiles + UDP headers.
\* Full = FALSE: greeting classes with the default request and request classes with the default greeting;
\* Full = TRUE: their full product.  DLens: 7 stands for the class "mid" (3..254, swept by the driver).
\* CutChunkings: quick tier drops "msg" for truncated messages (thorough: all four).
\* Greedy = {}, UdpMinLen = 7, PlainJoin = {} and NetipText = {} describe a conforming tree; Socks5_dev.cfg sets the deviations,
\* Socks5_show_netiptext.cfg exhibits the broken round trip.  ValClasses: the address value classes of Socks5Ref are enumerated.
CONSTANTS
  Emit = @@EMIT@@
  Profiles = {"listener", "adapter", "adapterauth"}
  Greedy = {}
  UdpMinLen = 7
  Full = @@FULL@@
  DLens = {0, 1, 2, 7, 255}
  Chunkings = {"all", "msg", "bytes", "split"}
  CutChunkings = @@CUTCH@@
  WithUdp = TRUE
  PlainJoin = {}
  NetipText = {}
  ValClasses = TRUE
INIT Init
NEXT Next
INVARIANTS TypeOK Conforms NoDev NoReadPast ExpectFixed UdpRoundTrip ImplRoundTrip DoneIsFinal HostPort
PROPERTIES StepsAdvance
CHECK_DEADLOCK TRUE
