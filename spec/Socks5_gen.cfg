\* C20: all negotiation paths x truncation x chunking for the three server profiles + UDP headers.
\* Full = FALSE: greeting classes with the default request and request classes with the default greeting;
\* Full = TRUE: their full product.  DLens: 7 stands for the class "mid" (3..254, swept by the driver).
\* CutChunkings: quick tier drops "msg" for truncated messages (thorough: all four).
\* Greedy = {} and UdpMinLen = 7 describe a conforming tree; Socks5_dev.cfg sets the deviations.
CONSTANTS
  Emit = @@EMIT@@
  Profiles = {"listener", "adapter", "adapterauth"}
  Greedy = {}
  UdpMinLen = 7
  Full = @@FULL@@
  DLens = {0, 1, 2, 7, 255}
  Chunkings = {"all", "msg", "bytes", "split"}
  CutChunkings = @@CUTCH@@
  WithUdp = TRUE
  PlainJoin = {}
INIT Init
NEXT Next
INVARIANTS TypeOK Conforms NoDev NoReadPast ExpectFixed UdpRoundTrip DoneIsFinal HostPort
PROPERTIES StepsAdvance
CHECK_DEADLOCK TRUE
