\* C10 bidirectional forwarder under the named deviation SharedCopyBuffer + PutAtFirstDone (the shared buffer goes back to the pool when the first direction has ended):
\* TLC must report @@INV@@ violated (the driver runs this cfg once per clause the deviation breaks).
CONSTANTS
  Tunnels = {1, 2}
  Chunks = 2
  Bufs = {b1, b2, b3, b4}
  Static = static
  None = none
  SharedCopyBuffer = TRUE
  PutAtFirstDone = TRUE
  PutBeforeWriteDone = FALSE
  GlobalBuffer = FALSE
  Gen = FALSE
  Emit = FALSE
INIT Init
NEXT Next
VIEW View
SYMMETRY BufSym
INVARIANTS TypeOK @@INV@@
CHECK_DEADLOCK FALSE
