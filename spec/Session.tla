------------------------------- MODULE Session -------------------------------
(* C03 / C07 implementation-shaped model: the per-connection handshake state machine of      *)
(* app/server/auth_handler.go as used by session/packet_handler_handshake.go, and the         *)
(* registries it maintains (session/client_registry.go, connection_lifecycle.go,               *)
(* control_connection_mgr.go).  One operator per critical section of the code; an operation    *)
(* of the API is a composition of them (sequential mode) or a sequence of separately           *)
(* scheduled steps (Split mode: the sections of two read-loop goroutines interleave).          *)
(*                                                                                            *)
(* Code state (record `st`):                                                                   *)
(*   acc    connections ever accepted                 sess   SessionManager.connMap            *)
(*   tcl    transports closed                         reg    ClientRegistry.connMap            *)
(*   auth   ControlConnection.ClientID if .Authenticated ("none" otherwise)                    *)
(*   pend   ControlConnection.PendingChallenge as the index of the nonce (0 = none)            *)
(*   chalid the client id named by the phase-1 message the pending challenge was issued for ("none"   *)
(*          without one): the code does not keep it - it is what makes a phase 2 in or out of order  *)
(*   aform  the form in which the transports of the behaviour report the peer address: "v4" | "v6" |  *)
(*          "v6zone" (link-local with a zone) | "v4mapped" (::ffff:a.b.c.d) as *net.TCPAddr, "udp4" |  *)
(*          "udp6zone" as *net.UDPAddr; list and ban entries name the plain address / a range over it   *)
(*   nn     number of challenges issued on the connection so far (nonce k of c = <<c,k>>)      *)
(*   idx    ClientRegistry.clientIDMap (by connection id; "none" = no entry)                   *)
(*   ord    registered control connections by ControlConnection.CreatedAt (oldest first)        *)
(*   blackP addresses whose blacklist entry is persisted in the shared storage (black = the     *)
(*          IPManager's in-memory list; Reload = a restarted server / another node re-creates   *)
(*          the IPManager from the storage)                                                     *)
(*   bhow   how each persisted blacklist entry was made ("temp" | "perm" | "cidr"; "none" = no    *)
(*          entry): the loader treats the three record shapes (expiry date set / zero expiry    *)
(*          date / range key) in different branches                                             *)
(*   white / whiteP   the whitelist, in memory / persisted (a whitelisted address passes the     *)
(*          IPManager whatever the blacklist says; the protector's ban still applies)            *)
(*   corrupt clients whose stored secret cannot be decrypted by this server (master key rotated,*)
(*          damaged record): no response can be verified against it                             *)
(*   blank  (subset of corrupt) clients whose record has no encrypted secret at all: phase 1     *)
(*          refuses them; a phase 2 reaches the verifier only through another id's challenge     *)
(*   deleted clients whose record was removed (Service.DeleteClient): unknown to the server again  *)
(*   rekeyed clients whose secret was reset (Service.ResetSecretKey) after it was handed out:    *)
(*          the key the first holder has is not the stored secret any more (response "OldKey")   *)
(*   cloud  "down": the runtime-state calls of the session layer into cloud control fail        *)
(*   kq/kx  a KickOldConnection(kx, ..) whose locked section is done and whose I/O (kick        *)
(*          command to connection kq, closing its stream) is still outstanding                  *)
(*   issued clients that exist   expired  clients whose stored expiry date lies in the past     *)
(*   bound  clients bound to a user (Service.BindToUser; binding clears the expiry date, a      *)
(*          later ExtendExpiration can set one again: expiry applies to both kinds of client)   *)
(*   bperm  (subset of banned) bans without an expiry date: only UnbanIP lifts them               *)
(*   blapsed addresses with a temporary ban record whose duration has run out (not in force; the  *)
(*          record is removed lazily by the next IsBanned query or by the clean-up pass)          *)
(*   banP   bans in force by their own terms (made, running or permanent, not lifted by UnbanIP):  *)
(*          what the statement calls a banned address, whatever the protector's table says now     *)
(*   bfgen  clean-up ticks so far (BruteForceProtector.cleanup and IPManager.cleanup, both on a    *)
(*          one-minute ticker): every message class is explored again behind a tick               *)
(*   banned / black   addresses banned by the brute-force protector / blacklisted (every      *)
(*          connection has its own remote address)    fails  failures recorded per address     *)
(* Ghost state: proved (per connection: identities issued or proven on it), ctl (connections   *)
(* whose present authentication came from a control-type handshake), used (accepted           *)
(* nonces), gv (step properties violated so far), dev (named deviations of the code from the   *)
(* property that have happened), hist (operation history = the behaviour handed to the driver) *)
EXTENDS Naturals, Sequences, FiniteSets, TLC, Json

CONSTANTS Conn,      \* sequence of connection names, accepted in this order, e.g. <<"c1","c2">>
          Client,    \* sequence of client names, issued in this order,       e.g. <<"A","B">>
          MaxNonce,  \* challenges per connection
          MaxFail,   \* failures before the protector bans the address
          MaxCtl,    \* ClientRegistry.maxConnections (SessionConfig.MaxControlConnections); 0 = no cap
          Faults,    \* seeded design faults (always {} for the real code), used to show the model tells them apart:
                     \*   "splitUpdateAuth"  UpdateAuth = lookup under the read lock, then index write under the write lock
                     \*   "closeNeedsCloud"  RemoveControlConnection keeps the registry entry when the cloud-control notification fails
                     \*   "kickSendFirst"    KickOldConnection = lookup, send the kick, then delete index entry and connection unconditionally
                     \*   "removeDropsForeignIndex"  removeConnectionLocked deletes clientIDMap[conn.ClientID] without checking that it points at conn
                     \*   "reloadDropsPermanent" / "reloadDropsTemporary" / "reloadDropsRanges"  IPManager.loadListFromStorage skips the
                     \*                      persisted blacklist records of that shape (zero expiry date / running expiry date / range key)
                     \*   "whitelistAny"     a whitelist entry for one address lets every address pass the IPManager
                     \*   "verifyIgnoresDecryptError"  VerifyResponse goes on with the empty key when the stored secret cannot be decrypted
                     \*   "blankSkipsVerify" a record without an encrypted secret is accepted without verification in phase 2
                     \*   "oldKeyAccepted"   the verifier still accepts the secret that ResetSecretKey replaced
                     \*   "deletedStillKnown" the handler still finds the record of a deleted client (a copy that is never invalidated)
                     \*   "phase2SkipsIdentityCheck"  the one-identity check (patches/C07-1) runs where an exchange starts (first connect,
                     \*                      phase 1) but not on phase-2 messages
                     \*   "phase1BindsIdentity"  phase 1 stores the id it names on the connection and phase 2 keeps that id instead of the
                     \*                      id whose secret verified the response
                     \*   "zoneEscapesLists"  the handler takes the peer address in its textual form: an IPv6 peer with a zone
                     \*                      (fe80::1%eth0) matches neither an exact nor a range entry of blacklist / ban table
                     \*   "cleanupDropsPermanent" / "cleanupDropsLiveTemp"  BruteForceProtector.cleanup deletes ban records without an
                     \*                      expiry date / temporary ban records that are still running
                     \*   "ipCleanupDropsPermanent" / "ipCleanupDropsLiveTemp"  the same for IPManager.cleanup and the blacklist
                     \*   "lazyUnbanDropsPermanent"  the handler's IsBanned query treats a ban without an expiry date as run out
          Ops,       \* enabled operation kinds
          Types,     \* connection types used in handshake messages
          PreAccept, \* TRUE: all connections are accepted in the initial state
          Fixes,     \* which patches the modelled tree has:
                     \*   "oneIdentity"  patches/C07-1: a connection authenticated as X refuses handshakes for another identity
                     \*   "atomicEvict"  patches/C07-2: UpdateAuth evicts another registered holder of the id under its own lock
                     \* {} is tunnox-core before both (its deviations are the named entries of `dev`)
          Split,     \* TRUE: handshake = handler / evict / update-auth as separately scheduled steps
          MaxLevel,  \* exploration depth bound
          Emit       \* behaviour printing mode: "all" | "last" | "no"

\* values for Conn / Client (configuration files cannot write tuples: Conn <- Conn2 ...)
Conn2 == <<"c1", "c2">>
Conn3 == <<"c1", "c2", "c3">>
Client1 == <<"A">>
Client2 == <<"A", "B">>
Client3 == <<"A", "B", "C">>

VARIABLES st, pc, proved, ctl, used, gv, dev, hist
vars == <<st, pc, proved, ctl, used, gv, dev, hist>>
view == <<st, pc, proved, ctl, used, gv, dev>>

ConnS   == {Conn[i] : i \in 1..Len(Conn)}
ClientS == {Client[i] : i \in 1..Len(Client)}
None    == "none"

\* ------------------------------------------------------------------------------------------
\* critical sections of the code, as pure operators on the code state

AuthOf(s, c) == IF c \in s.reg THEN s.auth[c] ELSE None

DropIdx(s, d) == [X \in ClientS |-> IF s.idx[X] = d /\ s.auth[d] = X THEN None ELSE s.idx[X]]

\* ClientRegistry.Remove -> removeConnectionLocked: closes the stream, conditional index delete
\* (fault "removeDropsForeignIndex": the index entry of the connection's client is deleted whichever connection it points at)
RemDropIdx(s, d) == IF "removeDropsForeignIndex" \in Faults
                    THEN [X \in ClientS |-> IF s.auth[d] = X THEN None ELSE s.idx[X]]
                    ELSE DropIdx(s, d)
Remove(s, d) == IF d \notin s.reg THEN s
                ELSE [s EXCEPT !.tcl = @ \cup {d}, !.reg = @ \ {d}, !.idx = RemDropIdx(s, d)]

\* ClientRegistry.Register via handleHandshake's get-or-create: a fresh ControlConnection; at
\* the control-connection cap the oldest registered connection is evicted first
\* (findOldestConnectionLocked + removeConnectionLocked, same mutex section)
Live(s) == SelectSeq(s.ord, LAMBDA d : d \in s.reg)
GetOrCreate(s, c) ==
  IF c \in s.reg THEN s
  ELSE LET s1 == IF MaxCtl > 0 /\ Cardinality(s.reg) >= MaxCtl /\ Live(s) # <<>> THEN Remove(s, Live(s)[1]) ELSE s
       IN [s1 EXCEPT !.reg = @ \cup {c}, !.auth[c] = None, !.pend[c] = 0, !.chalid[c] = None, !.ord = Append(Live(s1), c)]

\* BruteForceProtector.RecordFailure (+ banIP at the threshold)
\* ("PermBan" in Ops: the protector is configured with PermanentBanAt = MaxFailures - the ban that accumulated failed
\* handshakes produce is a permanent one; otherwise it is a temporary one that outlasts the behaviour)
PermOn == "PermBan" \in Ops
RecFail(s, c) == LET n == IF s.fails[c] < MaxFail THEN s.fails[c] + 1 ELSE MaxFail
                     hit == n >= MaxFail
                 IN [s EXCEPT !.fails[c] = n, !.banned = IF hit THEN @ \cup {c} ELSE @,
                              !.bperm = IF hit /\ PermOn THEN @ \cup {c} ELSE @,
                              !.banP = IF hit THEN @ \cup {c} ELSE @, !.blapsed = IF hit THEN @ \ {c} ELSE @]

NextClient(s) == Client[Cardinality(s.issued) + 1]

\* IPManager.IsAllowed (whitelist first, then blacklist; the in-memory lists) and BruteForceProtector.IsBanned
Zoned(s) == "zoneEscapesLists" \in Faults /\ s.aform \in {"v6zone", "udp6zone"}
PassIP(s, c) == Zoned(s) \/ c \in s.white \/ ("whitelistAny" \in Faults /\ s.white # {}) \/ c \notin s.black
BanInForce(s, c) == ~Zoned(s) /\ c \in s.banned /\ ~("lazyUnbanDropsPermanent" \in Faults /\ c \in s.bperm)
Refused(s, c) == ~PassIP(s, c) \/ BanInForce(s, c)

\* SecretKeyManager.VerifyResponse(stored secret of m.id, pending challenge of c, response): decrypt, HMAC, compare
Verifies(s, c, m) ==
  \/ m.resp = "ValidLatest" /\ s.pend[c] = s.nn[c] /\ m.id \notin s.corrupt
  \/ "verifyIgnoresDecryptError" \in Faults /\ m.resp = "EmptyKey" /\ m.id \in s.corrupt
  \/ "blankSkipsVerify" \in Faults /\ m.id \in s.blank
  \/ "oldKeyAccepted" \in Faults /\ m.resp = "OldKey" /\ m.id \notin s.corrupt

\* ServerAuthHandler.HandleHandshake: [s |-> state, out |-> "ok" | "chal" | "fail", id |-> client concerned]
\* (a handshake that passes the IPManager asks IsBanned, which has a run-out ban record of the address removed)
Handler(s0, c, m) ==
  LET sg == GetOrCreate(s0, c)
      s  == IF PassIP(sg, c) THEN [sg EXCEPT !.blapsed = @ \ {c}] ELSE sg
  IN
  IF Refused(s, c) THEN [s |-> s, out |-> "fail", id |-> None]
  ELSE IF "oneIdentity" \in Fixes /\ s.auth[c] # None /\ (m.k = "FC" \/ m.id # s.auth[c])
          /\ ~("phase2SkipsIdentityCheck" \in Faults /\ m.k = "P2")
    THEN [s |-> s, out |-> "fail", id |-> None]
  ELSE IF m.k = "FC" THEN
    LET X == NextClient(s) IN
    [s |-> [s EXCEPT !.issued = @ \cup {X}, !.auth[c] = X, !.fails[c] = 0], out |-> "ok", id |-> X]
  ELSE IF m.id \notin s.issued \/ (m.id \in s.deleted /\ "deletedStillKnown" \notin Faults)
    THEN [s |-> RecFail(s, c), out |-> "fail", id |-> m.id]
  ELSE IF m.id \in s.expired THEN [s |-> s, out |-> "fail", id |-> m.id]
  ELSE IF m.k = "P1" THEN
    IF m.id \in s.blank THEN [s |-> s, out |-> "fail", id |-> m.id]   \* "client credentials not configured" (no failure recorded)
    ELSE [s |-> [s EXCEPT !.nn[c] = @ + 1, !.pend[c] = s.nn[c] + 1, !.chalid[c] = m.id], out |-> "chal", id |-> m.id]
  ELSE \* P2
    IF s.pend[c] = 0 THEN [s |-> RecFail(s, c), out |-> "fail", id |-> m.id]
    ELSE IF Verifies(s, c, m)
      THEN [s |-> [s EXCEPT !.pend[c] = 0, !.chalid[c] = None, !.fails[c] = 0,
                            !.auth[c] = IF "phase1BindsIdentity" \in Faults THEN s.chalid[c] ELSE m.id], out |-> "ok", id |-> m.id]
      ELSE [s |-> RecFail([s EXCEPT !.pend[c] = 0, !.chalid[c] = None], c), out |-> "fail", id |-> m.id]

\* does handleHandshake enter its registry section after the handler returned without error?
Enters(s, c, m, out) == out # "fail" /\ m.type = "control" /\ AuthOf(s, c) # None

\* handleHandshake: oldConn := GetByClientID(id); if it is another connection: Remove(old)
Evict(s, c) == LET old == s.idx[s.auth[c]] IN
               IF old = None \/ old = c THEN s ELSE Remove(s, old)

\* ClientRegistry.UpdateAuth (one mutex section): blind overwrite of the index entry.
UpdAuth(s, c) ==
  IF c \notin s.reg THEN s
  ELSE LET X  == s.auth[c]
           s1 == IF "atomicEvict" \in Fixes /\ s.idx[X] \notin {None, c} THEN Remove(s, s.idx[X]) ELSE s
       IN [s1 EXCEPT !.idx[X] = c]

\* SessionManager.CloseConnection (adapter.cleanupConnection closes the socket as well)
\* RemoveControlConnection removes the registry entry whatever the cloud-control notification returns
CloseConn(s, c) == LET s1 == [s EXCEPT !.sess = @ \ {c}, !.tcl = @ \cup {c}] IN
                   IF "closeNeedsCloud" \in Faults /\ s.cloud = "down" /\ AuthOf(s, c) # None THEN s1 ELSE Remove(s1, c)

\* ClientRegistry.KickOldConnection(X, newConnID)
KickOp(s, X, n) == LET old == s.idx[X] IN
                   IF old = None \/ old = n THEN s
                   ELSE [s EXCEPT !.idx = DropIdx(s, old), !.reg = @ \ {old}, !.tcl = @ \cup {old}]

\* ClientRegistry.Unregister (connection becomes a data tunnel; stream stays open)
Unreg(s, c) == IF c \notin s.reg THEN s ELSE [s EXCEPT !.idx = DropIdx(s, c), !.reg = @ \ {c}]

\* one heartbeat timeout passes during which exactly the connections in S keep heartbeating;
\* the sweep (ClientRegistry.CleanupStale + CloseConnection per stale entry) has run
Sweep(s, S) == LET stale == s.reg \ S IN
  [s EXCEPT !.idx = [Y \in ClientS |-> IF s.idx[Y] \in stale /\ s.auth[s.idx[Y]] = Y THEN None ELSE s.idx[Y]],
            !.reg = @ \ stale, !.sess = @ \ stale, !.tcl = @ \cup stale]

\* adapter read loops of connections whose transport was closed by the server end: cleanupConnection
ReapAll(s) == [s EXCEPT !.sess = @ \ s.tcl]
Quiescent(s) == s.sess \cap s.tcl = {}

\* a whole handshake message, sequentially
MsgSeq(s, c, m) == LET h == Handler(s, c, m) IN
                   IF Enters(h.s, c, m, h.out) THEN [s |-> UpdAuth(Evict(h.s, c), c), out |-> h.out, id |-> h.id]
                   ELSE h

\* ------------------------------------------------------------------------------------------
\* operations offered to the environment

RespsFor(s, c, X) == {"Garbage"} \cup (IF X \in s.issued /\ s.nn[c] > 0 THEN {"ValidLatest"} ELSE {})
                               \cup (IF X \in s.issued /\ s.nn[c] > 1 THEN {"ValidStale"} ELSE {})
                               \cup (IF s.nn[c] > 0 /\ s.issued \ {X} # {} THEN {"ForeignKey"} ELSE {})
                               \cup (IF s.nn[c] > 0 /\ "Corrupt" \in Ops THEN {"EmptyKey"} ELSE {})   \* HMAC under the empty key
                               \cup (IF s.nn[c] > 0 /\ X \in s.rekeyed THEN {"OldKey"} ELSE {})       \* HMAC under the secret that was reset
Msgs(s, c) ==
     {[k |-> "FC", id |-> None, resp |-> None, type |-> t] : t \in Types}
  \cup {[k |-> "P1", id |-> X, resp |-> None, type |-> t] : X \in ClientS, t \in Types}
  \cup UNION {{[k |-> "P2", id |-> X, resp |-> r, type |-> t] : r \in RespsFor(s, c, X), t \in Types} : X \in ClientS}

MsgEnabled(s, c, m) == /\ c \in s.sess /\ c \notin s.tcl /\ c # s.kq
                       /\ m.k = "FC" => Cardinality(s.issued) < Len(Client)
                       /\ m.k = "P1" => s.nn[c] < MaxNonce

Proj(s) == [auth |-> [c \in ConnS |-> AuthOf(s, c)], idx |-> s.idx, reg |-> s.reg, sess |-> s.sess, tcl |-> s.tcl, cap |-> MaxCtl,
            bf |-> [max |-> MaxFail, perm |-> IF PermOn THEN MaxFail ELSE 0]]   \* protector configuration (0 = no permanent threshold in reach)

\* Emit = "all": one behaviour per explored transition (with VIEW view: transition coverage of the
\* state graph, each state reached by a shortest history); "last": only histories that reached
\* MaxLevel operations (for -simulate runs); anything else: nothing
Out(h) == CASE Emit = "all" -> PrintT("BEH " \o ToJson(h))
            [] Emit = "last" -> (IF Len(h) >= MaxLevel THEN PrintT("BEH " \o ToJson(h)) ELSE TRUE)
            [] OTHER -> TRUE

\* the statement's "banned or blacklisted address": banned by the protector, or on the operator's blacklist - the
\* persisted list, which a restarted server / another node must enforce as well as the one that took the entry - and
\* not exempted by the operator's whitelist
Barred(s, c) == c \in s.banned \/ c \in s.banP \/ ((c \in s.black \/ c \in s.blackP) /\ c \notin s.whiteP)

Flips(s, t, c, m, out) == /\ out = "ok" /\ m.k = "P2" /\ s.chalid[c] # m.id
                          /\ AuthOf(s, c) # None /\ AuthOf(t, c) \notin {None, AuthOf(s, c)}

\* step properties of C03 evaluated on a sequential handshake step s -> t on connection c
StepViol(s, t, c, m, out) ==
  LET ch == {X \in ClientS : t.idx[X] # s.idx[X]} IN
     (IF out # "ok" /\ \E d \in ConnS : AuthOf(t, d) # AuthOf(s, d) /\ ~(d # c /\ AuthOf(t, d) = None) THEN {"NonSuccessChangedAuth"} ELSE {})
  \cup (IF out # "ok" /\ \E X \in ch : ~(t.idx[X] = None \/ (t.idx[X] = c /\ AuthOf(s, c) = X)) THEN {"NonSuccessInstalledForeign"} ELSE {})
  \cup (IF \E X \in ch : t.idx[X] # None /\ ~(t.idx[X] = c /\ AuthOf(t, c) = X) THEN {"InstalledWithoutAuth"} ELSE {})
  \cup (IF out = "ok" /\ Barred(s, c) THEN {"BarredAddressAuthenticated"} ELSE {})
  \cup (IF out = "ok" /\ m.k = "P2" /\ m.resp # "ValidLatest" THEN {"UnprovenKeyAccepted"} ELSE {})
  \cup (IF out = "ok" /\ m.k = "P2" /\ (m.id \notin s.issued \/ m.id \in s.deleted \/ m.id \in s.expired) THEN {"UnknownOrExpiredAuthenticated"} ELSE {})
  \cup (IF out = "ok" /\ m.k = "P2" /\ <<c, s.pend[c]>> \in used THEN {"NonceAcceptedTwice"} ELSE {})
  \* an out-of-order phase 2 (it names another id than the phase 1 its challenge answered) changed which client an
  \* authenticated connection is authenticated as (on the tree before patches/C07-1 this is the named deviation
  \* "crossIdReauth" of StepDev instead: there a connection could be re-authenticated under a second id in many ways)
  \* / made it another client's control channel
  \cup (IF "oneIdentity" \in Fixes /\ Flips(s, t, c, m, out) THEN {"IdentityFlipped"} ELSE {})
  \cup (IF "oneIdentity" \in Fixes /\ Flips(s, t, c, m, out) /\ t.idx[m.id] = c /\ s.idx[m.id] # c THEN {"ControlChannelTakenOver"} ELSE {})
  \cup (IF m.type = "tunnel" /\ ch # {} THEN {"TunnelTypeChangedIndex"} ELSE {})

StepDev(s, t, c, m, out) ==
     (IF "oneIdentity" \notin Fixes /\ "k" \in DOMAIN m /\ Flips(s, t, c, m, out) THEN {"crossIdReauth"} ELSE {}) \cup
     (IF out = "chal" /\ t.idx # s.idx THEN {"p1InstallsAuthenticatedConn"} ELSE {})
  \cup (IF \E X \in ClientS : t.idx[X] = c /\ AuthOf(t, c) # X THEN {"staleIndexAfterReAuth"} ELSE {})

\* ghost, by the property's own definition (not by the handler's verdict): what a message proves on
\* its connection - the identity a successful first connect issued, or the claimed identity when
\* the response is the correct keyed answer to the latest challenge issued on the connection
Proves(m, r) == IF m.k = "FC" THEN (IF r.out = "ok" THEN {r.id} ELSE {})
                ELSE IF m.k = "P2" /\ m.resp = "ValidLatest" THEN {m.id} ELSE {}

\* ghost: which connections hold their present authentication through a control-type handshake
Ctl(out, c, ty, t) == (IF out = "ok" THEN (IF ty = "control" THEN ctl \cup {c} ELSE ctl \ {c}) ELSE ctl) \cap t.reg

Idle == \A c \in ConnS : pc[c] = "idle"
Go == TLCGet("level") <= MaxLevel /\ Idle

Record(h, s) == /\ hist' = Append(hist, h @@ [exp |-> Proj(s)])
                /\ Out(hist')

Accept == /\ "Accept" \in Ops /\ Go /\ Cardinality(st.acc) < Len(Conn)
          /\ LET c == Conn[Cardinality(st.acc) + 1]
                 t == [st EXCEPT !.acc = @ \cup {c}, !.sess = @ \cup {c}]
             IN st' = t /\ Record([op |-> "Accept", c |-> c], t)
          /\ UNCHANGED <<pc, proved, ctl, used, gv, dev>>

\* sequential handshake message (whole handleHandshake call) followed by the read loops of
\* the connections it closed
Msg(c, m) ==
  /\ "Msg" \in Ops /\ ~Split /\ Go /\ MsgEnabled(st, c, m)
  /\ LET r == MsgSeq(st, c, m)
         t == ReapAll(r.s)
     IN /\ st' = t
        /\ proved' = [proved EXCEPT ![c] = @ \cup Proves(m, r)]
        /\ ctl' = Ctl(r.out, c, m.type, t)
        /\ used' = IF r.out = "ok" /\ m.k = "P2" THEN used \cup {<<c, st.pend[c]>>} ELSE used
        /\ gv' = gv \cup StepViol(st, t, c, m, r.out)
        /\ dev' = dev \cup StepDev(st, t, c, m, r.out)
        /\ Record([op |-> "Msg", c |-> c, k |-> m.k, id |-> m.id, resp |-> m.resp, type |-> m.type, out |-> r.out], t)
  /\ UNCHANGED pc

\* macro operations of the C07 configurations: a complete, correct login
LoginSeq(s, c, X, t) ==
  LET a == MsgSeq(s, c, [k |-> "P1", id |-> X, resp |-> None, type |-> t])
      b == MsgSeq(a.s, c, [k |-> "P2", id |-> X, resp |-> "ValidLatest", type |-> t])
  IN IF a.out = "chal" THEN b ELSE a

Login(c, X, ty) ==
  /\ "Login" \in Ops /\ ~Split /\ Go /\ c \in st.sess /\ c \notin st.tcl /\ c # st.kq /\ X \in st.issued /\ st.nn[c] < MaxNonce
  /\ LET r == LoginSeq(st, c, X, ty)
         t == ReapAll(r.s)
     IN /\ st' = t
        /\ proved' = [proved EXCEPT ![c] = @ \cup (IF r.out = "fail" /\ st.pend[c] = r.s.pend[c] /\ st.nn[c] = r.s.nn[c] THEN {} ELSE {X})]
        /\ ctl' = Ctl(r.out, c, ty, t)
        /\ dev' = dev \cup StepDev(st, t, c, [type |-> ty], r.out)
        /\ Record([op |-> "Login", c |-> c, id |-> X, type |-> ty, out |-> r.out], t)
  /\ UNCHANGED <<pc, used, gv>>

FirstLogin(c, ty) ==
  /\ "FirstLogin" \in Ops /\ ~Split /\ Go /\ c \in st.sess /\ c \notin st.tcl /\ c # st.kq /\ Cardinality(st.issued) < Len(Client)
  /\ LET r == MsgSeq(st, c, [k |-> "FC", id |-> None, resp |-> None, type |-> ty])
         t == ReapAll(r.s)
     IN /\ st' = t
        /\ proved' = [proved EXCEPT ![c] = @ \cup Proves([k |-> "FC"], r)]
        /\ ctl' = Ctl(r.out, c, ty, t)
        /\ dev' = dev \cup StepDev(st, t, c, [type |-> ty], r.out)
        /\ Record([op |-> "FirstLogin", c |-> c, type |-> ty, out |-> r.out], t)
  /\ UNCHANGED <<pc, used, gv>>

\* a handshake that does not authenticate: phase 1 for an identity nobody was issued. The
\* connection is now a registered, unauthenticated control connection (and a failure is recorded
\* for its address; one knock per connection keeps the protector's ban out of the C07 graphs).
Knock(c) ==
  /\ "Knock" \in Ops /\ ~Split /\ Go /\ c \in st.sess /\ c \notin st.tcl /\ c # st.kq /\ st.fails[c] = 0
  /\ LET r == MsgSeq(st, c, [k |-> "P1", id |-> "nobody", resp |-> None, type |-> "control"])
         t == ReapAll(r.s)
     IN /\ st' = t
        /\ ctl' = ctl \cap t.reg
        /\ Record([op |-> "Knock", c |-> c, out |-> r.out], t)
  /\ UNCHANGED <<pc, proved, used, gv, dev>>

\* Split mode: the three sections of handleHandshake as separately scheduled steps of
\* connection c's read loop (only complete correct logins and first connects are explored)
SHandler(c, m) ==
  /\ Split /\ "Login" \in Ops /\ TLCGet("level") <= MaxLevel /\ pc[c] = "idle" /\ MsgEnabled(st, c, m)
  /\ LET r == IF m.k = "FC" THEN Handler(st, c, m)
              ELSE LET a == Handler(st, c, [m EXCEPT !.k = "P1"])
                   IN IF a.out = "chal" THEN Handler(a.s, c, [m EXCEPT !.k = "P2", !.resp = "ValidLatest"]) ELSE a
     IN /\ st' = r.s
        /\ pc' = [pc EXCEPT ![c] = IF Enters(r.s, c, m, r.out) THEN "evict" ELSE "idle"]
        /\ proved' = [proved EXCEPT ![c] = @ \cup (IF m.k = "FC" THEN Proves(m, r)
                                                   ELSE IF r.s.nn[c] > st.nn[c] THEN {m.id} ELSE {})]
        /\ ctl' = Ctl(r.out, c, m.type, r.s)
  /\ UNCHANGED <<used, gv, dev, hist>>
SEvict(c) == /\ Split /\ pc[c] = "evict"
             /\ st' = IF c \in st.reg THEN Evict(st, c) ELSE st
             /\ pc' = [pc EXCEPT ![c] = "upd"] /\ UNCHANGED <<proved, ctl, used, gv, dev, hist>>
\* seeded fault "splitUpdateAuth": the lookup (read lock) and the index write (write lock) are two
\* steps; a removal of c in between leaves the index pointing at an unregistered connection
SUpdLookup(c) == /\ Split /\ "splitUpdateAuth" \in Faults /\ pc[c] = "upd"
                 /\ pc' = [pc EXCEPT ![c] = IF c \in st.reg THEN "updw" ELSE "idle"]
                 /\ UNCHANGED <<st, proved, ctl, used, gv, dev, hist>>
SUpdWrite(c) == /\ Split /\ pc[c] = "updw"
                /\ st' = [st EXCEPT !.idx[st.auth[c]] = c]
                /\ dev' = dev \cup (IF c \notin st.reg THEN {"updateAuthNotAtomic"} ELSE {})
                /\ pc' = [pc EXCEPT ![c] = "idle"] /\ UNCHANGED <<proved, ctl, used, gv, hist>>
SUpd(c) == /\ Split /\ "splitUpdateAuth" \notin Faults /\ pc[c] = "upd"
           /\ LET t == UpdAuth(st, c) IN
              /\ st' = t
              /\ dev' = dev \cup (IF c \in st.reg /\ st.idx[st.auth[c]] \notin {None, c} /\ st.idx[st.auth[c]] \in t.reg
                                  THEN {"loginRaceLeavesTwo"} ELSE {})
                            \cup (IF \E X \in ClientS : t.idx[X] = c /\ AuthOf(t, c) # X THEN {"staleIndexAfterReAuth"} ELSE {})
           /\ pc' = [pc EXCEPT ![c] = "idle"] /\ UNCHANGED <<proved, ctl, used, gv, hist>>
SReap == /\ Split /\ ~Quiescent(st) /\ st' = ReapAll(st) /\ UNCHANGED <<pc, proved, ctl, used, gv, dev, hist>>

Close(c) == /\ "Close" \in Ops /\ TLCGet("level") <= MaxLevel /\ pc[c] = "idle" /\ (~Split => Idle)
            /\ c \in st.sess /\ c \notin st.tcl /\ c # st.kq
            /\ LET t == CloseConn(st, c) IN st' = t /\ Record([op |-> "Close", c |-> c], t)
            /\ UNCHANGED <<pc, proved, ctl, used, gv, dev>>

Kick(X, n) == /\ "Kick" \in Ops /\ TLCGet("level") <= MaxLevel /\ (~Split => Idle) /\ X \in st.issued /\ st.kq = None
              /\ LET t == IF Split THEN KickOp(st, X, n) ELSE ReapAll(KickOp(st, X, n))
                 IN st' = t /\ Record([op |-> "Kick", id |-> X, new |-> n], t)
              /\ UNCHANGED <<pc, proved, ctl, used, gv, dev>>

Heartbeat(c) == /\ "Heartbeat" \in Ops /\ Go /\ c \in st.sess /\ c \notin st.tcl /\ c # st.kq
                /\ st' = st /\ Record([op |-> "Heartbeat", c |-> c], st)
                /\ UNCHANGED <<pc, proved, ctl, used, gv, dev>>

Tick(S) == /\ "Tick" \in Ops /\ TLCGet("level") <= MaxLevel /\ (~Split => Idle) /\ st.kq = None /\ st.reg # {} /\ S \subseteq st.reg
           /\ LET t == Sweep(st, S) IN st' = t /\ Record([op |-> "Tick", keep |-> S], t)
           /\ UNCHANGED <<pc, proved, ctl, used, gv, dev>>

Unregister(c) == /\ "Unregister" \in Ops /\ Go /\ c \in st.reg /\ c # st.kq
                 /\ LET t == Unreg(st, c) IN st' = t /\ Record([op |-> "Unregister", c |-> c], t)
                 /\ UNCHANGED <<pc, proved, ctl, used, gv, dev>>

Ban(c) == /\ "Ban" \in Ops /\ Go /\ c \in st.sess /\ c \notin st.banned
          /\ LET t == [st EXCEPT !.banned = @ \cup {c}, !.banP = @ \cup {c}, !.blapsed = @ \ {c}]
             IN st' = t /\ Record([op |-> "Ban", c |-> c], t)
          /\ UNCHANGED <<pc, proved, ctl, used, gv, dev>>
\* the operator's BanIP in its other forms: how = "perm" (duration 0: no expiry date; replaces whatever record there is),
\* "lapsed" (a temporary ban whose duration has run out since; nobody asked IsBanned yet, the record is still there)
BanAs(c, how) == /\ "BanKinds" \in Ops /\ Go /\ c \in st.sess
                 /\ how = "perm" => c \notin st.bperm
                 /\ how = "lapsed" => c \notin st.banned /\ c \notin st.blapsed
                 /\ LET t == IF how = "perm"
                             THEN [st EXCEPT !.banned = @ \cup {c}, !.bperm = @ \cup {c}, !.banP = @ \cup {c}, !.blapsed = @ \ {c}]
                             ELSE [st EXCEPT !.blapsed = @ \cup {c}]
                    IN st' = t /\ Record([op |-> "Ban", c |-> c, how |-> how], t)
                 /\ UNCHANGED <<pc, proved, ctl, used, gv, dev>>
\* the operator's UnbanIP: the record is removed whatever it is; the failure history of the address stays
Unban(c) == /\ "Unban" \in Ops /\ Go /\ c \in st.banned \cup st.blapsed
            /\ LET t == [st EXCEPT !.banned = @ \ {c}, !.bperm = @ \ {c}, !.banP = @ \ {c}, !.blapsed = @ \ {c}]
               IN st' = t /\ Record([op |-> "Unban", c |-> c], t)
            /\ UNCHANGED <<pc, proved, ctl, used, gv, dev>>
\* one tick of the background clean-ups (BruteForceProtector.cleanup: run-out ban records go, permanent and running
\* ones stay, failures inside the time window stay; IPManager.cleanup: run-out blacklist entries go - there are none
\* inside a behaviour -, permanent and running ones stay, in memory and in the storage)
IpCleanDrop(h) == \/ h \in {"perm", "cidr"} /\ "ipCleanupDropsPermanent" \in Faults
                  \/ h = "temp" /\ "ipCleanupDropsLiveTemp" \in Faults
Cleanup == /\ "Cleanup" \in Ops /\ Go /\ st.bfgen < 1
           /\ LET dropB == (IF "cleanupDropsPermanent" \in Faults THEN st.bperm ELSE {})
                           \cup (IF "cleanupDropsLiveTemp" \in Faults THEN st.banned \ st.bperm ELSE {})
                  t == [st EXCEPT !.blapsed = {}, !.bfgen = @ + 1, !.banned = @ \ dropB, !.bperm = @ \ dropB,
                                  !.black = {c \in @ : ~IpCleanDrop(st.bhow[c])}]
              IN st' = t /\ Record([op |-> "Cleanup"], t)
           /\ UNCHANGED <<pc, proved, ctl, used, gv, dev>>
\* IPManager.AddToBlacklist: in-memory list and shared storage. how = "temp" (a duration that does
\* not run out within a behaviour), "perm" (duration 0 = never expires), "cidr" (permanent, as a range)
Blacklist(c, how) == /\ "Blacklist" \in Ops /\ Go /\ c \in st.sess /\ c \notin st.black
                     /\ LET t == [st EXCEPT !.black = @ \cup {c}, !.blackP = @ \cup {c},
                                            !.bhow[c] = IF "Reload" \in Ops \/ "Cleanup" \in Ops THEN how ELSE "any"]   \* the shape matters to the loader and the clean-up only
                        IN st' = t /\ Record([op |-> "Blacklist", c |-> c, how |-> how], t)
                     /\ UNCHANGED <<pc, proved, ctl, used, gv, dev>>
\* the IPManager is re-created on the same storage (restart / another node): every persisted entry is in force again
\* (loadListFromStorage: index list, one record per entry; the record shapes go through different branches)
DropOnLoad(h) == \/ h \in {"perm", "cidr"} /\ "reloadDropsPermanent" \in Faults
                 \/ h = "temp" /\ "reloadDropsTemporary" \in Faults
                 \/ h = "cidr" /\ "reloadDropsRanges" \in Faults
\* (ipgen counts the re-creations: the lists of a re-created manager were loaded, not written by AddTo..., and every
\* message class is explored again behind a restart; one restart per behaviour)
Reload == /\ "Reload" \in Ops /\ Go /\ (st.blackP # {} \/ st.whiteP # {}) /\ st.ipgen < 1
          /\ LET t == [st EXCEPT !.black = {c \in st.blackP : ~DropOnLoad(st.bhow[c])}, !.white = st.whiteP, !.ipgen = @ + 1]
             IN st' = t /\ Record([op |-> "Reload"], t)
          /\ UNCHANGED <<pc, proved, ctl, used, gv, dev>>
\* IPManager.AddToWhitelist: in-memory list and shared storage. how = "exact" | "cidr" (a range covering exactly c)
Whitelist(c, how) == /\ "Whitelist" \in Ops /\ Go /\ c \in st.sess /\ c \notin st.white
                     /\ LET t == [st EXCEPT !.white = @ \cup {c}, !.whiteP = @ \cup {c}]
                        IN st' = t /\ Record([op |-> "Whitelist", c |-> c, how |-> how], t)
                     /\ UNCHANGED <<pc, proved, ctl, used, gv, dev>>
\* the stored secret of X becomes undecryptable for this server. how = "rotated" (sealed under another master key),
\* "damaged" (well-formed noise), "notb64" (not even well-formed), "short" (well-formed, shorter than a nonce),
\* "blank" (no encrypted secret at all)
Corrupt(X, how) == /\ "Corrupt" \in Ops /\ Go /\ X \in st.issued /\ X \notin st.corrupt /\ X \notin st.deleted
                   /\ LET t == [st EXCEPT !.corrupt = @ \cup {X}, !.blank = IF how = "blank" THEN @ \cup {X} ELSE @]
                      IN st' = t /\ Record([op |-> "Corrupt", id |-> X, how |-> how], t)
                   /\ UNCHANGED <<pc, proved, ctl, used, gv, dev>>
\* Service.ResetSecretKey: a fresh secret is generated and sealed under the current master key; the old one is void
Rekey(X) == /\ "Rekey" \in Ops /\ Go /\ X \in st.issued /\ X \notin st.rekeyed /\ X \notin st.deleted
            /\ LET t == [st EXCEPT !.rekeyed = @ \cup {X}, !.corrupt = @ \ {X}, !.blank = @ \ {X}]
               IN st' = t /\ Record([op |-> "Rekey", id |-> X], t)
            /\ UNCHANGED <<pc, proved, ctl, used, gv, dev>>
\* cloud-control outage begins / ends (fault point of close, sweep and heartbeat)
Cloud(to) == /\ "Cloud" \in Ops /\ Go /\ st.cloud # to
             /\ LET t == [st EXCEPT !.cloud = to] IN st' = t /\ Record([op |-> "Cloud", to |-> to], t)
             /\ UNCHANGED <<pc, proved, ctl, used, gv, dev>>

\* KickOldConnection as the two parts it consists of: the locked section (look the old connection up
\* and take it out of both maps) and, after the lock is released, the I/O (deliver the kick command
\* to the old peer - slow if it is unresponsive -, close its stream). Anything may happen in between.
KickBegin(X, n) ==
  /\ "KickBegin" \in Ops /\ ~Split /\ Go /\ X \in st.issued /\ st.kq = None
  /\ LET old == st.idx[X]
         t == IF old = None \/ old = n THEN st
              ELSE IF "kickSendFirst" \in Faults THEN [st EXCEPT !.kq = old, !.kx = X]
              ELSE [st EXCEPT !.idx = DropIdx(st, old), !.reg = @ \ {old}, !.kq = old, !.kx = X]
     IN st' = t /\ Record([op |-> "KickBegin", id |-> X, new |-> n, kicking |-> t.kq], t)
  /\ UNCHANGED <<pc, proved, ctl, used, gv, dev>>
KickEnd ==
  /\ "KickBegin" \in Ops /\ ~Split /\ Go /\ st.kq # None
  /\ LET s1 == IF "kickSendFirst" \in Faults
               THEN [st EXCEPT !.idx[st.kx] = None, !.reg = @ \ {st.kq}, !.tcl = @ \cup {st.kq}]
               ELSE [st EXCEPT !.tcl = @ \cup {st.kq}]
         t == ReapAll([s1 EXCEPT !.kq = None, !.kx = None])
     IN st' = t /\ Record([op |-> "KickEnd"], t)
  /\ UNCHANGED <<pc, proved, ctl, used, gv, dev>>
\* Service.DeleteClient: the record is gone; connections authenticated as X are not touched by it
Delete(X) == /\ "Delete" \in Ops /\ Go /\ X \in st.issued /\ X \notin st.deleted
             /\ LET t == [st EXCEPT !.deleted = @ \cup {X}] IN st' = t /\ Record([op |-> "Delete", id |-> X], t)
             /\ UNCHANGED <<pc, proved, ctl, used, gv, dev>>
\* the address form of the behaviour's transports, chosen before anything else happens
Form(f) == /\ "AddrForm" \in Ops /\ Go /\ hist = <<>> /\ st.aform = "v4"
           /\ LET t == [st EXCEPT !.aform = f] IN st' = t /\ Record([op |-> "Form", how |-> f], t)
           /\ UNCHANGED <<pc, proved, ctl, used, gv, dev>>
Expire(X) == /\ "Expire" \in Ops /\ Go /\ X \in st.issued /\ X \notin st.expired /\ X \notin st.deleted
             /\ LET t == [st EXCEPT !.expired = @ \cup {X}] IN st' = t /\ Record([op |-> "Expire", id |-> X], t)
             /\ UNCHANGED <<pc, proved, ctl, used, gv, dev>>
Bind(X) == /\ "Bind" \in Ops /\ Go /\ X \in st.issued /\ X \notin st.bound /\ X \notin st.deleted
           /\ LET t == [st EXCEPT !.bound = @ \cup {X}, !.expired = @ \ {X}] IN st' = t /\ Record([op |-> "Bind", id |-> X], t)
           /\ UNCHANGED <<pc, proved, ctl, used, gv, dev>>

Init ==
  /\ st = [acc |-> IF PreAccept THEN ConnS ELSE {}, sess |-> IF PreAccept THEN ConnS ELSE {},
           tcl |-> {}, reg |-> {},
           auth |-> [c \in ConnS |-> None], aform |-> "v4", pend |-> [c \in ConnS |-> 0], chalid |-> [c \in ConnS |-> None], nn |-> [c \in ConnS |-> 0],
           idx |-> [X \in ClientS |-> None], issued |-> {}, expired |-> {}, bound |-> {}, banned |-> {}, black |-> {}, blackP |-> {},
           bperm |-> {}, blapsed |-> {}, banP |-> {}, bfgen |-> 0,
           corrupt |-> {}, blank |-> {}, rekeyed |-> {}, deleted |-> {}, bhow |-> [c \in ConnS |-> None], white |-> {}, whiteP |-> {}, ipgen |-> 0,
           cloud |-> "up", kq |-> None, kx |-> None,
           fails |-> [c \in ConnS |-> 0], ord |-> <<>>]
  /\ pc = [c \in ConnS |-> "idle"]
  /\ proved = [c \in ConnS |-> {}] /\ ctl = {} /\ used = {} /\ gv = {} /\ dev = {} /\ hist = <<>>

Next == \/ Accept
        \/ \E c \in ConnS : \/ \E m \in Msgs(st, c) : Msg(c, m)
                            \/ \E X \in ClientS, ty \in Types : Login(c, X, ty)
                            \/ \E ty \in Types : FirstLogin(c, ty)
                            \/ Knock(c)
                            \/ \E ty \in Types : SHandler(c, [k |-> "FC", id |-> None, resp |-> None, type |-> ty])
                            \/ \E X \in ClientS \cap st.issued, ty \in Types :
                                  st.nn[c] < MaxNonce /\ SHandler(c, [k |-> "LG", id |-> X, resp |-> None, type |-> ty])
                            \/ SEvict(c) \/ SUpd(c) \/ SUpdLookup(c) \/ SUpdWrite(c)
                            \/ Close(c) \/ Heartbeat(c) \/ Unregister(c) \/ Ban(c)
                            \/ \E how \in {"temp", "perm", "cidr"} : Blacklist(c, how)
                            \/ \E how \in {"exact", "cidr"} : Whitelist(c, how)
                            \/ \E how \in {"perm", "lapsed"} : BanAs(c, how)
                            \/ Unban(c)
        \/ SReap
        \/ \E X \in ClientS : Expire(X) \/ Bind(X) \/ Rekey(X) \/ Delete(X) \/ (\E how \in {"rotated", "damaged", "notb64", "short", "blank"} : Corrupt(X, how)) \/ \E n \in ConnS \cup {None} : (Kick(X, n) \/ KickBegin(X, n))
        \/ KickEnd \/ Reload \/ Cleanup \/ (\E f \in {"v6", "v6zone", "v4mapped", "udp4", "udp6zone"} : Form(f)) \/ Cloud("down") \/ Cloud("up")
        \/ \E S \in SUBSET ConnS : Tick(S)
Spec == Init /\ [][Next]_vars

\* ------------------------------------------------------------------------------------------
\* properties

TypeOK == /\ st.reg \subseteq ConnS /\ st.sess \subseteq st.acc /\ st.tcl \subseteq st.acc
          /\ \A c \in ConnS : st.pend[c] \in {0, st.nn[c]} /\ st.nn[c] <= MaxNonce /\ st.fails[c] <= MaxFail
          /\ \A X \in ClientS : st.idx[X] \in ConnS \cup {None}

\* ---- C03
\* a connection is authenticated as X only if X was issued or proven on that same connection
OnlyProven == \A c \in st.reg : st.auth[c] # None => st.auth[c] \in proved[c]
\* the step properties (non-success changes nothing, nonce accepted once, barred never authenticated, ...)
StepsOK == gv = {}
\* the design-level (stricter than the statement) version: a challenge step never touches the index
NoP1Install == "p1InstallsAuthenticatedConn" \notin dev
\* sanity of the model: only issued identities are ever proven
ProvenIssued == \A c \in ConnS : proved[c] \subseteq st.issued

\* ---- C07 (judged at quiescent states: all read loops of closed transports have ended)
Stable == Idle /\ Quiescent(st) /\ st.kq = None
LookupSound == \A X \in ClientS : LET c == st.idx[X] IN
                 c # None => (c \in st.reg /\ c \in st.sess /\ st.auth[c] = X /\ c \notin st.tcl)
OnePerClient == \A X \in ClientS : Cardinality({c \in st.reg : st.auth[c] = X /\ (c \in ctl \/ st.idx[X] = c)}) <= 1
ClosedGone == \A c \in st.tcl : c \notin st.reg /\ c \notin st.sess /\ \A X \in ClientS : st.idx[X] # c
RemovedClosed == \A c \in st.acc : (c \notin st.sess) => c \in st.tcl
C07Inv == Stable => (LookupSound /\ ClosedGone /\ RemovedClosed)
C07One == Stable => OnePerClient
\* the same with the known deviations of the unfixed code masked
C07InvMasked == C07Inv \/ "staleIndexAfterReAuth" \in dev
C07OneMasked == C07One \/ "loginRaceLeavesTwo" \in dev \/ "staleIndexAfterReAuth" \in dev
NoStale == "staleIndexAfterReAuth" \notin dev
NoRace == "loginRaceLeavesTwo" \notin dev
=============================================================================
