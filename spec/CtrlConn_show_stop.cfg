\* X05 demonstration, EXPECTED TO FAIL: the code as found (Fixed = FALSE) against the strict property - TLC prints the schedule.
\* after DoubleConnect a Stop leaves an open socket and a read loop behind (StopClean)
CONSTANTS
  Users = {"u1", "u2"}
  MaxConn = 3
  Scenes <- McQuick
  RejKinds = {"other"}
  MaxAttempts = 0
  Fixed = FALSE
  Emit = FALSE
SPECIFICATION Spec
VIEW view
INVARIANTS TypeOK StopClean

CHECK_DEADLOCK FALSE
