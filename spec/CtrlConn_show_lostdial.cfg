\* X05 demonstration, EXPECTED TO FAIL: the code as found (Fixed = FALSE) against the strict property - TLC prints the schedule.
\* LostDial: Stop while a Connect is dialling; the dialer returns a connection afterwards and the dial goroutine parks it in a channel nobody reads (NoLostDial; the consequence: StopClean)
CONSTANTS
  Users = {"u1", "u2"}
  MaxConn = 3
  Scenes <- McQuick
  RejKinds = {"other"}
  MaxAttempts = 0
  Fixed = FALSE
  Emit = FALSE
SPECIFICATION Spec
VIEW view
INVARIANTS TypeOK NoLostDial

CHECK_DEADLOCK FALSE
