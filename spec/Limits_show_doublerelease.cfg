\* variant: the mapping handler's slot release is not idempotent; a tunnel closed by a peer notification between
\* RegisterTunnel and Tunnel.Start is released by OnClosed and again by the deferred release.
\*   tlc -config Limits_show_doublerelease.cfg Limits.tla   (expected: Invariant NoOvershoot is violated, n = 3, limit = 1:
\*   Check(1), AddCmp(1), Register(1), PeerClose(1), StartFail(1), then two more connections are admitted)
CONSTANTS
  Kinds = {"maplimit"}
  NS = {2, 3, 4}
  Lims = {0, 1, 2}
  NodeCounts = {1}
  Variants = {"doublerelease"}
  Shape = "free"
  MaxReRel = 2
  Slacks = {1, 2}
  Listers = 1
  Retries = 1
  FixedKinds = {"conncap", "maplimit", "maplive", "codequota", "mapquota"}
  WithRelease = TRUE
  Emit = FALSE
  EmitMaxN = 4
  EmitAll = FALSE
INIT Init
NEXT Next
VIEW view
INVARIANTS TypeOK NoOvershoot
CHECK_DEADLOCK FALSE
