\* ConnCode.tla - the code AS IT WAS before patches C06-1/C06-2 (no atomic claim), strict invariants.
\* EXPECTED RESULT: TLC reports "Invariant AtMostOneSuccess is violated" with a 22-step behaviour:
\* two activators both read the unactivated code, both create a mapping, both mark + update, both
\* return success (kept as replays/C06/tlc-counterexamples-asis.json and reproduced on the real code).
\*   tlc -workers 8 -config ConnCode_show_asis.cfg ConnCode.tla
\* With MaxFault = 1 the shorter violation of FailedLeavesNone (list append fails, record stays) comes first.
CONSTANTS
  Acts = {"a1", "a2"}
  HasRev = FALSE
  CanExpire = FALSE
  MaxFault = 0
  PreSet = {}
  Quota = 2
  Claim = FALSE
  CreateRb = FALSE
  Node2 = {"a2"}
  ClaimLocal = FALSE
  SameAs = {}
  Reclaim = FALSE
  ResetOnFail = FALSE
  ResetCreate = FALSE
  RelScope = "fail"
  CanTick = FALSE
  ShortClaim = FALSE
  Emit = FALSE
INIT Init
NEXT Next
VIEW view
INVARIANTS TypeOK NoActivationAfterDeath AtMostOneSuccess AtMostOneMapping SuccessWasValid FailedLeavesNone FieldsOK
CHECK_DEADLOCK FALSE
