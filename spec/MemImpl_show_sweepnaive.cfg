\* C13 - named deviation of spec/MemImpl.tla: sweep without the IsZero test (Now.After(Expiration) on a zero Expiration). Expected: StoresAgree / NeverExpiringStays violated sequentially - Set(ttl 0); Sweep.
\*   tlc -config MemImpl_show_sweepnaive.cfg MemImpl.tla      (the same constants with Sweep = "locked", Evict = "recheck",
\*   LazyReads / OldCAS / OldSetExp = FALSE pass: ./check C13)
CONSTANTS
  Keys = {"s1"}
  Vals = {"a", "b"}
  MaxClock = 2
  OldCAS = FALSE
  OldSetExp = FALSE
  Procs = {"p1"}
  Sweepers = {"ex"}
  Sweep = "naive"
  Evict = "recheck"
  LazyReads = FALSE
  Emit = FALSE
INIT Init
NEXT Next
INVARIANTS TypeOK StoresAgree AnswersAgree NeverExpiringStays
PROPERTY SilentInvisible
CHECK_DEADLOCK FALSE
