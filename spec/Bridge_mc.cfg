\* C02 exhaustive safety check of the bridge AS FOUND (DevLimiter = TRUE): every interleaving of
\* the two copiers (Read / WaitN / Write), the clock, Close and the lifecycle goroutine with the
\* environment (<= MaxSends writes over the five size classes by either end, target attach at any
\* point, one close / error / short write / transient timeout / third-party Close at any point,
\* source replacement), for every bandwidth-limit class.  The limiter deviation is modelled, so the
\* completeness clauses are checked in their "or the named deviation happened" form.
CONSTANTS
  BUF = 3
  MaxSends = @@MAXS@@
  MaxSlow = 5
  Lims = @@LIMS@@
  Classes = @@CLS@@
  Faults = @@FAULTS@@
  Replace = @@REPL@@
  ExtCloseOn = TRUE
  DevLimiter = TRUE
  DevNilFwd = TRUE
  DevStaleSrc = TRUE
  DevSleepLimiter = FALSE
  DevWriteLock = FALSE
  DevRouteFirst = FALSE
  DevCleanupFirst = FALSE
  RegLegs = {"F"}
  DevIdleSweep = TRUE
  DevFwdNoEof = TRUE
  SrcKinds = @@SK@@
  ErrClasses = @@EC@@
  PollOn = @@POLL@@
  RetryOn = {}
  RetryWriteOn = {}
  DevBufio = FALSE
  AttachKinds = @@AK@@
  HoldOn = @@HOLD@@
  Gen = FALSE
  Emit = FALSE
INIT Init
NEXT Next
VIEW view
INVARIANTS TypeOK Prefix InOrderKnown NoSpontaneousEndKnown CompleteKnown IndependentKnown ForgetImpliesClosed NoBusyLoop
CHECK_DEADLOCK FALSE
