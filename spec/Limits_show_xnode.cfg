\* repaired quotas, two service instances over one store: the per-instance mutex does not exclude them.
\*   tlc -config Limits_show_xnode.cfg Limits.tla   (expected: Invariant NoOvershoot is violated)
CONSTANTS
  Kinds = {"codequota", "mapquota"}
  NS = {2, 3, 4}
  Lims = {0, 1, 2}
  NodeCounts = {2}
  Variants = {"none"}
  Shape = "free"
  MaxReRel = 2
  Slacks = {1, 2}
  Listers = 1
  Retries = 1
  FixedKinds = {"conncap", "maplimit", "maplive", "codequota", "mapquota"}
  WithRelease = TRUE
  Emit = FALSE
  EmitMaxN = 4
  EmitAll = FALSE
INIT Init
NEXT Next
VIEW view
INVARIANTS TypeOK NoOvershoot
CHECK_DEADLOCK FALSE
