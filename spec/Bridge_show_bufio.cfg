\* Documentation only (not run by the check): cross-node first frame read through a discarded buffered
\* reader, against InOrder.  TLC reports: Send(T, ..) before Attach("xnode") - the first byte is swallowed,
\* what follows is delivered at the wrong offset.
CONSTANTS
  BUF = 3
  MaxSends = 1
  MaxSlow = 5
  Lims = {"none"}
  Classes = {"Bp1"}
  Faults = TRUE
  Replace = FALSE
  ExtCloseOn = FALSE
  DevLimiter = FALSE
  DevNilFwd = FALSE
  DevStaleSrc = FALSE
  DevSleepLimiter = FALSE
  DevWriteLock = FALSE
  DevRouteFirst = FALSE
  DevCleanupFirst = FALSE
  RegLegs = {}
  DevIdleSweep = FALSE
  DevFwdNoEof = FALSE
  SrcKinds = {"direct"}
  ErrClasses = {"plain"}
  PollOn = FALSE
  RetryOn = {}
  RetryWriteOn = {}
  DevBufio = TRUE
  AttachKinds = {"xnode"}
  HoldOn = FALSE
  Gen = FALSE
  Emit = FALSE
INIT Init
NEXT Next
VIEW view
INVARIANTS TypeOK InOrder Prefix
CHECK_DEADLOCK FALSE
