---------------------------- MODULE DisposeTrace ----------------------------
(* C16 judge (property level).  One trace = one component instance that is closed.  Alphabet:     *)
(*   Cfg      [comp, sync, excl]  component kind; sync = TRUE when Close is a mutex-guarded latch  *)
(*                                (dispose based: a Close that returns has waited for the clean-up *)
(*                                to finish), FALSE for Tunnel.Close, whose contract lets a later  *)
(*                                closer return while the first one is still closing; excl (only   *)
(*                                the resource manager) = TRUE: a disposal call that starts while  *)
(*                                another one may still be in flight returns at once and takes     *)
(*                                over nothing - what was handed over since stays owed until a     *)
(*                                call starts with no disposal in flight                           *)
(*   Reg      [h]                 clean-up action / close callback h is registered                 *)
(*   Own      [h]                 the component is handed a resource (a connection) whose release  *)
(*                                h it now owes: demanded exactly once if ANY Close is called      *)
(*                                afterwards (Reg: only if registered before the FIRST Close call) *)
(*   Drop     [h]                 the component is relieved of h again (resource unregistered): no *)
(*                                demand that it runs, still at most once                          *)
(*   CloseCall[p] CloseRet[p, async]  closer p calls Close / its Close returns; async = TRUE: the  *)
(*                                call may have left its work to a helper that is still running     *)
(*                                (DisposeWithTimeout): a disposal may be in flight until Settled   *)
(*   Settled                      no disposal of the component is in flight any more (observed: no  *)
(*                                goroutine is inside the component's package)                      *)
(*   Ran      [h]                 clean-up action or callback h ran                                *)
(*   Report   [delta]             the component added delta bytes to the traffic statistics        *)
(*   Fault    [what]              the environment made a call of the component fail (cloud control  *)
(*                                unavailable for a moment); informational - the driver lets such a  *)
(*                                fault hit only reporters after which another one is still to come  *)
(*   Op       [op, res]           operation invoked after a Close had returned:                    *)
(*                                res = "ok" | "closed" | "error" | "panic" | "hang"               *)
(*   Panic    [where]             a panic was recovered somewhere in the component                 *)
(*   Round    [counts]            hammer: one more instance of the component was closed by N      *)
(*                                closers released together, all have returned; counts = how often *)
(*                                each clean-up action (registered before the round) ran           *)
(*   Quiesce  [moved, traffic, leaked, top, pending]                                               *)
(*                                all closers returned and pending I/O unblocked: bytes the        *)
(*                                component moved (judged if traffic), goroutines of the component *)
(*                                still alive after the grace period, top frame of the first one   *)
(* File order is real-time order: Ran is logged inside the action, CloseRet after the real return. *)
(*                                                                                                  *)
(* Clauses (C16):                                                                                   *)
(*   AtMostOnce   comp:h              an action/callback ran a second time                          *)
(*   AtLeastOnce  comp:h:at-return    sync component: a Close returned, h (registered before any    *)
(*                                    Close was called) has not run                                 *)
(*                comp:h:at-quiescence  every Close returned, h has not run                         *)
(*   TrafficOnce  comp:over|under     sum of reported deltas > / < bytes moved                      *)
(*                comp:lost           the totals kept by cloud control end up below the bytes moved   *)
(*                                    although every delta was reported (an update was overwritten)   *)
(*   CleanFailure comp:op:panic|hang  an operation after close panicked / never returned            *)
(*   NoPanic      comp:where                                                                        *)
(*   NoLeak       comp:top            goroutines left behind                                        *)
(*   CloseReturns comp                a Close call never returned                                   *)
(* Deliberately NOT demanded (the statement is silent): order of handlers; that an operation after  *)
(* close fails rather than succeeds harmlessly; a handler registered after Close was called.        *)
EXTENDS VLib

VARIABLES comp, sync, anyCall, open, nret, must, cnt, sum, pending, excl, linger
vars == <<l, viol, comp, sync, anyCall, open, nret, must, cnt, sum, pending, excl, linger>>

Init == /\ l = 1 /\ viol = {} /\ comp = "?" /\ sync = FALSE /\ anyCall = FALSE
        /\ open = <<>> /\ nret = 0 /\ must = {} /\ cnt = <<>> /\ sum = 0 /\ pending = {} /\ excl = FALSE /\ linger = FALSE

Cnt(h) == IF h \in DOMAIN cnt THEN cnt[h] ELSE 0

TrCfg == /\ Is("Cfg") /\ comp' = Ev.comp /\ sync' = Ev.sync /\ excl' = (Has("excl") /\ Ev.excl)
         /\ l' = l + 1 /\ UNCHANGED <<viol, anyCall, open, nret, must, cnt, sum, pending, linger>>

TrReg == /\ Is("Reg")
         /\ must' = IF anyCall THEN must ELSE must \cup {Ev.h}
         /\ l' = l + 1 /\ UNCHANGED <<viol, comp, sync, anyCall, open, nret, cnt, sum, pending, excl, linger>>

TrOwn == /\ Is("Own") /\ pending' = pending \cup {Ev.h}
         /\ l' = l + 1 /\ UNCHANGED <<viol, comp, sync, anyCall, open, nret, must, cnt, sum, excl, linger>>

\* open: closer -> what was owed when it called Close (that much its own return must find done)
TrDrop == /\ Is("Drop") /\ pending' = pending \ {Ev.h} /\ must' = must \ {Ev.h}
          /\ l' = l + 1 /\ UNCHANGED <<viol, comp, sync, anyCall, open, nret, cnt, sum, excl, linger>>

\* excl: a call that starts while another disposal may be in flight (a call still open, or a helper left behind) owes nothing
Busy == excl /\ (DOMAIN open # {} \/ linger)
TrCall == /\ Is("CloseCall") /\ anyCall' = TRUE
          /\ IF Busy THEN must' = must /\ pending' = pending
                     ELSE must' = must \cup pending /\ pending' = {}
          /\ open' = [x \in DOMAIN open \cup {Ev.p} |-> IF x = Ev.p THEN (IF Busy THEN {} ELSE must') ELSE open[x]]
          /\ l' = l + 1 /\ UNCHANGED <<viol, comp, sync, nret, cnt, sum, excl, linger>>

MissingOf(owed, when) == {V("AtLeastOnce", comp \o ":" \o h \o ":" \o when) : h \in {x \in owed : Cnt(x) = 0}}
Missing(when) == MissingOf(must, when)

TrRet == /\ Is("CloseRet") /\ nret' = nret + 1
         /\ open' = [x \in DOMAIN open \ {Ev.p} |-> open[x]]
         /\ viol' = viol \cup (IF sync /\ Ev.p \in DOMAIN open THEN MissingOf(open[Ev.p], "at-return") ELSE {})
         /\ linger' = (linger \/ (Has("async") /\ Ev.async))
         /\ l' = l + 1 /\ UNCHANGED <<comp, sync, anyCall, must, cnt, sum, pending, excl>>

TrSettled == /\ Is("Settled") /\ linger' = FALSE
             /\ l' = l + 1 /\ UNCHANGED <<viol, comp, sync, anyCall, open, nret, must, cnt, sum, pending, excl>>

TrRan == /\ Is("Ran")
         /\ cnt' = [x \in DOMAIN cnt \cup {Ev.h} |-> IF x = Ev.h THEN Cnt(x) + 1 ELSE cnt[x]]
         /\ viol' = viol \cup (IF Cnt(Ev.h) >= 1 THEN {V("AtMostOnce", comp \o ":" \o Ev.h)} ELSE {})
         /\ l' = l + 1 /\ UNCHANGED <<comp, sync, anyCall, open, nret, must, sum, pending, excl, linger>>

TrReport == /\ Is("Report") /\ sum' = sum + Ev.delta
            /\ l' = l + 1 /\ UNCHANGED <<viol, comp, sync, anyCall, open, nret, must, cnt, pending, excl, linger>>

TrFault == /\ Is("Fault")
           /\ l' = l + 1 /\ UNCHANGED <<viol, comp, sync, anyCall, open, nret, must, cnt, sum, pending, excl, linger>>

TrOp == /\ Is("Op")
        /\ viol' = viol \cup (IF Ev.res \in {"panic", "hang"}
                              THEN {V("CleanFailure", comp \o ":" \o Ev.op \o ":" \o Ev.res)} ELSE {})
        /\ l' = l + 1 /\ UNCHANGED <<comp, sync, anyCall, open, nret, must, cnt, sum, pending, excl, linger>>

TrPanic == /\ Is("Panic")
           /\ viol' = viol \cup {V("NoPanic", comp \o ":" \o Ev.where)}
           /\ l' = l + 1 /\ UNCHANGED <<comp, sync, anyCall, open, nret, must, cnt, sum, pending, excl, linger>>

\* one hammer round: a complete little trace of its own, reduced to the counts
TrRound ==
  /\ Is("Round")
  /\ LET c == Ev.counts IN
     viol' = viol \cup {V("AtMostOnce", comp \o ":" \o h) : h \in {x \in DOMAIN c : c[x] >= 2}}
                  \cup {V("AtLeastOnce", comp \o ":" \o h \o ":at-quiescence") : h \in {x \in DOMAIN c : c[x] = 0}}
  /\ l' = l + 1 /\ UNCHANGED <<comp, sync, anyCall, open, nret, must, cnt, sum, pending, excl, linger>>

TrQuiesce ==
  /\ Is("Quiesce")
  /\ viol' = viol
       \cup (IF nret > 0 THEN Missing("at-quiescence") ELSE {})
       \cup (IF Ev.traffic /\ sum > Ev.moved THEN {V("TrafficOnce", comp \o ":over")} ELSE {})
       \cup (IF Ev.traffic /\ sum < Ev.moved THEN {V("TrafficOnce", comp \o ":under")} ELSE {})
       \cup (IF Ev.traffic /\ Has("stored") /\ sum = Ev.moved /\ Ev.stored < Ev.moved THEN {V("TrafficOnce", comp \o ":lost")} ELSE {})
       \cup (IF Ev.leaked > 0 THEN {V("NoLeak", comp \o ":" \o Ev.top)} ELSE {})
       \cup (IF DOMAIN open # {} THEN {V("CloseReturns", comp)} ELSE {})
  /\ l' = l + 1 /\ UNCHANGED <<comp, sync, anyCall, open, nret, must, cnt, sum, pending, excl, linger>>

TrEnd == /\ Is("End") /\ EmitVerdict
         /\ l' = l + 1 /\ viol' = {} /\ comp' = "?" /\ sync' = FALSE /\ anyCall' = FALSE
         /\ open' = <<>> /\ nret' = 0 /\ must' = {} /\ cnt' = <<>> /\ sum' = 0 /\ pending' = {} /\ excl' = FALSE /\ linger' = FALSE

Next == TrCfg \/ TrReg \/ TrOwn \/ TrDrop \/ TrSettled \/ TrCall \/ TrRet \/ TrRan \/ TrReport \/ TrFault \/ TrOp \/ TrPanic \/ TrRound \/ TrQuiesce \/ TrEnd
Spec == Init /\ [][Next]_vars
=============================================================================
