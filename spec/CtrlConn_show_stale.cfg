\* X05 demonstration, EXPECTED TO FAIL: the code as found (Fixed = FALSE) against the strict property - TLC prints the schedule.
\* StaleCleanup: the read loop's failure clean-up closes the connection a later Connect installed (NoSpurious)
CONSTANTS
  Users = {"u1", "u2"}
  MaxConn = 3
  Scenes <- McQuick
  RejKinds = {"other"}
  MaxAttempts = 0
  Fixed = FALSE
  Emit = FALSE
SPECIFICATION Spec
VIEW view
INVARIANTS TypeOK NoSpurious

CHECK_DEADLOCK FALSE
