\* judge for C05: allocation bounds per call: ReadPacket 6 * 16 MiB + 1 MiB (DESIGN.md Appendix B), HandlePacket 12 * 16 MiB + 1 MiB
CONSTANTS
  MaxBodyKiB = 16384
  KRead = 6
  KDispatch = 12
  SlackKiB = 1024
  RetainSlackKiB = 96
INIT Init
NEXT Next
POSTCONDITION Consumed
CHECK_DEADLOCK FALSE
