\* judge for C05: allocation bound K * MaxBody + Slack = 6 * 16 MiB + 1 MiB (DESIGN.md Appendix B)
CONSTANTS
  MaxBodyKiB = 16384
  KRead = 6
  KDispatch = 12
  SlackKiB = 1024
INIT Init
NEXT Next
POSTCONDITION Consumed
CHECK_DEADLOCK FALSE
