\* Documentation only (not run by the check): a retry test on the error of a Write (Temporary() taken for "try
\* again"), against NoBusyLoop.  TLC reports: Attach, Send by the other end, ErrorEnd(e, "plain", "tmp") - the copier
\* that writes to the failed end offers its chunk again and again.
CONSTANTS
  BUF = 3
  MaxSends = 1
  MaxSlow = 5
  Lims = {"none"}
  Classes = {"one"}
  Faults = FALSE
  Replace = FALSE
  ExtCloseOn = FALSE
  DevLimiter = TRUE
  DevNilFwd = FALSE
  DevStaleSrc = TRUE
  DevSleepLimiter = FALSE
  DevWriteLock = FALSE
  DevRouteFirst = FALSE
  DevCleanupFirst = FALSE
  RegLegs = {}
  DevIdleSweep = FALSE
  DevFwdNoEof = FALSE
  SrcKinds = {"direct"}
  ErrClasses = {"plain", "tmo", "tmp"}
  PollOn = FALSE
  RetryOn = {}
  RetryWriteOn = {"tmp"}
  DevBufio = FALSE
  AttachKinds = {"local"}
  HoldOn = FALSE
  Gen = FALSE
  Emit = FALSE
INIT Init
NEXT Next
VIEW view
INVARIANTS TypeOK NoBusyLoop
CHECK_DEADLOCK FALSE
