\* C08 documentation cfg (not run by the check): tlc -config ConnState_show_stateKick.cfg ConnState.tla
\* The tree as it is (C08-1..4): KickOldControlConnection drops the registry entry before CloseConnection, so RemoveControlConnection skips DisconnectClientIfMatch and the client runtime state of a closed client stays online (deviation stateKeptByKick). Open finding (the method has no caller in the server).
\* Expected: Invariant StateClosed is violated.
CONSTANTS
  Nodes = {"A", "B"}
  NConns = 2
  Clients = {"X"}
  TTL = 2
  MaxClock = 1000
  MaxHist = 99
  Shapes = {"str"}
  CasSet = {FALSE}
  FixSets = {{"ptrShape", "condIdxDelete", "hbRefresh", "successOnly", "stateAfterDelivery"}}
  Causes = {"peer", "kick"}
  KeepCreatedAt = FALSE
  UseRequestId = FALSE
  IdxRenew = "checkSet"
  RecRenew = "set"
  Lookups = FALSE
  WritingLookup = FALSE
  InFlight = FALSE
  ClientState = TRUE
  Emit = FALSE
  Only = "all"
INIT Init
NEXT Next
VIEW view
INVARIANTS TypeOK FindLive FindClosed StateClosed
CHECK_DEADLOCK FALSE
