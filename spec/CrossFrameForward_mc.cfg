\* C10 bidirectional forwarder, the code as it is: every interleaving of the copy loops of
\* @@TUN@@ tunnels (two directions each, <= @@CH@@ chunks per direction), buffers from an
\* allocator of four buffers. hist (the schedule) is excluded from the fingerprint (VIEW).
CONSTANTS
  Tunnels = @@TUN@@
  Chunks = @@CH@@
  Bufs = {b1, b2, b3, b4}
  Static = static
  None = none
  SharedCopyBuffer = FALSE
  PutAtFirstDone = FALSE
  PutBeforeWriteDone = FALSE
  GlobalBuffer = FALSE
  Gen = FALSE
  Emit = @@EMIT@@
INIT Init
NEXT Next
VIEW View
SYMMETRY BufSym
INVARIANTS TypeOK Unchanged Delivered BufferOwned NoClobber PoolSound
CHECK_DEADLOCK FALSE
