\* C03, addresses in depth: control-type messages with bans, blacklist entries (temporary / permanent /
\* range), whitelist entries (exact / range) and the IPManager re-created from the shared storage
\* (restart, another node): every message class behind every list history.
CONSTANTS
  Conn <- Conn2
  Client <- Client2
  MaxNonce = 2
  MaxFail = 3
  MaxCtl = 0
  Faults = {}
  Ops = {"Msg", "Ban", "Blacklist", "Whitelist", "Reload"}
  Types = {"control"}
  PreAccept = TRUE
  Fixes = @@FIXES@@
  Split = FALSE
  MaxLevel = @@LEVEL@@
  Emit = @@EMIT@@
INIT Init
NEXT Next
VIEW view
INVARIANTS TypeOK OnlyProven StepsOK ProvenIssued C07InvMasked C07OneMasked
CHECK_DEADLOCK FALSE
