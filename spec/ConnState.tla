------------------------------ MODULE ConnState ------------------------------
(* C08 - implementation-shaped model of the cross-node client location registry               *)
(* (internal/protocol/session/connstate.Store as driven by the session layer).                *)
(*                                                                                            *)
(* Nodes share ONE store holding                                                              *)
(*   connRec[c]   = "tunnox:conn_state:<c>"   -> Info{node, client, ExpiresAt}, key TTL       *)
(*   clientIdx[x] = "tunnox:client_conn:<x>"  -> connection id,                 key TTL       *)
(* Every node additionally keeps a LOCAL registry reg[n][x] (session.ClientRegistry).         *)
(*                                                                                            *)
(* Code mapped (one action per session-layer event; histories, not schedules):                *)
(*   Connect(n,c)      SessionManager.AcceptConnection - no registry effect                   *)
(*   AuthOK(n,c,x)     packet_handler_handshake.go after a successful control handshake:      *)
(*                     old := reg[n][x]; if old # c: UnregisterConnection(old), registry      *)
(*                     Remove(old) (closes its stream); UpdateAuth; RegisterConnection(c)     *)
(*   AuthLost(n,c,x)   the same handshake when the credential check passes but the response   *)
(*                     cannot be delivered (peer gone: the client gave up on n and may be     *)
(*                     live elsewhere): handleHandshake returns the write error BEFORE its     *)
(*                     registry section - NOT a successful handshake, nothing is registered;  *)
(*                     the connection is dead and its read loop will end (Close, why=peer).   *)
(*                     BUT the registry section runs after ANY response that was written, if   *)
(*                     the connection object is authenticated: on a connection that already    *)
(*                     completed an earlier handshake as x, the challenge response of phase 1  *)
(*                     (Success=false) is followed by RegisterConnection - the unfinished      *)
(*                     handshake moves x's location (fix "successOnly": register only when     *)
(*                     this handshake round reported success)                                  *)
(*   Heartbeat(n,c)    command_integration.go handleHeartbeat: refreshes the cloud-control    *)
(*                     client state only; connstate.RefreshConnection has NO caller           *)
(*                     (fix "hbRefresh": refresh record + index TTL)                          *)
(*   Close(n,c)        connection_lifecycle.go CloseConnection -> UnregisterConnection(c):    *)
(*                     GetConnectionState(c); if readable and control: Delete(clientIdx[x])   *)
(*                     UNCONDITIONALLY (fix "condIdxDelete": only if it still names c);       *)
(*                     Delete(connRec[c])                                                     *)
(*                     Close carries its CAUSE (field w of the event): "peer" the read loop     *)
(*                     ended (adapter cleanupConnection -> CloseConnection); "cmd" the client  *)
(*                     sent a Disconnect command (handleDisconnectCommand -> CloseConnection);*)
(*                     "sweep" heartbeat timeout: ClientRegistry.CleanupStale removes the      *)
(*                     registry entry FIRST, then calls CloseConnection; "kick"                *)
(*                     KickOldControlConnection removes the entry and closes the stream, the   *)
(*                     read loop then ends -> CloseConnection.  Every cause ends in            *)
(*                     CloseConnection -> UnregisterConnection, so the store effect is one.    *)
(*   LateCleanup(n,c)  the same code path, taken for a connection whose client has meanwhile  *)
(*                     completed a newer handshake (old node notices late)                    *)
(*   AuthOK with w = "new" is the FIRST-CONNECTION handshake: the request carries no client id,   *)
(*                     ServerAuthHandler.handleFirstConnection allocates the identity and      *)
(*                     binds it to the connection; the location record is filled from the      *)
(*                     connection's identity.  UseRequestId = TRUE models filling it from the  *)
(*                     request: client id 0, no index - deviation "unindexed".                 *)
(*                     A re-handshake on a connection whose record is still there re-writes    *)
(*                     the record with a full lifetime counted from NOW.  KeepCreatedAt = TRUE *)
(*                     models deriving the expiry from the connection's first registration     *)
(*                     (age[c]): a connection older than one lifetime gets a record that is    *)
(*                     expired on arrival - deviation "bornExpired".                           *)
(*   LkBegin(m,x) / LkEnd(m)   FindClientNode on node m as the two storage reads it is: read   *)
(*                     the client index (LkBegin), later read the record of the connection it  *)
(*                     named (LkEnd); handshakes elsewhere and cleanups may fall in between.   *)
(*                     A lookup is READ-ONLY (invariant LookupPure).  WritingLookup = TRUE     *)
(*                     models the design that drops a "dangling" index when the record is      *)
(*                     gone: the index may by then belong to a newer connection - deviation    *)
(*                     "lookupErased".  (Lookups = FALSE switches the two-step lookup off; the *)
(*                     instantaneous Find of the invariants is always there.)                  *)
(*   Tick              discrete clock; both keys lose one tick of remaining lifetime and      *)
(*                     vanish at 0 (key TTL and the explicit ExpiresAt check coincide)        *)
(*                                                                                            *)
(* Backend shape: the store hands back what the configured backend returns for connRec:       *)
(*   "ptr" (memory backend: the *Info that was stored), "str" (Redis: JSON string),           *)
(*   "map" (JSON-decoded map).  GetConnectionState type-switches on it and, as-is, has no     *)
(*   case for the pointer (fix "ptrShape").                                                   *)
(*                                                                                            *)
(* Every behaviour starts by fixing `shape` (from Shapes) and `fixes` (from FixSets), so one     *)
(* TLC run covers every backend shape and both the as-is and the repaired code.                *)
(*                                                                                            *)
(* Deviations from the property are recorded per client in dev[x] (reset by x's next          *)
(* handshake): "shape" (registration stored in a shape lookups cannot read), "lateCleanup"    *)
(* (an unregister erased an index naming another connection), "ttlLapse" (record or index of  *)
(* a heart-beating connection ran out), "phase1Moves" (an unfinished handshake re-registered   *)
(* an older connection over the location of the client's most recent successful handshake),   *)
(* "lookupErased" (a writing lookup dropped an index that had moved on to a newer connection).  *)
(*   as-is     (fixes = {}):  FindLive is violated (run ConnState_asis.cfg to see the trace); *)
(*                            FindLiveOrDev, FindClosed hold - every route to a violation     *)
(*                            goes through a named deviation.                                 *)
(*   repaired  (fixes = all): FindLive, FindClosed, NoDev hold (invariant Repaired).          *)
EXTENDS Naturals, Sequences, FiniteSets, TLC, Json

CONSTANTS Nodes, NConns, Clients,  \* connections c1..cN are used in this order (N <= 4)
          TTL,                     \* registration lifetime in ticks (heartbeat period = 1 tick)
          MaxClock, MaxHist,
          Shapes,                  \* backend shapes explored: subset of {"ptr", "str", "map"}
          FixSets,                 \* sets of repairs explored: subsets of AllFixes
          Causes,                  \* close causes explored: subset of {"peer", "cmd", "sweep", "kick"} (one store effect)
          KeepCreatedAt, UseRequestId,   \* two more alternative designs (see above)
          Lookups, WritingLookup,  \* two-step lookups explored? / the writing-lookup design
          Emit, Only               \* Only = "dev": print a behaviour only when its last event records a deviation

VARIABLES shape,    \* what the configured backend hands back for connRec (fixed per behaviour)
          fixes,    \* which repairs the code has (fixed per behaviour; {} = as-is)
          connRec, clientIdx, clock,
          cst,      \* connection -> [st |-> "new"|"open"|"evicted"|"dead"|"closed", node, auth]
                    \*   evicted = the server closed its stream (re-login on the node), dead = the peer is gone
                    \*   (a write failed); both still await CloseConnection
          reg,      \* node -> client -> connection | "-"          (local ClientRegistry)
          last,     \* ghost: client -> connection of its most recent successful handshake | "-"
          hb,       \* ghost: connection -> handshake or heartbeat seen in the current tick
          alive,    \* ghost: connection -> heart-beaten in every tick since its handshake
          dev,      \* ghost: client -> set of deviation names since its latest handshake
          lost,     \* ghost: client -> an undeliverable handshake of it happened since its latest successful one
          age,      \* ghost: connection -> ticks since its FIRST successful handshake (capped at TTL)
          lk,       \* the lookup in flight (at most one): [p, m, x, conn] - index read, record not yet
          lkDone,   \* ghost: client -> since its latest handshake a lookup completed whose index read was overtaken
          lkWrote,  \* ghost: some lookup modified the store
          hist
vars == <<shape, fixes, connRec, clientIdx, clock, cst, reg, last, hb, alive, dev, lost, age, lk, lkDone, lkWrote, hist>>
\* lifetimes are kept as REMAINING ticks, so the state graph without the clock is finite and the
\* exhaustive check covers sessions of any length; the generator keeps the clock to bound sleeps
\* age influences nothing unless KeepCreatedAt (or the "long" generation filter) looks at it
ageV    == IF KeepCreatedAt \/ Only \in {"long", "longre", "longs", "relong"} THEN age ELSE 0
view    == <<shape, fixes, connRec, clientIdx, cst, reg, last, hb, alive, dev, lost, ageV, lk, lkDone, lkWrote>>
genview == <<shape, fixes, connRec, clientIdx, clock, cst, reg, last, hb, alive, dev, lost, ageV, lk, lkDone, lkWrote>>

AllConns == <<"c1", "c2", "c3", "c4">>
ConnName(i) == AllConns[i]
ConnSet == {ConnName(i) : i \in 1..NConns}
NoRec == [node |-> "-", client |-> "-", ttl |-> 0]     \* ttl = remaining lifetime in ticks, 0 = absent
NoIdx == [conn |-> "-", ttl |-> 0]
Fresh == [st |-> "new", node |-> "-", auth |-> "-"]
NoLk  == [p |-> FALSE, m |-> "-", x |-> "-", conn |-> "-"]

AllFixes == {"ptrShape", "condIdxDelete", "hbRefresh", "successOnly"}
Init == /\ shape \in Shapes /\ fixes \in FixSets
        /\ connRec = [c \in ConnSet |-> NoRec]
        /\ clientIdx = [x \in Clients |-> NoIdx]
        /\ clock = 0
        /\ cst = [c \in ConnSet |-> Fresh]
        /\ reg = [n \in Nodes |-> [x \in Clients |-> "-"]]
        /\ last = [x \in Clients |-> "-"]
        /\ hb = [c \in ConnSet |-> FALSE]
        /\ alive = [c \in ConnSet |-> FALSE]
        /\ dev = [x \in Clients |-> {}]
        /\ lost = [x \in Clients |-> FALSE]
        /\ age = [c \in ConnSet |-> 0]
        /\ lk = NoLk /\ lkDone = [x \in Clients |-> FALSE] /\ lkWrote = FALSE
        /\ hist = <<>>

\* generation filter (evaluated on the step being taken; definitions further down):
\*   "dev"   the step records a deviation of the as-is model
\*   "lost"  an undeliverable handshake while the client is connected elsewhere, or a later
\*           heartbeat / close while that client is still connected
\*   "close" a close by command / kick / stale sweep of the client's last connection while the
\*           lookup still found the client
\*   "lookup" a heartbeat of the client's current connection after a two-step lookup of the client
\*           completed whose index read had been overtaken (handshake elsewhere / cleanup in between)
\*   "long"   a heartbeat or tick at which a client is connected on a connection at least one
\*           registration lifetime old (the session outlives the lifetime)
\*   "longre" a successful re-handshake on such a connection
\*   "first"  a first-connection handshake (server-assigned identity)
\*   "reauth" a successful re-handshake on an already authenticated connection that is not (any
\*           more) where the store locates the client
ConnectedP(x) == last'[x] # "-" /\ cst'[last'[x]].st = "open" /\ alive'[last'[x]]
AllClosedP(x) == \A c \in ConnSet : cst'[c].auth = x => cst'[c].st \in {"closed", "evicted"}
WLost(e)  == \/ e.a = "AuthLost" /\ ConnectedP(e.x)
             \/ e.a \in {"HB", "Close", "Late"} /\ \E x \in Clients : lost'[x] /\ ConnectedP(x)
WClose(e, foundBefore) == e.a \in {"Close", "Late"} /\ e.w # "peer" /\ e.x # "-" /\ foundBefore /\ AllClosedP(e.x)
WLong(e)   == e.a \in {"Tick", "HB"} /\ \E x \in Clients : ConnectedP(x) /\ age'[last'[x]] >= TTL
WLongRe(e) == e.a = "Auth" /\ cst[e.c].auth = e.x /\ age[e.c] >= TTL /\ alive[e.c]
WReauth(e) == e.a = "Auth" /\ cst[e.c].auth = e.x
              /\ (last[e.x] # e.c \/ ~(clientIdx[e.x].ttl > 0 /\ clientIdx[e.x].conn = e.c))
Wanted(e, foundBefore) ==
  CASE Only = "dev"   -> \E x \in Clients : dev'[x] \ dev[x] # {}
    [] Only = "lost"  -> WLost(e)
    [] Only = "close" -> WClose(e, foundBefore)
    [] Only = "lostclose" -> WLost(e) \/ WClose(e, foundBefore)
    [] Only = "lookup" -> e.a = "HB" /\ e.x # "-" /\ lkDone'[e.x] /\ ConnectedP(e.x) /\ last'[e.x] = e.c
    [] Only = "long"   -> WLong(e)
    [] Only = "longre" -> WLongRe(e)
    [] Only = "longs"  -> WLong(e) \/ WLongRe(e)
    [] Only = "relong" -> WLong(e) \/ WLongRe(e) \/ WReauth(e)
    [] Only = "first" -> e.a = "Auth" /\ e.w = "new"
    [] Only = "reauth" -> WReauth(e)
    [] OTHER -> TRUE
LogK(a, n, c, x, w, foundBefore, keepLk) ==
  LET e == [a |-> a, n |-> n, c |-> c, x |-> x, w |-> w] IN
  /\ IF keepLk THEN UNCHANGED <<lk, lkDone, lkWrote>> ELSE TRUE
  /\ hist' = Append(hist, e)
  /\ shape' = shape /\ fixes' = fixes
  /\ IF Emit /\ Wanted(e, foundBefore) THEN PrintT("BEH " \o ToJson(hist')) ELSE TRUE
LogW(a, n, c, x, w, foundBefore) == LogK(a, n, c, x, w, foundBefore, TRUE)
Log(a, n, c, x) == LogW(a, n, c, x, "-", FALSE)

\* ---- the store as the backend presents it -------------------------------------------------
KeyLive(e, t) == e.ttl > 0
Accepted == {"str", "bytes", "map"} \cup (IF "ptrShape" \in fixes THEN {"ptr"} ELSE {})
\* GetConnectionState on store contents cr at time t: "ok" | "notfound" | "error"
GetState(cr, c, t) == IF ~KeyLive(cr[c], t) THEN "notfound"
                      ELSE IF shape \notin Accepted THEN "error" ELSE "ok"

\* FindClientNode as any node sees it
FindIn(cr, ix, x, t) ==
  IF ~KeyLive(ix[x], t) THEN [r |-> "notfound", node |-> "-", conn |-> "-"]
  ELSE LET c == ix[x].conn gs == GetState(cr, c, t)
       IN IF gs = "ok" THEN [r |-> "found", node |-> cr[c].node, conn |-> c]
          ELSE [r |-> gs, node |-> "-", conn |-> "-"]
Find(x) == FindIn(connRec, clientIdx, x, clock)

\* UnregisterConnection(c) applied to (cr, ix): new contents + whether it erased a foreign index
Unreg(cr, ix, c) ==
  LET gs == GetState(cr, c, clock)
      x  == cr[c].client
      hit == gs = "ok" /\ x # "-"
      mine == hit /\ KeyLive(ix[x], clock) /\ ix[x].conn = c
      foreign == hit /\ KeyLive(ix[x], clock) /\ ix[x].conn # c
      del == IF "condIdxDelete" \in fixes THEN mine ELSE hit
  IN [cr |-> [cr EXCEPT ![c] = NoRec],
      ix |-> IF del THEN [ix EXCEPT ![x] = NoIdx] ELSE ix,
      x  |-> x,
      late |-> foreign /\ del]

\* ---- session-layer events ---------------------------------------------------------------
NextConn == LET used == {i \in 1..NConns : cst[ConnName(i)].st # "new"}
            IN IF used = 1..NConns THEN "-" ELSE ConnName(Cardinality(used) + 1)

Connect(n, c) ==
  /\ c = NextConn
  /\ cst' = [cst EXCEPT ![c] = [st |-> "open", node |-> n, auth |-> "-"]]
  /\ UNCHANGED <<connRec, clientIdx, clock, reg, last, hb, alive, dev, lost, age>>
  /\ Log("Connect", n, c, "-")

NeverSeen(x) == last[x] = "-" /\ ~lost[x]
AuthOK(n, c, x, w) ==
  /\ cst[c].st = "open" /\ cst[c].node = n /\ cst[c].auth \in {"-", x}
  /\ w \in {"-", "new"} /\ (w = "new" => cst[c].auth = "-" /\ NeverSeen(x))    \* an identity is issued once
  /\ LET old == reg[n][x]
         evict == old # "-" /\ old # c
         u == IF evict THEN Unreg(connRec, clientIdx, old)
              ELSE [cr |-> connRec, ix |-> clientIdx, x |-> "-", late |-> FALSE]
         byReq == UseRequestId /\ w = "new"                      \* record filled from the request: client id 0
         left == IF KeepCreatedAt /\ GetState(connRec, c, clock) = "ok" THEN TTL - age[c] ELSE TTL
     IN /\ connRec' = [u.cr EXCEPT ![c] = IF left > 0 THEN [node |-> n, client |-> (IF byReq THEN "-" ELSE x), ttl |-> left] ELSE NoRec]
        /\ clientIdx' = IF byReq THEN u.ix ELSE [u.ix EXCEPT ![x] = [conn |-> c, ttl |-> TTL]]
        /\ cst' = [k \in ConnSet |-> IF k = c THEN [cst[c] EXCEPT !.auth = x]
                                      ELSE IF evict /\ k = old THEN [cst[k] EXCEPT !.st = "evicted"]
                                      ELSE cst[k]]
        /\ reg' = [reg EXCEPT ![n][x] = c]
        /\ dev' = [y \in Clients |->
                     IF y = x THEN (IF shape \in Accepted THEN {} ELSE {"shape"})
                                    \cup (IF UseRequestId /\ w = "new" THEN {"unindexed"} ELSE {})
                                    \cup (IF KeepCreatedAt /\ GetState(connRec, c, clock) = "ok" /\ age[c] >= TTL THEN {"bornExpired"} ELSE {})
                     ELSE IF u.late /\ y = u.x THEN dev[y] \cup {"lateCleanup"} ELSE dev[y]]
  /\ last' = [last EXCEPT ![x] = c]
  /\ hb' = [hb EXCEPT ![c] = TRUE]
  /\ alive' = [alive EXCEPT ![c] = TRUE]
  /\ lost' = [lost EXCEPT ![x] = FALSE]
  /\ lkDone' = [lkDone EXCEPT ![x] = FALSE]
  /\ age' = IF cst[c].auth = x THEN age ELSE [age EXCEPT ![c] = 0]
  /\ UNCHANGED <<clock, lk, lkWrote>>
  /\ LogK("Auth", n, c, x, w, FALSE, FALSE)

\* credential check passed, response undeliverable: handleHandshake returns before its registry
\* section, so the failing phase-2 round has no store effect.  Phase 1 of that round (challenge
\* written successfully) has one, as-is, when c is already authenticated as x from an earlier
\* handshake: it re-registers c (reg[n][x] = c holds for such a connection - a later login of x on
\* n would have evicted it - so nothing is evicted).
AuthLost(n, c, x) ==
  /\ cst[c].st = "open" /\ cst[c].node = n /\ cst[c].auth \in {"-", x}
  /\ cst' = [cst EXCEPT ![c].st = "dead"]
  /\ lost' = [lost EXCEPT ![x] = TRUE]
  /\ IF cst[c].auth = x /\ "successOnly" \notin fixes
     THEN /\ connRec' = [connRec EXCEPT ![c] = [node |-> n, client |-> x, ttl |-> TTL]]
          /\ clientIdx' = [clientIdx EXCEPT ![x] = [conn |-> c, ttl |-> TTL]]
          /\ dev' = IF last[x] # c THEN [dev EXCEPT ![x] = @ \cup {"phase1Moves"}] ELSE dev
     ELSE UNCHANGED <<connRec, clientIdx, dev>>
  /\ UNCHANGED <<clock, reg, last, hb, alive, age>>
  /\ Log("AuthLost", n, c, x)

Heartbeat(n, c) ==
  /\ cst[c].st = "open" /\ cst[c].node = n /\ cst[c].auth # "-"
  /\ hb' = [hb EXCEPT ![c] = TRUE]
  /\ LET x == cst[c].auth IN
     IF "hbRefresh" \in fixes /\ GetState(connRec, c, clock) = "ok"
     THEN /\ connRec' = [connRec EXCEPT ![c].ttl = TTL]
          /\ clientIdx' = IF KeyLive(clientIdx[x], clock) /\ clientIdx[x].conn = c
                          THEN [clientIdx EXCEPT ![x].ttl = TTL] ELSE clientIdx
     ELSE UNCHANGED <<connRec, clientIdx>>
  /\ UNCHANGED <<clock, cst, reg, last, alive, dev, lost, age>>
  /\ Log("HB", n, c, cst[c].auth)

\* CloseConnection(c), by cause w
CanClose(n, c, w) ==
  /\ cst[c].node = n
  /\ CASE w = "peer" -> cst[c].st \in {"open", "evicted", "dead"}
       [] w \in {"cmd", "sweep"} -> cst[c].st = "open" /\ cst[c].auth # "-"      \* a registered control connection
       [] w = "kick" -> cst[c].st = "open" /\ cst[c].auth # "-" /\ reg[n][cst[c].auth] = c
CloseEffect(n, c, w) ==
  /\ CanClose(n, c, w)
  /\ LET u == Unreg(connRec, clientIdx, c) x == cst[c].auth IN
     /\ connRec' = u.cr /\ clientIdx' = u.ix
     /\ dev' = IF u.late THEN [dev EXCEPT ![u.x] = @ \cup {"lateCleanup"}] ELSE dev
     /\ reg' = IF x # "-" /\ reg[n][x] = c THEN [reg EXCEPT ![n][x] = "-"] ELSE reg
  /\ cst' = [cst EXCEPT ![c].st = "closed"]
  /\ UNCHANGED <<clock, last, hb, alive, lost, age>>

Superseded(c) == cst[c].auth # "-" /\ last[cst[c].auth] # c
FoundNow(c) == cst[c].auth # "-" /\ Find(cst[c].auth).r = "found"
Close(n, c, w)       == ~Superseded(c) /\ CloseEffect(n, c, w) /\ LogW("Close", n, c, cst[c].auth, w, FoundNow(c))
LateCleanup(n, c, w) == Superseded(c)  /\ CloseEffect(n, c, w) /\ LogW("Late", n, c, cst[c].auth, w, FoundNow(c))

\* ---- FindClientNode as its two storage reads ------------------------------------------------
LkBegin(m, x) ==
  /\ Lookups /\ ~lk.p /\ KeyLive(clientIdx[x], clock)            \* an absent index ends the lookup at once
  /\ lk' = [p |-> TRUE, m |-> m, x |-> x, conn |-> clientIdx[x].conn]
  /\ UNCHANGED <<connRec, clientIdx, clock, cst, reg, last, hb, alive, dev, lost, age, lkDone, lkWrote>>
  /\ LogK("LkBegin", m, "-", x, "-", FALSE, FALSE)

LkEnd(m) ==
  /\ lk.p /\ lk.m = m
  /\ LET x == lk.x
         gone == GetState(connRec, lk.conn, clock) = "notfound"
         idxLive == KeyLive(clientIdx[x], clock)
         overtaken == gone \/ ~idxLive \/ clientIdx[x].conn # lk.conn
         erase == WritingLookup /\ gone /\ idxLive
     IN /\ clientIdx' = IF erase THEN [clientIdx EXCEPT ![x] = NoIdx] ELSE clientIdx
        /\ lkWrote' = (lkWrote \/ erase)
        /\ dev' = IF erase /\ clientIdx[x].conn # lk.conn THEN [dev EXCEPT ![x] = @ \cup {"lookupErased"}] ELSE dev
        /\ lkDone' = [lkDone EXCEPT ![x] = @ \/ overtaken]
        /\ LogK("LkEnd", m, "-", x, "-", FALSE, FALSE)
  /\ lk' = NoLk
  /\ UNCHANGED <<connRec, clock, cst, reg, last, hb, alive, lost, age>>

Tick ==
  /\ clock < MaxClock
  /\ clock' = clock + 1
  /\ alive' = [c \in ConnSet |-> alive[c] /\ (cst[c].st # "open" \/ hb[c])]
  /\ hb' = [c \in ConnSet |-> FALSE]
  /\ dev' = [x \in Clients |->
               LET c == last[x] IN
               IF c # "-" /\ cst[c].st = "open" /\ alive'[c]
                  /\ (connRec[c].ttl = 1 \/ (clientIdx[x].conn = c /\ clientIdx[x].ttl = 1))
               THEN dev[x] \cup {"ttlLapse"} ELSE dev[x]]
  /\ connRec' = [c \in ConnSet |-> IF connRec[c].ttl <= 1 THEN NoRec ELSE [connRec[c] EXCEPT !.ttl = @ - 1]]
  /\ clientIdx' = [x \in Clients |-> IF clientIdx[x].ttl <= 1 THEN NoIdx ELSE [clientIdx[x] EXCEPT !.ttl = @ - 1]]
  /\ age' = [c \in ConnSet |-> IF cst[c].auth # "-" /\ cst[c].st = "open" /\ age[c] < TTL THEN age[c] + 1 ELSE age[c]]
  /\ UNCHANGED <<cst, reg, last, lost>>
  /\ Log("Tick", "-", "-", "-")

Next == \/ Tick
        \/ \E m \in Nodes : LkEnd(m) \/ \E x \in Clients : LkBegin(m, x)
        \/ \E n \in Nodes, c \in ConnSet :
             \/ Connect(n, c) \/ Heartbeat(n, c)
             \/ \E w \in Causes : Close(n, c, w) \/ LateCleanup(n, c, w)
             \/ \E x \in Clients : AuthOK(n, c, x, "-") \/ AuthOK(n, c, x, "new") \/ AuthLost(n, c, x)
Spec == Init /\ [][Next]_vars

Bounded == Len(hist) <= MaxHist

\* ---- the property -------------------------------------------------------------------------
Connected(x) == last[x] # "-" /\ cst[last[x]].st = "open" /\ alive[last[x]]
Right(x) == Find(x) = [r |-> "found", node |-> cst[last[x]].node, conn |-> last[x]]
AllClosed(x) == \A c \in ConnSet : cst[c].auth = x => cst[c].st \in {"closed", "evicted"}

FindLive      == \A x \in Clients : Connected(x) => Right(x)
FindLiveOrDev == \A x \in Clients : Connected(x) => (Right(x) \/ dev[x] # {})
FindClosed    == \A x \in Clients : (last[x] # "-" /\ AllClosed(x)) => Find(x).r # "found"
NoDev         == \A x \in Clients : dev[x] = {}
LookupPure    == ~lkWrote
Repaired      == fixes = AllFixes => (FindLive /\ NoDev)

\* the shared store is one store: every reachable record belongs to a connection that
\* registered, and an index never names a connection of another client
IndexSound == \A x \in Clients : KeyLive(clientIdx[x], clock) => cst[clientIdx[x].conn].auth = x

TypeOK == /\ clock \in 0..MaxClock
          /\ \A c \in ConnSet : cst[c].st \in {"new", "open", "evicted", "dead", "closed"}
          /\ \A x \in Clients : last[x] \in ConnSet \cup {"-"} /\ dev[x] \subseteq {"shape", "lateCleanup", "ttlLapse", "phase1Moves", "lookupErased", "unindexed", "bornExpired"}
=============================================================================
