------------------------------ MODULE ConnState ------------------------------
(* C08 - implementation-shaped model of the cross-node client location registry               *)
(* (internal/protocol/session/connstate.Store as driven by the session layer).                *)
(*                                                                                            *)
(* Nodes share ONE store holding                                                              *)
(*   connRec[c]   = "tunnox:conn_state:<c>"   -> Info{node, client, ExpiresAt}, key TTL       *)
(*   clientIdx[x] = "tunnox:client_conn:<x>"  -> connection id,                 key TTL       *)
(* Every node additionally keeps a LOCAL registry reg[n][x] (session.ClientRegistry).         *)
(*                                                                                            *)
(* Code mapped (one action per session-layer event; histories, not schedules):                *)
(*   Connect(n,c)      SessionManager.AcceptConnection - no registry effect                   *)
(*   AuthOK(n,c,x)     packet_handler_handshake.go after a successful control handshake:      *)
(*                     old := reg[n][x]; if old # c: UnregisterConnection(old), registry      *)
(*                     Remove(old) (closes its stream); UpdateAuth; RegisterConnection(c)     *)
(*   AuthLost(n,c,x)   the same handshake when the credential check passes but the response   *)
(*                     cannot be delivered (peer gone: the client gave up on n and may be     *)
(*                     live elsewhere): handleHandshake returns the write error BEFORE its     *)
(*                     registry section - NOT a successful handshake, nothing is registered;  *)
(*                     the connection is dead and its read loop will end (Close, why=peer).   *)
(*                     BUT the registry section runs after ANY response that was written, if   *)
(*                     the connection object is authenticated: on a connection that already    *)
(*                     completed an earlier handshake as x, the challenge response of phase 1  *)
(*                     (Success=false) is followed by RegisterConnection - the unfinished      *)
(*                     handshake moves x's location (fix "successOnly": register only when     *)
(*                     this handshake round reported success)                                  *)
(*   Heartbeat(n,c)    command_integration.go handleHeartbeat: refreshes the cloud-control    *)
(*                     client state only; connstate.RefreshConnection has NO caller           *)
(*                     (fix "hbRefresh": refresh record + index TTL)                          *)
(*   Close(n,c)        connection_lifecycle.go CloseConnection -> UnregisterConnection(c):    *)
(*                     GetConnectionState(c); if readable and control: Delete(clientIdx[x])   *)
(*                     UNCONDITIONALLY (fix "condIdxDelete": only if it still names c);       *)
(*                     Delete(connRec[c])                                                     *)
(*                     Close carries its CAUSE (field w of the event): "peer" the read loop     *)
(*                     ended (adapter cleanupConnection -> CloseConnection); "cmd" the client  *)
(*                     sent a Disconnect command (handleDisconnectCommand -> CloseConnection);*)
(*                     "sweep" heartbeat timeout: ClientRegistry.CleanupStale removes the      *)
(*                     registry entry FIRST, then calls CloseConnection; "kick"                *)
(*                     KickOldControlConnection removes the entry and closes the stream, the   *)
(*                     read loop then ends -> CloseConnection.  Every cause ends in            *)
(*                     CloseConnection -> UnregisterConnection, so the store effect is one.    *)
(*   LateCleanup(n,c)  the same code path, taken for a connection whose client has meanwhile  *)
(*                     completed a newer handshake (old node notices late)                    *)
(*   AuthOK with w = "new" is the FIRST-CONNECTION handshake: the request carries no client id,   *)
(*                     ServerAuthHandler.handleFirstConnection allocates the identity and      *)
(*                     binds it to the connection; the location record is filled from the      *)
(*                     connection's identity.  UseRequestId = TRUE models filling it from the  *)
(*                     request: client id 0, no index - deviation "unindexed".                 *)
(*                     A re-handshake on a connection whose record is still there re-writes    *)
(*                     the record with a full lifetime counted from NOW.  KeepCreatedAt = TRUE *)
(*                     models deriving the expiry from the connection's first registration     *)
(*                     (age[c]): a connection older than one lifetime gets a record that is    *)
(*                     expired on arrival - deviation "bornExpired".                           *)
(*   LkBegin(m,x) / LkEnd(m)   FindClientNode on node m as the two storage reads it is: read   *)
(*                     the client index (LkBegin), later read the record of the connection it  *)
(*                     named (LkEnd); handshakes elsewhere and cleanups may fall in between.   *)
(*                     A lookup is READ-ONLY (invariant LookupPure).  WritingLookup = TRUE     *)
(*                     models the design that drops a "dangling" index when the record is      *)
(*                     gone: the index may by then belong to a newer connection - deviation    *)
(*                     "lookupErased".  (Lookups = FALSE switches the two-step lookup off; the *)
(*                     instantaneous Find of the invariants is always there.)                  *)
(*   Tick              discrete clock; both keys lose one tick of remaining lifetime and      *)
(*                     vanish at 0 (key TTL and the explicit ExpiresAt check coincide)        *)
(*                                                                                            *)
(* THE THREE WRITING STORE OPERATIONS AT STORAGE-CALL GRANULARITY (round 3).  Every session     *)
(* event above performs its store operation as the sequence of storage calls the code makes     *)
(* (operators HbCall / UnCall / RegCall, one storage call per application):                     *)
(*   RefreshConnection(c)     1 Get record (readable? else give up)   2 Set record, lifetime     *)
(*                            from now   3 Get index (does it still name c?)   4 Set index       *)
(*   UnregisterConnection(c)  1 Get record   2 Get index (names c?)   3 Delete index             *)
(*                            4 Delete record                                                    *)
(*   RegisterConnection(c)    1 Set record   2 Set index                                         *)
(* The atomic events run all calls in one step.  With InFlight = TRUE one operation at a time    *)
(* may also run call by call (OpBegin(kind) does the session-layer part and leaves the store     *)
(* operation parked in front of its first call; OpStep performs one call), with the atomic        *)
(* events of OTHER connections - handshakes of the same client elsewhere, cleanups, heartbeats -   *)
(* in between.  As-is the "check index, then write index" pairs (3,4 of Refresh; 2,3 of           *)
(* Unregister) are not atomic: a handshake elsewhere between check and write lets an old          *)
(* connection's heartbeat point the index back (deviation "staleIdxWrite") or an old               *)
(* connection's cleanup erase the new registration (deviation "staleIdxDelete").  Repairs          *)
(* "atomicRenew" / "atomicDelete" (NOT in the tree: they need a compare-and-set / compare-and-     *)
(* delete the tiered backend does not provide) make the respective pair one step.                 *)
(* Alternative designs of the refresh (constants; every one has a *_show_*.cfg):                   *)
(*   IdxRenew = "checkSet" (as-is) | "cas" index renewed by CompareAndSwap(idx, c, c, ttl): on a    *)
(*              backend whose CAS is a stub (`cas` = FALSE: hybrid.Storage, i.e. every server       *)
(*              wiring) the index is never renewed - deviation "idxNotRenewed" | "blind" Set        *)
(*              without the check: a buffered heartbeat of a superseded connection moves the        *)
(*              client back - deviation "blindRenew" | "none" - "idxNotRenewed"                     *)
(*   RecRenew = "set" (as-is) | "none" record never renewed - "recNotRenewed" | "fromCreated"        *)
(*              lifetime counted from the first registration - "bornExpired"                        *)
(*                                                                                            *)
(* THE OTHER ANSWER TO "WHERE IS CLIENT X": the cloud-control client runtime state                *)
(* (internal/cloud/services/client/state.go over repos/client_state_repository.go, key              *)
(* tunnox:runtime:client:state:<x> in the same shared store), cstate[x] = (node, conn) | none:       *)
(*   ConnectClient(x,n,c)        ServerAuthHandler, when the credential check passes - BEFORE the     *)
(*                               response is written: also an undeliverable handshake (AuthLost)      *)
(*                               moves the state - deviation "stateMovedByLost" (repair               *)
(*                               "stateAfterDelivery", NOT in the tree)                               *)
(*   EnsureClientOnline(x,n,c)   every heartbeat: touches an existing state whatever it names,        *)
(*                               rebuilds a missing one as (n,c) - by a superseded connection's        *)
(*                               heartbeat: deviation "stateRebuiltStale" (needs a missing state,      *)
(*                               i.e. one of the other two deviations first)                          *)
(*   DisconnectClientIfMatch(x,n,c)  RemoveControlConnection / the stale sweep's callback, when the    *)
(*                               registry still has the entry: deletes the state iff it names (n,c).   *)
(*                               KickOldControlConnection drops the entry first, so the close that      *)
(*                               follows leaves the state - deviation "stateKeptByKick" (repair         *)
(*                               "kickDisconnects", NOT in the tree; the method has no caller in the     *)
(*                               server).                                                              *)
(* Its lifetime (90 s against 30 s heartbeats, not configurable) is not modelled.  Deviations of this    *)
(* sub-model are recorded in sdev[x]; invariants StateLive / StateClosed (...OrDev, StateRepaired).      *)
(* ClientState = FALSE switches the sub-model off (cstate stays empty; the invariants hold trivially     *)
(* except StateLive).                                                                                   *)
(*                                                                                            *)
(* Backend: the store hands back what the configured backend returns for connRec:             *)
(*   "ptr" (memory backend: the *Info that was stored), "str" (Redis: JSON string),           *)
(*   "map" (JSON-decoded map).  GetConnectionState type-switches on it and, as-is, has no     *)
(*   case for the pointer (fix "ptrShape").  `cas` = the backend's CompareAndSwap works.       *)
(*                                                                                            *)
(* Every behaviour starts by fixing `shape` (from Shapes), `cas` (from CasSet) and `fixes`       *)
(* (from FixSets), so one TLC run covers every backend and both the as-is and the repaired code. *)
(*                                                                                            *)
(* Deviations from the property are recorded per client in dev[x] (reset by x's next          *)
(* handshake): "shape" (registration stored in a shape lookups cannot read), "lateCleanup"    *)
(* (an unregister erased an index naming another connection), "ttlLapse" (record or index of  *)
(* a heart-beating connection ran out), "phase1Moves" (an unfinished handshake re-registered   *)
(* an older connection over the location of the client's most recent successful handshake),   *)
(* "lookupErased" (a writing lookup dropped an index that had moved on to a newer connection),  *)
(* and the ones named above.                                                                   *)
(*   as-is     (fixes = {}):  FindLive is violated (run ConnState_asis.cfg to see the trace); *)
(*                            FindLiveOrDev, FindClosed hold - every route to a violation     *)
(*                            goes through a named deviation.                                 *)
(*   the tree  (fixes = TreeFixes): atomic events: FindLive, NoDev hold (RepairedTree);         *)
(*                            in-flight operations: FindLiveOrDev - staleIdxWrite/-Delete       *)
(*   repaired  (fixes = all): FindLive, FindClosed, NoDev hold (invariant Repaired).          *)
EXTENDS Naturals, Sequences, FiniteSets, TLC, Json

CONSTANTS Nodes, NConns, Clients,  \* connections c1..cN are used in this order (N <= 4)
          TTL,                     \* registration lifetime in ticks (heartbeat period = 1 tick)
          MaxClock, MaxHist,
          Shapes,                  \* backend shapes explored: subset of {"ptr", "str", "map"}
          CasSet,                  \* backend CompareAndSwap works? subset of BOOLEAN (FALSE = stub, every hybrid wiring)
          FixSets,                 \* sets of repairs explored: subsets of AllFixes
          Causes,                  \* close causes explored: subset of {"peer", "cmd", "sweep", "kick"} (one store effect)
          KeepCreatedAt, UseRequestId,   \* two more alternative designs (see above)
          IdxRenew, RecRenew,      \* design of the heartbeat refresh (see above)
          Lookups, WritingLookup,  \* two-step lookups explored? / the writing-lookup design
          InFlight,                \* store operations running call by call explored?
          ClientState,             \* the cloud-control client runtime state (cstate) modelled? (FALSE: it stays empty)
          Emit, Only               \* Only = "dev": print a behaviour only when its last event records a deviation

VARIABLES shape,    \* what the configured backend hands back for connRec (fixed per behaviour)
          cas,      \* the backend's CompareAndSwap works (fixed per behaviour)
          fixes,    \* which repairs the code has (fixed per behaviour; {} = as-is)
          connRec, clientIdx, clock,
          cst,      \* connection -> [st |-> "new"|"open"|"evicted"|"dead"|"closing"|"closed", node, auth, who]
                    \*   auth = the client that completed a handshake on it; who = the client id the connection object
                    \*   carries (set by the auth handler when the credential check passes, delivered or not)
                    \*   evicted = the server closed its stream (re-login on the node), dead = the peer is gone
                    \*   (a write failed); both still await CloseConnection; closing = CloseConnection is in flight
          reg,      \* node -> client -> connection | "-"          (local ClientRegistry)
          last,     \* ghost: client -> connection of its most recent successful handshake | "-"
          hb,       \* ghost: connection -> handshake or heartbeat seen in the current tick
          alive,    \* ghost: connection -> heart-beaten in every tick since its handshake
          dev,      \* ghost: client -> set of deviation names since its latest handshake
          lost,     \* ghost: client -> an undeliverable handshake of it happened since its latest successful one
          age,      \* ghost: connection -> ticks since its FIRST successful handshake (capped at TTL)
          lk,       \* the lookup in flight (at most one): [p, m, x, conn] - index read, record not yet
          lkDone,   \* ghost: client -> since its latest handshake a lookup completed whose index read was overtaken
          lkWrote,  \* ghost: some lookup modified the store
          op,       \* the store operation in flight (at most one), parked in front of storage call op.pc
          raced,    \* ghost: client -> since its latest handshake (or during it) an in-flight operation of it
                    \*        overlapped another event of the same client
          cstate,   \* client -> cloud-control client runtime state [node, conn] | NoState
          sdev,     \* ghost: client -> deviation names of the client-state sub-model since its latest handshake
          hist
vars == <<shape, cas, fixes, connRec, clientIdx, clock, cst, reg, last, hb, alive, dev, lost, age, lk, lkDone, lkWrote, op, raced, cstate, sdev, hist>>
\* lifetimes are kept as REMAINING ticks, so the state graph without the clock is finite and the
\* exhaustive check covers sessions of any length; the generator keeps the clock to bound sleeps
\* age influences nothing unless KeepCreatedAt / RecRenew (or the "long" generation filter) looks at it
ageV    == IF KeepCreatedAt \/ RecRenew = "fromCreated" \/ Only \in {"long", "longre", "longs", "relong"} THEN age ELSE 0
view    == <<shape, cas, fixes, connRec, clientIdx, cst, reg, last, hb, alive, dev, lost, ageV, lk, lkDone, lkWrote, op, raced, cstate, sdev>>
genview == <<shape, cas, fixes, connRec, clientIdx, clock, cst, reg, last, hb, alive, dev, lost, ageV, lk, lkDone, lkWrote, op, raced, cstate, sdev>>

AllConns == <<"c1", "c2", "c3", "c4">>
ConnName(i) == AllConns[i]
ConnSet == {ConnName(i) : i \in 1..NConns}
NoRec == [node |-> "-", client |-> "-", ttl |-> 0]     \* ttl = remaining lifetime in ticks, 0 = absent
NoIdx == [conn |-> "-", ttl |-> 0]
Fresh == [st |-> "new", node |-> "-", auth |-> "-", who |-> "-"]
NoLk  == [p |-> FALSE, m |-> "-", x |-> "-", conn |-> "-"]
\* k: "-" none | "hb" RefreshConnection | "close" UnregisterConnection | "auth" RegisterConnection
\* x: the client the session layer knows for c; rx: the client the record names (read by call 1 of Unregister)
\* pts: outcome of the "does the index name c" read; w: close cause / "new"; ov: overlapped an event of x
NoState == [node |-> "-", conn |-> "-"]
NoOp  == [k |-> "-", n |-> "-", c |-> "-", x |-> "-", rx |-> "-", pc |-> 0, pts |-> FALSE, w |-> "-", ov |-> FALSE]

AllFixes  == {"ptrShape", "condIdxDelete", "hbRefresh", "successOnly", "atomicRenew", "atomicDelete", "stateAfterDelivery", "kickDisconnects"}
TreeFixes == {"ptrShape", "condIdxDelete", "hbRefresh", "successOnly"}          \* what /repo has (patches C08-1..4)
Init == /\ shape \in Shapes /\ cas \in CasSet /\ fixes \in FixSets
        /\ connRec = [c \in ConnSet |-> NoRec]
        /\ clientIdx = [x \in Clients |-> NoIdx]
        /\ clock = 0
        /\ cst = [c \in ConnSet |-> Fresh]
        /\ reg = [n \in Nodes |-> [x \in Clients |-> "-"]]
        /\ last = [x \in Clients |-> "-"]
        /\ hb = [c \in ConnSet |-> FALSE]
        /\ alive = [c \in ConnSet |-> FALSE]
        /\ dev = [x \in Clients |-> {}]
        /\ lost = [x \in Clients |-> FALSE]
        /\ age = [c \in ConnSet |-> 0]
        /\ lk = NoLk /\ lkDone = [x \in Clients |-> FALSE] /\ lkWrote = FALSE
        /\ op = NoOp /\ raced = [x \in Clients |-> FALSE]
        /\ cstate = [x \in Clients |-> NoState] /\ sdev = [x \in Clients |-> {}]
        /\ hist = <<>>

\* generation filter (evaluated on the step being taken; definitions further down):
\*   "dev"   the step records a deviation of the as-is model
\*   "lost"  an undeliverable handshake while the client is connected elsewhere, or a later
\*           heartbeat / close while that client is still connected
\*   "close" a close by command / kick / stale sweep of the client's last connection while the
\*           lookup still found the client
\*   "lookup" a heartbeat of the client's current connection after a two-step lookup of the client
\*           completed whose index read had been overtaken (handshake elsewhere / cleanup in between)
\*   "long"   a heartbeat or tick at which a client is connected on a connection at least one
\*           registration lifetime old (the session outlives the lifetime)
\*   "longre" a successful re-handshake on such a connection
\*   "first"  a first-connection handshake (server-assigned identity)
\*   "reauth" a successful re-handshake on an already authenticated connection that is not (any
\*           more) where the store locates the client
\*   "race"   the last storage call of an in-flight store operation that overlapped another event of
\*           the same client, the client being connected or all its connections closed afterwards
ConnectedP(x) == last'[x] # "-" /\ cst'[last'[x]].st = "open" /\ alive'[last'[x]]
AllClosedP(x) == \A c \in ConnSet : cst'[c].auth = x => cst'[c].st \in {"closed", "evicted"}
WLost(e)  == \/ e.a = "AuthLost" /\ ConnectedP(e.x)
             \/ e.a \in {"HB", "Close", "Late"} /\ \E x \in Clients : lost'[x] /\ ConnectedP(x)
WClose(e, foundBefore) == e.a \in {"Close", "Late"} /\ e.w # "peer" /\ e.x # "-" /\ foundBefore /\ AllClosedP(e.x)
WLong(e)   == e.a \in {"Tick", "HB"} /\ \E x \in Clients : ConnectedP(x) /\ age'[last'[x]] >= TTL
WLongRe(e) == e.a = "Auth" /\ cst[e.c].auth = e.x /\ age[e.c] >= TTL /\ alive[e.c]
WReauth(e) == e.a = "Auth" /\ cst[e.c].auth = e.x
              /\ (last[e.x] # e.c \/ ~(clientIdx[e.x].ttl > 0 /\ clientIdx[e.x].conn = e.c))
WRace(e)   == e.a = "OpStep" /\ e.w = "end" /\ op.ov /\ e.x # "-" /\ (ConnectedP(e.x) \/ AllClosedP(e.x))
Wanted(e, foundBefore) ==
  CASE Only = "dev"   -> \E x \in Clients : dev'[x] \ dev[x] # {}
    [] Only = "lost"  -> WLost(e)
    [] Only = "close" -> WClose(e, foundBefore)
    [] Only = "lostclose" -> WLost(e) \/ WClose(e, foundBefore)
    [] Only = "lookup" -> e.a = "HB" /\ e.x # "-" /\ lkDone'[e.x] /\ ConnectedP(e.x) /\ last'[e.x] = e.c
    [] Only = "long"   -> WLong(e)
    [] Only = "longre" -> WLongRe(e)
    [] Only = "longs"  -> WLong(e) \/ WLongRe(e)
    [] Only = "relong" -> WLong(e) \/ WLongRe(e) \/ WReauth(e)
    [] Only = "first" -> e.a = "Auth" /\ e.w = "new"
    [] Only = "reauth" -> WReauth(e)
    [] Only = "race"  -> WRace(e)
    [] OTHER -> TRUE
LogK(a, n, c, x, w, foundBefore, keepLk) ==
  LET e == [a |-> a, n |-> n, c |-> c, x |-> x, w |-> w] IN
  /\ IF keepLk THEN UNCHANGED <<lk, lkDone, lkWrote>> ELSE TRUE
  /\ hist' = Append(hist, e)
  /\ shape' = shape /\ cas' = cas /\ fixes' = fixes
  /\ IF Emit /\ Wanted(e, foundBefore) THEN PrintT("BEH " \o ToJson(hist')) ELSE TRUE
LogW(a, n, c, x, w, foundBefore) == LogK(a, n, c, x, w, foundBefore, TRUE)
Log(a, n, c, x) == LogW(a, n, c, x, "-", FALSE)

\* ---- the store as the backend presents it -------------------------------------------------
KeyLive(e, t) == e.ttl > 0
Accepted == {"str", "bytes", "map"} \cup (IF "ptrShape" \in fixes THEN {"ptr"} ELSE {})
\* GetConnectionState on store contents cr at time t: "ok" | "notfound" | "error"
GetState(cr, c, t) == IF ~KeyLive(cr[c], t) THEN "notfound"
                      ELSE IF shape \notin Accepted THEN "error" ELSE "ok"

\* FindClientNode as any node sees it
FindIn(cr, ix, x, t) ==
  IF ~KeyLive(ix[x], t) THEN [r |-> "notfound", node |-> "-", conn |-> "-"]
  ELSE LET c == ix[x].conn gs == GetState(cr, c, t)
       IN IF gs = "ok" THEN [r |-> "found", node |-> cr[c].node, conn |-> c]
          ELSE [r |-> gs, node |-> "-", conn |-> "-"]
Find(x) == FindIn(connRec, clientIdx, x, clock)

\* ---- the three writing store operations, one storage call per application ------------------
\* each returns [o |-> operation after the call, fin |-> it was the last call, cr, ix |-> store after
\* the call, dx |-> client a deviation is charged to, dv |-> deviation names]
Points(ix, x, c) == x # "-" /\ KeyLive(ix[x], clock) /\ ix[x].conn = c
AtomicRenew  == "atomicRenew" \in fixes
AtomicDelete == "atomicDelete" \in fixes
Res(o, fin, cr, ix, dx, dv) == [o |-> o, fin |-> fin, cr |-> cr, ix |-> ix, dx |-> dx, dv |-> dv]

\* RefreshConnection(c): which of the calls 1..4 exist in the configured design
HbIs(pc, pts) == CASE pc = 1 -> TRUE
                   [] pc = 2 -> RecRenew # "none"
                   [] pc = 3 -> IdxRenew \in {"checkSet", "cas"}
                   [] pc = 4 -> IdxRenew = "blind" \/ (IdxRenew = "checkSet" /\ ~AtomicRenew /\ pts)
                   [] OTHER -> FALSE
HbNext(pc, pts) == IF \E q \in (pc + 1)..4 : HbIs(q, pts)
                   THEN CHOOSE q \in (pc + 1)..4 : HbIs(q, pts) /\ \A r \in (pc + 1)..(q - 1) : ~HbIs(r, pts)
                   ELSE 0
HbGo(o, pts, cr, ix, dv) == LET q == HbNext(o.pc, pts) IN
  Res([o EXCEPT !.pc = q, !.pts = pts], q = 0, cr, ix, o.x, dv)
HbCall(o, cr, ix) ==
  LET c == o.c  x == o.x  mine == Points(ix, x, c) IN
  CASE o.pc = 1 ->      \* GetConnectionState(c): gone / unreadable => the refresh gives up
         IF GetState(cr, c, clock) # "ok" THEN Res(o, TRUE, cr, ix, x, {})
         ELSE HbGo(o, FALSE, cr, ix, (IF RecRenew = "none" THEN {"recNotRenewed"} ELSE {})
                                     \cup (IF IdxRenew = "none" /\ mine THEN {"idxNotRenewed"} ELSE {}))
    [] o.pc = 2 ->      \* Set(record, ttl)
         LET left == IF RecRenew = "fromCreated" THEN TTL - age[c] ELSE TTL IN
         HbGo(o, FALSE, [cr EXCEPT ![c] = IF left > 0 THEN [cr[c] EXCEPT !.ttl = left] ELSE NoRec], ix,
              IF left > 0 THEN {} ELSE {"bornExpired"})
    [] o.pc = 3 ->      \* Get(index) | CompareAndSwap(index, c, c, ttl) | (atomicRenew) compare-and-renew
         IF IdxRenew = "cas"
         THEN IF cas THEN HbGo(o, FALSE, cr, IF mine THEN [ix EXCEPT ![x].ttl = TTL] ELSE ix, {})
              ELSE HbGo(o, FALSE, cr, ix, IF mine THEN {"idxNotRenewed"} ELSE {})     \* stub: error, logged only
         ELSE IF AtomicRenew THEN HbGo(o, FALSE, cr, IF mine THEN [ix EXCEPT ![x].ttl = TTL] ELSE ix, {})
         ELSE HbGo(o, mine, cr, ix, {})
    [] o.pc = 4 ->      \* Set(index -> c, ttl): decided by an earlier read (or not at all)
         HbGo(o, o.pts, cr, [ix EXCEPT ![x] = [conn |-> c, ttl |-> TTL]],
              IF last[x] # c THEN {IF IdxRenew = "blind" THEN "blindRenew" ELSE "staleIdxWrite"} ELSE {})

\* UnregisterConnection(c)
UnCall(o, cr, ix) ==
  LET c == o.c  cond == "condIdxDelete" \in fixes IN
  CASE o.pc = 1 ->      \* GetConnectionState(c)
         LET hit == GetState(cr, c, clock) = "ok" /\ cr[c].client # "-" IN
         IF hit THEN Res([o EXCEPT !.rx = cr[c].client, !.pc = IF cond /\ ~AtomicDelete THEN 2 ELSE 3, !.pts = ~cond], FALSE, cr, ix, "-", {})
         ELSE Res([o EXCEPT !.pc = 4], FALSE, cr, ix, "-", {})
    [] o.pc = 2 ->      \* Get(index): does it still name c
         LET mine == Points(ix, o.rx, c) IN
         Res([o EXCEPT !.pts = mine, !.pc = IF mine THEN 3 ELSE 4], FALSE, cr, ix, "-", {})
    [] o.pc = 3 ->      \* Delete(index): unconditional | decided by the earlier read | (atomicDelete) compare-and-delete
         LET del == IF cond /\ AtomicDelete THEN Points(ix, o.rx, c) ELSE TRUE
             foreign == KeyLive(ix[o.rx], clock) /\ ix[o.rx].conn # c
         IN Res([o EXCEPT !.pc = 4], FALSE, cr, IF del THEN [ix EXCEPT ![o.rx] = NoIdx] ELSE ix, o.rx,
                IF del /\ foreign THEN {IF cond THEN "staleIdxDelete" ELSE "lateCleanup"} ELSE {})
    [] OTHER ->         \* Delete(record)
         Res(o, TRUE, [cr EXCEPT ![c] = NoRec], ix, "-", {})

\* RegisterConnection(c) for client o.x on node o.n (o.w = "new": first-connection handshake)
RegCall(o, cr, ix) ==
  LET c == o.c  x == o.x
      byReq == UseRequestId /\ o.w = "new"                      \* record filled from the request: client id 0
  IN
  CASE o.pc = 1 ->      \* Set(record, ttl)
         LET keep == KeepCreatedAt /\ GetState(cr, c, clock) = "ok"
             left == IF keep THEN TTL - age[c] ELSE TTL
         IN Res([o EXCEPT !.pc = 2], byReq,
                [cr EXCEPT ![c] = IF left > 0 THEN [node |-> o.n, client |-> (IF byReq THEN "-" ELSE x), ttl |-> left] ELSE NoRec], ix, x,
                (IF keep /\ age[c] >= TTL THEN {"bornExpired"} ELSE {}) \cup (IF byReq THEN {"unindexed"} ELSE {}))
    [] OTHER ->         \* Set(index -> c, ttl)
         Res(o, TRUE, cr, [ix EXCEPT ![x] = [conn |-> c, ttl |-> TTL]], x, {})

Call(o, cr, ix) == CASE o.k = "hb" -> HbCall(o, cr, ix) [] o.k = "close" -> UnCall(o, cr, ix) [] OTHER -> RegCall(o, cr, ix)

\* running an operation to its end (at most 4 calls)
NoDevs == [x \in Clients |-> {}]
St(o, cr, ix, dvs) == [o |-> o, fin |-> FALSE, cr |-> cr, ix |-> ix, dvs |-> dvs]
Adv(s) == IF s.fin THEN s
          ELSE LET r == Call(s.o, s.cr, s.ix) IN
               [o |-> r.o, fin |-> r.fin, cr |-> r.cr, ix |-> r.ix,
                dvs |-> IF r.dx \in Clients THEN [s.dvs EXCEPT ![r.dx] = @ \cup r.dv] ELSE s.dvs]
Run(o, cr, ix, dvs) == Adv(Adv(Adv(Adv(St(o, cr, ix, dvs)))))
OpOf(k, n, c, x, w) == [NoOp EXCEPT !.k = k, !.n = n, !.c = c, !.x = x, !.pc = 1, !.w = w]

\* ---- in-flight bookkeeping ------------------------------------------------------------------
Busy == op.k # "-"
\* an atomic event on connection c of client x may fall into the window of the operation in flight?
\*   not on the operation's own connection - except the server closing it under a parked heartbeat
\*   (sweep / kick run on other goroutines); no second handshake of a client whose handshake is in flight
MayEv(c, x, a, w) == IF Busy THEN /\ (op.c = c => op.k = "hb" /\ a = "Close" /\ w \in {"sweep", "kick"})
                                  /\ ~(op.k = "auth" /\ a \in {"Auth", "AuthLost"} /\ x = op.x)
                     ELSE TRUE
Touch(x) == op' = IF Busy /\ op.x = x /\ x # "-" THEN [op EXCEPT !.ov = TRUE] ELSE op

\* ---- the cloud-control client runtime state ----------------------------------------------------
\* EnsureClientOnline(x, n, c): every heartbeat of an authenticated control connection
HbState(n, c, x) ==
  IF ClientState /\ cstate[x] = NoState
  THEN /\ cstate' = [cstate EXCEPT ![x] = [node |-> n, conn |-> c]]
       /\ sdev' = IF last[x] \notin {c, "-"} /\ cst[last[x]].st = "open"       \* the client is connected elsewhere
                  THEN [sdev EXCEPT ![x] = @ \cup {"stateRebuiltStale"}] ELSE sdev
  ELSE UNCHANGED <<cstate, sdev>>
\* DisconnectClientIfMatch(who, n, c) in RemoveControlConnection / the sweep callback - if the registry
\* still has the entry of c (a kick has dropped it)
CloseState(n, c, w) ==
  LET x == cst[c].who
      entry == w # "kick" \/ "kickDisconnects" \in fixes IN
  IF ClientState /\ x # "-" /\ cstate[x] = [node |-> n, conn |-> c]
  THEN IF entry THEN cstate' = [cstate EXCEPT ![x] = NoState] /\ UNCHANGED sdev
       ELSE UNCHANGED cstate /\ sdev' = [sdev EXCEPT ![x] = @ \cup {"stateKeptByKick"}]
  ELSE UNCHANGED <<cstate, sdev>>

\* ---- session-layer events ---------------------------------------------------------------
NextConn == LET used == {i \in 1..NConns : cst[ConnName(i)].st # "new"}
            IN IF used = 1..NConns THEN "-" ELSE ConnName(Cardinality(used) + 1)

Connect(n, c) ==
  /\ c = NextConn
  /\ cst' = [cst EXCEPT ![c] = [st |-> "open", node |-> n, auth |-> "-", who |-> "-"]]
  /\ UNCHANGED <<connRec, clientIdx, clock, reg, last, hb, alive, dev, lost, age, op, raced, cstate, sdev>>
  /\ Log("Connect", n, c, "-")

NeverSeen(x) == last[x] = "-" /\ ~lost[x]
AuthGuard(n, c, x, w) ==
  /\ cst[c].st = "open" /\ cst[c].node = n /\ cst[c].auth \in {"-", x}
  /\ w \in {"-", "new"} /\ (w = "new" => cst[c].auth = "-" /\ NeverSeen(x))    \* an identity is issued once
\* the session-layer part of a successful handshake and the eviction of the node's older connection of x
\* (UnregisterConnection(old), all its calls); u = the store after it
AuthSession(n, c, x, u, evict, old) ==
  /\ cst' = [k \in ConnSet |-> IF k = c THEN [cst[c] EXCEPT !.auth = x, !.who = x]
                                ELSE IF evict /\ k = old THEN [cst[k] EXCEPT !.st = "evicted"]
                                ELSE cst[k]]
  /\ reg' = [reg EXCEPT ![n][x] = c]
  /\ last' = [last EXCEPT ![x] = c]
  /\ hb' = [hb EXCEPT ![c] = TRUE]
  /\ alive' = [alive EXCEPT ![c] = TRUE]
  /\ lost' = [lost EXCEPT ![x] = FALSE]
  /\ lkDone' = [lkDone EXCEPT ![x] = FALSE]
  /\ age' = IF cst[c].auth = x THEN age ELSE [age EXCEPT ![c] = 0]
  /\ cstate' = IF ClientState THEN [cstate EXCEPT ![x] = [node |-> n, conn |-> c]] ELSE cstate        \* ConnectClient
  /\ sdev' = [sdev EXCEPT ![x] = {}]
  /\ UNCHANGED <<clock, lk, lkWrote>>
AuthDev(x, dvs) == [y \in Clients |-> IF y = x THEN (IF shape \in Accepted THEN {} ELSE {"shape"}) \cup dvs[x]
                                      ELSE dev[y] \cup dvs[y]]
AuthOK(n, c, x, w) ==
  /\ AuthGuard(n, c, x, w) /\ MayEv(c, x, "Auth", w)
  /\ LET old == reg[n][x]
         evict == old # "-" /\ old # c
         u == IF evict THEN Run(OpOf("close", n, old, x, "-"), connRec, clientIdx, NoDevs)
              ELSE St(NoOp, connRec, clientIdx, NoDevs)
         r == Run(OpOf("auth", n, c, x, w), u.cr, u.ix, [u.dvs EXCEPT ![x] = {}])
     IN /\ connRec' = r.cr /\ clientIdx' = r.ix
        /\ dev' = AuthDev(x, r.dvs)
        /\ AuthSession(n, c, x, u, evict, old)
  /\ Touch(x) /\ raced' = [raced EXCEPT ![x] = FALSE]
  /\ LogK("Auth", n, c, x, w, FALSE, FALSE)

\* credential check passed, response undeliverable: handleHandshake returns before its registry
\* section, so the failing phase-2 round has no store effect.  Phase 1 of that round (challenge
\* written successfully) has one, as-is, when c is already authenticated as x from an earlier
\* handshake: it re-registers c (reg[n][x] = c holds for such a connection - a later login of x on
\* n would have evicted it - so nothing is evicted).
AuthLost(n, c, x) ==
  /\ cst[c].st = "open" /\ cst[c].node = n /\ cst[c].auth \in {"-", x} /\ MayEv(c, x, "AuthLost", "-")
  /\ cst' = [cst EXCEPT ![c].st = "dead", ![c].who = x]
  /\ lost' = [lost EXCEPT ![x] = TRUE]
  /\ IF cst[c].auth = x /\ "successOnly" \notin fixes
     THEN /\ connRec' = [connRec EXCEPT ![c] = [node |-> n, client |-> x, ttl |-> TTL]]
          /\ clientIdx' = [clientIdx EXCEPT ![x] = [conn |-> c, ttl |-> TTL]]
          /\ dev' = IF last[x] # c THEN [dev EXCEPT ![x] = @ \cup {"phase1Moves"}] ELSE dev
     ELSE UNCHANGED <<connRec, clientIdx, dev>>
  /\ Touch(x)
  /\ IF ~ClientState \/ "stateAfterDelivery" \in fixes THEN UNCHANGED <<cstate, sdev>>
     ELSE /\ cstate' = [cstate EXCEPT ![x] = [node |-> n, conn |-> c]]      \* ConnectClient ran before the write failed
          /\ sdev' = IF last[x] # c THEN [sdev EXCEPT ![x] = @ \cup {"stateMovedByLost"}] ELSE sdev
  /\ UNCHANGED <<clock, reg, last, hb, alive, age, raced>>
  /\ Log("AuthLost", n, c, x)

HbGuard(n, c) == cst[c].st = "open" /\ cst[c].node = n /\ cst[c].auth # "-"
Heartbeat(n, c) ==
  /\ HbGuard(n, c) /\ MayEv(c, cst[c].auth, "HB", "-")
  /\ hb' = [hb EXCEPT ![c] = TRUE]
  /\ LET x == cst[c].auth
         r == IF "hbRefresh" \in fixes THEN Run(OpOf("hb", n, c, x, "-"), connRec, clientIdx, NoDevs)
              ELSE St(NoOp, connRec, clientIdx, NoDevs)
     IN /\ connRec' = r.cr /\ clientIdx' = r.ix
        /\ dev' = [y \in Clients |-> dev[y] \cup r.dvs[y]]
        /\ Touch(x)
        /\ HbState(n, c, x)
  /\ UNCHANGED <<clock, cst, reg, last, alive, lost, age, raced>>
  /\ Log("HB", n, c, cst[c].auth)

\* CloseConnection(c), by cause w
CanClose(n, c, w) ==
  /\ cst[c].node = n
  /\ CASE w = "peer" -> cst[c].st \in {"open", "evicted", "dead"}
       [] w \in {"cmd", "sweep"} -> cst[c].st = "open" /\ cst[c].auth # "-"      \* a registered control connection
       [] w = "kick" -> cst[c].st = "open" /\ cst[c].auth # "-" /\ reg[n][cst[c].auth] = c
CloseEffect(n, c, w) ==
  /\ CanClose(n, c, w) /\ MayEv(c, cst[c].auth, "Close", w)
  /\ LET x == cst[c].auth
         r == Run(OpOf("close", n, c, x, w), connRec, clientIdx, NoDevs) IN
     /\ connRec' = r.cr /\ clientIdx' = r.ix
     /\ dev' = [y \in Clients |-> dev[y] \cup r.dvs[y]]
     /\ reg' = IF x # "-" /\ reg[n][x] = c THEN [reg EXCEPT ![n][x] = "-"] ELSE reg
     /\ Touch(x)
  /\ CloseState(n, c, w)
  /\ cst' = [cst EXCEPT ![c].st = "closed"]
  /\ UNCHANGED <<clock, last, hb, alive, lost, age, raced>>

Superseded(c) == cst[c].auth # "-" /\ last[cst[c].auth] # c
FoundNow(c) == cst[c].auth # "-" /\ Find(cst[c].auth).r = "found"
Close(n, c, w)       == ~Superseded(c) /\ CloseEffect(n, c, w) /\ LogW("Close", n, c, cst[c].auth, w, FoundNow(c))
LateCleanup(n, c, w) == Superseded(c)  /\ CloseEffect(n, c, w) /\ LogW("Late", n, c, cst[c].auth, w, FoundNow(c))

\* ---- the same events with their store operation running call by call -------------------------
\* OpBegin: the session-layer part; the store operation is left parked in front of its first call
CanBegin == InFlight /\ ~Busy /\ ~lk.p
BeginHb(n, c) ==
  /\ CanBegin /\ HbGuard(n, c) /\ "hbRefresh" \in fixes
  /\ hb' = [hb EXCEPT ![c] = TRUE]
  /\ op' = OpOf("hb", n, c, cst[c].auth, "-")
  /\ HbState(n, c, cst[c].auth)
  /\ UNCHANGED <<connRec, clientIdx, clock, cst, reg, last, alive, dev, lost, age, raced>>
  /\ LogW("OpBegin", n, c, cst[c].auth, "hb", FALSE)
BeginClose(n, c, w) ==
  /\ CanBegin /\ CanClose(n, c, w)
  /\ LET x == cst[c].auth IN
     /\ reg' = IF x # "-" /\ reg[n][x] = c THEN [reg EXCEPT ![n][x] = "-"] ELSE reg
     /\ op' = OpOf("close", n, c, x, w)
  /\ cst' = [cst EXCEPT ![c].st = "closing"]
  /\ CloseState(n, c, w)
  /\ UNCHANGED <<connRec, clientIdx, clock, last, hb, alive, dev, lost, age, raced>>
  /\ LogW("OpBegin", n, c, cst[c].auth, w, FALSE)
BeginAuth(n, c, x) ==
  /\ CanBegin /\ AuthGuard(n, c, x, "-")
  /\ LET old == reg[n][x]
         evict == old # "-" /\ old # c
         u == IF evict THEN Run(OpOf("close", n, old, x, "-"), connRec, clientIdx, NoDevs)
              ELSE St(NoOp, connRec, clientIdx, NoDevs)
     IN /\ connRec' = u.cr /\ clientIdx' = u.ix
        /\ dev' = AuthDev(x, [u.dvs EXCEPT ![x] = {}])
        /\ AuthSession(n, c, x, u, evict, old)
  /\ op' = OpOf("auth", n, c, x, "-")
  /\ raced' = [raced EXCEPT ![x] = FALSE]
  /\ LogK("OpBegin", n, c, x, "auth", FALSE, FALSE)
\* OpStep: the next storage call of the operation in flight
OpStep ==
  /\ Busy
  /\ UNCHANGED <<clock, reg, last, hb, alive, lost, age, cstate, sdev>>
  /\ LET r == Call(op, connRec, clientIdx) IN
     /\ connRec' = r.cr /\ clientIdx' = r.ix
     /\ dev' = IF r.dx \in Clients THEN [dev EXCEPT ![r.dx] = @ \cup r.dv] ELSE dev
     /\ op' = IF r.fin THEN NoOp ELSE r.o
     /\ cst' = IF r.fin /\ op.k = "close" THEN [cst EXCEPT ![op.c].st = "closed"] ELSE cst
     /\ raced' = IF r.fin /\ op.x # "-" THEN [raced EXCEPT ![op.x] = @ \/ op.ov] ELSE raced
     /\ LogW("OpStep", op.n, op.c, op.x, IF r.fin THEN "end" ELSE "-", FALSE)

\* ---- FindClientNode as its two storage reads ------------------------------------------------
LkBegin(m, x) ==
  /\ Lookups /\ ~lk.p /\ ~Busy /\ KeyLive(clientIdx[x], clock)            \* an absent index ends the lookup at once
  /\ lk' = [p |-> TRUE, m |-> m, x |-> x, conn |-> clientIdx[x].conn]
  /\ UNCHANGED <<connRec, clientIdx, clock, cst, reg, last, hb, alive, dev, lost, age, lkDone, lkWrote, op, raced, cstate, sdev>>
  /\ LogK("LkBegin", m, "-", x, "-", FALSE, FALSE)

LkEnd(m) ==
  /\ lk.p /\ lk.m = m
  /\ lk' = NoLk
  /\ UNCHANGED <<connRec, clock, cst, reg, last, hb, alive, lost, age, op, raced, cstate, sdev>>
  /\ LET x == lk.x
         gone == GetState(connRec, lk.conn, clock) = "notfound"
         idxLive == KeyLive(clientIdx[x], clock)
         overtaken == gone \/ ~idxLive \/ clientIdx[x].conn # lk.conn
         erase == WritingLookup /\ gone /\ idxLive
     IN /\ clientIdx' = IF erase THEN [clientIdx EXCEPT ![x] = NoIdx] ELSE clientIdx
        /\ lkWrote' = (lkWrote \/ erase)
        /\ dev' = IF erase /\ clientIdx[x].conn # lk.conn THEN [dev EXCEPT ![x] = @ \cup {"lookupErased"}] ELSE dev
        /\ lkDone' = [lkDone EXCEPT ![x] = @ \/ overtaken]
        /\ LogK("LkEnd", m, "-", x, "-", FALSE, FALSE)

Tick ==
  /\ clock < MaxClock /\ ~Busy
  /\ clock' = clock + 1
  /\ alive' = [c \in ConnSet |-> alive[c] /\ (cst[c].st # "open" \/ hb[c])]
  /\ hb' = [c \in ConnSet |-> FALSE]
  /\ dev' = [x \in Clients |->
               LET c == last[x] IN
               IF c # "-" /\ cst[c].st = "open" /\ alive'[c]
                  /\ (connRec[c].ttl = 1 \/ (clientIdx[x].conn = c /\ clientIdx[x].ttl = 1))
               THEN dev[x] \cup {"ttlLapse"} ELSE dev[x]]
  /\ connRec' = [c \in ConnSet |-> IF connRec[c].ttl <= 1 THEN NoRec ELSE [connRec[c] EXCEPT !.ttl = @ - 1]]
  /\ clientIdx' = [x \in Clients |-> IF clientIdx[x].ttl <= 1 THEN NoIdx ELSE [clientIdx[x] EXCEPT !.ttl = @ - 1]]
  /\ age' = [c \in ConnSet |-> IF cst[c].auth # "-" /\ cst[c].st = "open" /\ age[c] < TTL THEN age[c] + 1 ELSE age[c]]
  /\ UNCHANGED <<cst, reg, last, lost, op, raced, cstate, sdev>>
  /\ Log("Tick", "-", "-", "-")

Next == \/ Tick
        \/ OpStep
        \/ \E m \in Nodes : LkEnd(m) \/ \E x \in Clients : LkBegin(m, x)
        \/ \E n \in Nodes, c \in ConnSet :
             \/ Connect(n, c) \/ Heartbeat(n, c) \/ BeginHb(n, c)
             \/ \E w \in Causes : Close(n, c, w) \/ LateCleanup(n, c, w) \/ BeginClose(n, c, w)
             \/ \E x \in Clients : AuthOK(n, c, x, "-") \/ AuthOK(n, c, x, "new") \/ AuthLost(n, c, x) \/ BeginAuth(n, c, x)
Spec == Init /\ [][Next]_vars

Bounded == Len(hist) <= MaxHist

\* ---- the property -------------------------------------------------------------------------
\* nothing is demanded for a client while a store operation of one of its connections is in flight
\* (its handshake / close has begun but not ended)
Quiet(x) == ~(Busy /\ op.x = x)
Connected(x) == last[x] # "-" /\ cst[last[x]].st = "open" /\ alive[last[x]]
Right(x) == Find(x) = [r |-> "found", node |-> cst[last[x]].node, conn |-> last[x]]
AllClosed(x) == \A c \in ConnSet : cst[c].auth = x => cst[c].st \in {"closed", "evicted"}

FindLive      == \A x \in Clients : (Connected(x) /\ Quiet(x)) => Right(x)
FindLiveOrDev == \A x \in Clients : (Connected(x) /\ Quiet(x)) => (Right(x) \/ dev[x] # {})
FindClosed    == \A x \in Clients : (last[x] # "-" /\ AllClosed(x) /\ Quiet(x)) => Find(x).r # "found"
NoDev         == \A x \in Clients : dev[x] = {}
LookupPure    == ~lkWrote
Repaired      == fixes = AllFixes => (FindLive /\ NoDev)
\* the tree as it is: sound for atomic events; with store operations in flight only through the two
\* check-then-write deviations
RepairedTree  == fixes = TreeFixes => IF InFlight THEN \A x \in Clients : dev[x] \subseteq {"staleIdxWrite", "staleIdxDelete"}
                                      ELSE FindLive /\ NoDev

\* the client runtime state
StateRight(x) == cstate[x] = [node |-> cst[last[x]].node, conn |-> last[x]]
StateLive        == ClientState => \A x \in Clients : (Connected(x) /\ Quiet(x)) => StateRight(x)
StateLiveOrDev   == ClientState => \A x \in Clients : (Connected(x) /\ Quiet(x)) => (StateRight(x) \/ sdev[x] # {})
StateClosed      == \A x \in Clients : (last[x] # "-" /\ AllClosed(x) /\ Quiet(x)) => cstate[x] = NoState
StateClosedOrDev == \A x \in Clients : (last[x] # "-" /\ AllClosed(x) /\ Quiet(x)) => (cstate[x] = NoState \/ sdev[x] # {})
StateRepaired    == {"stateAfterDelivery", "kickDisconnects"} \subseteq fixes =>
                      (StateLive /\ StateClosed /\ \A x \in Clients : sdev[x] = {})

\* the shared store is one store: every reachable record belongs to a connection that
\* registered, and an index never names a connection of another client
IndexSound == \A x \in Clients : KeyLive(clientIdx[x], clock) => cst[clientIdx[x].conn].auth = x

DevNames == {"shape", "lateCleanup", "ttlLapse", "phase1Moves", "lookupErased", "unindexed", "bornExpired",
             "staleIdxWrite", "staleIdxDelete", "idxNotRenewed", "recNotRenewed", "blindRenew"}
TypeOK == /\ clock \in 0..MaxClock
          /\ \A c \in ConnSet : cst[c].st \in {"new", "open", "evicted", "dead", "closing", "closed"}
          /\ \A x \in Clients : last[x] \in ConnSet \cup {"-"} /\ dev[x] \subseteq DevNames
          /\ op.k \in {"-", "hb", "close", "auth"} /\ op.pc \in 0..4
          /\ \A x \in Clients : sdev[x] \subseteq {"stateMovedByLost", "stateRebuiltStale", "stateKeptByKick"}
=============================================================================
