CONSTANTS
  Keys = @@KEYS@@
  Vals = {"a", "b"}
  NP = @@NP@@
  NOps = @@NOPS@@
  Emit = TRUE
INIT Init
NEXT Next
INVARIANT Done
CHECK_DEADLOCK FALSE
