INIT Init
NEXT Next
POSTCONDITION Consumed
CHECK_DEADLOCK FALSE
