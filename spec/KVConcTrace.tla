---------------------------- MODULE KVConcTrace ----------------------------
(* C13 judge for concurrent histories ("under concurrent callers each operation appears to   *)
(* take effect atomically"): linearizability w.r.t. the reference KVRef, decided by a          *)
(* deterministic powerset construction.  `poss` is the set of configurations                   *)
(*   [st |-> reference store, pend |-> pending calls: p -> [o, d (linearized?), r (its result)]] *)
(* still compatible with the events seen so far.  Events (file order = real-time order of a     *)
(* global atomic sequence number taken before each call and after each return):                 *)
(*   Call [p, o]     Ret [p, res]     Fatal [msg]  (the Go runtime killed the process)          *)
EXTENDS KVRef, VLib

AllKeys == {"s1", "s2", "l1", "l2", "h1", "c1"}
VARIABLES poss, dead
vars == <<l, viol, poss, dead>>

Fresh == {[st |-> [k \in AllKeys |-> NoneOf(k)], pend |-> <<>>]}
Init == l = 1 /\ viol = {} /\ poss = Fresh /\ dead = FALSE

\* linearize one not-yet-linearized pending call of configuration c
Lin1(c) == { LET a == Apply(c.st, 0, c.pend[p].o)
             IN [st |-> a.st, pend |-> [c.pend EXCEPT ![p] = [o |-> c.pend[p].o, d |-> TRUE, r |-> a.res]]]
             : p \in {q \in DOMAIN c.pend : ~c.pend[q].d} }
RECURSIVE Close(_)
Close(S) == LET N == S \cup UNION {Lin1(c) : c \in S} IN IF N = S THEN S ELSE Close(N)

AddPend(c, p, o) == [c EXCEPT !.pend = [q \in DOMAIN c.pend \cup {p} |-> IF q = p THEN [o |-> o, d |-> FALSE, r |-> NF] ELSE c.pend[q]]]
DropPend(c, p) == [c EXCEPT !.pend = [q \in DOMAIN c.pend \ {p} |-> c.pend[q]]]

TrCall == /\ Is("Call")
          /\ poss' = IF dead THEN poss ELSE {AddPend(c, Ev.p, Ev.o) : c \in poss}
          /\ l' = l + 1 /\ UNCHANGED <<viol, dead>>

TrRet == /\ Is("Ret")
         /\ IF dead THEN UNCHANGED <<poss, viol, dead>>
            ELSE LET ok == {c \in Close(poss) : c.pend[Ev.p].d /\ Same(c.pend[Ev.p].o, c.pend[Ev.p].r, Ev.res)}
                 IN IF ok = {}
                    THEN /\ viol' = viol \cup {V("NotLinearizable", Ev.be \o ":" \o Ev.o.op)}
                         /\ dead' = TRUE /\ poss' = poss
                    ELSE /\ poss' = {DropPend(c, Ev.p) : c \in ok}
                         /\ UNCHANGED <<viol, dead>>
         /\ l' = l + 1

\* the runtime's own verdict of a non-atomic access ("concurrent map read and map write" etc.)
TrFatal == /\ Is("Fatal")
           /\ viol' = viol \cup {V("NotAtomic", Ev.be \o ":" \o Ev.what)}
           /\ l' = l + 1 /\ UNCHANGED <<poss, dead>>

TrEnd == /\ Is("End") /\ EmitVerdict
         /\ l' = l + 1 /\ viol' = {} /\ poss' = Fresh /\ dead' = FALSE

Next == TrCall \/ TrRet \/ TrFatal \/ TrEnd
Spec == Init /\ [][Next]_vars
=============================================================================
