---------------------------- MODULE KVConcTrace ----------------------------
(* C13 judge for concurrent histories ("under concurrent callers each operation appears to   *)
(* take effect atomically"): linearizability w.r.t. the reference KVRef, decided by a          *)
(* deterministic powerset construction.  `poss` is the set of configurations                   *)
(*   [st |-> reference store, pend |-> pending calls: p -> [o, d (linearized?), r (its result)]] *)
(* still compatible with the events seen so far.  Events (file order = real-time order of a     *)
(* global atomic sequence number taken before each call and after each return):                 *)
(*   Call [p, o]     Ret [p, res]     Fatal [msg]  (the Go runtime killed the process)          *)
EXTENDS KVRef, VLib

AllKeys == {"s1", "s2", "l1", "l2", "h1", "c1"}
VARIABLES poss, dead
vars == <<l, viol, poss, dead>>

Fresh == {[st |-> [k \in AllKeys |-> NoneOf(k)], pend |-> <<>>]}
Init == l = 1 /\ viol = {} /\ poss = Fresh /\ dead = FALSE

\* linearize one not-yet-linearized pending call of configuration c
Lin1(c) == { LET a == Apply(c.st, 0, c.pend[p].o)
             IN [st |-> a.st, pend |-> [c.pend EXCEPT ![p] = [o |-> c.pend[p].o, d |-> TRUE, r |-> a.res]]]
             : p \in {q \in DOMAIN c.pend : ~c.pend[q].d} }
RECURSIVE Close(_)
Close(S) == LET N == S \cup UNION {Lin1(c) : c \in S} IN IF N = S THEN S ELSE Close(N)

AddPend(c, p, o) == [c EXCEPT !.pend = [q \in DOMAIN c.pend \cup {p} |-> IF q = p THEN [o |-> o, d |-> FALSE, r |-> NF] ELSE c.pend[q]]]
DropPend(c, p) == [c EXCEPT !.pend = [q \in DOMAIN c.pend \ {p} |-> c.pend[q]]]

TrCall == /\ Is("Call")
          /\ poss' = IF dead THEN poss ELSE {AddPend(c, Ev.p, Ev.o) : c \in poss}
          /\ l' = l + 1 /\ UNCHANGED <<viol, dead>>

TrRet == /\ Is("Ret")
         /\ IF dead THEN UNCHANGED <<poss, viol, dead>>
            ELSE LET ok == {c \in Close(poss) : c.pend[Ev.p].d /\ Same(c.pend[Ev.p].o, c.pend[Ev.p].r, Ev.res)}
                 IN IF ok = {}
                    THEN /\ viol' = viol \cup {V("NotLinearizable", Ev.be \o ":" \o Ev.o.op)}
                         /\ dead' = TRUE /\ poss' = poss
                    ELSE /\ poss' = {DropPend(c, Ev.p) : c \in ok}
                         /\ UNCHANGED <<viol, dead>>
         /\ l' = l + 1

\* the runtime's own verdict of a non-atomic access ("concurrent map read and map write" etc.)
TrFatal == /\ Is("Fatal")
           /\ viol' = viol \cup {V("NotAtomic", Ev.be \o ":" \o Ev.what)}
           /\ l' = l + 1 /\ UNCHANGED <<poss, dead>>

\* Race [be, kind, n, trues, distinct, final]: n callers released together issue the same kind of
\* operation on one fresh key (SetNX with n different values / CAS from the same old value to n
\* different new values / IncrBy 1 / Append of n different members); the driver reports how many
\* were answered TRUE, whether all integer answers were distinct, and what a read afterwards saw
\* (counter value / list length).  What any sequential order of the n operations yields is
\* computed from the reference; for these symmetric operations every order gives the same counts.
RECURSIVE SeqTrues(_, _, _)
SeqTrues(st, ops, i) == IF i > Len(ops) THEN 0
                        ELSE LET a == Apply(st, 0, ops[i])
                             IN (IF a.res.t = "bool" /\ a.res.v THEN 1 ELSE 0) + SeqTrues(a.st, ops, i + 1)
RECURSIVE SeqFinal(_, _, _)
SeqFinal(st, ops, i) == IF i > Len(ops) THEN st ELSE SeqFinal(Apply(st, 0, ops[i]).st, ops, i + 1)
RaceOps(kind, n) == [i \in 1..n |->
   CASE kind = "SetNX"  -> [op |-> "SetNX", k |-> "s1", v |-> "a", ttl |-> "0"]
     [] kind = "CAS"    -> [op |-> "CAS", k |-> "s1", old |-> "nil", v |-> "a", ttl |-> "0"]
     [] kind = "IncrBy" -> [op |-> "IncrBy", k |-> "c1", n |-> 1]
     [] kind = "Append" -> [op |-> "Append", k |-> "l1", v |-> "a"]
     [] kind = "ExpSet" -> [op |-> "Get", k |-> "s1"]
     [] kind = "GetMut" -> [op |-> "Get", k |-> "s1"]]
Fresh0 == [k \in AllKeys |-> NoneOf(k)]
TrRace == /\ Is("Race")
          /\ LET ops == RaceOps(Ev.kind, Ev.n)
                 fin == SeqFinal(Fresh0, ops, 1)
                 good == CASE Ev.kind \in {"SetNX", "CAS"} -> Ev.trues = SeqTrues(Fresh0, ops, 1)
                           [] Ev.kind = "IncrBy" -> Ev.distinct /\ Ev.final = fin["c1"].v
                           [] Ev.kind = "Append" -> Ev.final = Len(fin["l1"].v)
                           \* ExpSet: the key holds an EXPIRED (unswept) entry; two callers write over it (round by round Set / SetNX /
                           \* CAS(nil -> v) / IncrBy / SetHash / Append - on an expired entry each creates the key anew, and the second
                           \* writer leaves it live) while the others only read it (GetExpiration / GetHash / GetAllHash, which evict in a
                           \* second section - spec/MemImpl.tla RdEvict - and Get / Exists / GetList).  Reads are pure in the reference
                           \* (KV.tla ReadsArePure, GhostsInvisible), so in every linearization the key is live afterwards:
                           \* final = 1 means Exists after the round said so.
                           [] Ev.kind = "ExpSet" -> Ev.final = 1
                           \* GetMut: the key holds a live value for the whole round; some callers change its lifetime between
                           \* never and long (SetExp / CAS to the same value - Apply keeps the entry present and live in both),
                           \* the others Get / Exists it repeatedly.  In every linearization every read finds it:
                           \* trues = number of callers whose reads all found the key (the mutators count as TRUE).
                           [] Ev.kind = "GetMut" -> Ev.trues = Ev.n
             IN viol' = IF good THEN viol ELSE viol \cup {V("NotAtomic", Ev.be \o ":race:" \o Ev.kind)}
          /\ l' = l + 1 /\ UNCHANGED <<poss, dead>>

TrEnd == /\ Is("End") /\ EmitVerdict
         /\ l' = l + 1 /\ viol' = {} /\ poss' = Fresh /\ dead' = FALSE

Next == TrCall \/ TrRet \/ TrFatal \/ TrRace \/ TrEnd
Spec == Init /\ [][Next]_vars
=============================================================================
