\* C19 - deviation nxTakenRelease (neighbour of C19-r3m1): the index rollback also runs on the "name is taken" outcome of the SetNX.
\* Expected: Invariant Consistent / NoIndexTheft is violated - every refused claim of an owned name frees it.
\*   tlc -config Domain_show_nxtaken.cfg Domain.tla      (the same constants with Deviate = {} pass: `./check C19`)
CONSTANTS
  ProcsC1 = {"p1"}
  ProcsC2 = {"p2"}
  LookProcs = {"lk"}
  Names = {"n1"}
  MaxOps = 2
  MaxLook = 1
  Kinds = {"Create", "Delete"}
  Pre = TRUE
  Faults = 1
  Guess = FALSE
  HandlerProcs = {"p1"}
  Serial = TRUE
  MaxLegacy = 0
  Fix = TRUE
  Spell = {"plain"}
  CaseFold = TRUE
  OnlyDelete = {}
  OnlyCreate = {}
  Deviate = {"nxTakenRelease"}
  DelFaults = TRUE
  CreateFaults = TRUE
  ReadFaults = FALSE
  TTLRollback = TRUE
  UpdFields = {"inactive", "expired"}
  LegStatus = {"active"}
  OnlyList = {}
  Emit = FALSE
INIT Init
NEXT Next
VIEW view
INVARIANTS TypeOK OneOwner Consistent NoIndexTheft
CHECK_DEADLOCK FALSE
