\* C05 named deviation (seeded C05-r3m1 and its neighbours): ReadPacket hands the body copy - a slice made with
\* make, capacity = body length - to bufferMgr.Release.  TLC must report PoolSound / NoPanic violated: the slice is
\* filed under the 4 KiB class of its capacity and a later, longer Get on ANOTHER thread re-slices it beyond its end.
\* SITE = one of "enc" "gunzip" "gunzipErr" "json" "jsonErr" "payload"
CONSTANTS
  MaxFrames = 2
  MaxConns = 1
  NThreads = 2
  RelSites = {"@@SITE@@"}
  LeakAt = {}
  KeepAt = {}
  Answers = {"refused"}
  Emit = FALSE
SPECIFICATION Spec
INVARIANTS TypeOK @@INV@@
CHECK_DEADLOCK FALSE
