\* (extension module SessionReg: the same operations plus CloseCmd = disconnect announced by the client)
\* C07 registry operations: 3 connections x 2 clients; accept, first login, correct login
\* (control / tunnel type; includes re-authentication under a second id), close, kick,
\* heartbeat, heartbeat-timeout sweep, unregister-for-tunnel, and Knock = a handshake that fails
\* (registered but unauthenticated control connections, which the sweep must evict completely too).
\* INV = C07Inv C07One (Fixes = {"oneIdentity"}) or C07InvMasked C07OneMasked (Fixes = {}: the code before patches/C07-1).
CONSTANTS
  Conn <- Conn3
  Client <- Client2
  MaxNonce = 3
  MaxFail = 3
  MaxCtl = 0
  Faults = {}
  Ops = {"Accept", "FirstLogin", "Login", "Knock", "Close", "Kick", "Heartbeat", "Tick", "Unregister", "Cloud", "CloseCmd"}
  Types = {"control", "tunnel"}
  PreAccept = FALSE
  Fixes = @@FIXES@@
  Split = FALSE
  MaxLevel = @@LEVEL@@
  Emit = @@EMIT@@
INIT InitX
NEXT NextX
VIEW viewX
INVARIANTS TypeOKX OnlyProven @@INV@@
CHECK_DEADLOCK FALSE
