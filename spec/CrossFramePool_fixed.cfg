\* C10 pooled-connection reuse with a probe that treats waiting data as "unhealthy" (the proposed
\* fix C10-1): the alignment clause holds in its strict form.
CONSTANTS
  MaxTunnels = 3
  F = 3
  ProbeResets = TRUE
  ProbeRejectsData = TRUE
  Emit = FALSE
INIT Init
NEXT Next
INVARIANTS NoLeftoverDeadline AlignedStrict
CHECK_DEADLOCK FALSE
