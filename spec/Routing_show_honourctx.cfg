\* Documentation only (not run by the check; verified by hand): the design whose routing-table calls return early on a finished context (HonourContext).
\* TLC reports LookupGone violated: Announce(A), Register(A,t1), Shutdown(A) - the removal made by the bridge lifecycle on the
\* cancelled context is skipped, the record of the ended tunnel still resolves to the stopped node (deviation "notRemoved").
CONSTANTS
  Nodes = {"A", "B"}
  Tunnels = {"t1", "t2"}
  TTL = 1
  MaxReg = 2
  MaxClock = 1000
  MaxHist = 99
  Shapes = {"jsonString"}
  Mode = "atomic"
  LifecycleFirst = FALSE
  SkipLocalTarget = FALSE
  EvictingLookup = FALSE
  HonourContext = TRUE
  RejectSeenIds = FALSE
  RegisterBeforeExistsCheck = FALSE
  MaxDup = 0
  Emit = FALSE
  Only = "all"
INIT Init
NEXT Next
VIEW view
INVARIANTS TypeOK LookupGone
CHECK_DEADLOCK FALSE
