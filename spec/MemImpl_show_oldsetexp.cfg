\* C13 - named deviation of spec/MemImpl.tla: SetExpiration before repair 680debd (revives an expired entry; ttl 0 expires at once). Expected: StoresAgree / AnswersAgree violated.
\*   tlc -config MemImpl_show_oldsetexp.cfg MemImpl.tla      (the same constants with Sweep = "locked", Evict = "recheck",
\*   LazyReads / OldCAS / OldSetExp = FALSE pass: ./check C13)
CONSTANTS
  Keys = {"s1"}
  Vals = {"a", "b"}
  MaxClock = 2
  OldCAS = FALSE
  OldSetExp = TRUE
  Procs = {"p1"}
  Sweepers = {"ex"}
  Sweep = "locked"
  Evict = "recheck"
  LazyReads = FALSE
  Emit = FALSE
INIT Init
NEXT Next
INVARIANTS TypeOK StoresAgree AnswersAgree NeverExpiringStays
PROPERTY SilentInvisible
CHECK_DEADLOCK FALSE
