\* (ii) UDP - behaviour generation: one behaviour per initial state = (datagram sizes of both
\* directions, cut offset, EOF|error, read chunking policy, pacing tag); the model is explored
\* under that chunking policy and the safety invariants are checked on the way.
\*   gen-t: TSeqs <- TAll (MaxT = 3, Classes {1,2,3,4}), Cuts = "all", Chunks {99,1,2,3}, USeqs <- USmall
\*   gen-u: TSeqs <- TTiny, Cuts = "end", USeqs <- UAll (MaxU = 3), Paces {"burst","spaced"}
CONSTANTS
  MaxSend = 1
  EofWithData = TRUE
  ShapesA <- LocalShapes
  ShapesB <- AllShapes
  DevDeadlineAt = "none"
  DevDeadlineHits = {"read"}
  Monitor = FALSE
  IdleMax = 2
  DevMonNoFeed = FALSE
  Reactive = FALSE
  DevNoSignalOnError = FALSE
  DevCloseWriterFallback = FALSE
  Emit = @@EMIT@@
  Classes = {1, 2, 3, 4}
  BatchSize = 32
  BatchBuf = 22
  High = 100
  MaxT = @@MAXT@@
  MaxU = @@MAXU@@
  TSeqs <- @@TSEQS@@
  USeqs <- @@USEQS@@
  Cuts = @@CUTS@@
  Chunks = @@CHUNKS@@
  Paces = @@PACES@@
  DevSpin = FALSE
  DevNoUnblock = FALSE
  DevAliasFlush = FALSE
  SockBatch = FALSE
  DevNoInnerFlush = FALSE
  SockQueue = FALSE
  DevQueueRefs = FALSE
  DevSockDeadline = FALSE
  DevDropOnClose = FALSE
INIT UInit
NEXT UNext
INVARIANTS UTypeOK UDatagrams UComplete UCompleteAny UEncoded UFlushed UMutex UBuf UBatchFits UNoSpuriousEnd
CHECK_DEADLOCK FALSE
