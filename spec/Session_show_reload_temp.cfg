\* Documentation only (not run by the check): named deviation "reloadDropsTemporary" of Session.tla -
\* the loader skips blacklist records that carry an expiry date: after a restart a temporarily blacklisted
\* address, whose entry has not run out, is authenticated.
\* TLC reports StepsOK / OnlyProven violated; the same configuration with Faults = {} (Session_c03addr.cfg) passes.
CONSTANTS
  Conn <- Conn2
  Client <- Client2
  MaxNonce = 2
  MaxFail = 3
  MaxCtl = 0
  Faults = {"reloadDropsTemporary"}
  Ops = {"Msg", "Ban", "Blacklist", "Whitelist", "Reload"}
  Types = {"control"}
  PreAccept = TRUE
  Fixes = {"oneIdentity", "atomicEvict"}
  Split = FALSE
  MaxLevel = 5
  Emit = "no"
INIT Init
NEXT Next
VIEW view
INVARIANTS TypeOK OnlyProven StepsOK ProvenIssued C07InvMasked C07OneMasked
CHECK_DEADLOCK FALSE
