\* Documentation only (not run by the check): named deviation "deletedStillKnown" of Session.tla -
\* the handler still finds the record of a deleted client: a client the server does not know any more is authenticated.
\* TLC reports StepsOK / OnlyProven violated; the same configuration with Faults = {} (Session_c03key.cfg) passes.
CONSTANTS
  Conn <- Conn2
  Client <- Client2
  MaxNonce = 2
  MaxFail = 3
  MaxCtl = 0
  Faults = {"deletedStillKnown"}
  Ops = {"Msg", "Corrupt", "Rekey", "Delete"}
  Types = {"control"}
  PreAccept = TRUE
  Fixes = {"oneIdentity", "atomicEvict"}
  Split = FALSE
  MaxLevel = 6
  Emit = "no"
INIT Init
NEXT Next
VIEW view
INVARIANTS TypeOK OnlyProven StepsOK ProvenIssued C07InvMasked C07OneMasked
CHECK_DEADLOCK FALSE
