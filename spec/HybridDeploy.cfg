SPECIFICATION Spec
INVARIANT InvClusterShares
