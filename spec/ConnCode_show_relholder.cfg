\* ConnCode.tla - the repaired design, but the holder of the claim deletes the claim key on EVERY return, also after its own
\* success (a deferred release; "the IsActivated flag covers reuse from then on"). An activator that read the code record
\* before the winner's final update continues from its stale copy after the winner returned, wins SetNX again and creates
\* a second mapping.
\* EXPECTED RESULT: TLC reports "Invariant AtMostOneSuccess is violated". With RelScope = "fail": no error.
\*   tlc -workers 8 -config ConnCode_show_relholder.cfg ConnCode.tla
CONSTANTS
  Acts = {"a1", "a2"}
  HasRev = FALSE
  CanExpire = FALSE
  MaxFault = 0
  PreSet = {}
  Quota = 3
  Claim = TRUE
  CreateRb = TRUE
  Node2 = {"a2"}
  ClaimLocal = FALSE
  SameAs = {}
  Reclaim = FALSE
  ResetOnFail = FALSE
  ResetCreate = FALSE
  RelScope = "holder"
  CanTick = FALSE
  ShortClaim = FALSE
  Emit = FALSE
INIT Init
NEXT Next
VIEW view
INVARIANTS TypeOK NoActivationAfterDeath LockOK AtMostOneSuccess AtMostOneMapping SuccessWasValid FailedLeavesNone FieldsOK
CHECK_DEADLOCK FALSE
