\* X06 exhaustive check of the data-path model (template filled by harness/drivers/x06).
\*   data:fixed   Fix = every deviation            INVS SameRequest SameResponse AllFixedClean
\*   data:patched Fix = the ones patches X06-3..6 repair   INVS SameRequestOrOpen SameResponseOrOpen
\*   data:asis    Fix = {}                         INVS TypeOK only (HttpProxyData_show_*.cfg exhibit the deviations)
\* 36 request classes x 88 answer classes (3168 initial states), every protocol step of both paths; PROPERTY Completes.
CONSTANTS
  Fix = @@FIX@@
  Emit = FALSE
SPECIFICATION Spec
INVARIANTS TypeOK @@INVS@@
PROPERTIES Completes
CHECK_DEADLOCK FALSE
