\* (ii) UDP - ALIAS: the seeded "unlock before the tunnel Write" variant of the flush ticker
\* (DevAliasFlush = TRUE; not in the code).  THIS RUN MUST FAIL with "Invariant UEncoded is violated":
\* datagram 1 batched -> ticker takes batchBuf[:pos], resets pos, unlocks, its Write is slow ->
\* datagram 2 is appended at batchBuf[0:] -> the Write completes with datagram 2's bytes over
\* datagram 1's.  harness/drivers/c12 runs it and demands the failure.
CONSTANTS
  MaxSend = 1
  EofWithData = TRUE
  ShapesA <- LocalShapes
  ShapesB <- AllShapes
  DevDeadlineAt = "none"
  DevDeadlineHits = {"read"}
  Monitor = FALSE
  IdleMax = 2
  DevMonNoFeed = FALSE
  Reactive = FALSE
  DevNoSignalOnError = FALSE
  DevCloseWriterFallback = FALSE
  Emit = FALSE
  Classes = {1, 2}
  BatchSize = 32
  BatchBuf = 22
  High = 100
  MaxT = 1
  MaxU = 2
  TSeqs <- TTiny
  USeqs <- UAll
  Cuts = "all"
  Chunks = {0}
  Paces = {"burst"}
  DevSpin = FALSE
  DevNoUnblock = FALSE
  DevAliasFlush = TRUE
  SockBatch = FALSE
  DevNoInnerFlush = FALSE
  SockQueue = FALSE
  DevQueueRefs = FALSE
  DevSockDeadline = FALSE
  DevDropOnClose = FALSE
SPECIFICATION USpec
INVARIANTS UTypeOK UDatagrams UComplete UCompleteAny UEncoded UFlushed UMutex UBuf UBatchFits UNoSpuriousEnd
PROPERTIES UDelivMonotone UEventuallyFlushed UTermination
CHECK_DEADLOCK FALSE
