\* C09 exhaustive check of the record write / read path (spec/RoutingSet.tla).
\*   as-is:  POOLENC = FALSE, POOLDEC = FALSE   INVS = StoredOwn LookupOwn Registered NoDev
\* The pooled designs are shown by RoutingSet_show_poolenc.cfg / RoutingSet_show_pooldec.cfg.
CONSTANTS
  Tunnels = @@TUNNELS@@
  Lookers = @@LOOKERS@@
  PooledEncode = @@POOLENC@@
  PooledDecode = @@POOLDEC@@
  MaxHist = 99
  Emit = FALSE
INIT Init
NEXT Next
VIEW view
INVARIANTS TypeOK @@INVS@@
CHECK_DEADLOCK FALSE
