---------------------------- MODULE HybridTrace ----------------------------
(* C14 judge (property level).  Alphabet, per trace:                                          *)
(*   Cfg   [cat, mode]                     category of the key, "kv" | "list"                 *)
(*   Call  [p, op, id]                     a facade call starts (id: unique id of a write)    *)
(*   Ret   [p, op, id, ok, t, v, probe]    it returned; reads carry t = "val"|"nf"|"list",    *)
(*                                         v = id of the write whose value was read / list of *)
(*                                         element ids; probe = TRUE for the final quiescent  *)
(*                                         read issued by the driver                          *)
(*   Tier  [cat, op, stores]               tier classes touched by one facade call (clause 3) *)
(*   Vis   [cat, op, st, rd, ps, flags, vis]  deployment level: node B sees what node A wrote  *)
(* The order of lines is the real-time order observed by the (sequential) driver, so          *)
(* "w returned before r was called" in the file implies the same in reality.                  *)
EXTENDS VLib, FiniteSets

VARIABLES writes,   \* id -> [op, call, ret]   (ret = 0 while the call has not returned)
          rcall,    \* p -> line at which p's current read was called
          cat, mode   \* cat carries the scope suffix of the scenario (":xnode", ":fault=...") so that details name it
vars == <<l, viol, writes, rcall, cat, mode>>

D == INSTANCE HybridDeploy WITH cfg <- [st |-> FALSE, rd |-> FALSE, ps |-> FALSE]

W0 == (0 :> [op |-> "init", call |-> 0, ret |-> 1])   \* the pre-existing value / list element 0
Init == l = 1 /\ viol = {} /\ writes = W0 /\ rcall = <<>> /\ cat = "?" /\ mode = "?"

TrCfg == /\ Is("Cfg") /\ cat' = (IF Has("scope") /\ Ev.scope # "" THEN Ev.cat \o ":" \o Ev.scope ELSE Ev.cat) /\ mode' = Ev.mode
         /\ l' = l + 1 /\ UNCHANGED <<viol, writes, rcall>>

IsWriteOp(o) == o \in {"Set", "Del", "App", "Rem"}

TrCall == /\ Is("Call")
          /\ IF IsWriteOp(Ev.op)
             THEN writes' = writes @@ (Ev.id :> [op |-> Ev.op, call |-> l, ret |-> 0]) /\ rcall' = rcall
             ELSE rcall' = [x \in DOMAIN rcall \cup {Ev.p} |-> IF x = Ev.p THEN l ELSE rcall[x]] /\ writes' = writes
          /\ l' = l + 1 /\ UNCHANGED <<viol, cat, mode>>

\* writes that had returned before line c
RetBefore(c) == {w \in DOMAIN writes : writes[w].ret # 0 /\ writes[w].ret < c}
\* w1 is older than some write that had returned before the read was called
Superseded(w1, c) == \E w \in RetBefore(c) : w # w1 /\ writes[w1].ret # 0 /\ writes[w1].ret < writes[w].call
SupersederKind(w1, c) == LET ws == {w \in RetBefore(c) : w # w1 /\ writes[w1].ret # 0 /\ writes[w1].ret < writes[w].call}
                         IN IF \E w \in ws : writes[w].op = "Del" THEN "Del" ELSE "Set"

ReadViol(e) ==
  LET c == rcall[e.p] IN
  IF e.t = "val" THEN
       IF e.v \notin DOMAIN writes \/ writes[e.v].op \notin {"init", "Set"} THEN {V("PhantomRead", cat)}
       ELSE IF Superseded(e.v, c) THEN {V("StaleRead", cat \o ":read=" \o writes[e.v].op \o ":after=" \o SupersederKind(e.v, c))}
       ELSE {}
  ELSE IF e.t = "nf" THEN
       LET dels == {w \in DOMAIN writes : writes[w].op = "Del"} IN
       IF \E d \in dels : ~Superseded(d, c) THEN {}
       ELSE IF dels = {} THEN {V("LostValue", cat)}
       ELSE {V("StaleRead", cat \o ":read=Del:after=Set")}
  ELSE {}

Elems(s) == {s[i] : i \in 1..Len(s)}
\* every member is appended exactly once (distinct ids): a list answer that holds a member twice was never a
\* state of the list (e.g. a filter that rewrote the cached slice in place and then failed to store it)
DupViol(e) == IF e.t = "list" /\ Cardinality(Elems(e.v)) # Len(e.v) THEN {V("DupMember", cat)} ELSE {}
ListViol(e) ==
  IF ~(e.probe /\ e.t = "list") THEN {}
  ELSE LET have == Elems(e.v)
           apps == {w \in DOMAIN writes : writes[w].op = "App" /\ writes[w].ret # 0}
           rems == {w \in DOMAIN writes : writes[w].op = "Rem" /\ writes[w].ret # 0}
           anyRem == \E w \in DOMAIN writes : writes[w].op = "Rem"     \* returned or not (a failed Remove may have applied)
       IN (IF apps \subseteq have THEN {} ELSE {V("LostAppend", cat)})
          \cup (IF rems # {} /\ 0 \in have THEN {V("LostRemove", cat)} ELSE {})
          \cup (IF ~anyRem /\ 0 \notin have THEN {V("LostMember", cat)} ELSE {})   \* the pre-existing member vanished though nobody removed it

TrRet == /\ Is("Ret")
         /\ IF IsWriteOp(Ev.op)
            THEN /\ writes' = IF Ev.ok THEN [writes EXCEPT ![Ev.id].ret = l]
                              ELSE writes   \* a write that returned an error may or may not have taken effect: it stays a
                                            \* candidate explanation for later reads (ret = 0) but obliges nothing
                 /\ viol' = viol
            ELSE /\ writes' = writes
                 /\ viol' = viol \cup (IF mode = "kv" THEN ReadViol(Ev) ELSE ListViol(Ev) \cup DupViol(Ev))
         /\ l' = l + 1 /\ UNCHANGED <<rcall, cat, mode>>

\* clause 3: a key is read and written in the tier class of its category
\*   runtime: local cache only; persistent: local cache + persistent tier;
\*   shared: shared cache only; sharedPersistent: shared cache + persistent tier
Allowed(c) == CASE c = "runtime" -> {"cache"}
                [] c = "persistent" -> {"cache", "pers"}
                [] c = "shared" -> {"shared"}
                [] c = "sharedPersistent" -> {"shared", "pers"}
TrTier == /\ Is("Tier")
          /\ LET bad == Elems(Ev.stores) \ Allowed(Ev.cat) IN
             viol' = viol \cup (IF bad = {} THEN {} ELSE {V("WrongTier", Ev.cat \o ":" \o Ev.op \o ":" \o (CHOOSE b \in bad : TRUE))})
          /\ l' = l + 1 /\ UNCHANGED <<writes, rcall, cat, mode>>

\* clause 3 at deployment level: two nodes built by the real createStorage from the same flags; what node A wrote
\* to a key of a shared category must be visible at node B in every multi-node deployment (HybridDeploy.tla)
TrVis == /\ Is("Vis")
         /\ viol' = viol \cup (IF D!MultiNode(Ev.st, Ev.rd, Ev.ps) /\ Ev.cat \in D!SharedCats /\ ~Ev.vis
                                THEN {V("NotShared", Ev.cat \o ":deploy=" \o Ev.flags \o ":" \o Ev.op)} ELSE {})
         /\ l' = l + 1 /\ UNCHANGED <<writes, rcall, cat, mode>>

TrEnd == /\ Is("End") /\ EmitVerdict
         /\ l' = l + 1 /\ viol' = {} /\ writes' = W0 /\ rcall' = <<>> /\ cat' = "?" /\ mode' = "?"

Next == TrCfg \/ TrCall \/ TrRet \/ TrTier \/ TrVis \/ TrEnd
Spec == Init /\ [][Next]_vars
=============================================================================
