\* Documentation only (not run by the check): the bridge AS FOUND against NoCrash.
\* TLC reports: CloseEnd(S), Attach, Read(s2t) = EOF, CloseBridge, Enter(t2s) with the target
\* forwarder already nil -> crashed.
CONSTANTS
  BUF = 3
  MaxSends = 0
  MaxSlow = 5
  Lims = {"none"}
  Classes = {"one"}
  Faults = FALSE
  Replace = FALSE
  ExtCloseOn = FALSE
  DevLimiter = TRUE
  DevNilFwd = TRUE
  DevStaleSrc = TRUE
  DevSleepLimiter = FALSE
  DevWriteLock = FALSE
  DevRouteFirst = FALSE
  DevCleanupFirst = FALSE
  RegLegs = {}
  DevIdleSweep = FALSE
  DevFwdNoEof = FALSE
  SrcKinds = {"direct"}
  ErrClasses = {"plain"}
  PollOn = FALSE
  RetryOn = {}
  RetryWriteOn = {}
  DevBufio = FALSE
  AttachKinds = {"local"}
  HoldOn = FALSE
  Gen = FALSE
  Emit = FALSE
INIT Init
NEXT Next
VIEW view
INVARIANTS TypeOK NoCrash
CHECK_DEADLOCK FALSE
