------------------------------- MODULE Tokens -------------------------------
(* X02 (extension) - implementation-shaped model of the signed tokens of internal/security:      *)
(*   reconnect tokens (reconnect_token.go, scene "rt") and session tokens (session_token.go,       *)
(*   scene "st"), over a discrete clock.                                                           *)
(*                                                                                                *)
(* Code mapped:                                                                                    *)
(*   Issue     ReconnectTokenManager.GenerateReconnectToken / SessionTokenManager.GenerateSession- *)
(*             Token: fresh random id (+nonce), ExpiresAt = now + TTL, HMAC-SHA256 over             *)
(*             id|client|node|iat.Unix()|exp.Unix()|nonce  (st: id|client|ip|tls|iat.Unix()|        *)
(*             exp.Unix()) under the manager's secret.  The signed timestamps have SECOND            *)
(*             resolution while the expiry test uses the full-resolution ExpiresAt: a change of      *)
(*             the sub-second part is not covered (deviation subSecond; repaired by "nano").          *)
(*   Start     the beginning of ValidateReconnectToken (signature compare, then                      *)
(*             time.Now().After(ExpiresAt)) up to its first storage call; for op "mark" the           *)
(*             beginning of MarkTokenAsUsed (time.Until(ExpiresAt) <= 0 => error).                    *)
(*   Ex        storage.Exists("reconnect:token:used:"+TokenID) and the return of Validate; for op     *)
(*             "use" (= the documented protocol "validate, then immediately MarkTokenAsUsed") the     *)
(*             caller goes on into MarkTokenAsUsed up to its storage call.                            *)
(*   Set       the storage write of MarkTokenAsUsed: as the code stands an unconditional              *)
(*             storage.Set (two racing uses both pass Exists and both "mark": deviation               *)
(*             racedMark); repaired ("claim"): SetNX, the loser gets "token already used".            *)
(*   Deploy    "single": the managers of all nodes share one store (memory, Redis, or a hybrid        *)
(*             store whose local cache is Redis).  "hybrid": hybrid.Storage with a node-local         *)
(*             memory cache and a shared Redis: the key prefix "reconnect:token:used:" is not         *)
(*             among the shared prefixes, so the used-marker stays on the node that wrote it          *)
(*             although the token exists to be presented to ANOTHER node (deviation localMarker;      *)
(*             repaired by "shared").                                                                 *)
(*   StVal / StRenew / StShould   SessionTokenManager.ValidateSessionToken (signature, expiry,        *)
(*             optional IP binding), RenewToken (a fresh token for the same client/IP; the old one    *)
(*             is NOT checked - the contract is silent, modelled as is), ShouldRenew.                 *)
(*             LastActivity is documented as not signed (tamper kind "act" must stay valid).          *)
(*   Tick      the clock.  A token issued at clock c with TTL n is live at clocks c .. c+n-1.         *)
(*                                                                                                *)
(* Managers: n1, n2 = two nodes of one deployment (same secret); x = a foreign manager (another     *)
(* secret) whose tokens, however well-formed, must never validate at n1/n2.                          *)
(* There is no Revoke API in the code; MarkTokenAsUsed without a preceding validation is the         *)
(* revocation of a reconnect token (op "mark").  Session tokens cannot be revoked at all.            *)
(*                                                                                                *)
(* Properties (ghost variable `viol` collects what a user of the component would call a breach;      *)
(* `devs` the named deviations of the code that fired):                                              *)
(*   Authentic   an accepted presentation is an untampered token issued under the same secret         *)
(*   NeverLate   a validation that starts at or after the expiry is never accepted                     *)
(*   SingleUse   at most one "use" of a reconnect token is accepted (also concurrently, also           *)
(*               across nodes)                                                                          *)
(*   RevokedStays  after a successful mark/use has returned, no later validation is accepted          *)
(*               (demanded of calls that return while the token is still live, see Ghost)              *)
(*   Exact       in quiescent states a validation is accepted IFF authentic, live, not marked          *)
(*               (completeness / independence of tokens: nothing else influences the answer)           *)
(*   Terminates  every started call returns (liveness, under weak fairness of the steps)               *)
EXTENDS Naturals, Sequences, FiniteSets, TLC, Json

CONSTANTS Scene,     \* "rt" | "st"
          Deploy,    \* "single" | "hybrid"
          Clients, MaxTok, TTL, MaxClock, Procs,
          Fixed,     \* subset of {"claim", "shared", "nano"}
          Tampers,   \* tamper kinds the adversary may apply to a presented token
          Thresh,    \* st: renewal threshold in ticks
          KeepHist,  \* FALSE: no history (exhaustive checking, liveness); TRUE: behaviour generation
          EmitActs, MaxHist

VARIABLES clock, tok, mark, pc, nacc, rev, viol, devs, hist
vars == <<clock, tok, mark, pc, nacc, rev, viol, devs, hist>>
view == <<clock, tok, mark, pc, nacc, rev, viol, devs>>

Mgrs    == {"n1", "n2", "x"}
Home    == {"n1", "n2"}                                  \* the deployment under test
\* scope reductions (symmetry breaking, no loss of shapes): tokens are issued by n1 or by x; with one store
\* for the whole deployment the validating node does not matter (n1); the first token belongs to c1
Issuers == {"n1", "x"}
Validators == IF Deploy = "single" THEN {"n1"} ELSE Home
FirstClient == CHOOSE c \in Clients : TRUE
Secret(m) == IF m = "x" THEN "k2" ELSE "k1"
LocalMarker == Deploy = "hybrid" /\ "shared" \notin Fixed
StoreOf(m)  == IF LocalMarker THEN m ELSE "s"
IPs     == {"a", "b"}
Curs    == {"same", "other", "none"}
SubKinds == {"expSub", "iatSub"}                          \* sub-second change of a signed timestamp
Unsigned == {"act"}                                       \* st: LastActivity, documented as unsigned
AllTampers == {"none", "client", "node", "ip", "tls", "exp", "iat", "nonce", "id", "sig"} \cup SubKinds \cup Unsigned

Idle == [st |-> "idle"]
TokIds == 1..MaxTok

Init == /\ clock = 0 /\ tok = <<>> /\ mark = {}
        /\ pc = [p \in Procs |-> Idle]
        /\ nacc = [t \in TokIds |-> 0] /\ rev = [t \in TokIds |-> FALSE]
        /\ viol = {} /\ devs = {} /\ hist = <<>>

\* ---- what the code computes ---------------------------------------------------------------
\* string comparison of the recomputed HMAC: equal iff same secret and every SIGNED input equal
SigOK(m, t, tam) == /\ Secret(m) = Secret(tok[t].by)
                    /\ \/ tam = "none"
                       \/ tam \in Unsigned
                       \/ tam \in SubKinds /\ "nano" \notin Fixed
Dead(t)      == clock >= tok[t].exp
Marked(s, t) == [s |-> s, t |-> t] \in mark

\* ---- what a user of the component means ----------------------------------------------------
Authentic(m, t, tam) == Secret(m) = Secret(tok[t].by) /\ tam \in ({"none"} \cup Unsigned)

\* ---- history / emission -------------------------------------------------------------------
Rec(e)  == IF KeepHist THEN Append(hist, e) ELSE hist
Out(a)  == IF a \in EmitActs \/ ("end" \in EmitActs /\ (Len(hist') >= MaxHist \/ viol' # {}))
           THEN PrintT("BEH " \o ToJson(hist')) ELSE TRUE

\* ghost bookkeeping when call `o` returns result r ("ok" = nil error)
Ghost(o, r) ==
  LET ok == r = "ok"
      \* (SingleUse / RevokedStays are demanded of calls that return while the token is still live.  A call
      \*  stalled across the expiry instant between its lifetime check and its storage operation finds the
      \*  marker lapsed together with the token: such straddling calls are outside the contract - accepted.)
      v1 == IF ok /\ o.op = "use" /\ nacc[o.t] >= 1 /\ ~Dead(o.t) THEN {"SingleUse"} ELSE {}
      v2 == IF ok /\ o.op \in {"val", "use"} /\ o.late /\ ~Dead(o.t) THEN {"RevokedStays"} ELSE {}
      v3 == IF ok /\ o.op \in {"val", "use"} /\ ~Authentic(o.m, o.t, o.tam) THEN {"Authentic"} ELSE {}
      v4 == IF ok /\ o.op \in {"val", "use"} /\ o.dead THEN {"NeverLate"} ELSE {}
  IN /\ nacc' = IF ok /\ o.op = "use" THEN [nacc EXCEPT ![o.t] = @ + 1] ELSE nacc
     /\ rev'  = IF ok /\ o.op \in {"use", "mark"} THEN [rev EXCEPT ![o.t] = TRUE] ELSE rev
     /\ viol' = viol \cup v1 \cup v2 \cup v3 \cup v4

NoGhost == UNCHANGED <<nacc, rev, viol>>

\* ---- reconnect tokens ---------------------------------------------------------------------
Issue(m, c) == /\ Len(tok) < MaxTok /\ m \in Issuers /\ (Len(tok) = 0 => c = FirstClient)
               /\ tok' = Append(tok, [cl |-> c, by |-> m, exp |-> clock + TTL, ip |-> "a"])
               /\ hist' = Rec([a |-> "Issue", m |-> m, c |-> c])
               /\ UNCHANGED <<clock, mark, pc, devs>> /\ NoGhost

Tick == /\ clock < MaxClock
        /\ clock' = clock + 1
        /\ mark' = {k \in mark : tok[k.t].exp > clock + 1}      \* markers carry the token's remaining lifetime
        /\ hist' = Rec([a |-> "Tick"])
        /\ UNCHANGED <<tok, pc, devs>> /\ NoGhost

\* the call starts: everything before the first storage operation
Start(p, op, m, t, tam) ==
  /\ pc[p] = Idle /\ t \in 1..Len(tok) /\ m \in Validators
  /\ op = "mark" => tam = "none" /\ Secret(m) = Secret(tok[t].by)      \* the server marks what it validated
  /\ LET o == [st |-> IF op = "mark" THEN "set" ELSE "ex", op |-> op, m |-> m, t |-> t, tam |-> tam,
               late |-> rev[t], dead |-> Dead(t)]
         r == IF op = "mark" THEN (IF Dead(t) THEN "markexp" ELSE "")
              ELSE IF ~SigOK(m, t, tam) THEN "sig" ELSE IF Dead(t) THEN "expired" ELSE ""
     IN /\ IF r = "" THEN pc' = [pc EXCEPT ![p] = o] /\ NoGhost
                     ELSE pc' = pc /\ Ghost(o, r)
        /\ devs' = IF op # "mark" /\ tam \in SubKinds /\ SigOK(m, t, tam) THEN devs \cup {"subSecond"} ELSE devs
        /\ hist' = Rec([a |-> "Start", p |-> p, op |-> op, m |-> m, t |-> t, tam |-> tam, r |-> r])
  /\ UNCHANGED <<clock, tok, mark>>

\* storage.Exists + return of ValidateReconnectToken (+ entry of MarkTokenAsUsed for "use")
Ex(p) ==
  /\ pc[p].st = "ex"
  /\ LET o == pc[p]
         r == IF Marked(StoreOf(o.m), o.t) THEN "used"
              ELSE IF o.op = "val" THEN "ok"
              ELSE IF Dead(o.t) THEN "markexp" ELSE ""
     IN /\ IF r = "" THEN pc' = [pc EXCEPT ![p].st = "set"] /\ NoGhost
                     ELSE pc' = [pc EXCEPT ![p] = Idle] /\ Ghost(o, r)
        /\ devs' = IF ~Marked(StoreOf(o.m), o.t) /\ \E k \in mark : k.t = o.t THEN devs \cup {"localMarker"} ELSE devs
        /\ hist' = Rec([a |-> "Ex", p |-> p, r |-> r])
  /\ UNCHANGED <<clock, tok, mark>>

\* the storage write of MarkTokenAsUsed
SetM(p) ==
  /\ pc[p].st = "set"
  /\ LET o == pc[p]
         s == StoreOf(o.m)
         lost == "claim" \in Fixed /\ Marked(s, o.t)
         r == IF lost THEN "used" ELSE "ok"
     IN /\ mark' = IF lost THEN mark ELSE mark \cup {[s |-> s, t |-> o.t]}
        /\ pc' = [pc EXCEPT ![p] = Idle]
        /\ Ghost(o, r)
        /\ devs' = IF ~lost /\ rev[o.t] /\ o.op = "use" /\ ~Dead(o.t) THEN devs \cup {"racedMark"} ELSE devs
        /\ hist' = Rec([a |-> "Set", p |-> p, r |-> r])
  /\ UNCHANGED <<clock, tok>>

\* ---- session tokens (stateless manager: every call is one atomic step) -----------------------
StIssue(m, c, ip) == /\ Len(tok) < MaxTok /\ m \in Issuers /\ (Len(tok) = 0 => c = FirstClient)
                     /\ tok' = Append(tok, [cl |-> c, by |-> m, exp |-> clock + TTL, ip |-> ip])
                     /\ hist' = Rec([a |-> "StIssue", m |-> m, c |-> c, ip |-> ip])
                     /\ UNCHANGED <<clock, mark, pc, devs>> /\ NoGhost

StResult(m, t, tam, cur, chk) ==
  IF ~SigOK(m, t, tam) THEN "sig" ELSE IF Dead(t) THEN "expired"
  ELSE IF chk /\ cur = "other" THEN "ip" ELSE "ok"

\* the reading of the contract: authentic, live, and - when the caller asks for it and knows the
\* peer address - presented from the address it was issued to
StWanted(m, t, tam, cur, chk) == Authentic(m, t, tam) /\ ~Dead(t) /\ ~(chk /\ cur = "other")

StVal(m, t, tam, cur, chk) ==
  /\ t \in 1..Len(tok) /\ m \in Validators
  /\ LET r == StResult(m, t, tam, cur, chk)
     IN /\ viol' = viol \cup (IF r = "ok" /\ ~Authentic(m, t, tam) THEN {"Authentic"} ELSE {})
                        \cup (IF r = "ok" /\ Dead(t) THEN {"NeverLate"} ELSE {})
                        \cup (IF r = "ok" /\ chk /\ cur = "other" THEN {"IPBound"} ELSE {})
                        \cup (IF r # "ok" /\ StWanted(m, t, tam, cur, chk) THEN {"Exact"} ELSE {})
        /\ devs' = IF tam \in SubKinds /\ SigOK(m, t, tam) THEN devs \cup {"subSecond"} ELSE devs
        /\ hist' = Rec([a |-> "StVal", m |-> m, t |-> t, tam |-> tam, cur |-> cur, chk |-> chk, r |-> r])
  /\ UNCHANGED <<clock, tok, mark, pc, nacc, rev>>

\* RenewToken(old): GenerateSessionToken(old.ClientID, old.IP, old.TLSFingerprint) - old is not examined
StRenew(m, t) ==
  /\ t \in 1..Len(tok) /\ m \in Validators /\ Len(tok) < MaxTok
  /\ tok' = Append(tok, [cl |-> tok[t].cl, by |-> m, exp |-> clock + TTL, ip |-> tok[t].ip])
  /\ hist' = Rec([a |-> "StRenew", m |-> m, t |-> t])
  /\ UNCHANGED <<clock, mark, pc, devs>> /\ NoGhost

\* ShouldRenew: remaining < threshold.  Real durations are (n - 1/2) ticks, so "remaining < Thresh
\* ticks" at clock k reads exp - k <= Thresh in whole ticks
StShould(m, t) ==
  /\ t \in 1..Len(tok) /\ m \in Validators
  /\ hist' = Rec([a |-> "StShould", m |-> m, t |-> t, r |-> (tok[t].exp <= clock + Thresh)])
  /\ UNCHANGED <<clock, tok, mark, pc, devs>> /\ NoGhost

\* ---- next-state relation ----------------------------------------------------------------------
RtNext == \/ \E m \in Mgrs, c \in Clients : Issue(m, c) /\ Out("Issue")
          \/ Tick /\ Out("Tick")
          \/ \E p \in Procs, op \in {"val", "use", "mark"}, m \in Home, t \in TokIds, tam \in Tampers :
                Start(p, op, m, t, tam) /\ Out("Start")
          \/ \E p \in Procs : Ex(p) /\ Out("Ex")
          \/ \E p \in Procs : SetM(p) /\ Out("Set")

StNext == \/ \E m \in Mgrs, c \in Clients, ip \in IPs : StIssue(m, c, ip) /\ Out("StIssue")
          \/ Tick /\ Out("Tick")
          \/ \E m \in Home, t \in TokIds, tam \in Tampers, cur \in Curs, chk \in BOOLEAN :
                StVal(m, t, tam, cur, chk) /\ Out("StVal")
          \/ \E m \in Home, t \in TokIds : StRenew(m, t) /\ Out("StRenew")
          \/ \E m \in Home, t \in TokIds : StShould(m, t) /\ Out("StShould")

\* nothing is explored beyond the first breach (it is reported at the step that commits it)
Next == /\ viol = {} /\ Len(hist) < MaxHist
        /\ IF Scene = "rt" THEN RtNext ELSE StNext

Fair == \A p \in Procs : WF_vars(Ex(p)) /\ WF_vars(SetM(p))
Spec == Init /\ [][Next]_vars /\ Fair

\* ---- properties ---------------------------------------------------------------------------------
TypeOK == /\ clock \in 0..MaxClock
          /\ Len(tok) <= MaxTok
          /\ \A i \in 1..Len(tok) : tok[i].cl \in Clients /\ tok[i].by \in Mgrs /\ tok[i].exp \in 0..(MaxClock + TTL)
          /\ \A k \in mark : k.t \in 1..Len(tok) /\ k.s \in Home \cup {"s"}
          /\ \A p \in Procs : pc[p] = Idle \/ (pc[p].st \in {"ex", "set"} /\ pc[p].t \in 1..Len(tok))
          /\ viol \subseteq {"SingleUse", "RevokedStays", "Authentic", "NeverLate", "IPBound", "Exact"}
          /\ devs \subseteq {"subSecond", "racedMark", "localMarker"}

\* the properties, strictly
Authentic_    == "Authentic" \notin viol
NeverLate     == "NeverLate" \notin viol
SingleUse     == "SingleUse" \notin viol
RevokedStays  == "RevokedStays" \notin viol
IPBound       == "IPBound" \notin viol
NoDeviation   == devs = {}

\* a call in flight never carries a dead-at-start or unsigned-tampered token past the first checks
InFlightChecked == \A p \in Procs : pc[p] # Idle /\ pc[p].op # "mark" => ~pc[p].dead /\ SigOK(pc[p].m, pc[p].t, pc[p].tam)

\* quiescent exactness: with no call in flight, Validate(t) at any home node answers nil IFF authentic,
\* live and no successful mark/use has returned (nothing else - no other token, no other client - matters)
Quiescent == \A p \in Procs : pc[p] = Idle
WouldAccept(m, t) == SigOK(m, t, "none") /\ ~Dead(t) /\ ~Marked(StoreOf(m), t)
Exact == Scene = "rt" /\ Quiescent /\ viol = {} =>
            \A m \in Home, t \in 1..Len(tok) : WouldAccept(m, t) <=> (Authentic(m, t, "none") /\ ~Dead(t) /\ ~rev[t])
ExactSt == "Exact" \notin viol

\* the code as it stands: every breach is explained by a named deviation that fired
SingleUseOrKnown    == "SingleUse" \in viol => devs \cap {"racedMark", "localMarker"} # {}
RevokedStaysOrKnown == "RevokedStays" \in viol => "localMarker" \in devs
AuthenticOrKnown    == "Authentic" \in viol => "subSecond" \in devs
ExactOrKnown        == LocalMarker \/ Exact
\* and the repairs remove exactly their deviation
ClaimRepairs  == "claim" \in Fixed => "racedMark" \notin devs
SharedRepairs == "shared" \in Fixed \/ Deploy = "single" => "localMarker" \notin devs
NanoRepairs   == "nano" \in Fixed => "subSecond" \notin devs

\* liveness: every started call returns
Terminates == \A p \in Procs : (pc[p] # Idle) ~> (pc[p] = Idle)
=============================================================================
