\* C10 behaviour generation: all writer scripts (writes, injected frames, endings) up to the
\* bounds, one per caller buffer class, plus the decoder / round-trip / forwarding classes.
CONSTANTS
  MAX = 3
  MaxWrites = @@MAXW@@
  MaxInj = @@MAXI@@
  InjKinds = {"fd", "fdn", "fds", "fe", "fen", "fes", "unk"}
  RSizes = {"one", "small", "big"}
  Concurrent = FALSE
  AtomicFrames = TRUE
  LimitOnlyOnReaderPath = FALSE
  Gen = TRUE
  Emit = TRUE
INIT Init
NEXT Next
INVARIANTS AuxEmitted
CHECK_DEADLOCK FALSE
