\* ConnCode.tla - the repaired design, but with the claim key classified as node-local runtime data
\* (what hybrid.Storage does with a claim key outside its shared prefix "tunnox:runtime:conncode:"):
\* a1 activates through node n1, a2 through node n2, each node's SetNX reaches its own local cache.
\* EXPECTED RESULT: TLC reports "Invariant AtMostOneSuccess is violated" (both nodes win their own claim).
\* With ClaimLocal = FALSE (claim in the shared tier) the same configuration has no error.
\*   tlc -workers 8 -config ConnCode_show_localclaim.cfg ConnCode.tla
CONSTANTS
  Acts = {"a1", "a2"}
  HasRev = FALSE
  CanExpire = FALSE
  MaxFault = 0
  PreSet = {}
  Quota = 2
  Claim = TRUE
  CreateRb = TRUE
  Node2 = {"a2"}
  ClaimLocal = TRUE
  SameAs = {}
  Reclaim = FALSE
  ResetOnFail = FALSE
  ResetCreate = FALSE
  RelScope = "fail"
  CanTick = FALSE
  ShortClaim = FALSE
  Emit = FALSE
INIT Init
NEXT Next
VIEW view
INVARIANTS TypeOK NoActivationAfterDeath AtMostOneSuccess AtMostOneMapping SuccessWasValid FailedLeavesNone FieldsOK
CHECK_DEADLOCK FALSE
