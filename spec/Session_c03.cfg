\* C03 handshake state space: 2 connections x 2 clients, every handshake message class,
\* control and tunnel types, bans / blacklist / credential expiry.  Substituted by the driver:
\* LEVEL (depth bound), EMIT (behaviour printing), FIXES (which patches the modelled tree has).
\* (The persisted lists, restarts, undecryptable / reset secrets: Session_c03addr / _c03key / _c03env.)
CONSTANTS
  Conn <- Conn2
  Client <- Client2
  MaxNonce = 2
  MaxFail = 3
  MaxCtl = 0
  Faults = {}
  Ops = {"Msg", "Ban", "Blacklist", "Expire", "Bind"}
  Types = {"control", "tunnel"}
  PreAccept = TRUE
  Fixes = @@FIXES@@
  Split = FALSE
  MaxLevel = @@LEVEL@@
  Emit = @@EMIT@@
INIT Init
NEXT Next
VIEW view
INVARIANTS TypeOK OnlyProven StepsOK ProvenIssued C07InvMasked C07OneMasked
CHECK_DEADLOCK FALSE
