\* C16, documentation run (not part of ./check): the code as written against the STRICT property.
\* TLC reports "Invariant AtMostOnce is violated" (Tunnel.Close: second closer falls through the failed
\* CAS, close body and onClosed run twice); with AtMostOnce removed it reports NoOverReport (two
\* reportTrafficStats in flight add the same delta twice) and then TrafficExact (late copier flush).
CONSTANTS
  Suite = "show"
  Emit = FALSE
INIT Init
NEXT Next
VIEW view
INVARIANTS TypeOK AtMostOnce NoOverReport TrafficExact
CHECK_DEADLOCK FALSE
