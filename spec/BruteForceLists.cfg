\* C18 / BruteForceLists: exhaustive check of the IPManager at lock / storage-call granularity (template).
\*   VARIANTS = {"locked"}            the clean-up as the code stands: all invariants hold
\*   VARIANTS = {"locked", "split"}   plus the correct per-key locking: all invariants hold
\* Deviations: BruteForceLists_show_*.cfg (TLC reports BlacklistHolds / StoreKeeps).
CONSTANTS
  Addrs = @@ADDRS@@
  NetOf = @@NETOF@@
  Ops = @@OPS@@
  InitKinds = @@INITKINDS@@
  OpKinds = @@OPKINDS@@
  Variants = @@VARIANTS@@
  MaxPass = @@MAXPASS@@
  MaxCalls = @@MAXCALLS@@
  MaxEpoch = @@MAXEPOCH@@
  MaxExp = @@MAXEXP@@
  MaxWait = @@MAXWAIT@@
  Acts = @@ACTS@@
  Emit = @@EMIT@@
INIT Init
NEXT Next
VIEW view
INVARIANTS TypeOK LockOK @@INVS@@
CHECK_DEADLOCK FALSE
