\* exhaustive check of the code as it is (repaired design), one service instance: every kind, N in {2,3,4},
\* limit in {0,1,2} (caps with separate check and insert: also 3), occupancy limit-1 and limit-2 (limit-3), with list requests and removals of absent ids
\*   tlc -config Limits_mc.cfg Limits.tla        (expected: no error)
CONSTANTS
  Kinds = {"conncap", "ctrlcap", "tuncap", "maplimit", "codequota", "mapquota"}
  NS = {2, 3, 4}
  Lims = {0, 1, 2, 3}
  NodeCounts = {1}
  Variants = {"none"}
  Shape = "free"
  MaxReRel = 2
  Slacks = {1, 2, 3}
  Listers = 1
  Retries = 1
  FixedKinds = {"conncap", "maplimit", "maplive", "codequota", "mapquota"}
  WithRelease = TRUE
  Emit = FALSE
  EmitMaxN = 4
  EmitAll = FALSE
INIT Init
NEXT Next
VIEW view
INVARIANTS TypeOK NoOvershoot NoDeviation RefusedNoEffect RefusedClean RetryClean RetryAdmitted CounterExact
CHECK_DEADLOCK FALSE
