\* C19 - deviation updateRelabelsDomain (seeded change C19-r5m3): the full-domain term of UpdateMapping's immutable-field check is
\* missing. Configuration gen:updf (sequential, two names, c1 creates / updates / deletes with every field of the record as the
\* changed one, c2 claims).
\* Expected: Invariant UpdateKeepsIdentity / Claimable / Consistent is violated - Update(1, full = n2) is stored: record 1 carries n2;
\* Delete(1) by its owner: DelIdxGet reads index[n2] (not 1) and skips DelIdx, DelRec, DelList - acknowledged; index[n1] = 1 stays
\* without record: n1 is unclaimable for ever.
\*   tlc -config Domain_show_updrelabel.cfg Domain.tla      (the same constants with Deviate = {} pass: `./check C19`)
CONSTANTS
  ProcsC1 = {"p1"}
  ProcsC2 = {"p2"}
  LookProcs = {}
  Names = {"n1", "n2"}
  MaxOps = 2
  MaxLook = 0
  Kinds = {"Create", "Delete", "Update"}
  Pre = TRUE
  Faults = 0
  Guess = FALSE
  HandlerProcs = {}
  Serial = TRUE
  MaxLegacy = 0
  Fix = TRUE
  Spell = {"plain"}
  CaseFold = TRUE
  OnlyDelete = {}
  OnlyCreate = {"p2"}
  Deviate = {"updateRelabelsDomain"}
  DelFaults = FALSE
  CreateFaults = FALSE
  ReadFaults = FALSE
  TTLRollback = TRUE
  UpdFields = {"inactive", "expired", "target", "desc", "created", "client", "sub", "base", "full"}
  LegStatus = {"active"}
  OnlyList = {}
  Emit = FALSE
INIT Init
NEXT Next
VIEW view
INVARIANTS TypeOK Claimable Consistent UpdateKeepsIdentity UpdateClaimsNothing
CHECK_DEADLOCK FALSE
