\* X06 demonstration, EXPECTED TO FAIL (NoLoss violated): the code as found, deviation unwired
CONSTANTS
  Variant = "tun"
  NW = 1
  NR = 1
  MaxReq = 1
  MaxMsg = 1
  MaxExp = 0
  MaxCancel = 0
  MaxOff = 0
  Kinds = {"ok"}
  Unknown = FALSE
  RegFirst = TRUE
  Atomic = TRUE
  Told = TRUE
  Wired = FALSE
  Eager = FALSE
  Emit = FALSE
SPECIFICATION Spec
INVARIANTS TypeOK NoLoss
CHECK_DEADLOCK FALSE
