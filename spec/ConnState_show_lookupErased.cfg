\* C08 documentation cfg (not run by the check): tlc -config ConnState_show_lookupErased.cfg ConnState.tla
\* Seeded change C08-r2m1: a lookup that finds the record gone drops the 'dangling' index, which by then names a newer connection (deviation lookupErased).
\* Expected: Invariant FindLive is violated.
CONSTANTS
  Nodes = {"A", "B"}
  NConns = 2
  Clients = {"X"}
  TTL = 2
  MaxClock = 1000
  MaxHist = 99
  Shapes = {"str"}
  CasSet = {FALSE}
  FixSets = {{"ptrShape", "condIdxDelete", "hbRefresh", "successOnly"}}
  Causes = {"peer"}
  KeepCreatedAt = FALSE
  UseRequestId = FALSE
  IdxRenew = "checkSet"
  RecRenew = "set"
  Lookups = TRUE
  WritingLookup = TRUE
  InFlight = FALSE
  ClientState = FALSE
  Emit = FALSE
  Only = "all"
INIT Init
NEXT Next
VIEW view
INVARIANTS TypeOK FindClosed FindLive
CHECK_DEADLOCK FALSE
