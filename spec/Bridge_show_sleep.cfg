\* Documentation only (not run by the check): limiter waits that Close() cannot cancel (ReserveN +
\* time.Sleep, context checked on entry only) against the strict liveness clauses.  TLC reports a
\* lasso for Forgotten: Send(S, B) under lim = "slow", Attach, Read(s2t), Limit(s2t) pays the first
\* piece, CloseEnd(T), Read(t2s) = EOF, CloseBridge - and the s2t copier sits in the limiter waiting
\* for the pacing clock (stuttering) while the tunnel stays registered.
CONSTANTS
  BUF = 3
  MaxSends = 1
  MaxSlow = 5
  Lims = {"slow"}
  Classes = {"B"}
  Faults = FALSE
  Replace = FALSE
  ExtCloseOn = FALSE
  DevLimiter = FALSE
  DevNilFwd = FALSE
  DevStaleSrc = FALSE
  DevSleepLimiter = TRUE
  DevWriteLock = FALSE
  DevRouteFirst = FALSE
  DevCleanupFirst = FALSE
  RegLegs = {}
  DevIdleSweep = FALSE
  DevFwdNoEof = FALSE
  SrcKinds = {"direct"}
  ErrClasses = {"plain"}
  PollOn = FALSE
  RetryOn = {}
  RetryWriteOn = {}
  DevBufio = FALSE
  AttachKinds = {"local"}
  HoldOn = FALSE
  Gen = FALSE
  Emit = FALSE
SPECIFICATION LiveSpec
VIEW view
INVARIANTS TypeOK
PROPERTIES ClosureSeen Forgotten
CHECK_DEADLOCK FALSE
