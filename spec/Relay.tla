------------------------------- MODULE Relay -------------------------------
(* C12 - client-side relays deliver everything and always terminate.                          *)
(*                                                                                            *)
(* Implementation-shaped model of tunnox-core/internal/utils/iocopy/copy.go.  Two independent  *)
(* sub-models live in this module; a cfg selects one with INIT/NEXT (the variables of the      *)
(* other one are frozen at a dummy value):                                                     *)
(*                                                                                            *)
(*  (i)  Bidirectional (BInit/BNext/BSpec): two copier goroutines, each a loop                 *)
(*       Read -> Write -> ... -> tryCloseWrite(dst); main waits for both and closes both       *)
(*       conns.  The endpoints (local application socket A, tunnel B) are environment           *)
(*       processes that send, half-close, close or fail in any order.                          *)
(*  (ii) UDP (UInit/UNext/USpec): goroutine g1 (UDP socket -> tunnel: length-prefix batching   *)
(*       writer + its flush ticker as an independent action) and goroutine g2 (tunnel -> UDP   *)
(*       socket: the bulk de-framing loop, transcribed statement by statement with its         *)
(*       variables readBuf[0..buffered) = g2.buf, processed, pendingPackets).  The tunnel      *)
(*       byte stream is cut at offset par.cut (every offset is an initial state) by EOF or     *)
(*       by an error.                                                                          *)
(*                                                                                            *)
(* Deviations of the code as found (before patches C12-1, C12-2) are kept as switchable        *)
(* constants; when a deviating step is taken a ghost flag is set:                               *)
(*   DevSpin      - after the tunnel Read has failed/ended with a partial record left in       *)
(*                  readBuf the loop goes round and reads again, forever (ghost devSpin)       *)
(*   DevNoUnblock - when g2 ends nothing wakes g1, which stays in udpConn.Read (ghost          *)
(*                  devBlocked)                                                                *)
(* and one deviation that is NOT in the code, kept as the model of a plausible wrong            *)
(* "optimisation" (seeded fault C12/m2):                                                         *)
(*   DevAliasFlush - the flush ticker takes batchBuf[:batchPos] and resets batchPos under       *)
(*                  batchMu but performs the tunnel Write after Unlock: the slice aliases the   *)
(*                  shared buffer, an append during the (slow) write corrupts the bytes in        *)
(*                  flight (ghost devAlias).  Relay_udp_alias.cfg MUST fail with UEncoded.        *)
(* A tunnel Write and a UDP socket write are two steps each (start / ...Done): the write can be  *)
(* slow, everything that is not excluded by batchMu may happen in between.                        *)
(* Relay_udp.cfg (default) describes the patched code (both FALSE) and checks <>returned          *)
(* strictly; Relay_udp_seeded.cfg (both TRUE = the code as found) checks                          *)
(* <>(returned \/ devSpin \/ devBlocked); Relay_udp_lasso.cfg (both TRUE, strict property)        *)
(* MUST fail: TLC exhibits the lasso.  Relay_udp_tmpl.cfg is the same with open bounds.            *)
(* Time (round 3).  Neither relay may let time alone end a direction that is live.  Time is an          *)
(* environment action: Tick(e) makes a deadline the relay has put on conn e expire (whatever traffic      *)
(* flows in between), MonTick is one tick of the idle timer of tunnel.Tunnel.monitorTimeout, the            *)
(* goroutine that runs next to runDataCopy and closes both conns (MonFire) after IdleMax ticks without       *)
(* a reset; UTick is the same for a deadline on the UDP socket.  Deviations:                                 *)
(*   DevDeadlineAt/DevDeadlineHits - an ABSOLUTE deadline armed when one direction finishes ("halfclose",   *)
(*                  seeded fault C12/r3m2) or when the relay starts ("start"), failing Reads, Writes or both: *)
(*                  Relay_bidi_show_deadline / _show_wdeadline / _show_startdeadline.cfg MUST fail             *)
(*                  (BNoSpuriousEnd, BNoSpuriousWriteEnd)                                                      *)
(*   DevMonNoFeed - THE CODE AS FOUND before patch C12-4: nothing signals activityChan, the monitor's          *)
(*                  "idle" timer is an absolute lifetime of 5 minutes.  Relay_bidi_show_monnofeed.cfg MUST      *)
(*                  fail (BMonitorOnlyIdle); Relay_bidi_monitor.cfg = the patched monitor, passes               *)
(*   DevSockDeadline - an absolute read deadline on the UDP socket: Relay_udp_show_sockdeadline.cfg MUST        *)
(*                  fail (UNoSpuriousEnd)                                                                       *)
(* Batch writer (round 3): SockBatch = the UDP side is a real *net.UDPConn, flush() hands the pending            *)
(* datagrams to udpBatchWriter whose add() refuses what does not fit its BatchSize slots;                        *)
(* DevNoInnerFlush (seeded fault C12/r3m1) removes the flush inside the unpack loop:                              *)
(* Relay_udp_show_noinnerflush.cfg MUST fail (UBatchFits / UCompleteAny); Relay_udp_batch.cfg passes.              *)
(* End cause (round 4).  A direction ends by a clean EOF, a read error or a write error (Cause(d)), on          *)
(* either side, at any point of the stream, while the other endpoint is still sending, half-closed or only           *)
(* waiting.  Whatever the cause, the destination of the finished direction is told (BToldSafe, BTold); with          *)
(* peers that react to what they are told (Reactive, EpReact with fairness: a passive peer closes when it sees        *)
(* end-of-stream) one side ending is enough for the relay to return (BReturnsWhenOneSideEnds,                          *)
(* Relay_bidi_told.cfg).  DevNoSignalOnError (seeded fault C02/r4m2): half-close only after a clean end -               *)
(* Relay_bidi_show_nosignal.cfg MUST fail (BToldSafe; the liveness variant Relay_bidi_show_nosignal_live.cfg            *)
(* shows the lasso: the passive peer is never told, the other copier sits in its Read for ever).                         *)
(* Not judged: a conn that cannot be half-closed (no CloseWrite behind it) after an ERROR of the other side - the        *)
(* code waits for the peer of that conn to send or end; the property statement is silent there.                          *)
(* Not modelled: zero-length datagrams (dropped by g1, unrepresentable in the encoding), UDP        *)
(* socket write errors other than "closed", a tunnel whose write side fails before its read side.  *)
EXTENDS Naturals, Sequences, FiniteSets, TLC, Json

CONSTANTS
  \* ---- (i) Bidirectional
  MaxSend,       \* number of payload units each endpoint may send
  EofWithData,   \* BOOLEAN: a Read may return its last bytes together with io.EOF
  ShapesA, ShapesB, \* conn shapes of the local side / the tunnel side (cfg: <- LocalShapes / AllShapes ...)
  DevDeadlineAt,   \* "none" (the code) | "halfclose" (seeded fault C12/r3m2: when one direction has finished) | "start"
                   \* (when the relay starts): the relay puts an ABSOLUTE deadline on a conn of a live direction
  DevDeadlineHits, \* subset of {"read", "write"}: what an expired deadline fails (SetReadDeadline / SetWriteDeadline / SetDeadline)
  Monitor,         \* TRUE: the relay runs under tunnel.Tunnel (Start: go monitorTimeout(); go runDataCopy())
  IdleMax,         \* the monitor's idle timeout (5 minutes in the code), in ticks
  DevMonNoFeed,    \* the code as found before C12-4: nothing ever signals activityChan - the "idle" timer is an
                   \* absolute lifetime: the tunnel is closed IdleMax ticks after Start whatever traffic flows
  Reactive,        \* TRUE: the endpoints are peers that REACT: an endpoint that is only waiting closes as soon as it has
                   \* been told that the other side is over (it sees end-of-stream / its conn closed) - with fairness
  DevNoSignalOnError, \* seeded fault C02/r4m2 (not in the code): tryCloseWrite(dst) only after a CLEAN end of the
                   \* direction (SendError/ReceiveError == nil); after a read error or a write error nobody is told
  DevCloseWriterFallback, \* seeded fault: the adapter's CloseWrite closes a Writer that is only an io.Closer
  \* ---- (ii) UDP
  Classes,       \* datagram size classes = model sizes (1, 2, 3 ~ "255", 4 ~ "65535")
  MaxT, MaxU,    \* at most MaxT datagrams tunnel->UDP and MaxU datagrams UDP->tunnel
  TSeqs, USeqs,  \* the datagram size sequences of the two directions (cfg: TSeqs <- TAll | TSmall, USeqs <- UAll | USmall)
  Cuts,          \* "all": every cut offset 0..Len(stream); "end": only the end of the stream
  Chunks,        \* tunnel Read chunking policies: 0 = any split, c in 1..98 = at most c bytes, 99 = all available
  Paces,         \* tags for the driver (how the UDP peer spaces its datagrams w.r.t. the flush timer)
  BatchSize,     \* pendingPackets capacity that forces a flush (32 in the code)
  BatchBuf,      \* batchBufSize of the batching writer (256 KiB in the code; scaled to model sizes)
  High,          \* refill threshold of readBuf (256 KiB in the code): larger than any modelled stream
  DevSpin, DevNoUnblock, DevAliasFlush,
  SockBatch,     \* TRUE: the UDP side is a real *net.UDPConn: flush() goes through udpBatchWriter, whose add()
                 \* silently refuses a datagram once its BatchSize message slots are taken
  DevNoInnerFlush, \* seeded fault C12/r3m1 (not in the code): no flush inside the unpack loop when BatchSize
                 \* datagrams are pending - one parse pass may hand more than BatchSize datagrams to flush()
  SockQueue,     \* TRUE: the UDP side is a mapping.UDPVirtualConn: Write queues the datagram (writeChan), a
                 \* separate goroutine (writeLoop) sends it on the socket later
  DevQueueRefs,  \* seeded fault C12/r2m2 (not in the code): the queue keeps the slice it was given - a
                 \* REFERENCE into the relay's readBuf - instead of a copy
  DevSockDeadline, \* deviation (not in the code): an absolute read deadline on the UDP socket - g1 leaves its loop on the
                 \* time-out although the socket is open and the tunnel alive
  DevDropOnClose, \* the code as found before C12-3: writeLoop returns as soon as the conn is closed and
                 \* abandons what is still queued (ghost devDropped)
  \* ---- generation
  Emit           \* TRUE: print behaviours ("BEH {json}")

Min(a, b) == IF a < b THEN a ELSE b
Out(x) == IF Emit THEN PrintT("BEH " \o ToJson(x)) ELSE TRUE

VARIABLES
  \* (i)
  shape,   \* [end -> shape of the conn handed to the relay] (fixed per behaviour), see AllShapes
  ep,      \* [end -> [sent, wr, rd, got, eofSeen]]  endpoint state
  cp,      \* [dir -> [pc, off, n, rerr, werr]]      copier goroutines
  bmain,   \* "wait" | "returned"
  rclosed, \* [end -> BOOLEAN] relay called conn.Close()
  dl,      \* [end -> "none" | "armed" | "expired"] deadline the relay has put on that conn
  mon,     \* tunnel.Tunnel.monitorTimeout: [idle, quiet, fired]  idle = ticks on the monitor's timer since it was last
           \* reset, quiet = (ghost) ticks since data last moved, fired = the monitor has closed the tunnel
  bhist,   \* behaviour so far (generation only)
  \* (ii)
  par,     \* behaviour parameters [t, u, cut, how, chunk, pace]
  tpos,    \* bytes of the encoded stream handed to g2 so far
  g2,      \* [pc, buf, stale, processed, pending, rerr, ended, cont]  pending = <<offset, length>> references into
           \* readBuf (zero copy); buf = readBuf[:buffered], stale = the bytes of readBuf behind it (kept only
           \* when something can still look at them: DevQueueRefs)
  wq,      \* UDPVirtualConn.writeChan: queued datagrams [o, n, data]
  udpGot,  \* datagrams written to the UDP socket, in order
  g1,      \* [pc, mem, pos, dg, serr]  mem = bytes of batchBuf, pos = batchPos
  lock,    \* batchMu: "free" | "g1" | "timer"
  tw,      \* the tunnel Write in progress: [by, n, cont]  (by = "none": no write in progress)
  usent,   \* datagrams the UDP peer has sent so far
  upos,    \* datagrams g1 has read so far
  tunGot,  \* bytes written to the tunnel, in order
  timerOn, \* flush ticker goroutine alive
  sockClosed, \* UDP socket closed (reads on it fail)
  tunHalfClosed,
  umain,   \* "wait" | "returned"
  devSpin, devBlocked, devAlias, devDropped

bvars == <<shape, ep, cp, bmain, rclosed, dl, mon, bhist>>
uvars == <<par, tpos, g2, wq, udpGot, g1, lock, tw, usent, upos, tunGot, timerOn, sockClosed, tunHalfClosed, umain, devSpin, devBlocked, devAlias, devDropped>>
vars  == <<bvars, uvars>>
bview == <<shape, ep, cp, bmain, rclosed, dl, mon, uvars>>   \* VIEW of the generation cfg: everything but bhist

(*********************************************************************************************)
(* (i) Bidirectional                                                                         *)
(*********************************************************************************************)
Ends == {"A", "B"}
Dirs == {"AB", "BA"}
Src(d) == IF d = "AB" THEN "A" ELSE "B"
Dst(d) == IF d = "AB" THEN "B" ELSE "A"

\* ---- endpoint shapes: what tryCloseWrite(conn) can reach --------------------------------------
\* "<wrap>-<cap>":  wrap = direct (the conn object itself is handed to the relay: local TCP/UDP
\*   socket, scripted conn) | same (one full-duplex object is Reader AND Writer of the
\*   iocopy.NewReadWriteCloser adapter - what base.go / target_handler.go / socks5_tunnel.go build
\*   around the tunnel) | split (separate reader and writer objects inside the adapter);
\*   cap = what the (writer) object offers: cw (CloseWrite) | closer (Close only) | none
AllShapes == {"direct-cw", "direct-closer", "same-cw", "same-closer", "same-none", "split-cw", "split-closer", "split-none"}
LocalShapes == {"direct-cw", "direct-closer"}
CwLocal == {"direct-cw"}
CwShapes == {"direct-cw", "same-cw", "split-cw"}     \* conns on which tryCloseWrite reaches a CloseWrite
TwoShapes == {"direct-cw", "same-closer"}
\* effect of tryCloseWrite(conn) on a conn of that shape:
\*   "eof"  - the peer of that conn sees end-of-stream, its other direction is untouched
\*   "none" - nothing (the final Close does it)
\*   "kill" - the whole conn is closed, both directions die          (DevCloseWriterFallback only)
\* the code: *net.TCPConn / CloseWriter -> CloseWrite(); adapter.CloseWrite forwards to a Writer
\* that has CloseWrite, otherwise does nothing.
\* DevCloseWriterFallback (seeded fault C12/r2m3, not in the code): the adapter Close()s a Writer
\* that is an io.Closer - for a separate writer object that is its end-of-stream, for ONE
\* full-duplex object behind Reader and Writer it closes the tunnel conn under the reverse direction
Effect(sh) == IF sh \in {"direct-cw", "same-cw", "split-cw"} THEN "eof"
              ELSE IF DevCloseWriterFallback /\ sh = "split-closer" THEN "eof"
              ELSE IF DevCloseWriterFallback /\ sh = "same-closer" THEN "kill"
              ELSE "none"
Cw(e) == Effect(shape[e]) = "eof"

\* an expired deadline fails the Reads / the Writes of that conn (time-out error)
RdExpired(e) == dl[e] = "expired" /\ "read" \in DevDeadlineHits
WrExpired(e) == dl[e] = "expired" /\ "write" \in DevDeadlineHits
\* only conns handed over directly can take a deadline: the iocopy adapter has no Set*Deadline
Arm(e, cur) == IF shape[e] \in LocalShapes /\ cur = "none" THEN "armed" ELSE cur
Mon0 == [idle |-> 0, quiet |-> 0, fired |-> FALSE]

BIdle == /\ shape \in [Ends -> AllShapes] /\ shape["A"] \in ShapesA /\ shape["B"] \in ShapesB
         /\ ep = [e \in Ends |-> [sent |-> 0, wr |-> "open", rd |-> "open", got |-> 0, eofSeen |-> FALSE]]
         /\ cp = [d \in Dirs |-> [pc |-> "read", off |-> 0, n |-> 0, rerr |-> "none", werr |-> FALSE]]
         /\ bmain = "wait"
         /\ rclosed = [e \in Ends |-> FALSE]
         \* DevDeadlineAt = "start" (not in the code): a lifetime deadline set before the copy loops start
         /\ dl = [e \in Ends |-> IF DevDeadlineAt = "start" THEN Arm(e, "none") ELSE "none"]
         /\ mon = Mon0
         /\ bhist = IF Emit THEN <<[a |-> "Init", shA |-> shape["A"], shB |-> shape["B"]]>> ELSE <<>>

BH(step) == IF Emit THEN /\ bhist' = Append(bhist, step) /\ Out(bhist') ELSE bhist' = bhist

\* ---- environment: the two endpoints -------------------------------------------------------
\* wr = the endpoint's outgoing half as the relay's Read sees it: open | shut (EOF after the
\*      data) | err (Read fails);  rd = its incoming half: open | closed (relay's Write fails)
EpSend(e) == /\ bmain = "wait" /\ ep[e].wr = "open" /\ ep[e].sent < MaxSend
             /\ ep' = [ep EXCEPT ![e].sent = @ + 1]
             /\ BH([a |-> "Send", e |-> e])
             /\ UNCHANGED <<shape, cp, bmain, rclosed, dl, mon>>
EpHalfClose(e) == /\ bmain = "wait" /\ ep[e].wr = "open"
                  /\ ep' = [ep EXCEPT ![e].wr = "shut"]
                  /\ BH([a |-> "HalfClose", e |-> e])
                  /\ UNCHANGED <<shape, cp, bmain, rclosed, dl, mon>>
EpClose(e) == /\ bmain = "wait" /\ ep[e].rd = "open"
              /\ ep' = [ep EXCEPT ![e].wr = "shut", ![e].rd = "closed"]
              /\ BH([a |-> "Close", e |-> e])
              /\ UNCHANGED <<shape, cp, bmain, rclosed, dl, mon>>
EpError(e) == /\ bmain = "wait" /\ ep[e].rd = "open"
              /\ ep' = [ep EXCEPT ![e].wr = "err", ![e].rd = "closed"]
              /\ BH([a |-> "Error", e |-> e])
              /\ UNCHANGED <<shape, cp, bmain, rclosed, dl, mon>>
\* e has been told that the other side is over: its peer sees end-of-stream (the relay half-closed the
\* conn) or the conn closed
Told(e) == (Cw(e) /\ ep[e].eofSeen) \/ rclosed[e]
\* a passive peer (a server waiting for the next request) reacts to what it is told: it closes
EpReact(e) == /\ Reactive /\ bmain = "wait" /\ ep[e].rd = "open" /\ Told(e)
              /\ ep' = [ep EXCEPT ![e].wr = IF @ = "open" THEN "shut" ELSE @, ![e].rd = "closed"]
              /\ BH([a |-> "React", e |-> e])
              /\ UNCHANGED <<shape, cp, bmain, rclosed, dl, mon>>
EnvB == \E e \in Ends : EpSend(e) \/ EpHalfClose(e) \/ EpClose(e) \/ EpError(e) \/ EpReact(e)

\* ---- copier goroutine d: for { nr, readErr := src.Read(buf); ... } ---------------------------
Avail(d) == ep[Src(d)].sent - cp[d].off

\* data has moved through the tunnel conn: really not idle (quiet); the monitor's timer is reset only if
\* somebody tells the monitor (the patched code: every Read/Write of the tunnel conn with n > 0 signals
\* activityChan; the code as found: nobody does)
Moved == mon' = IF Monitor /\ ~mon.fired THEN [mon EXCEPT !.quiet = 0, !.idle = IF DevMonNoFeed THEN @ ELSE 0] ELSE mon

\* src.Read returns nr > 0 (and possibly io.EOF with the last bytes)
CReadData(d) ==
  /\ cp[d].pc = "read" /\ ep[Src(d)].wr # "err" /\ Avail(d) > 0 /\ ~rclosed[Src(d)] /\ ~RdExpired(Src(d))
  /\ \E n \in 1..Avail(d) : \E eof \in {FALSE} \cup (IF EofWithData /\ ep[Src(d)].wr = "shut" /\ n = Avail(d) THEN {TRUE} ELSE {}) :
       /\ cp' = [cp EXCEPT ![d].pc = "write", ![d].n = n, ![d].off = @ + n, ![d].rerr = IF eof THEN "eof" ELSE "none"]
       /\ BH([a |-> "Read", d |-> d, n |-> n, end |-> IF eof THEN "eof" ELSE "none"])
  /\ Moved
  /\ UNCHANGED <<shape, ep, bmain, rclosed, dl>>
\* src.Read returns (0, io.EOF) or (0, err): leave the loop
CReadEnd(d) ==
  /\ cp[d].pc = "read"
  /\ \/ ep[Src(d)].wr = "err"
     \/ ep[Src(d)].wr = "shut" /\ Avail(d) = 0
     \/ rclosed[Src(d)]                             \* reading a conn that has been closed on the relay's side
     \/ RdExpired(Src(d))                           \* i/o timeout: a read deadline in the past fails every Read
  /\ LET k == IF ep[Src(d)].wr = "err" \/ rclosed[Src(d)] \/ RdExpired(Src(d)) THEN "err" ELSE "eof" IN
       /\ cp' = [cp EXCEPT ![d].pc = "halfclose", ![d].rerr = k]
       /\ BH([a |-> "Read", d |-> d, n |-> 0, end |-> k])
  /\ UNCHANGED <<shape, ep, bmain, rclosed, dl, mon>>
\* dst.Write(buf[:nr]): everything or an error (then leave the loop)
CWrite(d) ==
  /\ cp[d].pc = "write"
  /\ IF ep[Dst(d)].rd = "open" /\ ~rclosed[Dst(d)] /\ ~WrExpired(Dst(d))
       THEN /\ ep' = [ep EXCEPT ![Dst(d)].got = @ + cp[d].n]
            /\ cp' = [cp EXCEPT ![d].n = 0, ![d].pc = IF cp[d].rerr = "none" THEN "read" ELSE "halfclose"]
            /\ Moved
       ELSE /\ ep' = ep
            /\ cp' = [cp EXCEPT ![d].n = 0, ![d].werr = TRUE, ![d].pc = "halfclose"]
            /\ mon' = mon
  /\ BH([a |-> "Write", d |-> d])
  /\ UNCHANGED <<shape, bmain, rclosed, dl>>
\* tryCloseWrite(dst): see Effect
\* the END CAUSE of direction d: "eof" (clean end of the source) | "rerr" (the source's Read failed: reset,
\* transport error, time-out, conn closed under the reader) | "werr" (the destination's Write failed)
Cause(d) == IF cp[d].werr THEN "werr" ELSE IF cp[d].rerr = "err" THEN "rerr" ELSE "eof"
\* DevNoSignalOnError: the half-close is skipped unless the direction ended cleanly
Signals(d) == ~DevNoSignalOnError \/ Cause(d) = "eof"
CHalfClose(d) ==
  /\ cp[d].pc = "halfclose"
  /\ ep' = [ep EXCEPT ![Dst(d)].eofSeen = @ \/ (Signals(d) /\ Cw(Dst(d)))]
  /\ rclosed' = [rclosed EXCEPT ![Dst(d)] = @ \/ (Signals(d) /\ Effect(shape[Dst(d)]) = "kill")]
  \* DevDeadlineAt = "halfclose" (seeded fault C12/r3m2, not in the code): "the other direction must not wait
  \* for ever" - an ABSOLUTE deadline is put on the conn the surviving direction reads from (Dst(d)) and, for a
  \* write deadline, on the conn it writes to (Src(d))
  /\ dl' = IF DevDeadlineAt # "halfclose" THEN dl
           ELSE [e \in Ends |-> IF e = Dst(d) \/ "write" \in DevDeadlineHits THEN Arm(e, dl[e]) ELSE dl[e]]
  /\ cp' = [cp EXCEPT ![d].pc = "done"]
  /\ BH([a |-> "CloseWrite", d |-> d])
  /\ UNCHANGED <<shape, bmain, mon>>
Copier(d) == CReadData(d) \/ CReadEnd(d) \/ CWrite(d) \/ CHalfClose(d)

\* wg.Wait(); connA.Close(); connB.Close(); return   (under tunnel.Tunnel: runDataCopy then calls
\* t.Close, which cancels the context - the monitor goroutine exits)
BMain == /\ bmain = "wait" /\ \A d \in Dirs : cp[d].pc = "done"
         /\ bmain' = "returned"
         /\ rclosed' = [e \in Ends |-> TRUE]
         /\ BH([a |-> "Return"])
         /\ UNCHANGED <<shape, ep, cp, dl, mon>>

\* environment: time passes - an absolute deadline, once set, is eventually in the past no matter how
\* much traffic flows
Tick(e) == /\ bmain = "wait" /\ dl[e] = "armed"
           /\ dl' = [dl EXCEPT ![e] = "expired"]
           /\ bhist' = bhist
           /\ UNCHANGED <<shape, ep, cp, bmain, rclosed, mon>>

\* ---- tunnel.Tunnel.monitorTimeout (the goroutine next to runDataCopy) --------------------------
\*   timer := time.NewTimer(idleTimeout); for { select { case <-ctx.Done(): return
\*     case <-timer.C: if time.Since(lastActivity) >= idleTimeout { t.Close(CloseReasonTimeout) ... }
\*     case <-t.activityChan: lastActivity = time.Now(); timer.Reset(idleTimeout) } }
\* environment: one tick of time passes on the monitor's timer
MonTick == /\ Monitor /\ bmain = "wait" /\ ~mon.fired /\ mon.idle < IdleMax
           /\ mon' = [mon EXCEPT !.idle = @ + 1, !.quiet = @ + 1]
           /\ bhist' = bhist
           /\ UNCHANGED <<shape, ep, cp, bmain, rclosed, dl>>
\* timer.C with no activity seen for idleTimeout: Tunnel.Close closes localConn and tunnelRWC under
\* the copiers
MonFire == /\ Monitor /\ bmain = "wait" /\ ~mon.fired /\ mon.idle = IdleMax
           /\ mon' = [mon EXCEPT !.fired = TRUE]
           /\ rclosed' = [e \in Ends |-> TRUE]
           /\ BH([a |-> "IdleClose"])
           /\ UNCHANGED <<shape, ep, cp, bmain, dl>>

UFrozen == UNCHANGED uvars
BNext == (EnvB \/ (\E e \in Ends : Tick(e)) \/ MonTick \/ MonFire \/ (\E d \in Dirs : Copier(d)) \/ BMain) /\ UFrozen

\* ---- properties -----------------------------------------------------------------------------
BTypeOK == /\ \A e \in Ends : ep[e].sent \in 0..MaxSend /\ ep[e].got \in 0..MaxSend
           /\ \A d \in Dirs : cp[d].pc \in {"read", "write", "halfclose", "done"}
           /\ mon.idle \in 0..IdleMax /\ mon.quiet \in 0..mon.idle /\ (mon.fired => Monitor)
\* byte pipe per direction: what reached the destination is a prefix of what the copier has read,
\* which is a prefix of what the source has sent (payload = counter stream, so counts suffice)
BPipe == \A d \in Dirs : /\ ep[Dst(d)].got + cp[d].n <= cp[d].off
                         /\ cp[d].off <= ep[Src(d)].sent
\* a direction that ended by a clean EOF with no write error has delivered everything
BComplete == \A d \in Dirs : (cp[d].pc \in {"halfclose", "done"} /\ cp[d].rerr = "eof" /\ ~cp[d].werr)
                               => ep[Dst(d)].got = ep[Src(d)].sent
\* the relay half-closes a conn only after the direction into it has ended, and fully closes a
\* conn only after BOTH directions have ended (or the tunnel has really been idle for the idle
\* timeout): the reverse direction keeps flowing meanwhile
BReverseKeepsFlowing ==
  /\ \A e \in Ends : rclosed[e] => (mon.fired \/ \A d \in Dirs : cp[d].pc = "done")
  /\ \A d \in Dirs : (Cw(Dst(d)) /\ ep[Dst(d)].eofSeen) => cp[d].pc = "done"
  /\ \A d \in Dirs : cp[d].pc \in {"halfclose", "done"} => (cp[d].rerr # "none" \/ cp[d].werr)
\* ... and a direction never ends unless its own source ended or its own destination failed
BNoSpuriousEnd == \A d \in Dirs : cp[d].rerr # "none" => (ep[Src(d)].wr # "open" \/ mon.fired)
BNoSpuriousWriteEnd == \A d \in Dirs : cp[d].werr => (ep[Dst(d)].rd = "closed" \/ rclosed[Dst(d)])
\* whatever ended a direction (clean EOF, read error, write error - on either side, at any point of the
\* stream), its destination is told: a direction that is over has half-closed its destination (if the conn
\* can be half-closed at all) or the conn is closed
BToldSafe == \A d \in Dirs : cp[d].pc = "done" => (Told(Dst(d)) \/ ~Cw(Dst(d)))
\* liveness: once an endpoint is over - for ANY cause - the other endpoint is told (or the relay has returned)
BTold == \A s \in Ends : (ep[s].wr # "open") ~> (Told(IF s = "A" THEN "B" ELSE "A") \/ ~Cw(IF s = "A" THEN "B" ELSE "A") \/ bmain = "returned")
\* liveness with peers that react to what they are told (cfg: every conn can be half-closed): one endpoint
\* ending, for any cause, is enough for the relay to return
BReturnsWhenOneSideEnds == (\E s \in Ends : ep[s].wr # "open") ~> (bmain = "returned")
\* the relay puts no deadline on a conn whose direction is still live (time alone must never
\* end a direction whose source is open)
BNoDeadline == \A e \in Ends : dl[e] = "none"
\* the idle monitor closes the tunnel only when no data has moved for the whole idle timeout
BMonitorOnlyIdle == mon.fired => mon.quiet = IdleMax
\* nothing is delivered after the relay's own half-close of that conn
BMonotone == [][\A e \in Ends : /\ ep'[e].got >= ep[e].got
                                /\ (ep[e].eofSeen /\ Cw(e)) => ep'[e].got = ep[e].got]_bvars

BFair == /\ \A d \in Dirs : WF_vars(Copier(d) /\ UFrozen)
         /\ WF_vars(BMain /\ UFrozen)
         /\ \A e \in Ends : WF_vars(EpReact(e) /\ UFrozen)      \* (enabled only with Reactive)
\* liveness: once both endpoints have finished sending (EOF or failure), Bidirectional returns
BTermination == (\A e \in Ends : ep[e].wr # "open") ~> (bmain = "returned")
\* liveness: after one side half-closed, bytes the other side still sends are delivered as long
\* as the half-closed side keeps reading (and the tunnel has not been idle for the idle timeout)
BReverseDelivered ==
  \A d \in Dirs : \A k \in 1..MaxSend :
     (ep[Src(d)].sent >= k) ~> (ep[Dst(d)].got >= k \/ ep[Dst(d)].rd = "closed" \/ ep[Src(d)].wr = "err" \/ mon.fired)

(*********************************************************************************************)
(* (ii) UDP                                                                                  *)
(*********************************************************************************************)
\* ---- the length-prefixed encoding ------------------------------------------------------------
Dg(i, s)  == [j \in 1..s |-> 10 * i + j]              \* payload of the i-th datagram (distinct bytes)
Rec(i, s) == <<s \div 256, s % 256>> \o Dg(i, s)      \* [len:2 big-endian][datagram]
RECURSIVE EncUpTo(_, _)
EncUpTo(sizes, k) == IF k = 0 THEN <<>> ELSE EncUpTo(sizes, k - 1) \o Rec(k, sizes[k])
Enc(sizes) == EncUpTo(sizes, Len(sizes))
RECURSIVE EndOf(_, _)
EndOf(sizes, k) == IF k = 0 THEN 0 ELSE EndOf(sizes, k - 1) + 2 + sizes[k]   \* offset just after record k
\* number of records that lie completely inside the first c bytes
Whole(sizes, c) == Cardinality({k \in 1..Len(sizes) : EndOf(sizes, k) <= c})

SeqsUpTo(S, n) == UNION {[1..m -> S] : m \in 0..n}
TAll == SeqsUpTo(Classes, MaxT)
UAll == SeqsUpTo(Classes, MaxU)
TSmall == {<<>>, <<2>>, <<1, 3>>}
USmall == {<<>>, <<2>>}
TTiny == {<<2>>}
UNone == {<<>>}

Stream == Enc(par.t)

G2Init == [pc |-> "read", buf |-> <<>>, stale |-> <<>>, processed |-> 0, pending |-> <<>>, rerr |-> "none", ended |-> FALSE, cont |-> "none"]
\* dl: DevSockDeadline (not in the code) - an absolute read deadline on the UDP socket, set when g1 starts
G1Init == [pc |-> "read", mem |-> <<>>, pos |-> 0, dg |-> 0, serr |-> "none", dl |-> IF DevSockDeadline THEN "armed" ELSE "none"]
NoWrite == [by |-> "none", n |-> 0, cont |-> "none"]

URest == /\ tpos = 0
         /\ g2 = G2Init
         /\ wq = <<>>
         /\ udpGot = <<>>
         /\ g1 = G1Init
         /\ lock = "free" /\ tw = NoWrite
         /\ usent = 0 /\ upos = 0 /\ tunGot = <<>>
         /\ timerOn = TRUE /\ sockClosed = FALSE /\ tunHalfClosed = FALSE
         /\ umain = "wait" /\ devSpin = FALSE /\ devBlocked = FALSE /\ devAlias = FALSE /\ devDropped = FALSE

UIdle == /\ par = [t |-> <<>>, u |-> <<>>, cut |-> 0, how |-> "eof", chunk |-> 0, pace |-> "burst"]
         /\ URest

UInit == /\ BIdle /\ shape = [e \in Ends |-> "direct-cw"]
         /\ \E t \in TSeqs : \E u \in USeqs : \E c \in (IF Cuts = "all" THEN 0..Len(Enc(t)) ELSE {Len(Enc(t))}) : \E h \in {"eof", "err"} :
            \E ch \in Chunks : \E pc \in Paces :
              par = [t |-> t, u |-> u, cut |-> c, how |-> h, chunk |-> ch, pace |-> pc]
         /\ URest
         /\ Out(par @@ [whole |-> Whole(par.t, par.cut), len |-> Len(Enc(par.t))])

BInit == BIdle /\ UIdle

\* the tunnel has failed for writers too once the reader has hit an error cut
TunBroken == par.how = "err" /\ g2.ended

\* ---- g2: tunnel -> UDP socket (bulk de-framing reader) ---------------------------------------
\* pendingPackets reference readBuf (zero copy): what is written is what readBuf holds when the
\* write happens
Mem == g2.buf \o g2.stale        \* the readBuf array as far as anybody can still see it
Drop(q, n) == SubSeq(q, n + 1, Len(q))
\* what flush() really sends: everything, or - through udpBatchWriter - what fitted into its slots
Sendable(pend) == IF SockBatch /\ Len(pend) > BatchSize THEN SubSeq(pend, 1, BatchSize) ELSE pend
Contents(pend, buf) == [i \in 1..Len(pend) |-> SubSeq(buf, pend[i][1] + 1, pend[i][1] + pend[i][2])]
FlushOK == ~sockClosed

\* if buffered < 256K { n, err := tunnelConn.Read(readBuf[buffered:]) ... }
G2Read ==
  /\ g2.pc = "read"
  /\ IF Len(g2.buf) >= High
       THEN /\ g2' = [g2 EXCEPT !.pc = "inner", !.processed = 0]
            /\ UNCHANGED tpos
       ELSE LET avail == par.cut - tpos IN
            IF avail > 0
              THEN \E n \in (IF par.chunk = 0 THEN 1..avail ELSE {Min(par.chunk, avail)}) :
                     /\ g2' = [g2 EXCEPT !.buf = @ \o SubSeq(Stream, tpos + 1, tpos + n), !.stale = Drop(@, n), !.pc = "inner", !.processed = 0]
                     /\ tpos' = tpos + n
              ELSE \* (0, io.EOF) or (0, err)
                   /\ g2' = [g2 EXCEPT !.rerr = IF par.how = "err" THEN "err" ELSE @,
                                        !.ended = TRUE,
                                        !.processed = 0,
                                        !.pc = IF Len(g2.buf) = 0 THEN "lastflush" ELSE "inner"]
                   /\ UNCHANGED tpos
  /\ UNCHANGED <<wq, udpGot, sockClosed, devSpin, devBlocked>>

\* one iteration of: for buffered-processed >= 2 { ... }
G2Inner ==
  /\ g2.pc = "inner"
  /\ LET b == g2.buf  p == g2.processed IN
     IF Len(b) - p >= 2
       THEN LET plen == b[p + 1] * 256 + b[p + 2] IN
            IF plen = 0 \/ plen > 65535
              THEN \* illegal length: flush(); return
                   g2' = [g2 EXCEPT !.pc = "flush", !.cont = "return"]
              ELSE IF Len(b) - p < 2 + plen
                THEN \* incomplete record: wait for more data
                     g2' = [g2 EXCEPT !.pc = "after"]
                ELSE LET pend == Append(g2.pending, <<p + 2, plen>>) IN
                     g2' = [g2 EXCEPT !.pending = pend, !.processed = p + 2 + plen,
                                      !.pc = IF Len(pend) >= BatchSize /\ ~DevNoInnerFlush THEN "flush" ELSE "inner",
                                      !.cont = IF Len(pend) >= BatchSize /\ ~DevNoInnerFlush THEN "inner" ELSE @]
       ELSE g2' = [g2 EXCEPT !.pc = "after"]
  /\ UNCHANGED <<tpos, wq, udpGot, sockClosed, devSpin, devBlocked>>

\* after the inner loop: "must flush before moving the buffer" (pending references readBuf)
G2After ==
  /\ g2.pc = "after"
  /\ g2' = IF Len(g2.pending) > 0 /\ g2.processed > 0
             THEN [g2 EXCEPT !.pc = "flush", !.cont = "compact"]
             ELSE [g2 EXCEPT !.pc = "compact"]
  /\ UNCHANGED <<tpos, wq, udpGot, sockClosed, devSpin, devBlocked>>

\* flush(): the UDP socket write(s) of all pending datagrams, in order - a separate, possibly
\* slow step.  cont says where flush() was called from.
\* On a plain socket the datagrams are on the wire when Write returns; on a UDPVirtualConn
\* (SockQueue) Write copies the datagram into writeChan and SockSend puts it on the wire later.
G2UdpWriteDone ==
  /\ g2.pc = "flush"
  /\ IF Len(g2.pending) = 0 \/ FlushOK
       THEN /\ IF SockQueue
                 THEN /\ wq' = wq \o [i \in 1..Len(g2.pending) |->
                                        [o |-> g2.pending[i][1], n |-> g2.pending[i][2],
                                         data |-> IF DevQueueRefs THEN <<>> ELSE Contents(g2.pending, g2.buf)[i]]]
                      /\ UNCHANGED udpGot
                 ELSE /\ udpGot' = udpGot \o Contents(Sendable(g2.pending), g2.buf)
                      /\ UNCHANGED wq
            /\ g2' = [g2 EXCEPT !.pending = <<>>, !.cont = "none",
                                !.pc = CASE g2.cont = "inner" -> "inner" [] g2.cont = "compact" -> "compact" [] OTHER -> "exit"]
       ELSE /\ UNCHANGED <<udpGot, wq>>
            /\ g2' = [g2 EXCEPT !.cont = "none", !.pc = "exit",
                                !.rerr = IF g2.cont = "return" THEN @ ELSE IF g2.cont = "last" /\ @ # "none" THEN @ ELSE "err"]
  /\ UNCHANGED <<tpos, sockClosed, devSpin, devBlocked>>

\* compact readBuf, then go round
\*   code as found  : always back to the top of the loop (re-reads a finished stream forever
\*                    when a partial record is left)
\*   patched (C12-1): `if tunnelEnded { ...; break }`
G2Compact ==
  /\ g2.pc = "compact"
  /\ LET rest == SubSeq(g2.buf, g2.processed + 1, Len(g2.buf)) IN
     IF g2.ended /\ ~DevSpin
       THEN /\ g2' = [g2 EXCEPT !.buf = rest, !.stale = IF DevQueueRefs THEN Drop(Mem, Len(rest)) ELSE <<>>, !.processed = 0, !.pc = "lastflush",
                                \* a left-over partial record is reported as io.ErrUnexpectedEOF
                                !.rerr = IF Len(rest) > 0 /\ @ = "none" THEN "trunc" ELSE @]
            /\ UNCHANGED devSpin
       ELSE /\ g2' = [g2 EXCEPT !.buf = rest, !.stale = IF DevQueueRefs THEN Drop(Mem, Len(rest)) ELSE <<>>, !.processed = 0, !.pc = "read"]
            /\ devSpin' = (devSpin \/ (g2.ended /\ Len(rest) > 0))
  /\ UNCHANGED <<tpos, wq, udpGot, sockClosed, devBlocked>>

\* flush the remaining datagrams; break
G2LastFlush ==
  /\ g2.pc = "lastflush"
  /\ g2' = [g2 EXCEPT !.pc = "flush", !.cont = "last"]
  /\ UNCHANGED <<tpos, wq, udpGot, sockClosed, devSpin, devBlocked>>

\* goroutine exit
\*   code as found  : nothing; g1 may stay blocked in udpConn.Read forever
\*   patched (C12-2): defer udpConn.Close() - wakes g1
G2Exit ==
  /\ g2.pc = "exit"
  /\ g2' = [g2 EXCEPT !.pc = "done"]
  /\ IF DevNoUnblock
       THEN /\ devBlocked' = (devBlocked \/ g1.pc # "done")
            /\ UNCHANGED sockClosed
       ELSE /\ sockClosed' = TRUE
            /\ UNCHANGED devBlocked
  /\ UNCHANGED <<tpos, wq, udpGot, devSpin>>

G2 == (G2Read \/ G2Inner \/ G2After \/ G2UdpWriteDone \/ G2Compact \/ G2LastFlush \/ G2Exit)
      /\ UNCHANGED <<par, g1, lock, tw, usent, upos, tunGot, timerOn, tunHalfClosed, umain, devAlias, devDropped>>

\* UDPVirtualConn.writeLoop: take the next queued datagram and WriteTo it on the socket.
\*   the code          : the queue holds a copy made by Write
\*   DevQueueRefs      : the queue holds the caller's slice - the wire gets what readBuf holds NOW
\*   after Close()     : patched (C12-3): what was accepted before the close is still sent;
\*                       DevDropOnClose (as found): select may take closeCh first - the rest is abandoned
SockSend ==
  /\ Len(wq) > 0
  /\ LET it == Head(wq) IN
     udpGot' = Append(udpGot, IF DevQueueRefs THEN SubSeq(Mem \o [i \in 1..it.n |-> 0], it.o + 1, it.o + it.n) ELSE it.data)
  /\ wq' = Tail(wq)
  /\ UNCHANGED <<par, tpos, g2, g1, lock, tw, usent, upos, tunGot, timerOn, sockClosed, tunHalfClosed, umain, devSpin, devBlocked, devAlias, devDropped>>
SockLoopExit ==
  /\ DevDropOnClose /\ sockClosed /\ Len(wq) > 0
  /\ wq' = <<>>
  /\ devDropped' = TRUE
  /\ UNCHANGED <<par, tpos, g2, udpGot, g1, lock, tw, usent, upos, tunGot, timerOn, sockClosed, tunHalfClosed, umain, devSpin, devBlocked, devAlias>>

\* ---- g1: UDP socket -> tunnel (length-prefix batching writer) --------------------------------
Batch == SubSeq(g1.mem, 1, g1.pos)
\* copy(batchBuf[pos:], rec): bytes beyond pos+len keep whatever was there
Put(mem, pos, rec) == [i \in 1..(IF Len(mem) > pos + Len(rec) THEN Len(mem) ELSE pos + Len(rec)) |->
                         IF i > pos /\ i <= pos + Len(rec) THEN rec[i - pos] ELSE mem[i]]
\* batchPos = 0 (stale bytes are only observable through an aliased slice)
Reset(mem) == IF DevAliasFlush THEN mem ELSE <<>>

\* n, err := udpConn.Read(readBuf)     (outside batchMu)
G1Read ==
  /\ g1.pc = "read"
  /\ IF sockClosed \/ g1.dl = "expired"          \* closed: io.EOF / net.ErrClosed;  expired deadline: i/o timeout
       THEN g1' = [g1 EXCEPT !.pc = "flock"] /\ UNCHANGED upos
       ELSE /\ upos < usent
            /\ upos' = upos + 1
            /\ g1' = [g1 EXCEPT !.pc = "lock", !.dg = upos + 1]
  /\ UNCHANGED <<lock, tw, tunGot, timerOn, tunHalfClosed, devAlias>>
\* batchMu.Lock()
G1Lock ==
  /\ g1.pc \in {"lock", "flock"} /\ lock = "free"
  /\ lock' = "g1"
  /\ g1' = [g1 EXCEPT !.pc = IF @ = "lock" THEN "a1" ELSE "f1"]
  /\ UNCHANGED <<upos, tw, tunGot, timerOn, tunHalfClosed, devAlias>>
\* if batchPos+packetSize > batchBufSize { flushLocked() - error: SendError, break }
G1A1 ==
  /\ g1.pc = "a1"
  /\ LET rec == Rec(g1.dg, par.u[g1.dg]) IN
     IF g1.pos + Len(rec) > BatchBuf /\ g1.pos > 0
       THEN /\ tw.by = "none"
            /\ tw' = [by |-> "g1", n |-> g1.pos, cont |-> "a2"]
            /\ g1' = [g1 EXCEPT !.pc = "write"]
       ELSE /\ g1' = [g1 EXCEPT !.pc = "a2"] /\ UNCHANGED tw
  /\ UNCHANGED <<upos, lock, tunGot, timerOn, tunHalfClosed, devAlias>>
\* append [len][datagram]; if batchPos > batchBufSize/2 { flushLocked() - error ignored }
G1A2 ==
  /\ g1.pc = "a2"
  /\ LET rec == Rec(g1.dg, par.u[g1.dg])
         m   == Put(g1.mem, g1.pos, rec)
         np  == g1.pos + Len(rec) IN
     /\ devAlias' = (devAlias \/ tw.by = "timer")     \* writing into a buffer a tunnel Write is reading
     /\ IF np > BatchBuf \div 2 /\ tw.by = "none"
          THEN /\ tw' = [by |-> "g1", n |-> np, cont |-> "a3"]
               /\ g1' = [g1 EXCEPT !.mem = m, !.pos = np, !.pc = "write"]
          ELSE /\ g1' = [g1 EXCEPT !.mem = m, !.pos = np, !.pc = "a3"] /\ UNCHANGED tw
  /\ UNCHANGED <<upos, lock, tunGot, timerOn, tunHalfClosed>>
\* batchMu.Unlock()
G1A3 ==
  /\ g1.pc = "a3"
  /\ lock' = "free"
  /\ g1' = [g1 EXCEPT !.pc = "read"]
  /\ UNCHANGED <<upos, tw, tunGot, timerOn, tunHalfClosed, devAlias>>
\* read error: flushLocked(); record the error; Unlock; leave the loop
G1F1 ==
  /\ g1.pc = "f1"
  /\ IF g1.pos > 0
       THEN /\ tw.by = "none"
            /\ tw' = [by |-> "g1", n |-> g1.pos, cont |-> "f2"]
            /\ g1' = [g1 EXCEPT !.pc = "write"]
       ELSE g1' = [g1 EXCEPT !.pc = "f2"] /\ UNCHANGED tw
  /\ UNCHANGED <<upos, lock, tunGot, timerOn, tunHalfClosed, devAlias>>
G1F2 ==
  /\ g1.pc = "f2"
  /\ lock' = "free"
  /\ g1' = [g1 EXCEPT !.pc = "closing"]
  /\ UNCHANGED <<upos, tw, tunGot, timerOn, tunHalfClosed, devAlias>>
\* close(done); tryCloseWrite(tunnelConn)
G1Closing ==
  /\ g1.pc = "closing"
  /\ timerOn' = FALSE
  /\ tunHalfClosed' = TRUE
  /\ g1' = [g1 EXCEPT !.pc = "done"]
  /\ UNCHANGED <<upos, lock, tw, tunGot, devAlias>>
G1 == (G1Read \/ G1Lock \/ G1A1 \/ G1A2 \/ G1A3 \/ G1F1 \/ G1F2 \/ G1Closing)
      /\ UNCHANGED <<par, tpos, g2, wq, udpGot, usent, sockClosed, umain, devSpin, devBlocked, devDropped>>

\* the 20 ms ticker goroutine:  batchMu.Lock(); flushLocked(); batchMu.Unlock()  (error ignored)
\*   the code            : the tunnel Write happens while batchMu is held
\*   DevAliasFlush (m2)  : pending := batchBuf[:batchPos]; batchPos = 0; Unlock(); Write(pending)
TimerTake ==
  /\ timerOn /\ lock = "free" /\ tw.by = "none" /\ g1.pos > 0
  /\ tw' = [by |-> "timer", n |-> g1.pos, cont |-> "none"]
  /\ IF DevAliasFlush
       THEN g1' = [g1 EXCEPT !.pos = 0] /\ UNCHANGED lock
       ELSE lock' = "timer" /\ UNCHANGED g1
  /\ UNCHANGED <<par, tpos, g2, wq, udpGot, usent, upos, tunGot, timerOn, sockClosed, tunHalfClosed, umain, devSpin, devBlocked, devAlias, devDropped>>

\* the tunnel Write in progress completes (it may be arbitrarily slow: an independent action).
\* The writer hands a slice of batchBuf to Write, so the bytes that reach the tunnel are the
\* bytes batchBuf holds while the write takes them - here: at completion.
TunnelWriteDone ==
  /\ tw.by # "none"
  /\ LET data == SubSeq(g1.mem, 1, tw.n)  ok == ~TunBroken IN
     /\ tunGot' = IF ok THEN tunGot \o data ELSE tunGot
     /\ IF tw.by = "timer"
          THEN /\ lock' = IF DevAliasFlush THEN lock ELSE "free"
               /\ g1' = IF ok /\ ~DevAliasFlush THEN [g1 EXCEPT !.pos = 0, !.mem = Reset(@)] ELSE g1
          ELSE IF ok
            THEN /\ g1' = [g1 EXCEPT !.pos = 0, !.mem = Reset(@), !.pc = tw.cont]
                 /\ UNCHANGED lock
            ELSE CASE tw.cont = "a2" -> /\ g1' = [g1 EXCEPT !.serr = "err", !.pc = "closing"]   \* SendError; Unlock; break
                                        /\ lock' = "free"
                   [] tw.cont = "a3" -> /\ g1' = [g1 EXCEPT !.pc = "a3"]                          \* error ignored, batch kept
                                        /\ UNCHANGED lock
                   [] OTHER          -> /\ g1' = [g1 EXCEPT !.serr = "err", !.pc = "f2"]
                                        /\ UNCHANGED lock
  /\ tw' = NoWrite
  /\ UNCHANGED <<par, tpos, g2, wq, udpGot, usent, upos, timerOn, sockClosed, tunHalfClosed, umain, devSpin, devBlocked, devAlias, devDropped>>

\* environment: the UDP peer sends its next datagram
USend ==
  /\ umain = "wait" /\ usent < Len(par.u)
  /\ usent' = usent + 1
  /\ UNCHANGED <<par, tpos, g2, wq, udpGot, g1, lock, tw, upos, tunGot, timerOn, sockClosed, tunHalfClosed, umain, devSpin, devBlocked, devAlias, devDropped>>

\* environment: time passes - an absolute deadline on the UDP socket is eventually in the past
UTick ==
  /\ umain = "wait" /\ g1.dl = "armed"
  /\ g1' = [g1 EXCEPT !.dl = "expired"]
  /\ UNCHANGED <<par, tpos, g2, wq, udpGot, lock, tw, usent, upos, tunGot, timerOn, sockClosed, tunHalfClosed, umain, devSpin, devBlocked, devAlias, devDropped>>

\* wg.Wait(); udpConn.Close(); tunnelConn.Close(); return
UMain ==
  /\ umain = "wait" /\ g1.pc = "done" /\ g2.pc = "done"
  /\ umain' = "returned"
  /\ sockClosed' = TRUE
  /\ UNCHANGED <<par, tpos, g2, wq, udpGot, g1, lock, tw, usent, upos, tunGot, timerOn, tunHalfClosed, devSpin, devBlocked, devAlias, devDropped>>

BFrozen == UNCHANGED bvars
UNext == (G1 \/ G2 \/ TimerTake \/ TunnelWriteDone \/ SockSend \/ SockLoopExit \/ USend \/ UTick \/ UMain) /\ BFrozen

\* ---- properties -----------------------------------------------------------------------------
UTypeOK == /\ g2.pc \in {"read", "inner", "after", "flush", "compact", "lastflush", "exit", "done"}
           /\ g1.pc \in {"read", "lock", "flock", "a1", "a2", "a3", "f1", "f2", "write", "closing", "done"}
           /\ lock \in {"free", "g1", "timer"} /\ tw.by \in {"none", "g1", "timer"}
           /\ tpos \in 0..par.cut /\ upos \in 0..usent /\ usent \in 0..Len(par.u)
\* datagram boundaries, contents and order are preserved; nothing beyond the cut is invented
UDatagrams == /\ Len(udpGot) + Len(wq) <= Whole(par.t, par.cut)
              /\ \A i \in 1..Len(udpGot) : udpGot[i] = Dg(i, par.t[i])
\* every datagram whose record lies completely before the cut has been delivered when g2 ends
\* (on the wire or still queued in the virtual conn; nothing is abandoned unless DevDropOnClose)
UComplete == (g2.pc \in {"exit", "done"} /\ g2.rerr # "err" /\ ~devDropped) => Len(udpGot) + Len(wq) = Whole(par.t, par.cut)
UCompleteAny == (g2.pc \in {"exit", "done"} /\ ~devDropped) => Len(udpGot) + Len(wq) = Whole(par.t, par.cut)
\* ... and what is queued does reach the wire
UQueueDrains == <>[](Len(wq) = 0)
UNoDrop == ~devDropped
\* flush() is never handed more datagrams than the batch writer has slots
UBatchFits == g2.pc = "flush" => Len(g2.pending) <= BatchSize
\* the bytes handed to the tunnel are the encoded datagrams, whole records only, in order, for
\* datagrams actually read from the socket - however slow the tunnel Write is
UEncoded == \E k \in 0..upos : tunGot = EncUpTo(par.u, k)
UFlushed == (g1.pc = "done" /\ g1.serr = "none" /\ ~TunBroken) => tunGot = EncUpTo(par.u, upos)
\* the socket reader leaves its loop only because the socket has been closed (the tunnel direction has
\* ended, or an outside Close) or a tunnel Write failed - never because time has passed
UNoSpuriousEnd == (g1.pc \in {"flock", "f1", "f2", "closing", "done"} /\ g1.serr = "none") => sockClosed
\* batchMu: a tunnel Write of the ticker excludes the writer goroutine from the batch buffer
UMutex == (tw.by = "timer" /\ ~DevAliasFlush) => (lock = "timer" /\ g1.pc \notin {"a1", "a2", "a3", "f1", "f2", "write"})
\* readBuf bookkeeping of the de-framer
UBuf == /\ g2.processed <= Len(g2.buf)
        /\ Len(g2.buf) <= par.cut
        /\ g1.pos <= BatchBuf
UDelivMonotone == [][Len(udpGot') >= Len(udpGot) /\ Len(tunGot') >= Len(tunGot)]_uvars

\* weak fairness for every goroutine and for the completion of a started tunnel Write; strong
\* fairness for batchMu.Lock() of g1: sync.Mutex is starvation-free, the ticker (which re-takes
\* the lock every 20 ms and, on a failed tunnel, never empties the batch) cannot lock g1 out for ever
UFair == /\ WF_vars(G1 /\ BFrozen) /\ WF_vars(G2 /\ BFrozen) /\ WF_vars(TimerTake /\ BFrozen)
         /\ WF_vars(TunnelWriteDone /\ BFrozen) /\ WF_vars(UMain /\ BFrozen) /\ WF_vars(SockSend /\ BFrozen)
         /\ SF_vars(G1Lock /\ UNCHANGED <<par, tpos, g2, wq, udpGot, usent, sockClosed, umain, devSpin, devBlocked, devDropped>> /\ BFrozen)
\* liveness: the relay returns (the tunnel stream always reaches its cut: EOF or failure)
UTermination == <>(umain = "returned")
\* the same, excusing exactly the two known deviations
UTerminationExcused == <>(umain = "returned" \/ devSpin \/ devBlocked)
\* whatever the peer sent while the relay could still read it ends up in the tunnel (flush timer)
UEventuallyFlushed == \A k \in 1..MaxU : (upos >= k) ~> (Len(tunGot) >= Len(EncUpTo(par.u, Min(k, Len(par.u)))) \/ TunBroken)

BSpec == BInit /\ [][BNext]_vars /\ BFair
USpec == UInit /\ [][UNext]_vars /\ UFair
=============================================================================
