------------------------------- MODULE Relay -------------------------------
(* C12 - client-side relays deliver everything and always terminate.                          *)
(*                                                                                            *)
(* Implementation-shaped model of tunnox-core/internal/utils/iocopy/copy.go.  Two independent  *)
(* sub-models live in this module; a cfg selects one with INIT/NEXT (the variables of the      *)
(* other one are frozen at a dummy value):                                                     *)
(*                                                                                            *)
(*  (i)  Bidirectional (BInit/BNext/BSpec): two copier goroutines, each a loop                 *)
(*       Read -> Write -> ... -> tryCloseWrite(dst); main waits for both and closes both       *)
(*       conns.  The endpoints (local application socket A, tunnel B) are environment           *)
(*       processes that send, half-close, close or fail in any order.                          *)
(*  (ii) UDP (UInit/UNext/USpec): goroutine g1 (UDP socket -> tunnel: length-prefix batching   *)
(*       writer + its flush ticker as an independent action) and goroutine g2 (tunnel -> UDP   *)
(*       socket: the bulk de-framing loop, transcribed statement by statement with its         *)
(*       variables readBuf[0..buffered) = g2.buf, processed, pendingPackets).  The tunnel      *)
(*       byte stream is cut at offset par.cut (every offset is an initial state) by EOF or     *)
(*       by an error.                                                                          *)
(*                                                                                            *)
(* Deviations of the code as found (before patches C12-1, C12-2) are kept as switchable        *)
(* constants; when a deviating step is taken a ghost flag is set:                               *)
(*   DevSpin      - after the tunnel Read has failed/ended with a partial record left in       *)
(*                  readBuf the loop goes round and reads again, forever (ghost devSpin)       *)
(*   DevNoUnblock - when g2 ends nothing wakes g1, which stays in udpConn.Read (ghost          *)
(*                  devBlocked)                                                                *)
(* Relay_udp.cfg (default) describes the patched code (both FALSE) and checks <>returned          *)
(* strictly; Relay_udp_seeded.cfg (both TRUE = the code as found) checks                          *)
(* <>(returned \/ devSpin \/ devBlocked); Relay_udp_lasso.cfg (both TRUE, strict property)        *)
(* MUST fail: TLC exhibits the lasso.  Relay_udp_tmpl.cfg is the same with open bounds.            *)
(* Not modelled: zero-length datagrams (dropped by g1, unrepresentable in the encoding), UDP        *)
(* socket write errors other than "closed", a tunnel whose write side fails before its read side.  *)
EXTENDS Naturals, Sequences, FiniteSets, TLC, Json

CONSTANTS
  \* ---- (i) Bidirectional
  MaxSend,       \* number of payload units each endpoint may send
  EofWithData,   \* BOOLEAN: a Read may return its last bytes together with io.EOF
  \* ---- (ii) UDP
  Classes,       \* datagram size classes = model sizes (1, 2, 3 ~ "255", 4 ~ "65535")
  MaxT, MaxU,    \* at most MaxT datagrams tunnel->UDP and MaxU datagrams UDP->tunnel
  TSeqs, USeqs,  \* the datagram size sequences of the two directions (cfg: TSeqs <- TAll | TSmall, USeqs <- UAll | USmall)
  Cuts,          \* "all": every cut offset 0..Len(stream); "end": only the end of the stream
  Chunks,        \* tunnel Read chunking policies: 0 = any split, c in 1..98 = at most c bytes, 99 = all available
  Paces,         \* tags for the driver (how the UDP peer spaces its datagrams w.r.t. the flush timer)
  BatchSize,     \* pendingPackets capacity that forces a flush (32 in the code)
  BatchBuf,      \* batchBufSize of the batching writer (256 KiB in the code; scaled to model sizes)
  High,          \* refill threshold of readBuf (256 KiB in the code): larger than any modelled stream
  DevSpin, DevNoUnblock,
  \* ---- generation
  Emit           \* TRUE: print behaviours ("BEH {json}")

Min(a, b) == IF a < b THEN a ELSE b
Out(x) == IF Emit THEN PrintT("BEH " \o ToJson(x)) ELSE TRUE

VARIABLES
  \* (i)
  cw,      \* [end -> BOOLEAN]: tryCloseWrite finds a CloseWrite on that conn (fixed per behaviour)
  ep,      \* [end -> [sent, wr, rd, got, eofSeen]]  endpoint state
  cp,      \* [dir -> [pc, off, n, rerr, werr]]      copier goroutines
  bmain,   \* "wait" | "returned"
  rclosed, \* [end -> BOOLEAN] relay called conn.Close()
  bhist,   \* behaviour so far (generation only)
  \* (ii)
  par,     \* behaviour parameters [t, u, cut, how, chunk, pace]
  tpos,    \* bytes of the encoded stream handed to g2 so far
  g2,      \* [pc, buf, processed, pending, rerr, ended]
  udpGot,  \* datagrams written to the UDP socket, in order
  g1,      \* [pc, batch, dg, serr]
  usent,   \* datagrams the UDP peer has sent so far
  upos,    \* datagrams g1 has read so far
  tunGot,  \* bytes written to the tunnel, in order
  timerOn, \* flush ticker goroutine alive
  sockClosed, \* UDP socket closed (reads on it fail)
  tunHalfClosed,
  umain,   \* "wait" | "returned"
  devSpin, devBlocked

bvars == <<cw, ep, cp, bmain, rclosed, bhist>>
uvars == <<par, tpos, g2, udpGot, g1, usent, upos, tunGot, timerOn, sockClosed, tunHalfClosed, umain, devSpin, devBlocked>>
vars  == <<bvars, uvars>>
bview == <<cw, ep, cp, bmain, rclosed, uvars>>   \* VIEW of the generation cfg: everything but bhist

(*********************************************************************************************)
(* (i) Bidirectional                                                                         *)
(*********************************************************************************************)
Ends == {"A", "B"}
Dirs == {"AB", "BA"}
Src(d) == IF d = "AB" THEN "A" ELSE "B"
Dst(d) == IF d = "AB" THEN "B" ELSE "A"

BIdle == /\ cw \in [Ends -> BOOLEAN]
         /\ ep = [e \in Ends |-> [sent |-> 0, wr |-> "open", rd |-> "open", got |-> 0, eofSeen |-> FALSE]]
         /\ cp = [d \in Dirs |-> [pc |-> "read", off |-> 0, n |-> 0, rerr |-> "none", werr |-> FALSE]]
         /\ bmain = "wait"
         /\ rclosed = [e \in Ends |-> FALSE]
         /\ bhist = IF Emit THEN <<[a |-> "Init", cwA |-> cw["A"], cwB |-> cw["B"]]>> ELSE <<>>

BH(step) == IF Emit THEN /\ bhist' = Append(bhist, step) /\ Out(bhist') ELSE bhist' = bhist

\* ---- environment: the two endpoints -------------------------------------------------------
\* wr = the endpoint's outgoing half as the relay's Read sees it: open | shut (EOF after the
\*      data) | err (Read fails);  rd = its incoming half: open | closed (relay's Write fails)
EpSend(e) == /\ bmain = "wait" /\ ep[e].wr = "open" /\ ep[e].sent < MaxSend
             /\ ep' = [ep EXCEPT ![e].sent = @ + 1]
             /\ BH([a |-> "Send", e |-> e])
             /\ UNCHANGED <<cw, cp, bmain, rclosed>>
EpHalfClose(e) == /\ bmain = "wait" /\ ep[e].wr = "open"
                  /\ ep' = [ep EXCEPT ![e].wr = "shut"]
                  /\ BH([a |-> "HalfClose", e |-> e])
                  /\ UNCHANGED <<cw, cp, bmain, rclosed>>
EpClose(e) == /\ bmain = "wait" /\ ep[e].rd = "open"
              /\ ep' = [ep EXCEPT ![e].wr = "shut", ![e].rd = "closed"]
              /\ BH([a |-> "Close", e |-> e])
              /\ UNCHANGED <<cw, cp, bmain, rclosed>>
EpError(e) == /\ bmain = "wait" /\ ep[e].rd = "open"
              /\ ep' = [ep EXCEPT ![e].wr = "err", ![e].rd = "closed"]
              /\ BH([a |-> "Error", e |-> e])
              /\ UNCHANGED <<cw, cp, bmain, rclosed>>
EnvB == \E e \in Ends : EpSend(e) \/ EpHalfClose(e) \/ EpClose(e) \/ EpError(e)

\* ---- copier goroutine d: for { nr, readErr := src.Read(buf); ... } ---------------------------
Avail(d) == ep[Src(d)].sent - cp[d].off

\* src.Read returns nr > 0 (and possibly io.EOF with the last bytes)
CReadData(d) ==
  /\ cp[d].pc = "read" /\ ep[Src(d)].wr # "err" /\ Avail(d) > 0
  /\ \E n \in 1..Avail(d) : \E eof \in {FALSE} \cup (IF EofWithData /\ ep[Src(d)].wr = "shut" /\ n = Avail(d) THEN {TRUE} ELSE {}) :
       /\ cp' = [cp EXCEPT ![d].pc = "write", ![d].n = n, ![d].off = @ + n, ![d].rerr = IF eof THEN "eof" ELSE "none"]
       /\ BH([a |-> "Read", d |-> d, n |-> n, end |-> IF eof THEN "eof" ELSE "none"])
  /\ UNCHANGED <<cw, ep, bmain, rclosed>>
\* src.Read returns (0, io.EOF) or (0, err): leave the loop
CReadEnd(d) ==
  /\ cp[d].pc = "read"
  /\ \/ ep[Src(d)].wr = "err"
     \/ ep[Src(d)].wr = "shut" /\ Avail(d) = 0
  /\ LET k == IF ep[Src(d)].wr = "err" THEN "err" ELSE "eof" IN
       /\ cp' = [cp EXCEPT ![d].pc = "halfclose", ![d].rerr = k]
       /\ BH([a |-> "Read", d |-> d, n |-> 0, end |-> k])
  /\ UNCHANGED <<cw, ep, bmain, rclosed>>
\* dst.Write(buf[:nr]): everything or an error (then leave the loop)
CWrite(d) ==
  /\ cp[d].pc = "write"
  /\ IF ep[Dst(d)].rd = "open"
       THEN /\ ep' = [ep EXCEPT ![Dst(d)].got = @ + cp[d].n]
            /\ cp' = [cp EXCEPT ![d].n = 0, ![d].pc = IF cp[d].rerr = "none" THEN "read" ELSE "halfclose"]
       ELSE /\ ep' = ep
            /\ cp' = [cp EXCEPT ![d].n = 0, ![d].werr = TRUE, ![d].pc = "halfclose"]
  /\ BH([a |-> "Write", d |-> d])
  /\ UNCHANGED <<cw, bmain, rclosed>>
\* tryCloseWrite(dst): *net.TCPConn / CloseWriter -> CloseWrite(); anything else: nothing
CHalfClose(d) ==
  /\ cp[d].pc = "halfclose"
  /\ ep' = [ep EXCEPT ![Dst(d)].eofSeen = @ \/ cw[Dst(d)]]
  /\ cp' = [cp EXCEPT ![d].pc = "done"]
  /\ BH([a |-> "CloseWrite", d |-> d])
  /\ UNCHANGED <<cw, bmain, rclosed>>
Copier(d) == CReadData(d) \/ CReadEnd(d) \/ CWrite(d) \/ CHalfClose(d)

\* wg.Wait(); connA.Close(); connB.Close(); return
BMain == /\ bmain = "wait" /\ \A d \in Dirs : cp[d].pc = "done"
         /\ bmain' = "returned"
         /\ rclosed' = [e \in Ends |-> TRUE]
         /\ BH([a |-> "Return"])
         /\ UNCHANGED <<cw, ep, cp>>

UFrozen == UNCHANGED uvars
BNext == (EnvB \/ (\E d \in Dirs : Copier(d)) \/ BMain) /\ UFrozen

\* ---- properties -----------------------------------------------------------------------------
BTypeOK == /\ \A e \in Ends : ep[e].sent \in 0..MaxSend /\ ep[e].got \in 0..MaxSend
           /\ \A d \in Dirs : cp[d].pc \in {"read", "write", "halfclose", "done"}
\* byte pipe per direction: what reached the destination is a prefix of what the copier has read,
\* which is a prefix of what the source has sent (payload = counter stream, so counts suffice)
BPipe == \A d \in Dirs : /\ ep[Dst(d)].got + cp[d].n <= cp[d].off
                         /\ cp[d].off <= ep[Src(d)].sent
\* a direction that ended by a clean EOF with no write error has delivered everything
BComplete == \A d \in Dirs : (cp[d].pc \in {"halfclose", "done"} /\ cp[d].rerr = "eof" /\ ~cp[d].werr)
                               => ep[Dst(d)].got = ep[Src(d)].sent
\* the relay half-closes a conn only after the direction into it has ended, and fully closes a
\* conn only after BOTH directions have ended: the reverse direction keeps flowing meanwhile
BReverseKeepsFlowing ==
  /\ \A e \in Ends : rclosed[e] => \A d \in Dirs : cp[d].pc = "done"
  /\ \A d \in Dirs : (cw[Dst(d)] /\ ep[Dst(d)].eofSeen) => cp[d].pc = "done"
  /\ \A d \in Dirs : cp[d].pc \in {"halfclose", "done"} => (cp[d].rerr # "none" \/ cp[d].werr)
\* ... and a direction never ends unless its own source ended or its own destination failed
BNoSpuriousEnd == \A d \in Dirs : cp[d].rerr # "none" => ep[Src(d)].wr # "open"
\* nothing is delivered after the relay's own half-close of that conn
BMonotone == [][\A e \in Ends : /\ ep'[e].got >= ep[e].got
                                /\ (ep[e].eofSeen /\ cw[e]) => ep'[e].got = ep[e].got]_bvars

BFair == /\ \A d \in Dirs : WF_vars(Copier(d) /\ UFrozen)
         /\ WF_vars(BMain /\ UFrozen)
\* liveness: once both endpoints have finished sending (EOF or failure), Bidirectional returns
BTermination == (\A e \in Ends : ep[e].wr # "open") ~> (bmain = "returned")
\* liveness: after one side half-closed, bytes the other side still sends are delivered as long
\* as the half-closed side keeps reading
BReverseDelivered ==
  \A d \in Dirs : \A k \in 1..MaxSend :
     (ep[Src(d)].sent >= k) ~> (ep[Dst(d)].got >= k \/ ep[Dst(d)].rd = "closed" \/ ep[Src(d)].wr = "err")

(*********************************************************************************************)
(* (ii) UDP                                                                                  *)
(*********************************************************************************************)
\* ---- the length-prefixed encoding ------------------------------------------------------------
Dg(i, s)  == [j \in 1..s |-> 10 * i + j]              \* payload of the i-th datagram (distinct bytes)
Rec(i, s) == <<s \div 256, s % 256>> \o Dg(i, s)      \* [len:2 big-endian][datagram]
RECURSIVE EncUpTo(_, _)
EncUpTo(sizes, k) == IF k = 0 THEN <<>> ELSE EncUpTo(sizes, k - 1) \o Rec(k, sizes[k])
Enc(sizes) == EncUpTo(sizes, Len(sizes))
RECURSIVE EndOf(_, _)
EndOf(sizes, k) == IF k = 0 THEN 0 ELSE EndOf(sizes, k - 1) + 2 + sizes[k]   \* offset just after record k
\* number of records that lie completely inside the first c bytes
Whole(sizes, c) == Cardinality({k \in 1..Len(sizes) : EndOf(sizes, k) <= c})

SeqsUpTo(S, n) == UNION {[1..m -> S] : m \in 0..n}
TAll == SeqsUpTo(Classes, MaxT)
UAll == SeqsUpTo(Classes, MaxU)
TSmall == {<<>>, <<2>>, <<1, 3>>}
USmall == {<<>>, <<2>>}
TTiny == {<<2>>}
UNone == {<<>>}

Stream == Enc(par.t)

UIdle == /\ par = [t |-> <<>>, u |-> <<>>, cut |-> 0, how |-> "eof", chunk |-> 0, pace |-> "burst"]
         /\ tpos = 0
         /\ g2 = [pc |-> "read", buf |-> <<>>, processed |-> 0, pending |-> <<>>, rerr |-> "none", ended |-> FALSE]
         /\ udpGot = <<>>
         /\ g1 = [pc |-> "read", batch |-> <<>>, dg |-> 0, serr |-> "none"]
         /\ usent = 0 /\ upos = 0 /\ tunGot = <<>>
         /\ timerOn = TRUE /\ sockClosed = FALSE /\ tunHalfClosed = FALSE
         /\ umain = "wait" /\ devSpin = FALSE /\ devBlocked = FALSE

UInit == /\ BIdle /\ cw = [e \in Ends |-> TRUE]
         /\ \E t \in TSeqs : \E u \in USeqs : \E c \in (IF Cuts = "all" THEN 0..Len(Enc(t)) ELSE {Len(Enc(t))}) : \E h \in {"eof", "err"} :
            \E ch \in Chunks : \E pc \in Paces :
              par = [t |-> t, u |-> u, cut |-> c, how |-> h, chunk |-> ch, pace |-> pc]
         /\ tpos = 0
         /\ g2 = [pc |-> "read", buf |-> <<>>, processed |-> 0, pending |-> <<>>, rerr |-> "none", ended |-> FALSE]
         /\ udpGot = <<>>
         /\ g1 = [pc |-> "read", batch |-> <<>>, dg |-> 0, serr |-> "none"]
         /\ usent = 0 /\ upos = 0 /\ tunGot = <<>>
         /\ timerOn = TRUE /\ sockClosed = FALSE /\ tunHalfClosed = FALSE
         /\ umain = "wait" /\ devSpin = FALSE /\ devBlocked = FALSE
         /\ Out(par @@ [whole |-> Whole(par.t, par.cut), len |-> Len(Enc(par.t))])

BInit == BIdle /\ UIdle

\* the tunnel has failed for writers too once the reader has hit an error cut
TunBroken == par.how = "err" /\ g2.ended

\* ---- g2: tunnel -> UDP socket (bulk de-framing reader) ---------------------------------------
\* flush(): write all pending datagrams to the UDP socket, in order
FlushOK == ~sockClosed

\* if buffered < 256K { n, err := tunnelConn.Read(readBuf[buffered:]) ... }
G2Read ==
  /\ g2.pc = "read"
  /\ IF Len(g2.buf) >= High
       THEN /\ g2' = [g2 EXCEPT !.pc = "inner", !.processed = 0]
            /\ UNCHANGED tpos
       ELSE LET avail == par.cut - tpos IN
            IF avail > 0
              THEN \E n \in (IF par.chunk = 0 THEN 1..avail ELSE {Min(par.chunk, avail)}) :
                     /\ g2' = [g2 EXCEPT !.buf = @ \o SubSeq(Stream, tpos + 1, tpos + n), !.pc = "inner", !.processed = 0]
                     /\ tpos' = tpos + n
              ELSE \* (0, io.EOF) or (0, err)
                   /\ g2' = [g2 EXCEPT !.rerr = IF par.how = "err" THEN "err" ELSE @,
                                        !.ended = TRUE,
                                        !.processed = 0,
                                        !.pc = IF Len(g2.buf) = 0 THEN "lastflush" ELSE "inner"]
                   /\ UNCHANGED tpos
  /\ UNCHANGED <<udpGot, sockClosed, devSpin, devBlocked>>

\* one iteration of: for buffered-processed >= 2 { ... }
G2Inner ==
  /\ g2.pc = "inner"
  /\ LET b == g2.buf  p == g2.processed IN
     IF Len(b) - p >= 2
       THEN LET plen == b[p + 1] * 256 + b[p + 2] IN
            IF plen = 0 \/ plen > 65535
              THEN \* illegal length: flush(); return
                   /\ g2' = [g2 EXCEPT !.pc = "exit", !.pending = <<>>]
                   /\ udpGot' = IF FlushOK THEN udpGot \o g2.pending ELSE udpGot
              ELSE IF Len(b) - p < 2 + plen
                THEN \* incomplete record: wait for more data
                     g2' = [g2 EXCEPT !.pc = "after"] /\ UNCHANGED udpGot
                ELSE LET pend == Append(g2.pending, SubSeq(b, p + 3, p + 2 + plen)) IN
                     IF Len(pend) >= BatchSize
                       THEN IF FlushOK
                              THEN /\ g2' = [g2 EXCEPT !.pending = <<>>, !.processed = p + 2 + plen]
                                   /\ udpGot' = udpGot \o pend
                              ELSE /\ g2' = [g2 EXCEPT !.rerr = "err", !.pc = "exit"]
                                   /\ UNCHANGED udpGot
                       ELSE /\ g2' = [g2 EXCEPT !.pending = pend, !.processed = p + 2 + plen]
                            /\ UNCHANGED udpGot
       ELSE g2' = [g2 EXCEPT !.pc = "after"] /\ UNCHANGED udpGot
  /\ UNCHANGED <<tpos, sockClosed, devSpin, devBlocked>>

\* after the inner loop: flush before compaction, compact, then go round
\*   code as found  : always back to the top of the loop (re-reads a finished stream forever
\*                    when a partial record is left: the `continue`/fall-through "dead loop")
\*   patched (C12-1): `if tunnelEnded { break }`
G2After ==
  /\ g2.pc = "after"
  /\ LET doFlush == Len(g2.pending) > 0 /\ g2.processed > 0
         rest    == SubSeq(g2.buf, g2.processed + 1, Len(g2.buf)) IN
     IF doFlush /\ ~FlushOK
       THEN /\ g2' = [g2 EXCEPT !.rerr = "err", !.pc = "exit"]
            /\ UNCHANGED <<udpGot, devSpin>>
       ELSE /\ udpGot' = IF doFlush THEN udpGot \o g2.pending ELSE udpGot
            /\ IF g2.ended /\ ~DevSpin
                 THEN /\ g2' = [g2 EXCEPT !.pending = IF doFlush THEN <<>> ELSE @, !.buf = rest, !.processed = 0, !.pc = "lastflush",
                                           \* a left-over partial record is reported as io.ErrUnexpectedEOF
                                           !.rerr = IF Len(rest) > 0 /\ @ = "none" THEN "trunc" ELSE @]
                      /\ UNCHANGED devSpin
                 ELSE /\ g2' = [g2 EXCEPT !.pending = IF doFlush THEN <<>> ELSE @, !.buf = rest, !.processed = 0, !.pc = "read"]
                      /\ devSpin' = (devSpin \/ (g2.ended /\ Len(rest) > 0))
  /\ UNCHANGED <<tpos, sockClosed, devBlocked>>

\* flush the remaining datagrams; break
G2LastFlush ==
  /\ g2.pc = "lastflush"
  /\ IF Len(g2.pending) > 0 /\ ~FlushOK
       THEN g2' = [g2 EXCEPT !.rerr = IF @ = "none" THEN "err" ELSE @, !.pc = "exit"] /\ UNCHANGED udpGot
       ELSE g2' = [g2 EXCEPT !.pending = <<>>, !.pc = "exit"] /\ udpGot' = udpGot \o g2.pending
  /\ UNCHANGED <<tpos, sockClosed, devSpin, devBlocked>>

\* goroutine exit
\*   code as found  : nothing; g1 may stay blocked in udpConn.Read forever
\*   patched (C12-2): defer udpConn.Close() - wakes g1
G2Exit ==
  /\ g2.pc = "exit"
  /\ g2' = [g2 EXCEPT !.pc = "done"]
  /\ IF DevNoUnblock
       THEN /\ devBlocked' = (devBlocked \/ g1.pc # "done")
            /\ UNCHANGED sockClosed
       ELSE /\ sockClosed' = TRUE
            /\ UNCHANGED devBlocked
  /\ UNCHANGED <<tpos, udpGot, devSpin>>

G2 == (G2Read \/ G2Inner \/ G2After \/ G2LastFlush \/ G2Exit)
      /\ UNCHANGED <<par, g1, usent, upos, tunGot, timerOn, tunHalfClosed, umain>>

\* ---- g1: UDP socket -> tunnel (length-prefix batching writer) --------------------------------
\* flushLocked(): one tunnelConn.Write of the whole batch
\* n, err := udpConn.Read(readBuf)
G1Read ==
  /\ g1.pc = "read"
  /\ IF sockClosed
       THEN g1' = [g1 EXCEPT !.pc = "final"] /\ UNCHANGED upos
       ELSE /\ upos < usent
            /\ upos' = upos + 1
            /\ g1' = [g1 EXCEPT !.pc = "append", !.dg = upos + 1]
  /\ UNCHANGED <<tunGot, timerOn, tunHalfClosed>>
\* batchMu.Lock(); [flush if full]; append record; [flush if more than half full]; Unlock()
G1Append ==
  /\ g1.pc = "append"
  /\ LET rec  == Rec(g1.dg, par.u[g1.dg])
         full == Len(g1.batch) + Len(rec) > BatchBuf IN
     IF full /\ Len(g1.batch) > 0 /\ TunBroken
       THEN \* flushLocked failed: result.SendError = err; break
            /\ g1' = [g1 EXCEPT !.serr = "err", !.pc = "closing"]
            /\ UNCHANGED tunGot
       ELSE LET flushed == IF full THEN tunGot \o g1.batch ELSE tunGot
                b1      == (IF full THEN <<>> ELSE g1.batch) \o rec
                half    == Len(b1) > BatchBuf \div 2 IN
            IF half /\ ~TunBroken
              THEN /\ tunGot' = flushed \o b1
                   /\ g1' = [g1 EXCEPT !.batch = <<>>, !.pc = "read"]
              ELSE /\ tunGot' = flushed
                   /\ g1' = [g1 EXCEPT !.batch = b1, !.pc = "read"]     \* (flush error ignored here, as in the code)
  /\ UNCHANGED <<upos, timerOn, tunHalfClosed>>
\* read error: flush what is batched, record the error, leave the loop
G1Final ==
  /\ g1.pc = "final"
  /\ IF Len(g1.batch) > 0 /\ TunBroken
       THEN g1' = [g1 EXCEPT !.serr = "err", !.pc = "closing"] /\ UNCHANGED tunGot
       ELSE /\ tunGot' = tunGot \o g1.batch
            /\ g1' = [g1 EXCEPT !.batch = <<>>, !.pc = "closing"]
  /\ UNCHANGED <<upos, timerOn, tunHalfClosed>>
\* close(done); tryCloseWrite(tunnelConn)
G1Closing ==
  /\ g1.pc = "closing"
  /\ timerOn' = FALSE
  /\ tunHalfClosed' = TRUE
  /\ g1' = [g1 EXCEPT !.pc = "done"]
  /\ UNCHANGED <<upos, tunGot>>
G1 == (G1Read \/ G1Append \/ G1Final \/ G1Closing)
      /\ UNCHANGED <<par, tpos, g2, udpGot, usent, sockClosed, umain, devSpin, devBlocked>>

\* the 20 ms ticker goroutine: batchMu.Lock(); flushLocked(); Unlock()  (error ignored)
Timer ==
  /\ timerOn /\ Len(g1.batch) > 0 /\ ~TunBroken
  /\ g1.pc # "append"          \* the append step holds batchMu
  /\ tunGot' = tunGot \o g1.batch
  /\ g1' = [g1 EXCEPT !.batch = <<>>]
  /\ UNCHANGED <<par, tpos, g2, udpGot, usent, upos, timerOn, sockClosed, tunHalfClosed, umain, devSpin, devBlocked>>

\* environment: the UDP peer sends its next datagram
USend ==
  /\ umain = "wait" /\ usent < Len(par.u)
  /\ usent' = usent + 1
  /\ UNCHANGED <<par, tpos, g2, udpGot, g1, upos, tunGot, timerOn, sockClosed, tunHalfClosed, umain, devSpin, devBlocked>>

\* wg.Wait(); udpConn.Close(); tunnelConn.Close(); return
UMain ==
  /\ umain = "wait" /\ g1.pc = "done" /\ g2.pc = "done"
  /\ umain' = "returned"
  /\ sockClosed' = TRUE
  /\ UNCHANGED <<par, tpos, g2, udpGot, g1, usent, upos, tunGot, timerOn, tunHalfClosed, devSpin, devBlocked>>

BFrozen == UNCHANGED bvars
UNext == (G1 \/ G2 \/ Timer \/ USend \/ UMain) /\ BFrozen

\* ---- properties -----------------------------------------------------------------------------
UTypeOK == /\ g2.pc \in {"read", "inner", "after", "lastflush", "exit", "done"}
           /\ g1.pc \in {"read", "append", "final", "closing", "done"}
           /\ tpos \in 0..par.cut /\ upos \in 0..usent /\ usent \in 0..Len(par.u)
\* datagram boundaries, contents and order are preserved; nothing beyond the cut is invented
UDatagrams == /\ Len(udpGot) <= Whole(par.t, par.cut)
              /\ \A i \in 1..Len(udpGot) : udpGot[i] = Dg(i, par.t[i])
\* every datagram whose record lies completely before the cut has been delivered when g2 ends
UComplete == (g2.pc \in {"exit", "done"} /\ g2.rerr # "err") => Len(udpGot) = Whole(par.t, par.cut)
UCompleteAny == g2.pc \in {"exit", "done"} => Len(udpGot) = Whole(par.t, par.cut)
\* the tunnel carries whole records only, in order, for datagrams actually read from the socket
UEncoded == \E k \in 0..upos : tunGot = EncUpTo(par.u, k)
UFlushed == (g1.pc = "done" /\ g1.serr = "none" /\ ~TunBroken) => tunGot = EncUpTo(par.u, upos)
\* readBuf bookkeeping of the de-framer
UBuf == /\ g2.processed <= Len(g2.buf)
        /\ Len(g2.buf) <= par.cut
UDelivMonotone == [][Len(udpGot') >= Len(udpGot) /\ Len(tunGot') >= Len(tunGot)]_uvars

UFair == WF_vars(G1 /\ BFrozen) /\ WF_vars(G2 /\ BFrozen) /\ WF_vars(Timer /\ BFrozen) /\ WF_vars(UMain /\ BFrozen)
\* liveness: the relay returns (the tunnel stream always reaches its cut: EOF or failure)
UTermination == <>(umain = "returned")
\* the same, excusing exactly the two known deviations
UTerminationExcused == <>(umain = "returned" \/ devSpin \/ devBlocked)
\* whatever the peer sent while the relay could still read it ends up in the tunnel (flush timer)
UEventuallyFlushed == \A k \in 1..MaxU : (upos >= k) ~> (Len(tunGot) >= Len(EncUpTo(par.u, Min(k, Len(par.u)))) \/ TunBroken)

BSpec == BInit /\ [][BNext]_vars /\ BFair
USpec == UInit /\ [][UNext]_vars /\ UFair
=============================================================================
