\* the code before the repairs: TLC exhibits the overshoot.
\*   tlc -config Limits_show_asis.cfg Limits.tla   (expected: Invariant NoOvershoot is violated;
\*   shortest counterexample: n = 2, limit = 1: Check(1), Check(2), Insert(1), Insert(2))
\* restrict Kinds to one kind to see its own counterexample (conncap, maplimit, codequota, mapquota).
CONSTANTS
  Kinds = {"conncap", "ctrlcap", "tuncap", "maplimit", "codequota", "mapquota"}
  NS = {2, 3, 4}
  Lims = {0, 1, 2}
  NodeCounts = {1}
  Variants = {"asis"}
  Shape = "free"
  MaxReRel = 2
  Slacks = {1, 2}
  Listers = 1
  Retries = 1
  FixedKinds = {"conncap", "maplimit", "maplive", "codequota", "mapquota"}
  WithRelease = TRUE
  Emit = FALSE
  EmitMaxN = 4
  EmitAll = FALSE
INIT Init
NEXT Next
VIEW view
INVARIANTS TypeOK NoOvershoot
CHECK_DEADLOCK FALSE
