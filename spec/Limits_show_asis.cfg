\* the code as it is (no kind repaired): TLC exhibits the overshoot.
\*   tlc -config Limits_show_asis.cfg Limits.tla   (expected: Invariant NoOvershoot is violated;
\*   shortest counterexample: conncap, n = 2, limit = 1: Check(1), Check(2), Insert(1), Insert(2);
\*   with Kinds = {"maplimit"} and FixedKinds = {"maplimit"} the remaining one is sequential:
\*   Check(1), AddCmp(1), Detach(1), Check(2), AddCmp(2) - the slot is freed while connection 1 is open)
\* restrict Kinds to one kind to see its own counterexample (conncap, maplimit, codequota, mapquota).
CONSTANTS
  Kinds = {"conncap", "ctrlcap", "tuncap", "maplimit", "codequota", "mapquota"}
  NS = {2, 3, 4}
  Lims = {0, 1, 2}
  NodeCounts = {1}
  LockKeys = {"owner"}
  Variants = {}
  MaxReRel = 2
  Slacks = {1}
  FixedKinds = {}
  WithRelease = TRUE
  Emit = FALSE
  EmitAll = FALSE
INIT Init
NEXT Next
VIEW view
INVARIANTS TypeOK NoOvershoot
CHECK_DEADLOCK FALSE
