----------------------------- MODULE HttpProxyData -----------------------------
(* X06 (extension), data side of the HTTP domain proxy's request path: what the target receives and   *)
(* what the caller gets back on the small (command mode) and on the large (tunnel mode) path.  The     *)
(* pending tables of the same path are HttpProxy.tla.  One request per behaviour; the classes of the    *)
(* request and of the target's answer are chosen in Init, the steps are the protocol steps of the code. *)
(*                                                                                                     *)
(* (a) CODE MAPPED (T = CommandModeThreshold, M = the client executor's MaxResponseSize).               *)
(*  Route      handler.go ServeHTTP / isLargeRequest: large iff ContentLength > T, or ContentLength =   *)
(*             -1 and the HEADER Transfer-Encoding is "chunked" - net/http moves that header into        *)
(*             Request.TransferEncoding, so on a real server the second test never holds (as found):     *)
(*             every chunked upload takes the small path                                                 *)
(*  Build      request_small.go buildProxyRequest: io.ReadAll(io.LimitReader(Body, T)) - a chunked body  *)
(*             longer than T is cut at T without an error (as found); headers: FIRST value of every      *)
(*             name, hop-by-hop names skipped, X-Forwarded-For/-Host/-Proto added; URL = scheme://       *)
(*             TargetHost:TargetPort + path + ?query                                                     *)
(*  Exec       client/http_proxy_executor.go Execute: http.NewRequest + Header.Set, client.Do with the   *)
(*             default redirect policy (as found: a 3xx answer is FOLLOWED, the caller never sees it),    *)
(*             io.ReadAll(io.LimitReader(Body, M)) (as found: a longer body is cut at M, the             *)
(*             Content-Length header still announces the full length), FIRST value of every header        *)
(*  Respond    request_small.go writeProxyResponse: Error -> 502; headers minus hop-by-hop, WriteHeader,  *)
(*             body                                                                                      *)
(*  Tunnel     request_large.go: RequestTunnelForHTTP (HttpProxy.tla, Variant "tun")                     *)
(*  WriteReq   tunnel_http.go writeHTTPRequestToTunnel: request line with RequestURI, ALL header values,  *)
(*             Host = target, X-Forwarded-*, the eight hop-by-hop names deleted (no "Connection: close"   *)
(*             is sent, as found), body copied until EOF                                                 *)
(*  ReadResp   tunnel_http.go readHTTPResponseFromTunnel: status line, header lines (all values, minus    *)
(*             hop-by-hop - Transfer-Encoding is one of them), then the body is copied RAW until EOF: a   *)
(*             chunked answer reaches the caller with its chunk framing inside the body, and a target     *)
(*             that keeps the connection alive keeps the handler (as found)                               *)
(*                                                                                                     *)
(* (b) WHAT A USER RELIES ON (the reference: RefT, RefU).  The target receives the method, path and      *)
(* query, every value of every end-to-end header, no hop-by-hop header, and the body exactly once and     *)
(* complete - or nothing at all and the caller an error status; the caller receives the target's status   *)
(* (a redirect is the caller's to follow), every value of every end-to-end header, the body complete and  *)
(* unframed, and the exchange ends when the answer is complete - or a 5xx.  Both paths agree because both  *)
(* meet the reference (SameRequest, SameResponse).  Silent (accepted): X-Forwarded-For carries ip:port;   *)
(* headers named by the Connection header are forwarded by both paths; "Trailers" (sic) in the hop list;  *)
(* header order; Accept-Encoding added by the client's transport (transparently undone).                  *)
(*                                                                                                     *)
(* (c) NAMED DEVIATIONS (ghost `dev`; Fix = the set of repaired ones):                                    *)
(*  ChunkedSmall      chunked uploads are routed to the small path whatever their size                    *)
(*  Truncated         small: a chunked body longer than T arrives cut at T, status 200                     *)
(*  MultiReq          small: only the first value of a repeated request header is forwarded               *)
(*  MultiResp         small: only the first value of a repeated response header (Set-Cookie!) comes back   *)
(*  RedirectFollowed  small: 3xx answers are followed by the client instead of being returned              *)
(*  RespTruncated     small: an answer longer than M is cut at M under the full Content-Length             *)
(*  ChunkedRaw        large: a chunked answer is copied with its framing                                   *)
(*  StuckKeepAlive    large: the handler returns only when the target closes the connection                *)
(*  HttpProxyData_show_<deviation>.cfg makes TLC exhibit each.  Repaired: Truncated (X06-3: refused with     *)
(*  413), RedirectFollowed (X06-4), RespTruncated (X06-5: 502), ChunkedRaw + StuckKeepAlive (X06-6).         *)
(*  MultiReq / MultiResp need another wire type (map[string][]string) and stay open; ChunkedSmall is         *)
(*  harmless once Truncated is repaired (and the large path is unwired anyway, HttpProxy.tla).  Outside the  *)
(*  classes of this model: a response of the client with status_code 0 made WriteHeader panic (X06-7,        *)
(*  scripted scenario st0).                                                                                  *)
EXTENDS Naturals, Sequences, FiniteSets, TLC, Json

CONSTANTS Fix,     \* subset of the deviation names: repaired
          Emit

Devs == {"ChunkedSmall", "Truncated", "MultiReq", "MultiResp", "RedirectFollowed", "RespTruncated", "ChunkedRaw", "StuckKeepAlive"}
Fx(d) == d \in Fix

\* request classes: method, body size class (none | small < T | edge = T | big > T), framing, repeated header, hop-by-hop header
Reqs == {q \in [m : {"GET", "HEAD", "POST"}, body : {"none", "small", "edge", "big"}, frame : {"cl", "chunked"}, multi : BOOLEAN, hop : BOOLEAN] :
           /\ q.m # "POST" => (q.body = "none" /\ q.frame = "cl")
           /\ q.body = "none" => q.frame = "cl"}
\* answer classes: status, body size class (none | some <= M | over > M), framing, connection handling, repeated header, hop-by-hop header
Anss == {a \in [st : {200, 404, 302}, body : {"none", "some", "over"}, frame : {"cl", "chunked"}, ka : BOOLEAN, multi : BOOLEAN, hop : BOOLEAN] :
           /\ a.body = "none" => a.frame = "cl"
           /\ a.st = 302 => a.body = "none"}

VARIABLES q, a, at, path,
          tg,    \* what the target received: [n, multi, hop, body]   n = number of times the request arrived
          ug,    \* what the caller received: [st, multi, hop, body, done]
          wire,  \* small path: the HTTPProxyRequest / HTTPProxyResponse on the control connection
          dev
vars == <<q, a, at, path, tg, ug, wire, dev>>

None == [n |-> 0]
Init == /\ q \in Reqs /\ a \in Anss /\ at = "route" /\ path = "" /\ tg = None /\ ug = None /\ wire = None /\ dev = {}

Hd(present, all) == IF ~present THEN "na" ELSE IF all THEN "all" ELSE "first"
\* the target serves the request it got (HEAD and 302 carry no body)
AnsBody == IF q.m = "HEAD" THEN "none" ELSE a.body

Route ==
  /\ at = "route"
  /\ LET large == (q.body = "big" /\ q.frame = "cl") \/ (q.frame = "chunked" /\ Fx("ChunkedSmall")) IN
     /\ path' = (IF large THEN "large" ELSE "small")
     /\ at' = (IF large THEN "writereq" ELSE "build")
     /\ dev' = (IF q.frame = "chunked" /\ ~large THEN dev \cup {"ChunkedSmall"} ELSE dev)
  /\ UNCHANGED <<q, a, tg, ug, wire>>

\* ---- small path -----------------------------------------------------------------------------------
Build ==
  /\ at = "build"
  /\ IF q.body = "big" /\ Fx("Truncated")
     THEN \* repaired: a body that does not fit is refused
          /\ ug' = [st |-> 413, multi |-> "na", hop |-> "na", body |-> "na", done |-> TRUE]
          /\ at' = "done" /\ UNCHANGED <<wire, dev>>
     ELSE /\ wire' = [n |-> 1, multi |-> Hd(q.multi, Fx("MultiReq")), hop |-> FALSE,
                      body |-> IF q.body = "big" THEN "trunc" ELSE IF q.body = "none" THEN "none" ELSE "full"]
          /\ dev' = dev \cup (IF q.body = "big" THEN {"Truncated"} ELSE {})
                        \cup (IF q.multi /\ ~Fx("MultiReq") THEN {"MultiReq"} ELSE {})
          /\ at' = "exec" /\ UNCHANGED ug
  /\ UNCHANGED <<q, a, path, tg>>

Exec ==
  /\ at = "exec"
  /\ tg' = [n |-> 1, multi |-> wire.multi, hop |-> wire.hop, body |-> wire.body]
  /\ LET follow == a.st = 302 /\ ~Fx("RedirectFollowed")
         over   == AnsBody = "over" IN
     /\ wire' = (IF over /\ Fx("RespTruncated")
                 THEN [n |-> 1, err |-> TRUE]
                 ELSE [n |-> 1, err |-> FALSE, st |-> IF follow THEN 200 ELSE a.st,
                       multi |-> Hd(a.multi /\ ~follow, Fx("MultiResp")),
                       body |-> IF follow THEN "followed" ELSE IF over THEN "trunc" ELSE IF AnsBody = "none" THEN "none" ELSE "full"])
     /\ dev' = dev \cup (IF follow THEN {"RedirectFollowed"} ELSE {})
                   \cup (IF over /\ ~Fx("RespTruncated") THEN {"RespTruncated"} ELSE {})
                   \cup (IF a.multi /\ ~follow /\ ~Fx("MultiResp") THEN {"MultiResp"} ELSE {})
  /\ at' = "respond" /\ UNCHANGED <<q, a, path, ug>>

Respond ==
  /\ at = "respond"
  /\ ug' = (IF wire.err THEN [st |-> 502, multi |-> "na", hop |-> "na", body |-> "na", done |-> TRUE]
            ELSE [st |-> wire.st, multi |-> wire.multi, hop |-> FALSE, body |-> wire.body, done |-> TRUE])
  /\ at' = "done" /\ UNCHANGED <<q, a, path, tg, wire, dev>>

\* ---- large path (the tunnel is there: HttpProxy.tla decides whether it ever is) -------------------------
WriteReq ==
  /\ at = "writereq"
  /\ tg' = [n |-> 1, multi |-> Hd(q.multi, TRUE), hop |-> FALSE, body |-> IF q.body = "none" THEN "none" ELSE "full"]
  /\ at' = "readresp" /\ UNCHANGED <<q, a, path, ug, wire, dev>>

ReadResp ==
  /\ at = "readresp"
  /\ LET raw   == a.frame = "chunked" /\ ~Fx("ChunkedRaw")
         stuck == a.ka /\ ~Fx("StuckKeepAlive") IN
     /\ ug' = [st |-> a.st, multi |-> Hd(a.multi, TRUE), hop |-> FALSE,
               body |-> IF raw THEN "raw" ELSE IF AnsBody = "none" THEN "none" ELSE "full", done |-> ~stuck]
     /\ dev' = dev \cup (IF raw THEN {"ChunkedRaw"} ELSE {}) \cup (IF stuck THEN {"StuckKeepAlive"} ELSE {})
  /\ at' = "done" /\ UNCHANGED <<q, a, path, tg, wire>>

Beh == [q |-> q, a |-> a, path |-> path', fix |-> Fix]
Done == at = "done" /\ UNCHANGED vars
Step == Route \/ Build \/ Exec \/ Respond \/ WriteReq \/ ReadResp
Next == \/ Step /\ (Emit /\ at' = "done" => PrintT("BEH " \o ToJson(Beh)))
        \/ Done
Spec == Init /\ [][Next]_vars /\ WF_vars(Step)

\* ---- the reference ------------------------------------------------------------------------------------
RefT == [n |-> 1, multi |-> Hd(q.multi, TRUE), hop |-> FALSE, body |-> IF q.body = "none" THEN "none" ELSE "full"]
RefU == [st |-> a.st, multi |-> Hd(a.multi, TRUE), hop |-> FALSE, body |-> IF AnsBody = "none" THEN "none" ELSE "full", done |-> TRUE]
Refused == tg = None /\ ug.st \in {413, 502, 503, 504}
Failed  == ug.st \in {502, 504}       \* the answer could not be relayed: a gateway error instead of a wrong answer

TypeOK == at \in {"route", "build", "exec", "respond", "writereq", "readresp", "done"} /\ dev \subseteq Devs
SameRequest  == at = "done" => (tg = RefT \/ Refused)
SameResponse == at = "done" => (ug = RefU \/ Refused \/ Failed)
Open == {"MultiReq", "MultiResp", "ChunkedSmall"}
SameRequestOrOpen  == SameRequest \/ dev \cap Open # {}
SameResponseOrOpen == SameResponse \/ dev \cap Open # {}
AllFixedClean == Fix = Devs => dev = {}
No(d) == d \notin dev
NoChunkedSmall == No("ChunkedSmall")
NoTruncated == No("Truncated")
NoMultiReq == No("MultiReq")
NoMultiResp == No("MultiResp")
NoRedirectFollowed == No("RedirectFollowed")
NoRespTruncated == No("RespTruncated")
NoChunkedRaw == No("ChunkedRaw")
NoStuckKeepAlive == No("StuckKeepAlive")
Completes == <>(at = "done")
=============================================================================
