\* C16, documentation run (not part of ./check): hypothetical design "lazyorder" alone against the STRICT property.
\* TLC reports "Invariant AtMostOnce is violated":
\* ResourceManager.Unregister leaving the name in the order list (seeded change C16-r3m1): after reg.Unreg
\* reg.Reg the list holds r1 twice and d1.Call d1.Disp:r1b d1.Disp:r2 d1.Disp:r1b disposes the re-registered
\* object twice (dev_lazy)
\* The check itself (Dispose.cfg) verifies the same configuration against  property \/ named deviation  and passes.
CONSTANTS
  Suite = "show_lazyorder"
  Emit = FALSE
INIT Init
NEXT Next
VIEW view
INVARIANTS TypeOK AtMostOnce
CHECK_DEADLOCK FALSE
