----------------------------- MODULE BruteForce -----------------------------
(* C18 - implementation-shaped model of the address lock-out machinery in front of the        *)
(* handshake: security.BruteForceProtector, security.IPManager, security.RateLimiter and the   *)
(* gate order of server.ServerAuthHandler.HandleHandshake, over a discrete clock.              *)
(*                                                                                            *)
(* Code mapped (internal/security, internal/app/server/auth_handler.go):                      *)
(*   HsGate   HandleHandshake steps 1-3: IPManager.IsAllowed (whitelist first; an expired      *)
(*            blacklist entry answers "allowed" and does `go RemoveFromBlacklist(ip)`), then    *)
(*            BruteForceProtector.IsBanned (an expired ban answers "not banned" and does        *)
(*            `go UnbanIP(ip)`), then - anonymous registrations only - RateLimiter.AllowIP.      *)
(*   HsCred   the credential check and its verdict: RecordFailure's `mu` section (append,       *)
(*            TotalCount++, prune the window, decide) or RecordSuccess (delete the record).      *)
(*   HsBan    RecordFailure's second critical section: banIP under `banMu` (the lock is          *)
(*            released in between - two sections, as in the code).  As the code stands a         *)
(*            temporary ban decided earlier overwrites a permanent one recorded meanwhile         *)
(*            (deviation tempOverPerm).                                                           *)
(*   Query    IsAllowed + IsBanned called directly (pure observation; may spawn the same         *)
(*            asynchronous removals).                                                            *)
(*   AsyncUnban / AsyncUnbl   the bodies of the spawned `go UnbanIP` / `go RemoveFromBlacklist`  *)
(*            - independent processes that run at any later time.  As the code stands they        *)
(*            delete WHATEVER entry exists when they finally run (deviations unbanLive/unblLive). *)
(*   CleanF / CleanB / CleanL   cleanup(): failure records, expired bans; IPManager.cleanup().    *)
(*            CleanL is ONE step here; BruteForceLists.tla opens it (and the operator's calls) up to   *)
(*            lock acquisitions and storage calls - the granularity at which a pass interleaves with  *)
(*            AddToBlacklist / AddToWhitelist / the removals / a restart.                              *)
(*   Clean    one whole cleanup() run (CleanF then CleanB back to back): what a sequential        *)
(*            driver can call; the exhaustive configurations use the two halves separately.       *)
(*   MUnban / MUnbl / Blk / BlkP / Wl / UnWl   operator actions (legitimate, not violations).     *)
(*            Black- and whitelist entries come in the forms "ip" (the exact address), "net" (a    *)
(*            CIDR range containing it) and "other" (a CIDR range not containing it: no effect     *)
(*            on this address, a stateless action).  findInList looks the exact key up first and   *)
(*            only then scans the ranges; as the code stands an EXPIRED exact entry therefore       *)
(*            answers "allowed" although a live range covers the address (deviation                 *)
(*            expiredShadows).  The spawned removal is keyed by the queried address: it can only   *)
(*            remove the exact entry.                                                               *)
(*   Reload   a fresh IPManager over the same storage (restart).  Every change of the lists is      *)
(*            written through to storage and temporary entries are stored with their remaining      *)
(*            lifetime as TTL, so storage = memory minus expired entries: a reload keeps every       *)
(*            live entry of either form and drops the expired ones.                                  *)
(*   IdleFor / Flood   rate-limiter histories: Idle lets a whole refill period (burst/rate) pass in     *)
(*            one step, Flood is 2*Burst+2 AllowIP calls back to back.                               *)
(*   Tick     time passes.                                                                        *)
(*                                                                                            *)
(* Time.  One tick is the unit; the durations are Win, Ban, BlDur ticks MINUS HALF A TICK       *)
(* (the driver configures e.g. window = (Win - 1/2) * tick), so no comparison of the code ever    *)
(* sees equality: a failure of age a ticks is inside the window iff a < Win, a ban/blacklist      *)
(* entry set at c has expired at clock t iff t >= c + Ban.  (The strictness of                    *)
(* time.After at exact equality is a measure-zero case no real clock can drive.)                  *)
(*                                                                                            *)
(* Property level (ghosts, independent of the code's bookkeeping):                              *)
(*   pf[ip]    times of the failed authentications since the last success that are still inside   *)
(*             the window (older ones can never count again)                                      *)
(*   ptot[ip]  their number as a lifetime count (the record - and with it the count - is         *)
(*             dropped on success and when a clean-up finds its window empty: the reading         *)
(*             of "permanent threshold" taken in DESIGN.md 5/C18)                                *)
(*   oblig[ip] what the statement demands: refuse until .. / forever, set when a failing          *)
(*             handshake RETURNS having seen >= Threshold failures inside the window (>= PermAt   *)
(*             in total); cleared only by an operator's manual unban                              *)
(*   allow[ip] what the statement permits: a refusal needs a ban whose count reached a threshold  *)
(*   blob[ip]  the operator's latest blacklist order, per entry form                               *)
(*   adm[ip]   clock values of admitted anonymous registrations                                   *)
(*   relTot    failures that were counted in failure records released since (by a success or by    *)
(*             a clean-up that found the window empty), capped at PermAt.  A released record's       *)
(*             count belongs to nobody: the next record - of ANY address - starts at zero.  The      *)
(*             variable makes histories that differ only in what was released distinct states, so    *)
(*             that "k addresses fail and succeed, then a fresh address fails" is generated          *)
(*             (EmitActs "inherit": queries of an address that would be over PermAt had it           *)
(*             inherited the released counts).                                                        *)
(*   inh[ip]   relTot at the moment the address's current failure record was created: what a       *)
(*             record built from a released one could wrongly carry over.  It makes the ORDER         *)
(*             "others release, then this address fails for the first time" a state of its own.       *)
(* Violations are accumulated in `viol`, deviations of the code in `dev`; the as-is               *)
(* configurations (Fixed = {}) check "violation => a listed deviation happened", the repaired     *)
(* design (Fixed = {"unban", "unbl", "order", "shadow"}) checks viol = {} and dev = {} outright:  *)
(*   "unban"  the spawned unban re-checks under the lock and removes only an expired entry        *)
(*   "unbl"   the same for the spawned blacklist removal                                          *)
(*   "order"  banIP keeps an existing permanent ban when asked to record a temporary one          *)
(*   "shadow" IsAllowed skips expired entries: a live entry of the other form still refuses        *)
(* BruteForce_asis_strict.cfg (expected to fail) makes TLC exhibit the lifted ban.                *)
EXTENDS Naturals, Sequences, FiniteSets, TLC, Json

CONSTANTS IPs,        \* addresses (their state is disjoint in the code: separate map entries)
          Procs,      \* concurrent handshakes (goroutines inside HandleHandshake)
          Threshold,  \* BruteForceConfig.MaxFailures
          PermAt,     \* BruteForceConfig.PermanentBanAt
          Win, Ban,   \* TimeWindow, BanDuration in ticks (see "Time")
          BlDur,      \* duration of a temporary blacklist entry
          Burst,      \* RateLimitConfig.Burst (tokens)
          Refill,     \* milli-tokens added per tick (RateLimitConfig.Rate * tick)
          MaxClock, MaxTotal, MaxPend, MaxAdm,    \* bounds of the explored state graph
          Acts,       \* action alphabet of this configuration
          Atomic,     \* TRUE: a handshake runs to completion before anything else happens
          BlForms,    \* entry forms the operator actions of this configuration use (subset of Forms)
          Fixed,      \* subset of {"unban", "unbl", "order", "shadow"}: repairs present in the code
          EmitActs,   \* behaviour generation: print the history after every step whose action is in
                      \* this set ("dev": every step in which a deviation or a violation is recorded;
                      \* "mixed": every Query made while an expired and a live blacklist entry coexist;
                      \* "inherit": see relTot;
                      \* "end": every step that brings the history to length MaxHist); {} = no output
          MaxHist     \* bound on the length of a history (generation / simulation)

VARIABLES clock,
          fails, total,          \* FailureRecord: Failures (clock values, pruned lazily), TotalCount
          ban, pendUnban,        \* bannedIPs[ip]; number of spawned, not yet run `go UnbanIP(ip)`
          cpend,                 \* deviation "split clean-up": addresses a clean-up pass has scanned as expired and not yet deleted
          bl, wl, pendUnbl,      \* black-/whitelist entries covering ip, per form; spawned lazy removals
          bucket,                \* token bucket of anonymous registrations
          pc, hs,                \* handshake processes (goroutines inside HandleHandshake)
          pf, ptot, oblig, allow, blob, adm, viol, dev,   \* ghosts
          inh,                   \* ghost: relTot at the moment the address's current failure record was created
          relTot,                \* ghost: failures counted in records that were released since (success, emptied by a clean-up)
          hist
vars == <<clock, fails, total, ban, pendUnban, cpend, bl, wl, pendUnbl, bucket, pc, hs,
          pf, ptot, relTot, inh, oblig, allow, blob, adm, viol, dev, hist>>
view == <<clock, fails, total, ban, pendUnban, cpend, bl, wl, pendUnbl, bucket, pc, hs,
          pf, ptot, relTot, inh, oblig, allow, blob, adm, viol, dev>>

Max2(a, b) == IF a >= b THEN a ELSE b
Min2(a, b) == IF a <= b THEN a ELSE b

\* an entry with expiry: ban record, blacklist record, obligation, permission
None    == [k |-> "none", until |-> 0]
Temp(u) == [k |-> "temp", until |-> u]
Perm    == [k |-> "perm", until |-> 0]
Live(e)    == e.k = "perm" \/ (e.k = "temp" /\ clock < e.until)
Expired(e) == e.k = "temp" /\ clock >= e.until
Stronger(a, b) == IF a.k = "perm" \/ b.k = "perm" THEN Perm
                  ELSE IF a.k = "none" THEN b
                  ELSE IF b.k = "none" THEN a
                  ELSE Temp(Max2(a.until, b.until))

\* entry forms that cover the address: the address itself and two overlapping CIDR ranges containing
\* it (a narrow and a wide one, with independent lifetimes); "other" does not cover it
Forms     == {"ip", "net", "net2"}
Ranges    == {"net", "net2"}
NoEntries == [f \in Forms |-> None]
NoWl      == [f \in Forms |-> FALSE]

InWin(s) == SelectSeq(s, LAMBDA t : clock - t < Win)       \* cleanupOldFailures
\* failures counted in the records a clean-up pass finds empty (and releases)
RECURSIVE RelSum(_)
RelSum(S) == IF S = {} THEN 0
             ELSE LET x == CHOOSE y \in S : TRUE
                  IN (IF InWin(fails[x]) = <<>> THEN total[x] ELSE 0) + RelSum(S \ {x})
Released == RelSum(IPs)

NoBucket == [has |-> FALSE, tok |-> 0, last |-> 0]
\* TokenBucket.Take(1) at the current clock (a missing bucket is created full)
Take(b) == LET cur == IF b.has THEN Min2(b.tok + (clock - b.last) * Refill, Burst * 1000) ELSE Burst * 1000
           IN IF cur >= 1000 THEN [ok |-> TRUE,  b |-> [has |-> TRUE, tok |-> cur - 1000, last |-> clock]]
                             ELSE [ok |-> FALSE, b |-> [has |-> TRUE, tok |-> cur,        last |-> clock]]

Idle == [ip |-> "", kind |-> "", dec |-> "none", pcnt |-> 0, ptot |-> 0, rc |-> 0]

Init == /\ clock = 0
        /\ fails = [i \in IPs |-> <<>>] /\ total = [i \in IPs |-> 0]
        /\ ban = [i \in IPs |-> None] /\ pendUnban = [i \in IPs |-> 0] /\ cpend = [i \in IPs |-> FALSE]
        /\ bl = [i \in IPs |-> NoEntries] /\ wl = [i \in IPs |-> NoWl] /\ pendUnbl = [i \in IPs |-> 0]
        /\ bucket = [i \in IPs |-> NoBucket]
        /\ pc = [p \in Procs |-> "idle"] /\ hs = [p \in Procs |-> Idle] 
        /\ pf = [i \in IPs |-> <<>>] /\ ptot = [i \in IPs |-> 0] /\ relTot = 0 /\ inh = [i \in IPs |-> 0]
        /\ oblig = [i \in IPs |-> None] /\ allow = [i \in IPs |-> None] /\ blob = [i \in IPs |-> NoEntries]
        /\ adm = [i \in IPs |-> <<>>] /\ viol = {} /\ dev = {}
        /\ hist = <<>>

Log(e) == hist' = Append(hist, e)

\* the constants a driver needs to realise a behaviour
Cfg == [thr |-> Threshold, perm |-> PermAt, win |-> Win, ban |-> Ban, bld |-> BlDur,
        burst |-> Burst, refill |-> Refill, atomic |-> Atomic, fixed |-> Cardinality(Fixed)]
\* evaluated after the step (last conjunct of Next): print the new history as one behaviour
Out == IF EmitActs = {} THEN TRUE
       ELSE IF \/ hist'[Len(hist')].a \in EmitActs
               \/ ("dev" \in EmitActs /\ (dev' # dev \/ viol' # viol))
               \/ ("end" \in EmitActs /\ Len(hist') = MaxHist)
               \/ ("inherit" \in EmitActs /\ hist'[Len(hist')].a = "Query"    \* a query of an address that would be over PermAt
                     /\ LET i == hist'[Len(hist')].ip                          \* had its record inherited the released counts
                        IN total[i] > 0 /\ ban[i].k = "none" /\ total[i] + inh[i] >= PermAt)     \* (and is not banned)
               \/ ("fault" \in EmitActs /\ "fault" \in DOMAIN hist'[Len(hist')])     \* a step made under a storage fault
               \/ ("mixed" \in EmitActs /\ hist'[Len(hist')].a = "Query"      \* a query while an expired and a live entry coexist
                     /\ \E i \in IPs : (\E f \in Forms : Expired(bl[i][f])) /\ (\E g \in Forms : Live(bl[i][g])))
            THEN PrintT("BEH " \o ToJson([c |-> Cfg, s |-> hist']))
            ELSE TRUE

Quiet == \A p \in Procs : pc[p] = "idle"
Free  == Atomic => Quiet          \* guard of everything that is not the continuation of a handshake

\* ---- the two look-ups of the gates (shared by HsGate and Query) ----------------------------
White(i) == \E f \in Forms : wl[i][f]
\* findInList: the exact key first, then the ranges in the (randomised) order of the map iteration;
\* the repaired IsAllowed ignores expired entries, so the order does not matter.  For the code before
\* that repair the model takes one fixed order (narrow range before wide range).
Found(i) == IF "shadow" \in Fixed
            THEN (IF Live(bl[i].ip) THEN "ip" ELSE IF Live(bl[i].net) THEN "net" ELSE IF Live(bl[i].net2) THEN "net2" ELSE "none")
            ELSE (IF bl[i].ip.k # "none" THEN "ip" ELSE IF bl[i].net.k # "none" THEN "net"
                  ELSE IF bl[i].net2.k # "none" THEN "net2" ELSE "none")
BlRefuses(i)  == ~White(i) /\ Found(i) # "none" /\ Live(bl[i][Found(i)])
\* go m.removeExpiredFromBlacklist(ip): as is for whatever expired entry was found (a no-op for a range),
\* repaired for an expired exact entry
BlSpawns(i)   == ~White(i) /\ IF "shadow" \in Fixed THEN Expired(bl[i].ip)
                              ELSE Found(i) # "none" /\ Expired(bl[i][Found(i)])
\* deviation: "allowed" because the entry found is expired, although a live entry covers the address
Shadowed(i)   == ~White(i) /\ ~BlRefuses(i) /\ \E f \in Forms : Live(bl[i][f])
DevShadow(i)  == IF Shadowed(i) THEN {"expiredShadows"} ELSE {}
BanRefuses(i) == Live(ban[i])
BanSpawns(i)  == Expired(ban[i])                   \* go p.UnbanIP(ip)

\* what an observed pair of answers means for the property (blAns/banAns: "yes" refused, "no" not
\* refused, "-" not asked)
Judge(i, blAns, banAns) ==
     (IF blAns = "no" /\ ~White(i) /\ (\E f \in Forms : Live(blob[i][f])) THEN {"bl"} ELSE {})
\cup (IF banAns = "no" /\ Live(oblig[i]) THEN {"ban"} ELSE {})
\cup (IF banAns = "yes" /\ ~Live(allow[i]) THEN {"spurious"} ELSE {})

\* ---- handshake ------------------------------------------------------------------------------
\* request shapes: "Bad" / "Good" a known client id with a wrong / right response; ClientID 0 with
\* Token "new-client" ("Anon") or "anonymous:<x>" ("Anon2") - both are registrations
\* (handleFirstConnection) - or with any other token ("Zero": no registration, fails the
\* credential check).  Step 3 of HandleHandshake rate-limits every ClientID-0 request.
Kinds    == {"Bad", "Good", "Anon", "Anon2", "Zero"}
RegKinds == {"Anon", "Anon2"}
Rated(k) == k \in {"Anon", "Anon2", "Zero"}
Fails(k) == k \in {"Bad", "Zero"}

HsGate(p, i, kind) ==
  /\ kind \in Acts /\ pc[p] = "idle" /\ Free
  /\ LET blRef  == BlRefuses(i)
         banRef == ~blRef /\ BanRefuses(i)
         rated  == Rated(kind) /\ ~blRef /\ ~banRef
         tk     == Take(bucket[i])
         res    == IF blRef THEN "bl" ELSE IF banRef THEN "ban" ELSE IF rated /\ ~tk.ok THEN "rate" ELSE "pass"
     IN /\ pendUnbl'  = [pendUnbl  EXCEPT ![i] = @ + (IF BlSpawns(i) THEN 1 ELSE 0)]
        /\ pendUnban' = [pendUnban EXCEPT ![i] = @ + (IF ~blRef /\ BanSpawns(i) THEN 1 ELSE 0)]
        /\ bucket' = IF rated THEN [bucket EXCEPT ![i] = tk.b] ELSE bucket
        /\ adm' = IF rated /\ tk.ok /\ kind \in RegKinds THEN [adm EXCEPT ![i] = Append(@, clock)] ELSE adm
        /\ viol' = viol \cup Judge(i, IF blRef THEN "yes" ELSE "no", IF blRef THEN "-" ELSE IF banRef THEN "yes" ELSE "no")
        /\ IF res = "pass"
           THEN /\ pc' = [pc EXCEPT ![p] = "cred"]
                /\ hs' = [hs EXCEPT ![p] = [Idle EXCEPT !.ip = i, !.kind = kind]]
           ELSE pc' = pc /\ hs' = hs
        /\ Log([a |-> "Hs", p |-> p, ip |-> i, kind |-> kind, res |-> res])
  /\ dev' = dev \cup DevShadow(i)
  /\ UNCHANGED <<cpend, clock, fails, total, ban, bl, wl, pf, ptot, relTot, inh, oblig, allow, blob>>

\* what the statement demands after a failing handshake that saw cnt failures in the window / tot in total
Demand(cnt, tot, rc) == IF tot >= PermAt THEN Perm ELSE IF cnt >= Threshold THEN Temp(rc + Ban) ELSE None

HsCred(p) ==
  /\ pc[p] = "cred"
  /\ LET i == hs[p].ip IN
     IF Fails(hs[p].kind)
     THEN \* RecordFailure, `mu` section
          LET fl   == InWin(Append(fails[i], clock))
              tot  == total[i] + 1
              dec  == IF tot >= PermAt THEN "perm" ELSE IF Len(fl) >= Threshold THEN "temp" ELSE "none"
              npf  == InWin(Append(pf[i], clock))
              cnt  == Len(npf)
              ntot == ptot[i] + 1
          IN /\ total[i] < MaxTotal
             /\ fails' = [fails EXCEPT ![i] = fl] /\ total' = [total EXCEPT ![i] = tot]
             /\ pf' = [pf EXCEPT ![i] = npf] /\ ptot' = [ptot EXCEPT ![i] = ntot] /\ relTot' = relTot
             /\ inh' = IF total[i] = 0 THEN [inh EXCEPT ![i] = relTot] ELSE inh       \* a new record is created
             /\ IF dec = "none"
                THEN /\ pc' = [pc EXCEPT ![p] = "idle"] /\ hs' = [hs EXCEPT ![p] = Idle]
                     /\ oblig' = [oblig EXCEPT ![i] = Stronger(@, Demand(cnt, ntot, clock))]   \* returns without banning
                     /\ Log([a |-> "Cred", p |-> p, res |-> "fail"])
                ELSE /\ pc' = [pc EXCEPT ![p] = "ban"]
                     /\ hs' = [hs EXCEPT ![p] = [@ EXCEPT !.dec = dec, !.pcnt = cnt, !.ptot = ntot, !.rc = clock]]
                     /\ oblig' = oblig
                     /\ Log([a |-> "Cred", p |-> p, res |-> "toban"])
     ELSE \* RecordSuccess ("Good": challenge-response passed; "Anon"/"Anon2": new anonymous client registered)
          /\ fails' = [fails EXCEPT ![i] = <<>>] /\ total' = [total EXCEPT ![i] = 0]
          /\ pf' = [pf EXCEPT ![i] = <<>>] /\ ptot' = [ptot EXCEPT ![i] = 0]
          /\ relTot' = Min2(relTot + total[i], PermAt)          \* the record (if any) is released
          /\ inh' = [inh EXCEPT ![i] = 0]
          /\ pc' = [pc EXCEPT ![p] = "idle"] /\ hs' = [hs EXCEPT ![p] = Idle]
          /\ UNCHANGED <<cpend, oblig>>
          /\ Log([a |-> "Cred", p |-> p, res |-> "ok"])
  /\ UNCHANGED <<clock, ban, pendUnban, cpend, bl, wl, pendUnbl, bucket, allow, blob, adm, viol, dev>>

HsBan(p) ==   \* banIP under banMu
  /\ pc[p] = "ban"
  /\ LET i == hs[p].ip
         new == IF hs[p].dec = "perm" THEN Perm ELSE Temp(clock + Ban)
         justified == IF hs[p].dec = "perm" THEN hs[p].ptot >= PermAt ELSE hs[p].pcnt >= Threshold
         over == hs[p].dec = "temp" /\ ban[i].k = "perm"       \* a temporary ban about to replace a permanent one
     IN /\ ban' = IF over /\ "order" \in Fixed THEN ban ELSE [ban EXCEPT ![i] = new]
        /\ dev' = IF over /\ "order" \notin Fixed THEN dev \cup {"tempOverPerm"} ELSE dev
        /\ allow' = IF justified THEN [allow EXCEPT ![i] = Stronger(@, new)] ELSE allow
        /\ oblig' = [oblig EXCEPT ![i] = Stronger(@, Demand(hs[p].pcnt, hs[p].ptot, hs[p].rc))]
        /\ pc' = [pc EXCEPT ![p] = "idle"] /\ hs' = [hs EXCEPT ![p] = Idle]
        /\ Log([a |-> "Ban", p |-> p, res |-> "fail"])
  /\ UNCHANGED <<clock, fails, total, pendUnban, cpend, bl, wl, pendUnbl, bucket, pf, ptot, relTot, inh, blob, adm, viol>>

\* ---- observation ----------------------------------------------------------------------------
Query(i) ==
  /\ "Query" \in Acts /\ Free
  /\ pendUnbl'  = [pendUnbl  EXCEPT ![i] = @ + (IF BlSpawns(i) THEN 1 ELSE 0)]
  /\ pendUnban' = [pendUnban EXCEPT ![i] = @ + (IF BanSpawns(i) THEN 1 ELSE 0)]
  /\ viol' = viol \cup Judge(i, IF BlRefuses(i) THEN "yes" ELSE "no", IF BanRefuses(i) THEN "yes" ELSE "no")
  /\ Log([a |-> "Query", ip |-> i, bl |-> BlRefuses(i), ban |-> BanRefuses(i)])
  /\ dev' = dev \cup DevShadow(i)
  /\ UNCHANGED <<cpend, clock, fails, total, ban, bl, wl, bucket, pc, hs, pf, ptot, relTot, inh, oblig, allow, blob, adm>>

\* ---- the asynchronous removals -------------------------------------------------------------
AsyncUnban(i) ==
  /\ "Unban" \in Acts /\ Free /\ pendUnban[i] > 0
  /\ pendUnban' = [pendUnban EXCEPT ![i] = @ - 1]
  /\ IF "unban" \in Fixed
     THEN \* repaired: removes only an entry that is (still) an expired temporary ban
          /\ ban' = IF Expired(ban[i]) THEN [ban EXCEPT ![i] = None] ELSE ban
          /\ dev' = dev
     ELSE \* as is: UnbanIP deletes whatever ban exists now - also one recorded after the spawn
          /\ ban' = [ban EXCEPT ![i] = None]
          /\ dev' = IF Live(ban[i]) THEN dev \cup {"unbanLive"} ELSE dev
  /\ Log([a |-> "Unban", ip |-> i, live |-> Live(ban[i])])
  /\ UNCHANGED <<cpend, clock, fails, total, bl, wl, pendUnbl, bucket, pc, hs, pf, ptot, relTot, inh, oblig, allow, blob, adm, viol>>

AsyncUnbl(i) ==
  /\ "Unbl" \in Acts /\ Free /\ pendUnbl[i] > 0
  /\ pendUnbl' = [pendUnbl EXCEPT ![i] = @ - 1]
  /\ IF "unbl" \in Fixed
     THEN /\ bl' = IF Expired(bl[i].ip) THEN [bl EXCEPT ![i].ip = None] ELSE bl
          /\ dev' = dev
     ELSE /\ bl' = [bl EXCEPT ![i].ip = None]
          /\ dev' = IF Live(bl[i].ip) THEN dev \cup {"unblLive"} ELSE dev
  /\ Log([a |-> "Unbl", ip |-> i, live |-> Live(bl[i].ip)])
  /\ UNCHANGED <<clock, fails, total, ban, pendUnban, cpend, wl, bucket, pc, hs, pf, ptot, relTot, inh, oblig, allow, blob, adm, viol>>

\* ---- periodic clean-ups ---------------------------------------------------------------------
CleanF ==   \* cleanup(), failure records (`mu` section)
  /\ "CleanF" \in Acts /\ Free
  /\ fails' = [i \in IPs |-> InWin(fails[i])]
  /\ total' = [i \in IPs |-> IF InWin(fails[i]) = <<>> THEN 0 ELSE total[i]]      \* an emptied record is deleted
  /\ ptot'  = [i \in IPs |-> IF InWin(pf[i]) = <<>> THEN 0 ELSE ptot[i]]
  /\ relTot' = Min2(relTot + Released, PermAt)
  /\ inh' = [i \in IPs |-> IF InWin(fails[i]) = <<>> THEN 0 ELSE inh[i]]
  /\ Log([a |-> "CleanF"])
  /\ UNCHANGED <<clock, ban, pendUnban, cpend, bl, wl, pendUnbl, bucket, pc, hs, pf, oblig, allow, blob, adm, viol, dev>>

CleanB ==   \* cleanup(), expired bans (`banMu` section): permanent and unexpired bans stay
  /\ "CleanB" \in Acts /\ Free
  /\ ban' = [i \in IPs |-> IF Expired(ban[i]) THEN None ELSE ban[i]]
  /\ Log([a |-> "CleanB"])
  /\ UNCHANGED <<clock, fails, total, pendUnban, cpend, bl, wl, pendUnbl, bucket, pc, hs, pf, ptot, relTot, inh, oblig, allow, blob, adm, viol, dev>>

Clean ==    \* one complete cleanup() run: both sections back to back (what the sequential driver can call)
  /\ "Clean" \in Acts /\ Free
  /\ fails' = [i \in IPs |-> InWin(fails[i])]
  /\ total' = [i \in IPs |-> IF InWin(fails[i]) = <<>> THEN 0 ELSE total[i]]
  /\ ptot'  = [i \in IPs |-> IF InWin(pf[i]) = <<>> THEN 0 ELSE ptot[i]]
  /\ relTot' = Min2(relTot + Released, PermAt)
  /\ inh' = [i \in IPs |-> IF InWin(fails[i]) = <<>> THEN 0 ELSE inh[i]]
  /\ ban' = [i \in IPs |-> IF Expired(ban[i]) THEN None ELSE ban[i]]
  /\ Log([a |-> "Clean"])
  /\ UNCHANGED <<clock, pendUnban, cpend, bl, wl, pendUnbl, bucket, pc, hs, pf, oblig, allow, blob, adm, viol, dev>>

CleanL ==   \* IPManager.cleanup()
  /\ "CleanL" \in Acts /\ Free
  /\ bl' = [i \in IPs |-> [f \in Forms |-> IF Expired(bl[i][f]) THEN None ELSE bl[i][f]]]
  /\ Log([a |-> "CleanL"])
  /\ UNCHANGED <<clock, fails, total, ban, pendUnban, cpend, wl, pendUnbl, bucket, pc, hs, pf, ptot, relTot, inh, oblig, allow, blob, adm, viol, dev>>

\* ---- operator actions -----------------------------------------------------------------------
MUnban(i) ==   \* UnbanIP called by an operator: lifts the ban and, legitimately, the obligation
  /\ "MUnban" \in Acts /\ Free /\ ban[i].k # "none"
  /\ ban' = [ban EXCEPT ![i] = None] /\ oblig' = [oblig EXCEPT ![i] = None]
  /\ Log([a |-> "MUnban", ip |-> i])
  /\ UNCHANGED <<clock, fails, total, pendUnban, cpend, bl, wl, pendUnbl, bucket, pc, hs, pf, ptot, relTot, inh, allow, blob, adm, viol, dev>>

Blk(i, kind, f) ==   \* AddToBlacklist(entry, duration | 0): the latest order for an entry replaces the previous one
  /\ kind \in Acts /\ Free
  /\ LET e == IF kind = "BlkP" THEN Perm ELSE Temp(clock + BlDur)
     IN bl' = [bl EXCEPT ![i][f] = e] /\ blob' = [blob EXCEPT ![i][f] = e]
  /\ Log([a |-> kind, ip |-> i, form |-> f])
  /\ UNCHANGED <<clock, fails, total, ban, pendUnban, cpend, wl, pendUnbl, bucket, pc, hs, pf, ptot, relTot, inh, oblig, allow, adm, viol, dev>>

\* the weaker of two orders: what is demanded when it is unknown which of them is in force
Meet(a, b) == IF a.k = "none" \/ b.k = "none" THEN None
              ELSE IF a.k = "perm" THEN b ELSE IF b.k = "perm" THEN a
              ELSE Temp(Min2(a.until, b.until))

BlkF(i, kind, f) ==   \* AddToBlacklist while the storage write fails (Set / AppendToList error)
  \* The code keeps the new entry in memory and only logs the storage error.  What the statement can
  \* demand of a failed update is the weaker of the previous and the new order - in particular a
  \* failed update never lifts an entry that was in force.  (Configurations with BlkF have no Reload:
  \* what storage holds after a failed write is outside the model.)
  /\ "BlkF" \in Acts /\ kind \in Acts /\ Free
  /\ LET e == IF kind = "BlkP" THEN Perm ELSE Temp(clock + BlDur)
     IN bl' = [bl EXCEPT ![i][f] = e] /\ blob' = [blob EXCEPT ![i][f] = Meet(@, e)]
  /\ Log([a |-> kind, ip |-> i, form |-> f, fault |-> TRUE])
  /\ UNCHANGED <<clock, fails, total, ban, pendUnban, cpend, wl, pendUnbl, bucket, pc, hs, pf, ptot, relTot, inh, oblig, allow, adm, viol, dev>>

MUnbl(i, f) ==   \* RemoveFromBlacklist(entry) called by an operator
  /\ "MUnbl" \in Acts /\ Free /\ bl[i][f].k # "none"
  /\ bl' = [bl EXCEPT ![i][f] = None] /\ blob' = [blob EXCEPT ![i][f] = None]
  /\ Log([a |-> "MUnbl", ip |-> i, form |-> f])
  /\ UNCHANGED <<clock, fails, total, ban, pendUnban, cpend, wl, pendUnbl, bucket, pc, hs, pf, ptot, relTot, inh, oblig, allow, adm, viol, dev>>

SetWl(i, on, f) ==
  /\ (IF on THEN "Wl" ELSE "UnWl") \in Acts /\ Free /\ wl[i][f] # on
  /\ wl' = [wl EXCEPT ![i][f] = on]
  /\ Log([a |-> IF on THEN "Wl" ELSE "UnWl", ip |-> i, form |-> f])
  /\ UNCHANGED <<clock, fails, total, ban, pendUnban, cpend, bl, pendUnbl, bucket, pc, hs, pf, ptot, relTot, inh, oblig, allow, blob, adm, viol, dev>>

Other(i, kind) ==   \* an entry that does not cover the address (range elsewhere): nothing changes for it
  /\ kind \in {"BlkO", "WlO"} /\ kind \in Acts /\ Free
  /\ Log([a |-> IF kind = "BlkO" THEN "Blk" ELSE "Wl", ip |-> i, form |-> "other"])
  /\ UNCHANGED <<clock, fails, total, ban, pendUnban, cpend, bl, wl, pendUnbl, bucket, pc, hs, pf, ptot, relTot, inh, oblig, allow, blob, adm, viol, dev>>

Reload ==   \* restart: a fresh IPManager loads the lists from storage (= memory minus expired entries)
  /\ "Reload" \in Acts /\ Free /\ \A i \in IPs : pendUnbl[i] = 0
  /\ bl' = [i \in IPs |-> [f \in Forms |-> IF Live(bl[i][f]) THEN bl[i][f] ELSE None]]
  /\ Log([a |-> "Reload"])
  /\ UNCHANGED <<clock, fails, total, ban, pendUnban, cpend, wl, pendUnbl, bucket, pc, hs, pf, ptot, relTot, inh, oblig, allow, blob, adm, viol, dev>>

\* ---- rate-limiter histories ------------------------------------------------------------------
IdleTicks == (Burst * 1000 + Refill - 1) \div Refill        \* a whole refill period: burst / rate
FloodN    == 2 * Burst + 2

IdleFor ==
  /\ "Idle" \in Acts /\ Free /\ clock + IdleTicks <= MaxClock
  /\ clock' = clock + IdleTicks
  /\ pf' = [i \in IPs |-> SelectSeq(pf[i], LAMBDA t : clock + IdleTicks - t < Win)]
  /\ Log([a |-> "Idle", n |-> IdleTicks])
  /\ UNCHANGED <<fails, total, ban, pendUnban, cpend, bl, wl, pendUnbl, bucket, pc, hs, ptot, relTot, inh, oblig, allow, blob, adm, viol, dev>>

ConcK == Burst + 2
ConcFirst(i) ==   \* ConcK AllowIP calls AT THE SAME TIME from an address that has no bucket yet
  \* get-or-create of the bucket is one critical section (double check under the write lock) and Take
  \* is serialised by the bucket's mutex: however the calls interleave, they share ONE new bucket and
  \* Burst of them are admitted.  The driver realises the step with a start barrier, for the address
  \* of the history and for many more fresh addresses.
  /\ "ConcFirst" \in Acts /\ Free /\ ~bucket[i].has
  /\ bucket' = [bucket EXCEPT ![i] = [has |-> TRUE, tok |-> (Burst - Min2(Burst, ConcK)) * 1000, last |-> clock]]
  /\ adm' = [adm EXCEPT ![i] = @ \o [x \in 1..Min2(Burst, ConcK) |-> clock]]
  /\ Log([a |-> "ConcFirst", ip |-> i, n |-> ConcK, adm |-> Min2(Burst, ConcK)])
  /\ UNCHANGED <<clock, fails, total, ban, pendUnban, cpend, bl, wl, pendUnbl, pc, hs, pf, ptot, relTot, inh, oblig, allow, blob, viol, dev>>

Flood(i) ==   \* FloodN AllowIP calls back to back (straight at the limiter)
  /\ "Flood" \in Acts /\ Free
  /\ LET b   == bucket[i]
         cur == IF b.has THEN Min2(b.tok + (clock - b.last) * Refill, Burst * 1000) ELSE Burst * 1000
         k   == Min2(cur \div 1000, FloodN)
     IN /\ bucket' = [bucket EXCEPT ![i] = [has |-> TRUE, tok |-> cur - k * 1000, last |-> clock]]
        /\ adm' = [adm EXCEPT ![i] = @ \o [x \in 1..k |-> clock]]
        /\ Log([a |-> "Flood", ip |-> i, n |-> FloodN, adm |-> k])
  /\ UNCHANGED <<clock, fails, total, ban, pendUnban, cpend, bl, wl, pendUnbl, pc, hs, pf, ptot, relTot, inh, oblig, allow, blob, viol, dev>>

FloodHs(i, kind) ==   \* FloodN registration handshakes back to back through HandleHandshake (gates, limiter, RecordSuccess)
  /\ "FloodHs" \in Acts /\ kind \in Acts /\ kind \in RegKinds /\ Quiet
  /\ ~BlSpawns(i) /\ ~BanSpawns(i)          \* no expired entry around: the flood spawns no lazy removals
  /\ LET blRef  == BlRefuses(i)
         banRef == ~blRef /\ BanRefuses(i)
         b   == bucket[i]
         cur == IF b.has THEN Min2(b.tok + (clock - b.last) * Refill, Burst * 1000) ELSE Burst * 1000
         k   == IF blRef \/ banRef THEN 0 ELSE Min2(cur \div 1000, FloodN)
     IN /\ bucket' = IF blRef \/ banRef THEN bucket
                     ELSE [bucket EXCEPT ![i] = [has |-> TRUE, tok |-> cur - k * 1000, last |-> clock]]
        /\ adm' = [adm EXCEPT ![i] = @ \o [x \in 1..k |-> clock]]
        /\ viol' = viol \cup Judge(i, IF blRef THEN "yes" ELSE "no", IF blRef THEN "-" ELSE IF banRef THEN "yes" ELSE "no")
        /\ IF k > 0     \* every granted registration is a RecordSuccess
           THEN /\ fails' = [fails EXCEPT ![i] = <<>>] /\ total' = [total EXCEPT ![i] = 0]
                /\ pf' = [pf EXCEPT ![i] = <<>>] /\ ptot' = [ptot EXCEPT ![i] = 0]
                /\ relTot' = Min2(relTot + total[i], PermAt)
                /\ inh' = [inh EXCEPT ![i] = 0]
           ELSE UNCHANGED <<fails, total, pf, ptot, relTot, inh>>
        /\ Log([a |-> "FloodHs", ip |-> i, kind |-> kind, n |-> FloodN, adm |-> k,
                res |-> IF blRef THEN "bl" ELSE IF banRef THEN "ban" ELSE "pass"])
  /\ UNCHANGED <<clock, ban, pendUnban, cpend, bl, wl, pendUnbl, pc, hs, oblig, allow, blob, dev>>

\* ---- deviation "split clean-up" ---------------------------------------------------------------
\* cleanup() as the code stands removes expired bans in ONE critical section (Clean / CleanB above).
\* A clean-up that only SCANS under the lock and deletes afterwards (one unconditional UnbanIP per
\* scanned address) deletes whatever ban exists by then - also one recorded after the scan
\* (deviation cleanLive).  These two actions are in the alphabet of the deviation configurations
\* only; their schedules are unrealisable on code whose clean-up is one critical section.
\* The generation configuration has two addresses: a pass that deletes inline (per-address lock, no
\* UnbanIP call) lets the driver in only at the debug line it writes AFTER a delete, i.e. between the
\* deletes of two scanned addresses - the fresh ban the pass wipes is that of the second one.
\* (The IP manager's twin of this deviation, with storage calls between the deletes: BruteForceLists.tla.)
CleanScan ==
  /\ "CleanScan" \in Acts /\ Free /\ \A i \in IPs : ~cpend[i]
  /\ fails' = [i \in IPs |-> InWin(fails[i])]
  /\ total' = [i \in IPs |-> IF InWin(fails[i]) = <<>> THEN 0 ELSE total[i]]
  /\ ptot'  = [i \in IPs |-> IF InWin(pf[i]) = <<>> THEN 0 ELSE ptot[i]]
  /\ relTot' = Min2(relTot + Released, PermAt)
  /\ inh' = [i \in IPs |-> IF InWin(fails[i]) = <<>> THEN 0 ELSE inh[i]]
  /\ cpend' = [i \in IPs |-> Expired(ban[i])]
  /\ Log([a |-> "CleanScan", n |-> Cardinality({i \in IPs : Expired(ban[i])})])
  /\ UNCHANGED <<clock, ban, pendUnban, bl, wl, pendUnbl, bucket, pc, hs, pf, oblig, allow, blob, adm, viol, dev>>

CleanDel(i) ==
  /\ "CleanDel" \in Acts /\ Free /\ cpend[i]
  /\ cpend' = [cpend EXCEPT ![i] = FALSE]
  /\ ban' = [ban EXCEPT ![i] = None]
  /\ dev' = IF Live(ban[i]) THEN dev \cup {"cleanLive"} ELSE dev
  /\ Log([a |-> "CleanDel", ip |-> i, live |-> Live(ban[i])])
  /\ UNCHANGED <<clock, fails, total, pendUnban, bl, wl, pendUnbl, bucket, pc, hs, pf, ptot, relTot, inh, oblig, allow, blob, adm, viol>>

Tick ==
  /\ "Tick" \in Acts /\ Free /\ clock < MaxClock
  /\ clock' = clock + 1
  /\ pf' = [i \in IPs |-> SelectSeq(pf[i], LAMBDA t : clock + 1 - t < Win)]
  /\ Log([a |-> "Tick"])
  /\ UNCHANGED <<fails, total, ban, pendUnban, cpend, bl, wl, pendUnbl, bucket, pc, hs, ptot, relTot, inh, oblig, allow, blob, adm, viol, dev>>

Step == \/ \E p \in Procs : \/ \E i \in IPs, k \in Kinds : HsGate(p, i, k)
                            \/ HsCred(p) \/ HsBan(p)
        \/ \E i \in IPs : \/ Query(i) \/ AsyncUnban(i) \/ AsyncUnbl(i) \/ MUnban(i) \/ Flood(i)
                          \/ Other(i, "BlkO") \/ Other(i, "WlO")
                          \/ FloodHs(i, "Anon") \/ FloodHs(i, "Anon2") \/ CleanDel(i) \/ ConcFirst(i)
                          \/ \E f \in BlForms : \/ Blk(i, "Blk", f) \/ Blk(i, "BlkP", f)
                                                 \/ BlkF(i, "Blk", f) \/ BlkF(i, "BlkP", f) \/ MUnbl(i, f)
                                               \/ SetWl(i, TRUE, f) \/ SetWl(i, FALSE, f)
        \/ CleanF \/ CleanB \/ Clean \/ CleanScan \/ CleanL \/ Reload \/ Tick \/ IdleFor
Next == Len(hist) < MaxHist /\ Step /\ Out
Spec == Init /\ [][Next]_vars

\* bounds of the explored graph (state constraint)
Bounded == \A i \in IPs : /\ pendUnban[i] <= MaxPend /\ pendUnbl[i] <= MaxPend
                          /\ Len(adm[i]) <= MaxAdm

\* generation of ALL bounded histories (hist in the fingerprint): a Query ends the history
QueryLast == \A k \in 1..(Len(hist) - 1) : hist[k].a # "Query"

\* ---- properties (C18) -----------------------------------------------------------------------
TypeOK == /\ clock \in 0..MaxClock
          /\ \A i \in IPs : /\ ban[i].k \in {"none", "temp", "perm"} /\ \A f \in Forms : bl[i][f].k \in {"none", "temp", "perm"}
                            /\ total[i] \in 0..MaxTotal /\ Len(fails[i]) <= total[i]
                            /\ bucket[i].tok \in 0..(Burst * 1000)
          /\ \A p \in Procs : pc[p] \in {"idle", "cred", "ban"}

\* (1) from the return of the failing handshake that reached the threshold until the ban period has
\*     elapsed - forever for the permanent threshold - every answer of the ban gate is "refused"
BanHolds       == "ban" \notin viol
\* (2) an address is refused as banned only while a ban whose count reached a threshold is running
NeverSpurious  == "spurious" \notin viol
\* (3) a blacklisted address that is not whitelisted is always refused
BlacklistHolds == "bl" \notin viol
\* (4) in every interval the admitted anonymous registrations are at most burst + rate * length
RateBound == \A i \in IPs : \A x, y \in 1..Len(adm[i]) :
                x <= y => (y - x + 1) * 1000 <= Burst * 1000 + Refill * (adm[i][y] - adm[i][x])
\* (5) the code's own bookkeeping agrees with the property-level count (keeps the ghosts honest)
CountsAgree == \A i \in IPs : total[i] = ptot[i] /\ Len(InWin(fails[i])) = Len(InWin(pf[i]))
\* (6) a permanent ban record is removed only by an operator - or by a listed deviation
PermKept == \A i \in IPs : (oblig[i].k = "perm" /\ ban[i].k # "perm") => dev # {}

\* as-is configurations: a violation is excused only by a listed deviation of the code
BanHoldsOrKnown       == BanHolds \/ dev \cap {"unbanLive", "tempOverPerm", "cleanLive"} # {}
BlacklistHoldsOrKnown == BlacklistHolds \/ dev \cap {"unblLive", "expiredShadows"} # {}
NoDeviation           == dev = {}
=============================================================================
