\* C08 documentation cfg (not run by the check): tlc -config ConnState_show_casStub.cfg ConnState.tla
\* Seeded change C08-r3m2: the heartbeat renews the client index with CompareAndSwap(idx, c, c, ttl); the backend's CAS is a stub (hybrid.Storage = every server wiring): the index lapses one lifetime after the handshake (deviation idxNotRenewed). With CasSet = {TRUE} the design is sound.
\* Expected: Invariant FindLive is violated.
CONSTANTS
  Nodes = {"A", "B"}
  NConns = 2
  Clients = {"X"}
  TTL = 2
  MaxClock = 1000
  MaxHist = 99
  Shapes = {"str"}
  CasSet = {FALSE}
  FixSets = {{"ptrShape", "condIdxDelete", "hbRefresh", "successOnly"}}
  Causes = {"peer"}
  KeepCreatedAt = FALSE
  UseRequestId = FALSE
  IdxRenew = "cas"
  RecRenew = "set"
  Lookups = FALSE
  WritingLookup = FALSE
  InFlight = FALSE
  ClientState = FALSE
  Emit = FALSE
  Only = "all"
INIT Init
NEXT Next
VIEW view
INVARIANTS TypeOK FindClosed FindLive
CHECK_DEADLOCK FALSE
