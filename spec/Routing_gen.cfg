\* C09 behaviour generation: transition coverage of the bounded state graph (VIEW without hist):
\* every (state, event) pair - all register / lookup / remove / expire orders over the tunnels and
\* nodes - as a shortest history to the state followed by the event.
CONSTANTS
  Nodes = @@NODES@@
  Tunnels = @@TUNNELS@@
  TTL = @@TTL@@
  MaxReg = @@MAXREG@@
  MaxClock = @@MAXCLOCK@@
  MaxHist = @@MAXHIST@@
  Shapes = {"jsonString"}
  Mode = "@@MODE@@"
  LifecycleFirst = @@LF@@
  SkipLocalTarget = FALSE
  EvictingLookup = FALSE
  HonourContext = FALSE
  RejectSeenIds = FALSE
  RegisterBeforeExistsCheck = @@REGFIRST@@
  MaxDup = @@MAXDUP@@
  Emit = TRUE
  Only = "@@ONLY@@"
INIT Init
NEXT Next
VIEW genview
CONSTRAINT Bounded
INVARIANTS TypeOK
CHECK_DEADLOCK FALSE
