\* C19 - deviation listHeals (seeded change C19-r3m3): GetMappingsByClientID re-creates a missing index entry (SetNX) for every
\* active record it lists. Configuration gen:list (p1 = the owner's listing, p3 = the owner's delete, p2 = another client's
\* claim, one lookup process).
\* Expected: Invariant Claimable / Consistent / ListPure is violated - p1: ListGet, ListRec(1) [record still there];
\* p3: the whole delete of mapping 1 (acknowledged); p1: ListHeal -> index[n1] = 1 again: an index entry without record, n1 is
\* unclaimable for ever (DeleteMapping(1) finds no record and returns at once).
\*   tlc -config Domain_show_listheal.cfg Domain.tla      (the same constants with Deviate = {} pass: `./check C19`)
CONSTANTS
  ProcsC1 = {"p1", "p3"}
  ProcsC2 = {"p2"}
  LookProcs = {"lk"}
  Names = {"n1"}
  MaxOps = 1
  MaxLook = 1
  Kinds = {"Create", "Delete", "List"}
  Pre = TRUE
  Faults = 0
  Guess = FALSE
  HandlerProcs = {"p2"}
  Serial = FALSE
  MaxLegacy = 0
  Fix = TRUE
  Spell = {"plain"}
  CaseFold = TRUE
  OnlyDelete = {"p3"}
  OnlyCreate = {"p2"}
  Deviate = {"listHeals"}
  DelFaults = FALSE
  CreateFaults = FALSE
  ReadFaults = FALSE
  TTLRollback = TRUE
  UpdFields = {"inactive", "expired"}
  LegStatus = {"active"}
  OnlyList = {"p1"}
  Emit = FALSE
INIT Init
NEXT Next
VIEW view
INVARIANTS TypeOK Claimable Consistent ListPure
CHECK_DEADLOCK FALSE
