\* C07 named deviation "reRegisterKeepsIndex" (seeded change C07-r7m2): Register on an existing ConnID whose new object
\* shares the old one's stream overwrites the entry without removeConnectionLocked(existing): the client-id index keeps
\* pointing at the superseded object.  TLC must report C07InvX violated (LookupSound): FirstLogin(c1) ; ReReg(c1, same).
\* The as-is model (Faults = {}) passes: SessionReg_rereg.cfg.
CONSTANTS
  Conn <- Conn2
  Client <- Client1
  MaxNonce = 2
  MaxFail = 3
  MaxCtl = 0
  Faults = {"reRegisterKeepsIndex"}
  Ops = {"FirstLogin", "Login", "Knock", "ReReg", "Close", "CloseCmd"}
  Types = {"control", "tunnel"}
  PreAccept = TRUE
  Fixes = {"oneIdentity", "atomicEvict"}
  Split = FALSE
  MaxLevel = 6
  Emit = "no"
INIT InitX
NEXT NextX
VIEW viewX
INVARIANTS TypeOKX OnlyProven C07InvX C07OneX
CHECK_DEADLOCK FALSE
