---------------------------- MODULE NotifyTrace ----------------------------
(* X07 judge (property level) for server-to-client notifications.  It knows nothing about registries,   *)
(* locks, copies of handler lists or goroutines: it sees calls, what they return, the packets that      *)
(* appear on connections, the callbacks user handlers receive and the fate of tunnels.  Alphabet:       *)
(*   Cfg     [tag]                 world (prefix of every verdict detail)                                *)
(*   Login   [c, x, k, hp]         connection c is about to begin its handshake as client x, k = ctl |   *)
(*                                 tun; hp = the handshake may push a configuration itself (a mapping    *)
(*                                 of the client exists or is being created)                             *)
(*   Conn    [c]                   that handshake has returned (success)                                 *)
(*   Gone    [c, how]              the driver is about to drop c (drop), turn it into a data tunnel      *)
(*                                 (totun), or log x in again (replaced: the server closes c);           *)
(*   GoneRet [c]                   ... and that is done                                                  *)
(*   SCall [id, x] / SRet [id, r]  SendToClient(x) with notify id `id`; r = ok | offline | neterr | other *)
(*   BCall [id] / BRet [id,ok,fail] BroadcastToAll                                                       *)
(*   Wire    [c, id]               a complete NotifyClient command with that id was written to c         *)
(*   AddCall/AddRet/RemCall/RemRet [h]   Dispatcher.AddHandler / RemoveHandler of user handler h         *)
(*   Notif   [n, ty, t, ack, exp, bad]   the (fake) server is about to send notification n: type sys |   *)
(*                                 closed | error, naming tunnel t, RequireAck, already expired,         *)
(*                                 payload not JSON                                                      *)
(*   Cb      [n, h, m, t]          user handler h entered callback m (sys | closed | error | other) for  *)
(*                                 notification n with tunnel argument t                                 *)
(*   AckIn   [n]                   the server received a NotifyClientAck carrying n's id (0: unknown id) *)
(*   Handled [n]                   the client's read loop is back at its read after n                    *)
(*   TRegCall / TReg [g, t]        target-side tunnel goroutine g is about to register / has registered  *)
(*                                 tunnel id t                                                           *)
(*   TExit   [g]                   it is about to run its deferred cancel + UnregisterTunnel             *)
(*   TDone   [g]                   g's context was found cancelled                                       *)
(*   LOpen [t] / LClosed [t, why]  a listen-side tunnel was started / its OnClosed callback ran          *)
(*   ChangeCall / Change [x, v]    a mapping of client x is about to be created / is stored: version v   *)
(*   PCall [p, x, nd] / PRet [p]   NotifyClientUpdate(x) on node nd, numbered p                          *)
(*   PWire   [c, x, v]             a ConfigSet for client x (\"\" if it names no mapping) carrying version v *)
(*                                 was written to c                                                      *)
(*   Stuck [c] / Unstuck [c]       the driver blocks / unblocks writes to c                              *)
(*   Quiet   []                    every queue, loop and writer goroutine was given time to finish       *)
(*   Panic   [who, msg]                                                                                  *)
(* Order of logging: *Call, Gone, Notif, TExit, Change, Stuck are logged BEFORE the action, Conn, *Ret,  *)
(* Wire, Cb (at entry), AckIn, Handled, TReg, TDone, LClosed, PWire AFTER the fact, into one             *)
(* mutex-ordered log; packets found on a connection are logged before the return of the call that wrote  *)
(* them.                                                                                                 *)
(* Clauses (detail = tag + class):                                                                       *)
(*   OnlyTarget   a notification reached a connection of another client (:other) or a tunnel (:tunnel)   *)
(*   AtMostOnce   a unicast reached two connections / one connection twice (:unicast), a broadcast one   *)
(*                connection twice (:bcast)                                                              *)
(*   CleanFail    nil returned but nothing written (:lost), an error returned but written (:phantom),    *)
(*                written after the return (:late); Spurious: a notification nobody sent                 *)
(*   Delivered    the client had ONE control connection, untouched during the whole call, and the send   *)
(*                did not return nil / the broadcast skipped it (:bcast) / the config push did not       *)
(*                arrive (:push, :push:blocked while another connection was stuck)                       *)
(*   Offline      the client had NO control connection during the whole call and the result was not the  *)
(*                offline error                                                                          *)
(*   Counted      BroadcastToAll's successCount differs from the copies written                          *)
(*   Dispatch     a handler registered during the whole dispatch was not called (:missed), called twice  *)
(*                (:twice), with the wrong method (:method) or tunnel (:arg), or out of order (:order)   *)
(*   NoCallAfterRemove  a handler was called after RemoveHandler returned (:inflight the notification    *)
(*                was sent before that return, :later after it)                                          *)
(*   Expired / Malformed  a callback or acknowledgement for an expired notification / a callback for an  *)
(*                unparsable payload                                                                     *)
(*   Ack          :missing :unasked :twice :unknown :early                                               *)
(*   EndsNamed    a tunnel-closed notification did not end the tunnel running under the id it names      *)
(*                (:target:plain, :target:dup = the id had been registered before, :listen)              *)
(*   OnlyNamed    a tunnel ended that nobody named (:target, :listen)                                    *)
(*   CloseOnce    a listen tunnel's close sequence ran twice                                             *)
(*   PushTarget   a ConfigSet for x on a connection of another client (:other) or a tunnel (:tunnel)     *)
(*   PushOnce     more ConfigSets with one version on a connection than pushes that could carry it       *)
(*   PushOrder    an older configuration was written after a newer one although every push that could   *)
(*                have carried the older had returned before any that could have carried the newer was   *)
(*                called, all on one node, on a connection that existed before them                      *)
(*   NoPanic                                                                                             *)
(* Silent (accepted): sends racing a (re)connect / drop of the target; concurrent pushes; pushes made    *)
(* on different nodes (the local write overtakes the broker); pushes in flight while the client connects; *)
(* an acknowledgement for a malformed payload; what a dead connection  *)
(* does to the caller of the local push.                                                                 *)
EXTENDS VLib

VARIABLE j
vars == <<l, viol, j>>

J0 == [tag |-> "?", conns |-> <<>>, sends |-> <<>>, wires |-> <<>>,
       hreg |-> <<>>, notifs |-> <<>>, cbs |-> <<>>, acked |-> <<>>, gens |-> <<>>, greg |-> {}, lt |-> <<>>,
       ver |-> [x \in {"A", "B"} |-> 0], verhi |-> [x \in {"A", "B"} |-> 0], pushes |-> <<>>, pw |-> <<>>, stuck |-> {}]
Init == l = 1 /\ viol = {} /\ j = J0

Vs(b, c, d) == IF b THEN {V(c, j.tag \o d)} ELSE {}
Put(f, k, v) == (k :> v) @@ f
In(f, k) == k \in DOMAIN f
Opt(f, d) == IF Has(f) THEN Ev[f] ELSE d

\* control connections of x that are alive right now
LiveCtl(x) == {c \in DOMAIN j.conns : j.conns[c].k = "ctl" /\ j.conns[c].gone = "" /\ j.conns[c].up /\ (x = "*" \/ j.conns[c].x = x)}
\* calls in flight lose their "nothing happened to the target" mark
Touch(x) == [j EXCEPT !.sends = [i \in DOMAIN j.sends |-> IF j.sends[i].st = "call" /\ j.sends[i].x \in {x, "*"}
                                                            THEN [j.sends[i] EXCEPT !.stable = FALSE] ELSE j.sends[i]],
                      !.pushes = [p \in DOMAIN j.pushes |-> IF ~j.pushes[p].settled /\ j.pushes[p].x = x
                                                              THEN [j.pushes[p] EXCEPT !.stable = FALSE] ELSE j.pushes[p]]]

TrCfg == /\ Is("Cfg") /\ j' = [j EXCEPT !.tag = Ev.tag] /\ l' = l + 1 /\ UNCHANGED viol

\* Login: the connection is about to begin its handshake as x (from now on the server may index it at any moment);
\* Conn: the handshake has returned
TrLogin == /\ Is("Login")
           /\ LET t == IF Ev.k = "ctl" THEN Touch(Ev.x) ELSE j IN
              j' = [t EXCEPT !.conns = Put(j.conns, Ev.c, [x |-> Ev.x, k |-> Ev.k, gone |-> "", fin |-> FALSE, up |-> FALSE, at |-> l, v |-> j.ver[Ev.x], hs |-> FALSE, hp |-> Opt("hp", FALSE)])]
           /\ l' = l + 1 /\ UNCHANGED viol
TrConn == /\ Is("Conn")
          /\ IF In(j.conns, Ev.c)
             THEN LET t == IF j.conns[Ev.c].k = "ctl" THEN Touch(j.conns[Ev.c].x) ELSE j IN
                  j' = [t EXCEPT !.conns = [j.conns EXCEPT ![Ev.c].up = TRUE, ![Ev.c].at = l]]
             ELSE UNCHANGED j
          /\ l' = l + 1 /\ UNCHANGED viol

TrGone == /\ Is("Gone")
          /\ IF In(j.conns, Ev.c)
             THEN LET t == IF j.conns[Ev.c].k = "ctl" THEN Touch(j.conns[Ev.c].x) ELSE j IN
                  j' = [t EXCEPT !.conns = [j.conns EXCEPT ![Ev.c].gone = Ev.how]]
             ELSE UNCHANGED j
          /\ l' = l + 1 /\ UNCHANGED viol
\* GoneRet: the drop / replacement announced by Gone is complete
TrGoneRet == /\ Is("GoneRet")
             /\ j' = (IF In(j.conns, Ev.c) THEN [j EXCEPT !.conns[Ev.c].fin = TRUE] ELSE j)
             /\ l' = l + 1 /\ UNCHANGED viol

\* a control connection of x whose handshake is under way: the server may index it at any moment
Pending(x) == \E c \in DOMAIN j.conns : /\ j.conns[c].k = "ctl" /\ (x = "*" \/ j.conns[c].x = x)
                                          /\ \/ j.conns[c].gone = "" /\ ~j.conns[c].up        \* logging in
                                             \/ j.conns[c].gone # "" /\ ~j.conns[c].fin       \* being dropped / replaced
NewSend(x) == [x |-> x, st |-> "call", cur |-> LiveCtl(x), stable |-> ~Pending(x), nw |-> 0, wc |-> {}]
TrSCall == /\ Is("SCall") /\ j' = [j EXCEPT !.sends = Put(j.sends, Ev.id, NewSend(Ev.x))] /\ l' = l + 1 /\ UNCHANGED viol
TrBCall == /\ Is("BCall") /\ j' = [j EXCEPT !.sends = Put(j.sends, Ev.id, NewSend("*"))] /\ l' = l + 1 /\ UNCHANGED viol

TrSRet ==
  /\ Is("SRet")
  /\ IF In(j.sends, Ev.id)
     THEN LET s == j.sends[Ev.id] IN
          /\ viol' = viol \cup Vs(Ev.r = "ok" /\ s.nw = 0, "CleanFail", ":lost")
                          \cup Vs(Ev.r # "ok" /\ s.nw > 0, "CleanFail", ":phantom")
                          \cup Vs(s.stable /\ Cardinality(s.cur) = 1 /\ Ev.r # "ok", "Delivered", ":" \o Ev.r)
                          \cup Vs(s.stable /\ s.cur = {} /\ Ev.r # "offline", "Offline", ":" \o Ev.r)
          /\ j' = [j EXCEPT !.sends[Ev.id].st = "ret"]
     ELSE UNCHANGED <<viol, j>>
  /\ l' = l + 1

TrBRet ==
  /\ Is("BRet")
  /\ IF In(j.sends, Ev.id)
     THEN LET s == j.sends[Ev.id]
              \* control connections that were there before the call and were not touched until now
              owed == {c \in s.cur : j.conns[c].gone = ""} IN
          /\ viol' = viol \cup Vs(Ev.ok # s.nw, "Counted", "")
                          \cup Vs(\E c \in owed : c \notin s.wc, "Delivered", ":bcast")
          /\ j' = [j EXCEPT !.sends[Ev.id].st = "ret"]
     ELSE UNCHANGED <<viol, j>>
  /\ l' = l + 1

TrWire ==
  /\ Is("Wire")
  /\ IF In(j.sends, Ev.id) /\ In(j.conns, Ev.c)
     THEN LET s == j.sends[Ev.id]
              c == j.conns[Ev.c] IN
          /\ viol' = viol \cup Vs(s.x # "*" /\ c.x # s.x, "OnlyTarget", ":other")
                          \cup Vs(c.k = "tun", "OnlyTarget", ":tunnel")
                          \cup Vs(s.x # "*" /\ s.nw > 0, "AtMostOnce", ":unicast")
                          \cup Vs(s.x = "*" /\ Ev.c \in s.wc, "AtMostOnce", ":bcast")
                          \cup Vs(s.st = "ret", "CleanFail", ":late")
          /\ j' = [j EXCEPT !.sends[Ev.id].nw = @ + 1, !.sends[Ev.id].wc = @ \cup {Ev.c}]
     ELSE /\ viol' = viol \cup {V("Spurious", j.tag)} /\ UNCHANGED j
  /\ l' = l + 1

\* ---- client ---------------------------------------------------------------------------------------
H0 == [add |-> 0, addret |-> 0, remcall |-> 0, remret |-> 0]
HR(h) == IF In(j.hreg, h) THEN j.hreg[h] ELSE H0
Stable(h) == HR(h).addret # 0 /\ HR(h).remcall = 0
OpenNotifs == {n \in DOMAIN j.notifs : ~j.notifs[n].handled}

TrAddCall == /\ Is("AddCall") /\ j' = [j EXCEPT !.hreg = Put(j.hreg, Ev.h, [H0 EXCEPT !.add = l])] /\ l' = l + 1 /\ UNCHANGED viol
TrAddRet  == /\ Is("AddRet") /\ j' = [j EXCEPT !.hreg = Put(j.hreg, Ev.h, [HR(Ev.h) EXCEPT !.addret = l])] /\ l' = l + 1 /\ UNCHANGED viol
TrRemCall == /\ Is("RemCall")
             /\ j' = [j EXCEPT !.hreg = Put(j.hreg, Ev.h, [HR(Ev.h) EXCEPT !.remcall = l]),
                               !.notifs = [n \in DOMAIN j.notifs |-> [j.notifs[n] EXCEPT !.sh = @ \ {Ev.h}]]]
             /\ l' = l + 1 /\ UNCHANGED viol
TrRemRet  == /\ Is("RemRet") /\ j' = [j EXCEPT !.hreg = Put(j.hreg, Ev.h, [HR(Ev.h) EXCEPT !.remret = l])] /\ l' = l + 1 /\ UNCHANGED viol

GensOf(t) == {g \in DOMAIN j.gens : j.gens[g].t = t}
MaxOf(S) == CHOOSE g \in S : \A g2 \in S : g2 <= g
TrNotif ==
  /\ Is("Notif")
  /\ LET G == GensOf(Ev.t)
         g == IF G = {} THEN 0 ELSE MaxOf(G)
         owedG == IF g # 0 /\ j.gens[g].exit = 0 /\ Ev.ty = "closed" THEN g ELSE 0
         owedL == Ev.ty \in {"closed", "error"} /\ In(j.lt, Ev.t) /\ j.lt[Ev.t].st = "open" IN
     j' = [j EXCEPT !.notifs = Put(j.notifs, Ev.n, [ty |-> Ev.ty, t |-> Ev.t, ack |-> Ev.ack, exp |-> Ev.exp, bad |-> Ev.bad,
                                                    at |-> l, handled |-> FALSE, sh |-> {h \in DOMAIN j.hreg : Stable(h)},
                                                    owedG |-> owedG, dup |-> Cardinality(G) > 1, owedL |-> owedL])]
  /\ l' = l + 1 /\ UNCHANGED viol

\* a payload that is not JSON matters only for the types whose payload the dispatcher parses
Bad(k) == k.bad /\ k.ty \in {"sys", "closed", "error"}
Want(ty) == IF ty \in {"sys", "closed", "error"} THEN ty ELSE "other"
CbsOf(n, h) == {i \in DOMAIN j.cbs : j.cbs[i].n = n /\ j.cbs[i].h = h}
TrCb ==
  /\ Is("Cb")
  /\ LET known == In(j.notifs, Ev.n)
         k == j.notifs[Ev.n]
         r == HR(Ev.h)
         removed == r.remret # 0 IN
     /\ viol' = viol
          \cup Vs(removed, "NoCallAfterRemove", IF known /\ k.at < r.remret THEN ":inflight" ELSE ":later")
          \cup Vs(known /\ k.exp, "Expired", ":cb") \cup Vs(known /\ Bad(k), "Malformed", "")
          \cup Vs(known /\ CbsOf(Ev.n, Ev.h) # {}, "Dispatch", ":twice")
          \cup Vs(known /\ ~k.exp /\ ~Bad(k) /\ Ev.m # Want(k.ty), "Dispatch", ":method")
          \cup Vs(known /\ ~k.exp /\ ~Bad(k) /\ k.ty \in {"closed", "error"} /\ Ev.t # k.t, "Dispatch", ":arg")
          \cup Vs(known /\ \E i \in DOMAIN j.acked : j.acked[i] = Ev.n, "Ack", ":early")
          \* a handler added earlier that is stably registered has not been called yet, although this later one is
          \cup Vs(known /\ Ev.h \in k.sh /\ \E h2 \in k.sh : HR(h2).add < r.add /\ CbsOf(Ev.n, h2) = {}, "Dispatch", ":order")
          \cup Vs(~known, "Spurious", ":cb")
     /\ j' = [j EXCEPT !.cbs = Append(@, [n |-> Ev.n, h |-> Ev.h])]
  /\ l' = l + 1

TrAckIn ==
  /\ Is("AckIn")
  /\ LET known == In(j.notifs, Ev.n) IN
     /\ viol' = viol \cup Vs(~known, "Ack", ":unknown")
                     \cup Vs(known /\ ~j.notifs[Ev.n].ack, "Ack", ":unasked")
                     \cup Vs(known /\ j.notifs[Ev.n].exp, "Expired", ":ack")
                     \cup Vs(\E i \in DOMAIN j.acked : j.acked[i] = Ev.n, "Ack", ":twice")
     /\ j' = [j EXCEPT !.acked = Append(@, Ev.n)]
  /\ l' = l + 1

TrHandled ==
  /\ Is("Handled")
  /\ IF In(j.notifs, Ev.n)
     THEN LET k == j.notifs[Ev.n]
              live == ~k.exp /\ ~Bad(k) IN
          /\ viol' = viol
               \cup Vs(live /\ \E h \in k.sh : CbsOf(Ev.n, h) = {}, "Dispatch", ":missed")
               \cup Vs(k.ack /\ ~k.exp /\ ~\E i \in DOMAIN j.acked : j.acked[i] = Ev.n, "Ack", ":missing")
               \cup Vs(live /\ k.owedG # 0 /\ j.gens[k.owedG].exit = 0 /\ ~j.gens[k.owedG].done,
                       "EndsNamed", IF k.dup THEN ":target:dup" ELSE ":target:plain")
               \cup Vs(live /\ k.owedL /\ j.lt[k.t].st = "open", "EndsNamed", ":listen")
          /\ j' = [j EXCEPT !.notifs[Ev.n].handled = TRUE]
     ELSE UNCHANGED <<viol, j>>
  /\ l' = l + 1

\* TRegCall: the goroutine is about to call RegisterTunnel(t) (an older tunnel under t may end from now on)
TrTRegCall == /\ Is("TRegCall") /\ j' = [j EXCEPT !.greg = @ \cup {<<Ev.g, Ev.t>>}] /\ l' = l + 1 /\ UNCHANGED viol
TrTReg == /\ Is("TReg") /\ j' = [j EXCEPT !.gens = Put(j.gens, Ev.g, [t |-> Ev.t, exit |-> 0, done |-> FALSE, at |-> l])]
          /\ l' = l + 1 /\ UNCHANGED viol
TrTExit == /\ Is("TExit")
           /\ j' = (IF In(j.gens, Ev.g) THEN [j EXCEPT !.gens[Ev.g].exit = l] ELSE j)
           /\ l' = l + 1 /\ UNCHANGED viol
\* a closed-notification naming t has been sent (whether or not it was handled yet)
Named(t, tys) == \E n \in DOMAIN j.notifs : j.notifs[n].ty \in tys /\ j.notifs[n].t = t /\ ~j.notifs[n].exp /\ ~j.notifs[n].bad
TrTDone ==
  /\ Is("TDone")
  /\ IF In(j.gens, Ev.g)
     THEN LET g == j.gens[Ev.g] IN
          /\ viol' = viol \cup Vs(g.exit = 0 /\ ~Named(g.t, {"closed"}) /\ ~\E r \in j.greg : r[1] > Ev.g /\ r[2] = g.t, "OnlyNamed", ":target")
          /\ j' = [j EXCEPT !.gens[Ev.g].done = TRUE]
     ELSE UNCHANGED <<viol, j>>
  /\ l' = l + 1

TrLOpen == /\ Is("LOpen") /\ j' = [j EXCEPT !.lt = Put(j.lt, Ev.t, [st |-> "open", n |-> 0])] /\ l' = l + 1 /\ UNCHANGED viol
TrLClosed ==
  /\ Is("LClosed")
  /\ IF In(j.lt, Ev.t)
     THEN /\ viol' = viol \cup Vs(j.lt[Ev.t].n > 0, "CloseOnce", "")
                          \cup Vs(Ev.why = "peer_closed" /\ ~Named(Ev.t, {"closed"}), "OnlyNamed", ":listen")
                          \cup Vs(Ev.why = "error" /\ ~Named(Ev.t, {"error"}), "OnlyNamed", ":listen")
          /\ j' = [j EXCEPT !.lt[Ev.t] = [st |-> "closed", n |-> @.n + 1]]
     ELSE UNCHANGED <<viol, j>>
  /\ l' = l + 1

\* ---- config push ------------------------------------------------------------------------------------
\* ChangeCall: a mapping of x is about to be created (version v may be read from now on); Change: it is stored
TrChangeCall == /\ Is("ChangeCall") /\ j' = [j EXCEPT !.verhi[Ev.x] = Ev.v] /\ l' = l + 1 /\ UNCHANGED viol
TrChange == /\ Is("Change") /\ j' = [j EXCEPT !.ver[Ev.x] = Ev.v] /\ l' = l + 1 /\ UNCHANGED viol
TrPCall == /\ Is("PCall")
           /\ j' = [j EXCEPT !.pushes = Put(j.pushes, Ev.p, [x |-> Ev.x, nd |-> Opt("nd", 1), vlo |-> j.ver[Ev.x], vhi |-> 0 - 1, call |-> l, ret |-> 0,
                                                            stable |-> ~Pending(Ev.x), settled |-> FALSE, cur |-> LiveCtl(Ev.x) \ j.stuck,
                                                            nstuck |-> Cardinality(j.stuck)])]
           /\ l' = l + 1 /\ UNCHANGED viol
TrPRet == /\ Is("PRet")
          /\ j' = (IF In(j.pushes, Ev.p) THEN [j EXCEPT !.pushes[Ev.p].ret = l, !.pushes[Ev.p].vhi = j.verhi[j.pushes[Ev.p].x]] ELSE j)
          /\ l' = l + 1 /\ UNCHANGED viol
\* pushes that could have carried version v for client x
Cand(x, v) == {p \in DOMAIN j.pushes : j.pushes[p].x = x /\ j.pushes[p].vlo <= v /\ (j.pushes[p].vhi < 0 \/ v <= j.pushes[p].vhi)}
\* every push that could have carried the older version had returned before any that could have carried the newer one
\* was called - and all of them were made on the same node (a push made on the node that holds the client is written at
\* once, one made elsewhere travels through the broker: between the two paths nothing is promised)
SeqBefore(S, B) == /\ S # {} /\ B # {}
                   /\ \A s \in S, b \in B : /\ j.pushes[s].ret # 0 /\ j.pushes[s].ret < j.pushes[b].call
                                              /\ j.pushes[s].nd = j.pushes[b].nd
TrPWire ==
  /\ Is("PWire")
  /\ IF In(j.conns, Ev.c)
     THEN LET c == j.conns[Ev.c]
              x == IF Ev.x = "" THEN c.x ELSE Ev.x
              older == {i \in DOMAIN j.pw : j.pw[i].c = Ev.c /\ j.pw[i].v > Ev.v}
              stale == /\ \E i \in older : SeqBefore(Cand(x, Ev.v), Cand(x, j.pw[i].v))
                       /\ \A s \in Cand(x, Ev.v) : c.at < j.pushes[s].call
              \* the handshake pushes the configuration itself, from a goroutine of its own, if there is one to push: one
              \* ConfigSet per connection that carries at least the version stored at login may be that one
              hs == stale /\ c.hp /\ Ev.v >= c.v /\ ~c.hs IN
          /\ viol' = viol \cup Vs(Ev.x # "" /\ c.x # Ev.x, "PushTarget", ":other")
                          \cup Vs(c.k = "tun", "PushTarget", ":tunnel")
                          \cup Vs(stale /\ ~hs, "PushOrder", "")
          /\ j' = [j EXCEPT !.pw = Append(@, [c |-> Ev.c, x |-> x, v |-> Ev.v, at |-> l]), !.conns[Ev.c].hs = @ \/ hs]
     ELSE /\ viol' = viol \cup {V("Spurious", j.tag \o ":push")} /\ UNCHANGED j
  /\ l' = l + 1

TrStuck == /\ Is("Stuck")
           /\ LET t == IF In(j.conns, Ev.c) THEN Touch(j.conns[Ev.c].x) ELSE j IN j' = [t EXCEPT !.stuck = @ \cup {Ev.c}]
           /\ l' = l + 1 /\ UNCHANGED viol
TrUnstuck == /\ Is("Unstuck") /\ j' = [j EXCEPT !.stuck = @ \ {Ev.c}] /\ l' = l + 1 /\ UNCHANGED viol

TrQuiet ==
  /\ Is("Quiet")
  /\ LET open == {p \in DOMAIN j.pushes : ~j.pushes[p].settled}
         owes(p) == LET q == j.pushes[p] IN
                    /\ q.stable /\ q.ret # 0 /\ Cardinality(q.cur) = 1
                    /\ \A c \in q.cur : j.conns[c].gone = "" /\ ~\E i \in DOMAIN j.pw : j.pw[i].c = c /\ j.pw[i].v >= q.vlo /\ j.pw[i].at > q.call
         cvs == {<<j.pw[i].c, j.pw[i].v>> : i \in DOMAIN j.pw}
         over(cv) == LET n == Cardinality({i \in DOMAIN j.pw : j.pw[i].c = cv[1] /\ j.pw[i].v = cv[2]})
                         cap == Cardinality(Cand(j.conns[cv[1]].x, cv[2])) + (IF j.conns[cv[1]].hp /\ j.conns[cv[1]].v <= cv[2] THEN 1 ELSE 0) IN
                     n > cap IN
     /\ viol' = viol \cup Vs(\E p \in open : owes(p) /\ j.pushes[p].nstuck = 0, "Delivered", ":push")
                     \cup Vs(\E p \in open : owes(p) /\ j.pushes[p].nstuck > 0, "Delivered", ":push:blocked")
                     \cup Vs(\E cv \in cvs : over(cv), "PushOnce", "")
     /\ j' = [j EXCEPT !.pushes = [p \in DOMAIN j.pushes |-> [j.pushes[p] EXCEPT !.settled = TRUE]]]
  /\ l' = l + 1

TrPanic == /\ Is("Panic") /\ viol' = viol \cup {V("NoPanic", j.tag \o ":" \o Ev.who)} /\ l' = l + 1 /\ UNCHANGED j

TrEnd == /\ Is("End") /\ EmitVerdict /\ l' = l + 1 /\ viol' = {} /\ j' = J0

Next == TrCfg \/ TrLogin \/ TrConn \/ TrGone \/ TrGoneRet \/ TrSCall \/ TrBCall \/ TrSRet \/ TrBRet \/ TrWire
        \/ TrAddCall \/ TrAddRet \/ TrRemCall \/ TrRemRet \/ TrNotif \/ TrCb \/ TrAckIn \/ TrHandled
        \/ TrTRegCall \/ TrTReg \/ TrTExit \/ TrTDone \/ TrLOpen \/ TrLClosed
        \/ TrChangeCall \/ TrChange \/ TrPCall \/ TrPRet \/ TrPWire \/ TrStuck \/ TrUnstuck \/ TrQuiet \/ TrPanic \/ TrEnd
Spec == Init /\ [][Next]_vars
=============================================================================
