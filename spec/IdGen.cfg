\* C15 - template for every TLC run of IdGen.tla made by the check (harness/drivers/c15 substitutes @@..@@).
\* Exhaustive runs check the invariants of the configuration (INVS); behaviour generation runs have
\* Emit = TRUE and print one behaviour per (state, action) pair (VIEW view = state without hist).
\* In the quick tier the generation runs are the exhaustive runs (Emit = TRUE and INVS together).
\*   quick    gen : Procs p1,p2     NCands 2  MaxAttempts 2  MaxCalls 2  layouts distinct,same      (SetNX: 3 920 states; fallback: 6 870)
\*   thorough gen : Procs p1,p2,p3  NCands 3 (fallback 2)  MaxAttempts 2  MaxCalls 2  layouts distinct,same,mixed
\*                                                                       (SetNX: 1 330 755 states; fallback: 414 980)
\*            generation also from 2 procs x 3 cands x 3 attempts x 2 calls and 3 procs x 2 cands x 1 call
\*   node  untimed: Procs n1,n2,n3   NSlots 2  MaxTicks 0   (968 states)
\*   node  timed  : Procs n1,n2 (thorough exhaustive: n1,n2,n3, MaxTicks 5)  NSlots 2  TTLTicks 3  MaxTicks 4
\*            RenewTier/Wiring = claim/split (repaired code), local/same (redis mode), local/split (the code as it was)
\*   Faults: one store operation of the listed kinds fails once: gen+SetNX {"SetNX","Delete"} (quick: 12 296 states),
\*            gen fallback {"Exists","Set","Delete"} (thorough), node {"SetNX"} (quick untimed: 2 648 states); {} = none
\* INVS per configuration: gen+SetNX: Unique HeldDisjoint NoTaken HeldMarked Exhaustion;  gen fallback: NoTaken
\* Exhaustion FallbackOnlyDeviation;  node: NodeUnique NoForeign ClaimNeverExpiresUnderLiveHolder NoWrongTier FailedHoldsNothing;
\* node as it was: NoForeign NodeOnlyDeviation.   IdGen_show_*.cfg: the same models with the plain property - TLC
\* finds the duplicate.
CONSTANTS
  Mode = "@@MODE@@"
  Procs = {@@PROCS@@}
  HasNX = "@@HASNX@@"
  NCands = @@NCANDS@@
  MaxAttempts = @@MAXATT@@
  MaxCalls = @@MAXCALLS@@
  Layouts = {@@LAYOUTS@@}
  NSlots = @@NSLOTS@@
  RenewTier = "@@RENEW@@"
  Wiring = "@@WIRING@@"
  TTLTicks = 3
  MaxTicks = @@MAXTICKS@@
  Faults = {@@FAULTS@@}
  MaxRenewFails = @@MAXRF@@
  WithLapse = @@LAPSE@@
  Emit = @@EMIT@@
INIT Init
NEXT Next
VIEW view
INVARIANTS TypeOK @@INVS@@
CHECK_DEADLOCK FALSE
