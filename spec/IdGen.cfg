\* C15 - template for every TLC run of IdGen.tla made by the check (harness/drivers/c15 substitutes @@..@@).
\* Exhaustive runs check the invariants of the configuration (INVS); behaviour generation runs have
\* Emit = TRUE and print one behaviour per (state, action) pair (VIEW view = state without hist).
\* In the quick tier the generation runs are the exhaustive runs (Emit = TRUE and INVS together), and to save
\* JVM starts there are only two: gen with HasNX = "both" (store with / without SetNX chosen in Init) and node,
\* which carries the store-less UUID generators as a disjoint sub-model (initial states with fk = "Entropy").
\*   gen  both    : Procs p1,p2  NCands 2  MaxAttempts 2  MaxCalls 2  layouts distinct,same  Faults SetNX,Delete
\*                  (thorough: + Exists,Set)  WithLapse TRUE                              (quick: 34 534 states)
\*   gen  thorough: exhaustive 3 procs x 3 cands x 2 calls SetNX (1 330 755), 3x2x2 SetNX with faults (418 692),
\*                  3x2x2 fallback (414 980); generation also from 2x3x2 (3 attempts) and 3x2x1
\*   uniq         : the IDManager's retry layer (GenerateUniqueXxxID + caller's check function).  Procs p1,p2  NCands 2  MaxAttempts 2
\*                  MaxU 2  layouts distinct,same  every pattern of pre-existing markers x repository ids.  quick: MaxCalls 1
\*                  Faults Check in both tiers (10 676 states); thorough: exhaustive 3 candidates / MaxU 3 / Faults Check (234 728).
\*                  ExhaustionReturnsLast FALSE = the code; IdGen_show_exhaustion / checkerr / returnedreleased .cfg: the deviations
\*   node untimed : Procs n1,n2,n3  NSlots 2  MaxTicks 0  Faults SetNX,Entropy  NCands 6  MaxCalls 2   (4 527 states)
\*   node timed   : (thorough) Procs n1,n2 (exhaustive: n1,n2,n3, MaxTicks 5)  NSlots 2  TTLTicks 3  MaxTicks 4
\*                  RenewTier/Wiring = claim/split (repaired code), local/same (redis mode), local/split (as it was)
\*   node renewfail: (thorough, real waiting) Procs n1,n2  NSlots 1  MaxTicks 8  MaxRenewFails 3  MaxCalls 3  (9 909 states)
\*   node lease   : the lease over time, driven under the fake clock in both tiers.  MaxConsecFails 1 (transient faults)
\*                  quick   : s1      Procs n1,n2  NSlots 1  MaxTicks 6  MaxRenewFails 3  Faults SetNX,Delete    (9 480 states)
\*                            long:s1 Procs n1     NSlots 1  MaxTicks 14 MaxRenewFails 6                         (1 107 states)
\*                  thorough: s2      Procs n1,n2  NSlots 2  MaxTicks 5  MaxRenewFails 3  Faults SetNX,Delete   (70 797 states)
\*                            long:s1 Procs n1,n2  NSlots 1  MaxTicks 12 MaxRenewFails 5                        (17 908 states)
\*                            exhaustive: n1,n2,n3 x 1 slot x 6 periods (116 083), x 2 slots x 5 periods (891 822), and
\*                            Realloc TRUE / StopChan "fresh" (allocator re-used after Release, repaired: 50 702)
\*                  HbGiveUp "never", RenewTTLTicks 3 = TTLTicks, Realloc FALSE, StopChan "once": the code as it is; the named
\*                  deviations: IdGen_show_hbgiveup / hbgiveup2 / shortlease / outage / realloc .cfg
\* INVS: gen both: GenOK;  gen SetNX: Unique HeldDisjoint NoTaken HeldMarked Exhaustion;  gen fallback: NoTaken
\* Exhaustion FallbackOnlyDeviation;  node: NodeUnique NoForeign ClaimNeverExpiresUnderLiveHolder NoWrongTier
\* FailedHoldsNothing Unique HeldDisjoint HeartbeatRunsWhileLive LeaseMargin NoHeartbeatWithoutHolder;  node as it was: NoForeign
\* NodeOnlyDeviation;  uniq: UniqOK.
\* IdGen_show_*.cfg: the same models with the plain property - TLC finds the duplicate.
CONSTANTS
  Mode = "@@MODE@@"
  Procs = {@@PROCS@@}
  HasNX = "@@HASNX@@"
  NCands = @@NCANDS@@
  MaxAttempts = @@MAXATT@@
  MaxCalls = @@MAXCALLS@@
  Layouts = {@@LAYOUTS@@}
  NSlots = @@NSLOTS@@
  RenewTier = "@@RENEW@@"
  Wiring = "@@WIRING@@"
  TTLTicks = 3
  MaxTicks = @@MAXTICKS@@
  Faults = {@@FAULTS@@}
  MaxRenewFails = @@MAXRF@@
  MaxConsecFails = @@MAXCF@@
  HbGiveUp = "never"
  GiveUpAfter = 0
  RenewTTLTicks = 3
  Realloc = @@REALLOC@@
  StopChan = "@@STOPCHAN@@"
  MaxU = @@MAXU@@
  ExhaustionReturnsLast = FALSE
  ReturnedIdReleased = FALSE
  WithLapse = @@LAPSE@@
  Emit = @@EMIT@@
INIT Init
NEXT Next
VIEW view
INVARIANTS TypeOK @@INVS@@
CHECK_DEADLOCK FALSE
