\* C15 - template for every TLC run of IdGen.tla made by the check (harness/drivers/c15 substitutes @@..@@).
\* Exhaustive runs: Emit = FALSE and the invariants of the configuration; behaviour generation:
\* Emit = TRUE, one behaviour per (state, action) pair (VIEW view = state without hist).
\*   quick    gen : Procs p1,p2      NCands 2  MaxAttempts 2  MaxCalls 2   layouts distinct,same
\*   thorough gen : Procs p1,p2,p3   NCands 3  MaxAttempts 2  MaxCalls 2   layouts distinct,same,mixed
\*   node         : Procs n1,n2 (n3) NSlots 2  TTLTicks 3     MaxTicks 0 (untimed) | 4 (timed)
CONSTANTS
  Mode = "@@MODE@@"
  Procs = {@@PROCS@@}
  HasNX = @@HASNX@@
  NCands = @@NCANDS@@
  MaxAttempts = @@MAXATT@@
  MaxCalls = @@MAXCALLS@@
  Layouts = {@@LAYOUTS@@}
  NSlots = @@NSLOTS@@
  RenewTier = "@@RENEW@@"
  Wiring = "@@WIRING@@"
  TTLTicks = 3
  MaxTicks = @@MAXTICKS@@
  Emit = @@EMIT@@
INIT Init
NEXT Next
VIEW view
INVARIANTS TypeOK @@INVS@@
CHECK_DEADLOCK FALSE
