\* ConnCode.tla - the repaired design with "idempotent re-claim": a lost SetNX on the claim key counts as won when
\* the key holds the caller's own client id. a1 and a2 are the SAME listen client (double submit / retry while the
\* first request is still in flight) on one node: a2 reads the code before a1's final update, waits for a1 on the
\* per-client quota lock, continues from its stale copy, re-claims and creates a second mapping.
\* EXPECTED RESULT: TLC reports "Invariant AtMostOneSuccess is violated". With Reclaim = FALSE: no error.
\*   tlc -workers 8 -config ConnCode_show_reclaim.cfg ConnCode.tla
CONSTANTS
  Acts = {"a1", "a2"}
  HasRev = FALSE
  CanExpire = FALSE
  MaxFault = 0
  PreSet = {}
  Quota = 3
  Claim = TRUE
  CreateRb = TRUE
  Node2 = {}
  ClaimLocal = FALSE
  SameAs = {"a2"}
  Reclaim = TRUE
  ResetOnFail = FALSE
  ResetCreate = FALSE
  RelScope = "fail"
  CanTick = FALSE
  ShortClaim = FALSE
  Emit = FALSE
INIT Init
NEXT Next
VIEW view
INVARIANTS TypeOK NoActivationAfterDeath LockOK AtMostOneSuccess AtMostOneMapping SuccessWasValid FailedLeavesNone FieldsOK
CHECK_DEADLOCK FALSE
