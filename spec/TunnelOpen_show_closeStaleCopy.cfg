\* Named deviation "closeStaleCopy": the bridge keeps the mapping record it saw when it was created
\* and its final traffic report (tunnel closes after having carried data) writes THAT copy back
\* with the new byte counts - undoing a revocation / expiry / deactivation / deletion that happened
\* while the tunnel was up (same class as usageAsync: a stale whole-record write-back, another
\* writer, no slow store needed).
\* Must FAIL (AttachedEntitled; dev staleCloseWriteBack);
\* the check confirms it through TunnelOpen_show_all.cfg (one run for all named deviations):
\*   tlc -config TunnelOpen_show_closeStaleCopy.cfg TunnelOpen.tla
CONSTANTS
  FIXES = {"validateJoin", "secretValidity", "bindMapping", "bindMappingPoll"}
  Idents = {"none", "noneHs", "listen", "target", "stranger"}
  Creds = {"idOnly", "rightSecret", "wrongSecret", "resume", "nothing", "otherId", "otherSecret"}
  MStates = {"active", "revoked", "expired", "expiredJust", "lapsed", "inactive", "error", "suspended", "missing"}
  Shapes = {"std"}
  MUT = {"closeStaleCopy"}
  TStates = {"served"}
  Orders = {"closeAfter"}
  Masked = FALSE
  Emit = FALSE
INIT Init
NEXT Next
INVARIANTS TypeOK AttachedEntitled RefusedClean OnlyAttachedRead LegitWorks
CHECK_DEADLOCK FALSE
