\* Documentation only (not run by the check): Close() running its clean-up handlers (last traffic report
\* to the statistics backend) BEFORE it closes the connections, against the strict liveness clauses.
\* TLC reports a lasso for ClosureSeen: traffic, StatStall, an end closes, its copier is done - and
\* CloseBridge waits for a backend that does not answer.
CONSTANTS
  BUF = 3
  MaxSends = 1
  MaxSlow = 5
  Lims = {"none"}
  Classes = {"one"}
  Faults = TRUE
  Replace = FALSE
  ExtCloseOn = FALSE
  DevLimiter = FALSE
  DevNilFwd = FALSE
  DevStaleSrc = FALSE
  DevSleepLimiter = FALSE
  DevWriteLock = FALSE
  DevRouteFirst = FALSE
  DevCleanupFirst = TRUE
  RegLegs = {}
  DevIdleSweep = FALSE
  DevFwdNoEof = FALSE
  SrcKinds = {"direct"}
  ErrClasses = {"plain"}
  PollOn = FALSE
  RetryOn = {}
  RetryWriteOn = {}
  DevBufio = FALSE
  AttachKinds = {"local"}
  HoldOn = FALSE
  Gen = FALSE
  Emit = FALSE
SPECIFICATION LiveSpec
VIEW view
INVARIANTS TypeOK
PROPERTIES ClosureSeen
CHECK_DEADLOCK FALSE
