\* C13 - named deviation of spec/MemImpl.tla: two-section sweep that deletes a recorded key if the map still holds the scanned *StorageItem. Expected: StoresAgree violated - IncrBy (like SetHash) re-initialises an expired item IN PLACE: IncrBy; SetExp(S); Tick; SweepScan; IncrBy; SweepDel erases the fresh counter. (On the string family, Keys = {"s1"}, this variant passes: every string operation replaces or deletes an expired item.)
\*   tlc -config MemImpl_show_sweepptr.cfg MemImpl.tla      (the same constants with Sweep = "locked", Evict = "recheck",
\*   LazyReads / OldCAS / OldSetExp = FALSE pass: ./check C13)
CONSTANTS
  Keys = {"c1"}
  Vals = {"a", "b"}
  MaxClock = 2
  OldCAS = FALSE
  OldSetExp = FALSE
  Procs = {"p1"}
  Sweepers = {"ex"}
  Sweep = "scan_ptr"
  Evict = "recheck"
  LazyReads = FALSE
  Emit = FALSE
INIT Init
NEXT Next
INVARIANTS TypeOK StoresAgree AnswersAgree NeverExpiringStays
PROPERTY SilentInvisible
CHECK_DEADLOCK FALSE
