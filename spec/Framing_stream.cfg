\* C05: hostile STREAMS of up to MaxFrames complete small frames (tiny / mid body, compressed or not, encrypted
\* flag or not, decodable or not) and heartbeats, every ReadPacket call made by any of the reader threads; the
\* caller reads on after an error that consumed its packet.  Termination on the whole stream, allocation
\* ledger, nothing retained by the dispatcher once a packet is handled.
CONSTANTS
  Mode = "hostile"
  MaxPkts = 1
  MaxLen = 2
  BodyClasses = {"any"}
  Flags = {"none"}
  MaxFrames = @@FRAMES@@
  Threads = {1, 2}
  MaxStall = 0
  Chunking = "max"
  Dev = {}
  Emit = @@EMIT@@
@@SPEC@@
INVARIANTS TypeOK AllocBound RetainBound ProgressPossible
CHECK_DEADLOCK FALSE
