\* The limit of the lease itself (the code as it is): MaxConsecFails = TTLTicks - 1 failed renewals in a row put the
\* deciding renewal on the expiry instant of the claim - TLC finds the order "expiry, n2 claims, n1 renews".  The check
\* drives only transient faults (MaxConsecFails <= TTLTicks - 2), see Assumptions.
\* Not run by the check (it must fail); kept to show the counterexample:
\*   tlc -config IdGen_show_outage.cfg IdGen.tla
CONSTANTS
  Mode = "node"
  Procs = {"n1", "n2"}
  HasNX = "yes"
  NCands = 1
  MaxAttempts = 1
  MaxCalls = 1
  Layouts = {"distinct"}
  NSlots = 1
  RenewTier = "claim"
  Wiring = "split"
  TTLTicks = 3
  MaxTicks = 5
  Faults = {}
  MaxRenewFails = 2
  MaxConsecFails = 2
  HbGiveUp = "never"
  GiveUpAfter = 0
  RenewTTLTicks = 3
  Realloc = FALSE
  StopChan = "once"
  MaxU = 1
  ExhaustionReturnsLast = FALSE
  ReturnedIdReleased = FALSE
  WithLapse = FALSE
  Emit = FALSE
INIT Init
NEXT Next
VIEW view
INVARIANTS TypeOK NoForeign NodeUnique
CHECK_DEADLOCK FALSE
