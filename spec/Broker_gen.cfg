\* X01 behaviour generation (template). Transition coverage: `hist` is hidden by the VIEW, so TLC visits
\* every distinct model state once (its hist is a shortest history reaching it) and the Next action
\* prints the history after every step whose action is in EMITACTS ({"dev"}: every step at which the
\* model records a deviation of the code - TLC's counterexamples to the strict property as behaviours).
\* With -simulate, EMITACTS = {"end"} prints each random history once, at length MAXHIST.
CONSTANTS
  Kind = @@KIND@@
  Topics = {"t1", "t2"}
  Cap = 2
  MaxSub = @@MAXSUB@@
  MaxMsg = @@MAXMSG@@
  Sync = @@SYNC@@
  Fixed = @@FIXED@@
  MaxLoops = @@MAXLOOPS@@
  Acts = {"Sub", "Unsub", "Pub", "Loop", "Close", "Ping", "Recv"}
  EmitActs = @@EMITACTS@@
  MaxHist = @@MAXHIST@@
INIT Init
NEXT Next
@@VIEW@@
INVARIANTS TypeOK
CHECK_DEADLOCK FALSE
