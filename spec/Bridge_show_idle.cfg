\* Documentation only (not run by the check): AS FOUND the TunnelConnectionManager's idle sweep does not count
\* moving bytes as activity, against NoSpontaneousEnd.  TLC reports: Attach("fwd"), Hold - the cross-node
\* connection of the busy tunnel is closed, both ends being open.
CONSTANTS
  BUF = 3
  MaxSends = 0
  MaxSlow = 5
  Lims = {"none"}
  Classes = {"one"}
  Faults = TRUE
  Replace = FALSE
  ExtCloseOn = FALSE
  DevLimiter = FALSE
  DevNilFwd = FALSE
  DevStaleSrc = FALSE
  DevSleepLimiter = FALSE
  DevWriteLock = FALSE
  DevRouteFirst = FALSE
  DevCleanupFirst = FALSE
  RegLegs = {}
  DevIdleSweep = TRUE
  DevFwdNoEof = FALSE
  SrcKinds = {"direct"}
  ErrClasses = {"plain"}
  PollOn = FALSE
  RetryOn = {}
  RetryWriteOn = {}
  DevBufio = FALSE
  AttachKinds = {"fwd"}
  HoldOn = TRUE
  Gen = FALSE
  Emit = FALSE
INIT Init
NEXT Next
VIEW view
INVARIANTS TypeOK NoSpontaneousEnd
CHECK_DEADLOCK FALSE
