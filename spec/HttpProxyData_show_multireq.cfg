\* X06 demonstration, EXPECTED TO FAIL: every deviation repaired except MultiReq
CONSTANTS
  Fix = {"ChunkedSmall", "Truncated", "MultiResp", "RedirectFollowed", "RespTruncated", "ChunkedRaw", "StuckKeepAlive"}
  Emit = FALSE
SPECIFICATION Spec
INVARIANTS TypeOK SameRequest SameResponse
CHECK_DEADLOCK FALSE
