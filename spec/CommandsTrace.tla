---------------------------- MODULE CommandsTrace ----------------------------
(* C11 judge: control commands act with the connection's proven identity only.               *)
(* Property-level, deterministic and total; knows the policy table (CommandsPolicy) and        *)
(* nothing about how handlers are written.                                                     *)
(*                                                                                            *)
(* Events of one trace (one server assembly, clients A, B, C online, actor connection c1):     *)
(*  Table: what the driver found in the real registry / handleCommandPacket (informational)    *)
(*  Hs:    c, k, id (claimed client), type, valid (the driver answered the latest challenge    *)
(*         of c with id's own key, or the server itself issued id on c), ok (server's answer), *)
(*         srv (who the server now says c is)                                                  *)
(*  Cmd:   c, ty (policy row), pt, claims ("absent" | "own" | "victim": SenderId / ReceiverId / *)
(*         Token of the packet), bf ("absent" | "own" | "third" | "victim": client-id fields     *)
(*         inside the JSON body), cid ("fresh" | "reused": the command id another client's command *)
(*         of this type just carried), flt ("none" | "read1": one failed storage read of the     *)
(*         named object's record during the command; "read2": the second read; "readAll": every read),        *)
(*         wv (state / history of the named objects: base / expired / revoked / inactive / migrated / migratedT), objt (target client the named mapping designates, else "none"), obj, hc, out ("ok": a success response, "fail": a failure      *)
(*         response or an error from the dispatcher, "none": nothing came back),               *)
(*         objp / objo (parties and listen-client / owner of the named object before the       *)
(*         command; empty / "none" when there is none),                                         *)
(*         ret   objects identified in the success response   [kind, o, ps, own]               *)
(*         diff  semantic store difference after - before      [op, kind, o, ps, own]           *)
(*               (mappings, connection codes, HTTP domains, traffic counters, client configs)   *)
(*         deliv packets that arrived on OTHER connections     [to (client), ty, snd, resp]     *)
(*               (resp: it is the response to THIS command)                                      *)
(*         sum / ref  canonical summary of (out, ret, diff, deliv) of this run and of a twin    *)
(*               run (fresh server, same steps) whose packets carry no identity fields          *)
(* Judge state: ident = for each connection the identity PROVEN on it (last handshake that was  *)
(* both valid and accepted) - not what the server believes.                                     *)
EXTENDS VLib, CommandsPolicy

None == "none"
VARIABLES ident
cvars == <<l, viol, ident>>

Init == l = 1 /\ viol = {} /\ ident = <<>>

Id(c) == IF c \in DOMAIN ident THEN ident[c] ELSE None

TrHs == /\ Is("Hs")
        /\ ident' = IF Ev.ok /\ Ev.valid THEN (Ev.c :> Ev.id) @@ ident ELSE ident
        /\ l' = l + 1 /\ UNCHANGED viol

TrTable == Is("Table") /\ l' = l + 1 /\ UNCHANGED <<viol, ident>>

If(c, v) == IF c THEN {v} ELSE {}

Judge(e) ==
  LET X     == Id(e.c)
      known == e.ty \in DOMAIN Policy
      row   == IF known THEN Policy[e.ty] ELSE Free("unknown")
      need  == row.need
      rets  == ToSet(e.ret)
      diffs == ToSet(e.diff)
      dels  == ToSet(e.deliv)
      objp  == ToSet(e.objp)
      others == {p \in dels : p.to # X}
      \* the detail names the input class: row, what happened, and - when not the plain case - the storage fault
      \* injected during the command and the history the world started from
      sfx   == (IF "flt" \in DOMAIN e /\ e.flt # "none" THEN ":flt=" \o e.flt ELSE "")
               \o (IF "wv" \in DOMAIN e /\ e.wv # "base" THEN ":wv=" \o e.wv ELSE "")
      D(w)  == e.ty \o ":" \o w \o sfx
      \* ---- refused on unauthenticated connections: not accepted, nothing returned / changed / delivered
      vU == IF need /\ X = None
            THEN If(e.out = "ok", V("Unauth", D("accepted"))) \cup If(rets # {}, V("Unauth", D("returned")))
                 \cup If(diffs # {}, V("Unauth", D("changed"))) \cup If(dels # {}, V("Unauth", D("delivered")))
            ELSE {}
      \* ---- authenticated as X: only objects X is a party to; what is created is X's; deliveries stay among the parties
      partyOK == CASE row.party = "any" -> X \in objp
                   [] row.party \in {"listen", "owner"} -> X = e.objo
                   [] OTHER -> TRUE
      role    == IF X \in objp THEN "other" ELSE "stranger"
      touched == UNION ({ToSet(r.ps) : r \in rets} \cup {ToSet(d.ps) : d \in diffs})
      vP == IF need /\ X # None
            THEN If(\E r \in rets : X \notin ToSet(r.ps), V("NotParty", D("returned:stranger")))
                 \cup If(\E d \in diffs : X \notin ToSet(d.ps) /\ ~(row.cls = "bearer" /\ d.op = "mod" /\ d.kind = "code"),
                         V("NotParty", D("changed:stranger")))
                 \cup If(\E d \in diffs : d.op = "add" /\ d.own # X, V("EffId", D("created-for-other")))
                 \cup If(row.cls = "obj" /\ (rets # {} \/ diffs # {} \/ others # {}) /\ ~partyOK, V("NotParty", D("used:" \o role)))
                 \cup If(row.cls = "obj" /\ \E p \in others : p.to \notin objp, V("NotParty", D("delivered:stranger")))
                 \cup If(row.cls \in {"own", "bearer"} /\ \E p \in others : p.to \notin touched, V("NotParty", D("delivered:stranger")))
                 \cup If(\E p \in dels : p.snd \notin {None, X}, V("EffId", D("sender")))
            ELSE {}
      \* ---- identity fields inside the packet (envelope or body) have no effect: same outcome as the twin run
      \* without them; in particular a packet relayed through a mapping goes to the client the mapping
      \* designates, whatever id the body carries
      \* (the command id is such a field too: reusing the id another client's command just carried changes nothing)
      reused == "cid" \in DOMAIN e /\ e.cid = "reused"
      vC == If(need /\ (e.claims # "absent" \/ e.bf # "absent" \/ reused) /\ "ref" \in DOMAIN e /\ e.sum # e.ref,
               V("ClaimsMatter", D("env=" \o e.claims \o ":body=" \o e.bf \o (IF reused THEN ":cid=reused" ELSE ""))))
      vR == If(need /\ row.cls = "obj" /\ row.party = "listen" /\ \E p \in dels : p.to # e.objt,
               V("Redirected", D("body=" \o e.bf)))
      \* ---- the response to a command goes to the connection it arrived on, never to another client's
      vM == If(\E p \in dels : "resp" \in DOMAIN p /\ p.resp /\ (X = None \/ p.to # X), V("Misrouted", D("response")))
  IN vU \cup vP \cup vC \cup vR \cup vM

TrCmd == /\ Is("Cmd")
         /\ viol' = viol \cup Judge(Ev)
         /\ l' = l + 1 /\ UNCHANGED ident

TrEnd == /\ Is("End") /\ EmitVerdict
         /\ l' = l + 1 /\ viol' = {} /\ ident' = <<>>

Next == TrHs \/ TrTable \/ TrCmd \/ TrEnd
Spec == Init /\ [][Next]_cvars
=============================================================================
