\* (ii) UDP - the code as found before C12-3: writeLoop abandons the queue when the conn is closed.
\* Checked modulo the named deviation (UComplete excuses devDropped); the strict variant
\* (UNoDrop) MUST FAIL - see harness/drivers/c12.
CONSTANTS
  MaxSend = 1
  EofWithData = TRUE
  ShapesA <- LocalShapes
  ShapesB <- AllShapes
  DevDeadlineAt = "none"
  DevDeadlineHits = {"read"}
  Monitor = FALSE
  IdleMax = 2
  DevMonNoFeed = FALSE
  Reactive = FALSE
  DevNoSignalOnError = FALSE
  DevCloseWriterFallback = FALSE
  Emit = FALSE
  Classes = {1, 2, 3, 4}
  BatchSize = 32
  BatchBuf = 22
  High = 100
  MaxT = 2
  MaxU = 1
  TSeqs <- TAll
  USeqs <- UNone
  Cuts = "all"
  Chunks = {0}
  Paces = {"burst"}
  DevSpin = FALSE
  DevNoUnblock = FALSE
  DevAliasFlush = FALSE
  SockBatch = FALSE
  DevNoInnerFlush = FALSE
  SockQueue = TRUE
  DevQueueRefs = FALSE
  DevSockDeadline = FALSE
  DevDropOnClose = TRUE
SPECIFICATION USpec
INVARIANTS UTypeOK UDatagrams UComplete UCompleteAny UEncoded UFlushed UMutex UBuf UBatchFits UNoSpuriousEnd
PROPERTIES UDelivMonotone UEventuallyFlushed UTermination
CHECK_DEADLOCK FALSE
