\* C03, every environment action together with every message class and both connection types: bans of every kind, the clean-up tick,
\* black- and whitelist entries of every shape persisted in the shared storage, the IPManager re-created
\* from it, clients whose stored secret this server cannot decrypt (every record shape; responses under
\* the right key and under the empty key), secrets reset after they were handed out, expiry, binding.
\* Model-checked to a moderate depth and used for the random deep behaviours.
CONSTANTS
  Conn <- Conn2
  Client <- Client2
  MaxNonce = 2
  MaxFail = 3
  MaxCtl = 0
  Faults = {}
  Ops = {"Msg", "Ban", "BanKinds", "Unban", "Cleanup", "Blacklist", "Whitelist", "Reload", "Corrupt", "Rekey", "Delete", "Expire", "Bind"}
  Types = {"control", "tunnel"}
  PreAccept = TRUE
  Fixes = @@FIXES@@
  Split = FALSE
  MaxLevel = @@LEVEL@@
  Emit = @@EMIT@@
INIT Init
NEXT Next
VIEW view
INVARIANTS TypeOK OnlyProven StepsOK ProvenIssued C07InvMasked C07OneMasked
CHECK_DEADLOCK FALSE
