\* C03, environment classes in depth: control-type messages only, with the persisted blacklist
\* (temporary / permanent / range entries, IPManager re-created from the storage) and clients whose
\* stored secret this server cannot decrypt (responses under the right key and under the empty key).
CONSTANTS
  Conn <- Conn2
  Client <- Client2
  MaxNonce = 2
  MaxFail = 3
  MaxCtl = 0
  Faults = {}
  Ops = {"Msg", "Blacklist", "Reload", "Corrupt"}
  Types = {"control"}
  PreAccept = TRUE
  Fixes = @@FIXES@@
  Split = FALSE
  MaxLevel = @@LEVEL@@
  Emit = @@EMIT@@
INIT Init
NEXT Next
VIEW view
INVARIANTS TypeOK OnlyProven StepsOK ProvenIssued C07InvMasked C07OneMasked
CHECK_DEADLOCK FALSE
