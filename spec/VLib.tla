------------------------------- MODULE VLib -------------------------------
(* Shared plumbing of every property-level trace specification (the "judge").              *)
(* A judge is a deterministic, total state machine over the observable alphabet of a        *)
(* component.  The Go harness writes all recorded traces of a run, concatenated, into        *)
(* trace.ndjson; every line carries "ev" (event kind) and "tr" (trace id); each trace ends   *)
(* with an "End" line.  The judge consumes one line per step, accumulates the violated       *)
(* clauses of the current trace in `viol` and prints one VERDICT line per trace.  The whole  *)
(* file must be consumed (POSTCONDITION Consumed), otherwise the run is inconclusive.        *)
EXTENDS Naturals, Sequences, FiniteSets, TLC, Json, SequencesExt

Trace == ndJsonDeserialize("trace.ndjson")

VARIABLES l,     \* index of the next trace line to consume
          viol   \* set of [c |-> clause, d |-> detail] violated so far in the current trace

Ev      == Trace[l]
More    == l <= Len(Trace)
Is(e)   == More /\ Ev.ev = e
V(c, d) == [c |-> c, d |-> d]
Has(f)  == f \in DOMAIN Ev

\* side effect: one line per finished trace, parsed by fw/judge.go
EmitVerdict == PrintT("VERDICT " \o ToJson([tr |-> Ev.tr, viol |-> SetToSeq(viol)]))

Consumed == TLCGet("stats").diameter = Len(Trace) + 1
=============================================================================
