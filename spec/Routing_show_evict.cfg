\* Documentation only (not run by the check; verified by hand): the design whose lookups reclaim lapsed entries in a second step (EvictingLookup, memory backend).
\* TLC reports LookupExact violated: the reclaim of the lapsed entry lands on the NEW record of the re-registered id (deviation "evictedLive").
CONSTANTS
  Nodes = {"A", "B"}
  Tunnels = {"t1", "t2"}
  TTL = 1
  MaxReg = 2
  MaxClock = 1000
  MaxHist = 99
  Shapes = {"identity"}
  Mode = "atomic"
  LifecycleFirst = FALSE
  SkipLocalTarget = FALSE
  EvictingLookup = TRUE
  HonourContext = FALSE
  RejectSeenIds = FALSE
  RegisterBeforeExistsCheck = FALSE
  MaxDup = 0
  Emit = FALSE
  Only = "all"
INIT Init
NEXT Next
VIEW view
INVARIANTS TypeOK LookupExact
CHECK_DEADLOCK FALSE
