------------------------------- MODULE Dispose -------------------------------
(* C16 - implementation-shaped model of the shutdown paths of tunnox-core.                       *)
(* One behaviour = one configuration cf (chosen in Init from the suite, never changes) of one of  *)
(* three scenes, each a set of goroutines racing over the same latch idiom:                       *)
(*                                                                                                *)
(* "latch"   internal/core/dispose/dispose.go  Dispose.Close / runCleanHandlers / AddCleanHandler *)
(*           (shared by ManagerBase, StreamProcessor, memory Storage, SessionManager,             *)
(*           BaseMappingHandler): closers enter (hook dispose.close.enter), take currentLock,     *)
(*           the first one sets closed, cancels the context, copies the handler list under        *)
(*           linkLock and runs the handlers in order while HOLDING currentLock; later closers     *)
(*           wait for the lock and return.  An adder registers a handler at any time (added after *)
(*           the latch closed it never runs: ghost set late), an operation guarded by IsClosed()  *)
(*           runs at any time, a read of the component is in flight while it closes (IoCall /     *)
(*           IoNext / IoEnd; deviation dev_tornio), a worker goroutine started by the component   *)
(*           ends when the context is cancelled.                                                  *)
(*                                                                                                *)
(* "tunnel"  internal/client/tunnel/tunnel.go  Tunnel.Close:                                      *)
(*               cur := state.Load(); if cur is Closing/Closed return            TLoad            *)
(*               (hook tunnel.close.loaded)                                                       *)
(*               if !CAS(Connected, Closing) { state.Store(Closing) }            TCas             *)
(*               Dispose.Close(); localConn.Close(); tunnelRWC.Close(); go notify  (same step)    *)
(*               manager.UnregisterTunnel(id)                                    TUnreg           *)
(*               onClosed(reason, err); state.Store(Closed)                      TCb              *)
(*           Initiators: explicit Close xN, the copy goroutine when its I/O ended ("copy"),       *)
(*           idle timeout ("idle": monitorTimeout calling Close(Timeout)), peer notification      *)
(*           ("peer": manager.OnTunnelClosed -> NotifyPeerClosed), context cancellation ("ctx":   *)
(*           manager.Close -> CloseAll -> Close(ContextCanceled)).  A closer whose CAS fails is   *)
(*           NOT turned away by the code as written: it stores Closing and runs the body again    *)
(*           (ghost flag fell).  Repaired design (FixCas): the state is claimed by a CAS from     *)
(*           Connected or Connecting; a closer that loses both returns.                           *)
(*                                                                                                *)
(* "bridge"  internal/protocol/session/tunnel  Bridge.Start / Close / cleanup /                   *)
(*           periodicTrafficReport / reportTrafficStats:                                          *)
(*           Start spawns two copiers (CBorn: as written they read b.targetForwarder only when    *)
(*           they start running - nil after a Close: deviation dev_nilfwd; repaired (FixSnap):    *)
(*           one snapshot); each, when its Read ends, adds its unflushed byte count to the shared *)
(*           counter (CFlush) and calls closeOnce.Do(b.Close) (COnce); Close closes the           *)
(*           underlying connections first (XCall) and then goes through the dispose latch         *)
(*           (XLatch); the latch winner cancels the context and runs the clean-up handler, whose  *)
(*           reportTrafficStats is the reporter "of the closer"; the periodic goroutine reacts to *)
(*           the cancelled context by running reportTrafficStats in a goroutine of its own        *)
(*           (reporter "fin").  A reporter is  RBegin (load counters and last-reported values)    *)
(*           -> RGet (CloudControl.GetPortMapping) -> RUpd (UpdatePortMappingStats with mapping   *)
(*           + delta) -> RSto (store last-reported).  Nothing excludes two reporters (ghost       *)
(*           dev_overlap), and nothing orders a copier's final flush before the last report       *)
(*           (ghost dev_lateflush).  Repaired: reporters serialised by a mutex (FixReport), Start *)
(*           reports once more after both copiers have ended (FixFlush).                          *)
(*                                                                                                *)
(* Further completion paths: Tunnel.Start racing with Close (StCall / StSetCtx / StCas / StSpawn, *)
(* start state "Starting"); the bridge's parent context cancelled while data keeps flowing (CCtx: *)
(* the copier leaves at its periodic ctx.Done() check with a pending batch) and more than the     *)
(* 1 MiB batch threshold moved (CDataBig).  Two hypothetical designs, one careless edit away from *)
(* the code, are in the suites so that TLC exhibits what the driver's schedules and hammers look  *)
(* for: "splitlatch" (latch tested outside the lock: LLatchLoad / LLatchStore, dev_split) and     *)
(* "casfirst" (Start's CAS before SetCtx: dev_ctxlate); Dispose_show2.cfg shows both violations.  *)
(*                                                                                                *)
(* Scene "resmgr": dispose.ResourceManager DisposeAll / DisposeWithTimeout and its helper goroutine (RCall, RDisp,    *)
(* Tw*, HSend).  Bridge.Close's connection section (XCall / XCloseConn under the connection locks, ConnOnce) and a      *)
(* target connection arriving meanwhile (TgSet).  Hypothetical designs "snapclose" and "unbuf" as for the others.        *)
(*                                                                                                *)
(* Round 3: registration histories of the resource manager (RUnreg / RReg, design "lazyorder"); the mapping statistics  *)
(* kept by cloud control as a read-modify-write of every reporter (stored, StoredExact, design "claim": mutex held for   *)
(* the claim only, deviations dev_lost and - when a cloud-control call fails (paths "gfail" / "ufail": RGetFail,        *)
(* RUpdFail) and the claim is handed back (RUnclaim) - dev_unclaim); the close notification of the client tunnel stuck   *)
(* on a busy control connection (path "slownotify": NTimeout / NRelease, design "notifyto") and, the same idiom at its   *)
(* other call site, the periodic reporter giving up on a final report that cloud control keeps waiting (path            *)
(* "slowcloud": PerTimeout / FDone, design "finto").                                                                     *)
(*                                                                                                *)
(* Properties: AtMostOnce, ExactlyOnce, NoOverReport, TrafficExact, ClosedError, NoPanic,         *)
(* LeakFree (bottom of the module); the cfg checks Inv* = property or, in a configuration of the  *)
(* code as written, a listed deviation.  Goroutine births/deaths are tracked in liveG.            *)
(* hist is the behaviour handed to the driver:                                                    *)
(* [p, a, s, w, r] = process, action, s: the step has no gate of its own in the real code (it     *)
(* happens by itself after the previous step of p), w: after the step p is blocked on a lock,     *)
(* r: p's call returns (or goroutine p ends) in this step.                                        *)
EXTENDS Naturals, Sequences, FiniteSets, TLC, Json

CONSTANTS Suite,        \* which set of configurations this run explores (see Cfgs)
          Emit          \* TRUE: print every behaviour prefix (generation run)

\* A configuration: scene, explicit closers, completion paths / side processes taking part, the tunnel's
\* state when the closers arrive ("Connected" = started, "Connecting" = Close before Start), chunks each
\* copier may move, and the design: "asis" = the code as written, "report" = reportTrafficStats
\* serialised by a mutex only, "fixed" = all repairs (Tunnel.Close returns when its CAS fails, reporters
\* serialised, Start reports once more after both copiers ended and gives them one forwarder snapshot).
C(scene, closers, paths, start, ca, cb_, design) ==
  [scene |-> scene, closers |-> closers, paths |-> paths, start |-> start, chunks |-> [cpA |-> ca, cpB |-> cb_], design |-> design]
X2 == {"x1", "x2"}
X3 == {"x1", "x2", "x3"}
AllPaths == {"copy", "idle", "peer", "ctx"}
Cfgs ==
  CASE Suite = "mc" ->            \* exhaustive, quick tier: 2-3 closers x every completion path
         { C("latch", {"c1", "c2", "c3"}, {"add", "op", "io"}, "-", 0, 0, "fixed"),
           C("tunnel", X2, {"copy", "idle", "peer"}, "Connected", 0, 0, "fixed"),
           C("tunnel", {"x1"}, AllPaths, "Connected", 0, 0, "fixed"),           \* (every completion path against two closers: mcbig)
           C("tunnel", X3, {}, "Connected", 0, 0, "fixed"),
           C("tunnel", X3, {}, "Connecting", 0, 0, "fixed"),
           C("tunnel", X3, {}, "Connected", 0, 0, "asis"),
           C("tunnel", X2, {"copy", "peer"}, "Connected", 0, 0, "asis"),
           C("tunnel", X2, {}, "Connecting", 0, 0, "asis"),
           C("bridge", X2, {"eofA", "eofB", "ctx"}, "-", 1, 0, "fixed"),
           C("bridge", {"x1"}, {"eofA", "ctx"}, "-", 1, 0, "asis"),
           C("bridge", {"x1"}, {"ctx", "flow", "big"}, "-", 2, 0, "fixed"),      \* parent context cancelled while data flows; > 1 MiB
           C("tunnel", X2, {"peer", "ctx"}, "Starting", 0, 0, "fixed"),          \* Start racing with every kind of Close
           C("tunnel", X2, {"peer"}, "Starting", 0, 0, "casfirst"),              \* hypothetical: CAS before SetCtx
           C("latch", {"c1", "c2", "c3"}, {"add"}, "-", 0, 0, "splitlatch"),     \* hypothetical: latch tested outside the lock
           C("bridge", X2, {"tg", "eofA"}, "-", 1, 0, "fixed"),                  \* target connection arriving while the bridge closes
           C("bridge", X2, {"tg"}, "-", 0, 0, "snapclose"),                      \* hypothetical: connections closed outside the locks
           C("resmgr", {"d1", "d2"}, {"tw"}, "-", 0, 0, "fixed"),                \* DisposeAll x2 and DisposeWithTimeout
           C("resmgr", {"d1"}, {"tw"}, "-", 0, 0, "unbuf"),                      \* hypothetical: unbuffered result channel
           C("resmgr", {"d1", "d2"}, {"tw", "reg"}, "-", 0, 0, "fixed"),         \* ... with an unregister / re-register history
           C("resmgr", {"d1"}, {"reg"}, "-", 0, 0, "lazyorder"),                 \* hypothetical: Unregister leaves the name in the order list
           C("bridge", {"x1"}, {"ctx", "big"}, "-", 2, 0, "claim"),              \* hypothetical: report mutex held for the claim only
           C("tunnel", X2, {"slownotify", "peer"}, "Connected", 0, 0, "fixed"),  \* close notification stuck on the control connection
           C("tunnel", {"x1"}, {"slownotify"}, "Connected", 0, 0, "notifyto"),   \* hypothetical: timeout idiom, unbuffered result
           C("bridge", {"x1"}, {"ctx", "big", "gfail", "ufail"}, "-", 1, 0, "fixed"),   \* one cloud-control call fails: a later reporter makes up for it
           C("bridge", {"x1"}, {"ctx", "big", "gfail"}, "-", 1, 0, "claim"),     \* hypothetical: ... the claim is handed back too late
           C("bridge", {"x1"}, {"ctx", "slowcloud"}, "-", 1, 0, "fixed"),        \* final report kept waiting by cloud control for longer than the reporter waits
           C("bridge", {"x1"}, {"ctx", "slowcloud"}, "-", 1, 0, "finto") }       \* hypothetical: its result handed over an unbuffered channel
    [] Suite = "mcbig" ->         \* exhaustive, thorough tier
         { C("tunnel", X3, AllPaths, "Connected", 0, 0, "fixed"),
           C("tunnel", X2, AllPaths, "Connected", 0, 0, "asis"),
           C("tunnel", X3, {"peer", "ctx"}, "Connecting", 0, 0, "fixed"),
           C("tunnel", X3, {"peer", "ctx", "idle"}, "Starting", 0, 0, "fixed"),
           C("tunnel", X2, {"peer", "ctx"}, "Starting", 0, 0, "casfirst"),
           C("bridge", X2, {"ctx", "flow", "big", "eofA"}, "-", 2, 1, "fixed"),
           C("bridge", X3, {"tg", "eofA", "ctx"}, "-", 1, 0, "fixed"),
           C("resmgr", {"d1", "d2", "d3"}, {"tw"}, "-", 0, 0, "fixed"),
           C("bridge", X3, {"eofA", "eofB", "ctx"}, "-", 1, 1, "fixed"),
           C("bridge", X2, {"eofA", "eofB", "ctx"}, "-", 1, 1, "asis"),
           C("bridge", X2, {"eofA", "eofB", "ctx"}, "-", 1, 1, "report"),
           C("bridge", X2, {"ctx", "big", "eofA", "gfail", "ufail"}, "-", 2, 1, "fixed"),
           C("bridge", {"x1"}, {"ctx", "big", "gfail", "ufail"}, "-", 2, 1, "claim"),
           C("bridge", X2, {"ctx", "eofA", "slowcloud"}, "-", 1, 1, "fixed"),
           C("bridge", X2, {"ctx", "slowcloud"}, "-", 1, 0, "finto") }
    [] Suite = "gen" ->           \* behaviour generation, quick tier
         { C("latch", {"c1", "c2"}, {"add", "op", "io"}, "-", 0, 0, "fixed"),
           C("latch", {"c1", "c2", "c3"}, {"add"}, "-", 0, 0, "fixed"),
           C("tunnel", X2, {"copy", "peer"}, "Connected", 0, 0, "fixed"),
           C("tunnel", X3, {}, "Connecting", 0, 0, "fixed"),
           C("tunnel", X2, {"copy"}, "Connected", 0, 0, "asis"),
           C("tunnel", X2, {}, "Connecting", 0, 0, "asis"),
           C("bridge", {"x1"}, {"eofA"}, "-", 1, 0, "fixed"),
           C("bridge", {"x1"}, {"eofA"}, "-", 1, 0, "asis"),
           C("bridge", {"x1"}, {"ctx", "flow", "big"}, "-", 2, 0, "fixed"),
           C("tunnel", {"x1"}, {"peer"}, "Starting", 0, 0, "fixed"),       \* (no manager shutdown: it would cancel whatever Start left behind)
           C("bridge", X2, {"tg"}, "-", 0, 0, "fixed"),
           C("resmgr", {"d1", "d2"}, {"tw", "reg"}, "-", 0, 0, "fixed"),
           C("bridge", {"x1"}, {"ctx", "big"}, "-", 2, 0, "claim"),              \* (unrealisable where the real reporters wait for each other)
           C("bridge", {"x1"}, {"ctx", "big", "gfail", "ufail"}, "-", 1, 0, "fixed") }
    [] Suite = "genbig" ->        \* behaviour generation, thorough tier (in addition to "gen")
         { C("tunnel", {"x1"}, {"slownotify", "peer"}, "Connected", 0, 0, "fixed"),
           C("latch", {"c1", "c2", "c3"}, {"add", "op", "io"}, "-", 0, 0, "fixed"),
           C("tunnel", X2, {"peer", "idle"}, "Starting", 0, 0, "fixed"),
           C("tunnel", X2, {"idle", "ctx"}, "Connected", 0, 0, "fixed"),
           C("tunnel", X3, {}, "Connected", 0, 0, "asis"),
           C("tunnel", X2, {"peer"}, "Connected", 0, 0, "asis"),
           C("bridge", {"x1"}, {"eofB", "ctx"}, "-", 1, 1, "fixed"),
           C("bridge", {"x1"}, {"eofB", "ctx"}, "-", 1, 1, "asis") }
    [] Suite = "show" ->          \* the code as it was, for the *_show cfg: TLC exhibits the flaws
         { C("tunnel", X2, {}, "Connected", 0, 0, "asis"),
           C("bridge", {"x1"}, {}, "-", 1, 0, "asis") }
    [] Suite = "show2" ->         \* the two hypothetical designs: double run of every handler / monitors left behind
         { C("latch", {"c1", "c2"}, {}, "-", 0, 0, "splitlatch"),
           C("tunnel", {"x1"}, {}, "Starting", 0, 0, "casfirst"),
           C("bridge", X2, {"tg"}, "-", 0, 0, "snapclose"),
           C("resmgr", {"d1"}, {"tw"}, "-", 0, 0, "unbuf"),
           C("resmgr", {"d1"}, {"reg"}, "-", 0, 0, "lazyorder"),
           C("bridge", {"x1"}, {"ctx", "big"}, "-", 2, 0, "claim"),
           C("tunnel", {"x1"}, {"slownotify"}, "Connected", 0, 0, "notifyto"),
           C("bridge", {"x1"}, {"ctx", "big", "gfail"}, "-", 2, 0, "claim"),
           C("bridge", {"x1"}, {"ctx", "slowcloud"}, "-", 1, 0, "finto") }
    [] OTHER ->                   \* "show_<design>": one hypothetical design alone against the strict property (Dispose_show_<design>.cfg)
         { c \in { C("latch", {"c1", "c2"}, {}, "-", 0, 0, "splitlatch"),
                   C("tunnel", {"x1"}, {}, "Starting", 0, 0, "casfirst"),
                   C("bridge", X2, {"tg"}, "-", 0, 0, "snapclose"),
                   C("resmgr", {"d1"}, {"tw"}, "-", 0, 0, "unbuf"),
                   C("resmgr", {"d1"}, {"reg"}, "-", 0, 0, "lazyorder"),
                   C("bridge", {"x1"}, {"ctx", "big"}, "-", 2, 0, "claim"),
                   C("bridge", {"x1"}, {"ctx", "big", "gfail"}, "-", 2, 0, "claim"),
                   C("tunnel", {"x1"}, {"slownotify"}, "Connected", 0, 0, "notifyto"),
                   C("bridge", {"x1"}, {"ctx", "slowcloud"}, "-", 1, 0, "finto") } :
             Suite = "show_" \o c.design \o (IF "gfail" \in c.paths THEN "_fault" ELSE "") }

VARIABLES cf,                                                   \* the configuration of this behaviour (never changes)
          pc, liveG, ctxDone, retd, called,
          closed, lock, ran,                                  \* the dispose latch (all scenes)
          handlers, snap, hi, must, late, opres, opafter,     \* latch scene
          tstate, cb, unreg, notif, tconns, ioEnded, fell,    \* tunnel scene
          bconns, once, batch, sent, ctr, last, moved, stored, reported, rloc, rctx, rmu,
          dev_overlap, dev_lateflush,                         \* bridge scene
          torn, panicked, dev_tornio, dev_nilfwd,             \* I/O in flight while closing (latch: stream reader; bridge: copier start)
          ctxSet, dev_split, dev_ctxlate,                     \* context installed (tunnel Start); hypothetical deviations (see designs)
          clock, fields, owned, mustc, cclosed, csnap, ready, dev_snap,   \* bridge: the connections it was handed and their Close
          disposing, regs, todo, dev_stuck,                   \* scene "resmgr"
          order, objof, mustres, dev_lazy,                    \* resmgr: registration history (order list, object behind each name)
          dev_lost,                                           \* bridge: an update of the mapping statistics overwrote another one
          npc, ntimed, dev_nstuck,                            \* tunnel: the close notification in flight on the control connection
          faulted, dev_unclaim,                               \* bridge: a cloud-control call failed; a claimed delta was handed back
          pertimed, dev_fstuck,                               \* bridge: the periodic reporter gave up waiting for its final report
          hist

common == <<pc, liveG, ctxDone, retd, called, closed, lock, ran>>
lvars  == <<handlers, snap, hi, must, late, opres, opafter>>
tvars  == <<tstate, cb, unreg, notif, tconns, ioEnded, fell>>
bvars  == <<bconns, once, batch, sent, ctr, last, moved, stored, reported, rloc, rctx, rmu, dev_overlap, dev_lateflush>>
xvars  == <<torn, panicked, dev_tornio, dev_nilfwd>>
yvars  == <<ctxSet, dev_split, dev_ctxlate>>
cvars  == <<clock, fields, owned, mustc, cclosed, csnap, ready, dev_snap>>
rvars  == <<disposing, regs, todo, dev_stuck>>
wvars  == <<order, objof, mustres, dev_lazy, dev_lost, npc, ntimed, dev_nstuck>>
zvars  == <<faulted, dev_unclaim, pertimed, dev_fstuck>>
vars   == <<cf, common, lvars, tvars, bvars, xvars, yvars, cvars, rvars, wvars, zvars, hist>>
view   == <<cf, common, lvars, tvars, bvars, xvars, yvars, cvars, rvars, wvars, zvars>>

Scene      == cf.scene
Closers    == cf.closers
Paths      == cf.paths
StartState == cf.start
FixCas     == cf.design # "asis"
FixReport  == cf.design # "asis"
FixFlush   == cf.design \notin {"asis", "report"}
FixSnap    == cf.design \notin {"asis", "report"}   \* Bridge.Start hands both copiers one snapshot of the target forwarder
\* Two designs that are NOT the code (neither as it was nor as it is) but one careless edit away from it; they are
\* in the model so that TLC exhibits what the schedule-forcing and hammering parts of the driver are looking for:
SplitLatch == cf.design = "splitlatch" \* Dispose.Close tests `closed` BEFORE taking currentLock and sets it after, without re-check
CasFirst   == cf.design = "casfirst"   \* Tunnel.Start does CAS(Connecting -> Connected) BEFORE SetCtx(manager context)
SnapClose  == cf.design = "snapclose"  \* Bridge.Close snapshots its connections under RLock, closes them outside the locks, clears the fields last
Unbuf      == cf.design = "unbuf"      \* ResourceManager.DisposeWithTimeout hands the result over an UNBUFFERED channel
LazyOrder  == cf.design = "lazyorder"  \* ResourceManager.Unregister leaves the name in the order list (DisposeAll skips names no longer registered)
ClaimOnly  == cf.design = "claim"      \* reportTrafficStats holds its mutex only while claiming the delta; Get/Update run outside it (a failed call hands the claim back)
FinTO      == cf.design = "finto"      \* the periodic reporter's final report signals its end with a send on an unbuffered channel (as coded: close)
NotifyTO   == cf.design = "notifyto"   \* the close notification is sent under a timeout idiom whose result channel is unbuffered

Copiers == {"cpA", "cpB"}
Procs == CASE Scene = "latch"  -> Closers \cup (Paths \cap {"add", "op", "io"})
           [] Scene = "tunnel" -> Closers \cup (Paths \cap {"idle", "peer", "ctx"})
                                          \cup (IF StartState \in {"Connected", "Starting"} THEN {"copy"} ELSE {})
                                          \cup (IF StartState = "Starting" THEN {"start"} ELSE {})
           [] Scene = "bridge" -> Closers \cup {"st", "fin"} \cup Copiers \cup (Paths \cap {"tg"})
           [] Scene = "resmgr" -> Closers \cup (IF "tw" \in Paths THEN {"tw", "hlp"} ELSE {}) \cup (Paths \cap {"reg"})

HandlerIds == {"h1", "h2", "h3", "onClose", "cleanup", "r1", "r2", "r1b"}
Rev(sq) == [i \in 1..Len(sq) |-> sq[Len(sq) + 1 - i]]
RemoveFirst(sq, x) == IF \A i \in 1..Len(sq) : sq[i] # x THEN sq
                      ELSE LET i == CHOOSE i \in 1..Len(sq) : sq[i] = x /\ \A j \in 1..(i - 1) : sq[j] # x
                           IN SubSeq(sq, 1, i - 1) \o SubSeq(sq, i + 1, Len(sq))
Conns == {"s", "t", "t2"}        \* source connection, target connection, a target connection arriving later (SetTargetConnection)

Out(h) == IF Emit THEN PrintT("BEH " \o ToJson([scene |-> cf.scene, start |-> cf.start, design |-> cf.design, steps |-> h])) ELSE TRUE
\* after the step, is p about to wait for a lock somebody else holds?
Waits(p) == /\ p \in Procs
            /\ \/ pc'[p] = "latch" /\ lock' # "none"
               \/ pc'[p] = "rbegin" /\ FixReport /\ rmu' \notin {"none", p}
               \/ pc'[p] = "once" /\ once' \notin {"free", "done"}
               \/ pc'[p] = "opchk" /\ lock' # "none"
               \/ pc'[p] = "xcall" /\ ~SnapClose /\ clock' # "none"
Returns(p) == p \in Procs /\ pc[p] \notin {"ret", "gone"} /\ pc'[p] \in {"ret", "gone"}     \* p's call returns / p ends in this step
LogV(p, a, silent) == /\ hist' = Append(hist, [p |-> p, a |-> a, s |-> silent, w |-> Waits(p), r |-> Returns(p)])
                      /\ Out(hist') /\ UNCHANGED cf
LogW(p, a, silent) == UNCHANGED zvars /\ LogV(p, a, silent)
LogZ(p, a, silent) == UNCHANGED wvars /\ LogW(p, a, silent)
LogY(p, a, silent) == UNCHANGED <<cvars, rvars>> /\ LogZ(p, a, silent)
LogX(p, a, silent) == UNCHANGED yvars /\ LogY(p, a, silent)
Log(p, a, silent) == UNCHANGED xvars /\ LogX(p, a, silent)

Init ==
  /\ cf \in Cfgs
  /\ pc = [p \in Procs |-> IF p \in Copiers \cup {"hlp"} THEN "none" ELSE "idle"]
  /\ liveG = CASE Scene = "latch"  -> {"w"}
               [] Scene = "tunnel" -> IF StartState = "Connected" THEN {"m1", "m2", "copy"} ELSE {}
               [] Scene = "bridge" -> {"per"}
               [] Scene = "resmgr" -> {}
  /\ ctxDone = FALSE /\ retd = {} /\ called = FALSE
  /\ closed = FALSE /\ lock = "none" /\ ran = [h \in HandlerIds |-> 0]
  /\ handlers = IF Scene = "latch" THEN <<"h1", "h2">> ELSE <<>>
  /\ snap = <<>> /\ hi = 0 /\ must = IF Scene = "latch" THEN {"h1", "h2"} ELSE {}
  /\ late = {} /\ opres = "none" /\ opafter = FALSE
  /\ tstate = (IF StartState = "Starting" THEN "Connecting" ELSE StartState) /\ cb = 0 /\ unreg = 0 /\ notif = 0 /\ tconns = "open" /\ ioEnded = FALSE /\ fell = FALSE
  /\ bconns = "open" /\ once = "free" /\ batch = [c \in Copiers |-> 0] /\ sent = [c \in Copiers |-> 0]
  /\ ctr = 0 /\ last = 0 /\ moved = 0 /\ stored = 0 /\ reported = 0
  /\ rloc = [p \in Procs |-> [cur |-> 0, delta |-> 0, m |-> 0]] /\ rctx = [p \in Procs |-> "none"]
  /\ rmu = "none" /\ dev_overlap = FALSE /\ dev_lateflush = FALSE
  /\ torn = FALSE /\ panicked = {} /\ dev_tornio = FALSE /\ dev_nilfwd = FALSE
  /\ ctxSet = (StartState = "Connected") /\ dev_split = FALSE /\ dev_ctxlate = FALSE
  /\ clock = "none" /\ fields = (IF "tg" \in Paths THEN {"s"} ELSE {"s", "t"}) /\ owned = fields /\ mustc = {}
  /\ cclosed = [c \in Conns |-> 0] /\ csnap = [p \in Procs |-> <<>>] /\ ready = ("tg" \notin Paths) /\ dev_snap = FALSE
  /\ disposing = FALSE /\ regs = (IF Scene = "resmgr" THEN {"r1", "r2"} ELSE {}) /\ todo = [p \in Procs |-> <<>>] /\ dev_stuck = FALSE
  /\ order = (IF Scene = "resmgr" THEN <<"r1", "r2">> ELSE <<>>) /\ objof = [n \in {"r1", "r2"} |-> n] /\ mustres = {} /\ dev_lazy = FALSE
  /\ dev_lost = FALSE /\ npc = "none" /\ ntimed = FALSE /\ dev_nstuck = FALSE
  /\ faulted = FALSE /\ dev_unclaim = FALSE /\ pertimed = FALSE /\ dev_fstuck = FALSE
  /\ hist = <<>>

Ret(p) == retd' = retd \cup {p}

\* =============================== scene "latch" ===============================================
LCall(p) ==   \* Close() is entered: hook dispose.close.enter
  /\ Scene = "latch" /\ p \in Closers /\ pc[p] = "idle"
  /\ pc' = [pc EXCEPT ![p] = "latch"] /\ called' = TRUE
  /\ UNCHANGED <<liveG, ctxDone, retd, closed, lock, ran, lvars, tvars, bvars>>
  /\ Log(p, "Call", FALSE)

LLatch(p) ==  \* currentLock.Lock(); closed? ; closed = true; cancel(); handler list copied under linkLock
  /\ Scene = "latch" /\ p \in Closers /\ pc[p] = "latch" /\ lock = "none" /\ ~SplitLatch
  /\ IF closed
     THEN /\ pc' = [pc EXCEPT ![p] = "ret"] /\ Ret(p)
          /\ UNCHANGED <<ctxDone, closed, lock, snap, hi>>
     ELSE /\ closed' = TRUE /\ ctxDone' = TRUE /\ snap' = handlers
          /\ IF Len(handlers) = 0
             THEN pc' = [pc EXCEPT ![p] = "ret"] /\ Ret(p) /\ lock' = "none" /\ hi' = 0
             ELSE pc' = [pc EXCEPT ![p] = "run"] /\ retd' = retd /\ lock' = p /\ hi' = 1
  /\ torn' = TRUE      \* the winner runs the component's own onClose first (StreamProcessor: reader/writer closed, fields set to nil)
  /\ UNCHANGED <<liveG, called, ran, handlers, must, late, opres, opafter, tvars, bvars, panicked, dev_tornio, dev_nilfwd>>
  /\ LogX(p, "Latch", FALSE)

\* Design "splitlatch" (hypothetical): the test-and-set of the latch as two steps.  The real code is the single
\* locked step LLatch; with `closed` read before the lock and stored after it, two closers that both read FALSE
\* both become winners and every clean-up handler runs twice (deviation dev_split).
LLatchLoad(p) ==   \* if closed.Load() { lock; return }   - outside the lock
  /\ Scene = "latch" /\ p \in Closers /\ pc[p] = "latch" /\ SplitLatch
  /\ pc' = [pc EXCEPT ![p] = IF closed THEN "lwait" ELSE "lstore"]
  /\ UNCHANGED <<liveG, ctxDone, retd, called, closed, lock, ran, lvars, tvars, bvars>>
  /\ Log(p, "LatchLoad", TRUE)

LLatchWait(p) ==   \* saw closed: waits for the clean-up in progress and returns
  /\ Scene = "latch" /\ pc[p] = "lwait" /\ lock = "none"
  /\ pc' = [pc EXCEPT ![p] = "ret"] /\ Ret(p)
  /\ UNCHANGED <<liveG, ctxDone, called, closed, lock, ran, lvars, tvars, bvars>>
  /\ Log(p, "LatchWait", TRUE)

LLatchStore(p) ==  \* lock; closed.Store(true); cancel(); run the handlers   - no re-check under the lock
  /\ Scene = "latch" /\ pc[p] = "lstore" /\ lock = "none"
  /\ dev_split' = (dev_split \/ closed)                 \* deviation: a second winner
  /\ closed' = TRUE /\ ctxDone' = TRUE /\ snap' = handlers /\ torn' = TRUE
  /\ pc' = [pc EXCEPT ![p] = "run"] /\ lock' = p /\ hi' = 1
  /\ UNCHANGED <<liveG, retd, called, ran, handlers, must, late, opres, opafter, tvars, bvars, panicked, dev_tornio, dev_nilfwd, ctxSet, dev_ctxlate>>
  /\ LogY(p, "LatchStore", TRUE)

LRun(p) ==    \* one clean-up handler, still under currentLock
  /\ Scene = "latch" /\ pc[p] = "run" /\ lock = p
  /\ ran' = [ran EXCEPT ![snap[hi]] = @ + 1]
  /\ IF hi = Len(snap)
     THEN pc' = [pc EXCEPT ![p] = "ret"] /\ Ret(p) /\ lock' = "none" /\ hi' = 0
     ELSE pc' = pc /\ retd' = retd /\ lock' = lock /\ hi' = hi + 1
  /\ UNCHANGED <<liveG, ctxDone, called, closed, handlers, snap, must, late, opres, opafter, tvars, bvars>>
  /\ Log(p, "Run:" \o snap[hi], FALSE)

LAdd ==       \* AddCleanHandler(h3) under linkLock; a handler added after the latch closed never runs (named deviation: late)
  /\ Scene = "latch" /\ "add" \in Procs /\ pc["add"] = "idle"
  /\ handlers' = Append(handlers, "h3")
  /\ must' = IF called THEN must ELSE must \cup {"h3"}      \* registered before any Close was called
  /\ late' = IF closed THEN late \cup {"h3"} ELSE late
  /\ pc' = [pc EXCEPT !["add"] = "ret"]
  /\ UNCHANGED <<liveG, ctxDone, retd, called, closed, lock, ran, snap, hi, opres, opafter, tvars, bvars>>
  /\ Log("add", "Add", FALSE)

LOpCall ==    \* an operation of the component is invoked (e.g. WritePacket): it first asks IsClosed()
  /\ Scene = "latch" /\ "op" \in Procs /\ pc["op"] = "idle"
  /\ pc' = [pc EXCEPT !["op"] = "opchk"] /\ opafter' = (retd # {})
  /\ UNCHANGED <<liveG, ctxDone, retd, called, closed, lock, ran, handlers, snap, hi, must, late, opres, tvars, bvars>>
  /\ Log("op", "OpCall", FALSE)

LOpCheck ==   \* IsClosed() takes currentLock: it waits for a Close in progress
  /\ Scene = "latch" /\ "op" \in Procs /\ pc["op"] = "opchk" /\ lock = "none"
  /\ opres' = IF closed THEN "closed" ELSE "ok"
  /\ pc' = [pc EXCEPT !["op"] = "ret"]
  /\ UNCHANGED <<liveG, ctxDone, retd, called, closed, lock, ran, handlers, snap, hi, must, late, opafter, tvars, bvars>>
  /\ Log("op", "OpCheck", TRUE)

\* The component's own I/O in flight (StreamProcessor.ReadPacket: acquireReadLock checks IsClosed and reader # nil
\* once, then every read step uses the reader FIELD again).  Close does not take the read lock: its onClose
\* sets the fields to nil under the reader's feet - the next read step dereferences nil (deviation dev_tornio;
\* listed as a known finding; a repair is under way - both outcomes of that step are in the model, so that it describes the
\* tree before and after the repair).
IoCall ==     \* ReadPacket: read lock, IsClosed (waits for a Close in progress), first Read returns the type byte
  /\ Scene = "latch" /\ "io" \in Procs /\ pc["io"] = "idle" /\ lock = "none"
  /\ pc' = [pc EXCEPT !["io"] = IF closed THEN "ret" ELSE "io1"]
  /\ UNCHANGED <<liveG, ctxDone, retd, called, closed, lock, ran, lvars, tvars, bvars>>
  /\ Log("io", "IoCall", FALSE)

IoNext ==     \* next read step of the same packet (readPacketBodySize): uses ps.reader
  /\ Scene = "latch" /\ "io" \in Procs /\ pc["io"] = "io1"
  /\ IF torn
     THEN \/ /\ pc' = [pc EXCEPT !["io"] = "ret"] /\ panicked' = panicked \cup {"io"} /\ dev_tornio' = TRUE   \* as written: nil dereference
          \/ /\ pc' = [pc EXCEPT !["io"] = "ret"] /\ UNCHANGED <<panicked, dev_tornio>>     \* read paths working on a snapshot of the fields: closed-stream error
     ELSE /\ pc' = [pc EXCEPT !["io"] = "io2"] /\ UNCHANGED <<panicked, dev_tornio>>
  /\ UNCHANGED <<liveG, ctxDone, retd, called, closed, lock, ran, lvars, tvars, bvars, torn, dev_nilfwd>>
  /\ LogX("io", "IoNext", FALSE)

IoEnd ==      \* blocked in the second Read; the closed reader ends it with an error
  /\ Scene = "latch" /\ "io" \in Procs /\ pc["io"] = "io2" /\ torn
  /\ pc' = [pc EXCEPT !["io"] = "ret"]
  /\ UNCHANGED <<liveG, ctxDone, retd, called, closed, lock, ran, lvars, tvars, bvars>>
  /\ Log("io", "IoEnd", TRUE)

GExit(g) ==   \* a goroutine of the component that selects on ctx.Done() ends
  /\ g \in liveG /\ g \in {"w", "m1", "m2"} /\ ctxDone
  /\ liveG' = liveG \ {g}
  /\ UNCHANGED <<pc, ctxDone, retd, called, closed, lock, ran, lvars, tvars, bvars>>
  /\ Log(g, "Exit", TRUE)

\* =============================== scene "tunnel" ==============================================
Notifies(p) == p \notin {"peer", "ctx"}       \* shouldNotifyPeer(reason)

TLoad(p) ==   \* Close(reason) is called: state.Load() and the early return
  /\ Scene = "tunnel" /\ p \in Procs /\ pc[p] = "idle"
  /\ p # "start"
  /\ p = "copy" => ("copy" \in liveG /\ (ioEnded \/ tconns = "closed"))   \* runDataCopy calls Close when its copy has ended
  /\ called' = TRUE
  /\ IF tstate \in {"Closing", "Closed"}
     THEN /\ pc' = [pc EXCEPT ![p] = "ret"] /\ Ret(p)
          /\ liveG' = IF p = "copy" THEN liveG \ {"copy"} ELSE liveG
     ELSE /\ pc' = [pc EXCEPT ![p] = "loaded"] /\ retd' = retd /\ liveG' = liveG
  /\ UNCHANGED <<ctxDone, closed, lock, ran, lvars, tvars, bvars>>
  /\ Log(p, "Load", FALSE)

TCas(p) ==    \* CAS(Connected -> Closing), else Store(Closing); Dispose.Close; close both connections; go notify
  /\ Scene = "tunnel" /\ pc[p] = "loaded"
  /\ LET claim == tstate = "Connected" \/ (FixCas /\ tstate = "Connecting")
     IN IF claim \/ ~FixCas
        THEN /\ tstate' = "Closing"
             /\ fell' = (fell \/ (~claim /\ tstate \in {"Closing", "Closed"}))   \* deviation: a second closer falls through the failed CAS
             /\ closed' = TRUE /\ ctxDone' = (ctxDone \/ ctxSet)      \* Dispose.Close cancels the context if one is installed
             /\ ran' = IF closed \/ ~ctxSet THEN ran ELSE [ran EXCEPT !["onClose"] = @ + 1]   \* t.onClose is registered by SetCtx
             /\ tconns' = "closed"
             /\ notif' = IF Notifies(p) THEN notif + 1 ELSE notif
             /\ pc' = [pc EXCEPT ![p] = "unreg"]
             /\ retd' = retd
             /\ IF Notifies(p) /\ "slownotify" \in Paths /\ npc = "none"      \* go client.SendTunnelCloseNotify(..): stays blocked on a busy control connection
                THEN npc' = "sending" /\ liveG' = liveG \cup {"n"}
                ELSE npc' = npc /\ liveG' = liveG
        ELSE /\ pc' = [pc EXCEPT ![p] = "ret"] /\ Ret(p)     \* repaired: somebody else owns the close
             /\ liveG' = IF p = "copy" THEN liveG \ {"copy"} ELSE liveG
             /\ UNCHANGED <<tstate, fell, closed, ctxDone, ran, tconns, notif, npc>>
  /\ UNCHANGED <<called, lock, lvars, cb, unreg, ioEnded, bvars>>
  /\ UNCHANGED <<xvars, yvars, cvars, rvars, order, objof, mustres, dev_lazy, dev_lost, ntimed, dev_nstuck>>
  /\ LogW(p, "Cas", FALSE)

\* The close notification in flight (path "slownotify": the control connection is busy or reconnecting, the send returns
\* only when the environment lets it).  As coded one goroutine makes the call and ends when it returns.  Design
\* "notifyto" (hypothetical): the call is made by an inner goroutine that hands its result over an unbuffered channel to
\* an outer one waiting with a timeout - when the timeout has passed nobody receives and the inner goroutine stays
\* blocked on its send for ever (deviation dev_nstuck).
NTimeout ==   \* more time passes than any send timeout
  /\ Scene = "tunnel" /\ npc = "sending" /\ ~ntimed
  /\ ntimed' = TRUE
  /\ UNCHANGED <<common, lvars, tvars, bvars, xvars, yvars, cvars, rvars, order, objof, mustres, dev_lazy, dev_lost, npc, dev_nstuck>>
  /\ LogW("env", "NotifyTimeout", FALSE)

NRelease ==   \* the control connection is usable again: SendTunnelCloseNotify returns
  /\ Scene = "tunnel" /\ npc = "sending"
  /\ IF NotifyTO /\ ntimed
     THEN npc' = "stuck" /\ dev_nstuck' = TRUE /\ liveG' = liveG
     ELSE npc' = "gone" /\ dev_nstuck' = dev_nstuck /\ liveG' = liveG \ {"n"}
  /\ UNCHANGED <<pc, ctxDone, retd, called, closed, lock, ran, lvars, tvars, bvars, xvars, yvars, cvars, rvars, order, objof, mustres, dev_lazy, dev_lost, ntimed>>
  /\ LogW("env", "NotifyRelease", FALSE)

TUnreg(p) ==  \* manager.UnregisterTunnel(id)
  /\ Scene = "tunnel" /\ pc[p] = "unreg"
  /\ unreg' = unreg + 1 /\ pc' = [pc EXCEPT ![p] = "cb"]
  /\ UNCHANGED <<liveG, ctxDone, retd, called, closed, lock, ran, lvars, tstate, cb, notif, tconns, ioEnded, fell, bvars>>
  /\ Log(p, "Unreg", FALSE)

TCb(p) ==     \* onClosed(reason, err); state.Store(Closed); return
  /\ Scene = "tunnel" /\ pc[p] = "cb"
  /\ cb' = cb + 1 /\ tstate' = "Closed" /\ pc' = [pc EXCEPT ![p] = "ret"] /\ Ret(p)
  /\ liveG' = IF p = "copy" THEN liveG \ {"copy"} ELSE liveG
  /\ UNCHANGED <<ctxDone, called, closed, lock, ran, lvars, unreg, notif, tconns, ioEnded, fell, bvars>>
  /\ Log(p, "Cb", FALSE)

\* Tunnel.Start racing with Close (the tunnel is registered in its manager before Start, so a peer notification,
\* CloseAll or an explicit Close can arrive at any point).  As coded: SetCtx(manager.Ctx(), onClose) - the call of
\* manager.Ctx() is the seam the driver parks Start at -, then CAS(Connecting -> Connected), then the monitor and copy
\* goroutines are spawned.  Design "casfirst" (hypothetical): the CAS comes first - a Close between CAS and SetCtx
\* closes a Dispose without context, SetCtx then installs a fresh context nobody will cancel and re-opens the latch,
\* and the monitors spawned afterwards never end (deviation dev_ctxlate).
StartSteps == IF CasFirst THEN <<"cas", "setctx", "spawn">> ELSE <<"setctx", "cas", "spawn">>
NextStart(k) == IF k = "call" THEN StartSteps[1]
                ELSE IF k = StartSteps[1] THEN StartSteps[2] ELSE StartSteps[3]

StCall ==     \* Start() is called
  /\ Scene = "tunnel" /\ "start" \in Procs /\ pc["start"] = "idle"
  /\ pc' = [pc EXCEPT !["start"] = NextStart("call")]
  /\ UNCHANGED <<liveG, ctxDone, retd, called, closed, lock, ran, lvars, tvars, bvars>>
  /\ Log("start", "StartCall", FALSE)

StSetCtx ==   \* Dispose.SetCtx: only if no context is installed yet: new child context, closed = false
  /\ Scene = "tunnel" /\ "start" \in Procs /\ pc["start"] = "setctx"
  /\ IF ctxSet THEN UNCHANGED <<ctxSet, ctxDone, closed>>
     ELSE ctxSet' = TRUE /\ ctxDone' = FALSE /\ closed' = FALSE
  /\ pc' = [pc EXCEPT !["start"] = NextStart("setctx")]
  /\ UNCHANGED <<liveG, retd, called, lock, ran, lvars, tvars, bvars, xvars, dev_split, dev_ctxlate>>
  /\ LogY("start", "SetCtx", FALSE)         \* released from the manager.Ctx() seam

StCas ==      \* CAS(Connecting -> Connected); failure: Start returns an error, nothing is spawned
  /\ Scene = "tunnel" /\ "start" \in Procs /\ pc["start"] = "cas"
  /\ IF tstate = "Connecting"
     THEN tstate' = "Connected" /\ pc' = [pc EXCEPT !["start"] = NextStart("cas")]
     ELSE tstate' = tstate /\ pc' = [pc EXCEPT !["start"] = "ret"]
  /\ UNCHANGED <<liveG, ctxDone, retd, called, closed, lock, ran, lvars, cb, unreg, notif, tconns, ioEnded, fell, bvars>>
  /\ Log("start", "StartCas", TRUE)

StSpawn ==    \* go monitorPeerNotification(); go monitorTimeout(); go runDataCopy(); return nil
  /\ Scene = "tunnel" /\ "start" \in Procs /\ pc["start"] = "spawn"
  /\ liveG' = liveG \cup {"m1", "m2", "copy"}
  /\ dev_ctxlate' = (dev_ctxlate \/ (tstate \in {"Closing", "Closed"} /\ ~ctxDone))   \* deviation: monitors of a closed tunnel on a live context
  /\ pc' = [pc EXCEPT !["start"] = "ret"]
  /\ UNCHANGED <<ctxDone, retd, called, closed, lock, ran, lvars, tvars, bvars, xvars, ctxSet, dev_split>>
  /\ LogY("start", "Spawn", TRUE)

TEof ==       \* the tunnel's own I/O finishes (peer closed its end): the copy goroutine will call Close
  /\ Scene = "tunnel" /\ "copy" \in Paths /\ "copy" \in liveG /\ ~ioEnded /\ tconns = "open"
  /\ ioEnded' = TRUE
  /\ UNCHANGED <<common, lvars, tstate, cb, unreg, notif, tconns, fell, bvars>>
  /\ Log("env", "Eof", FALSE)

\* =============================== scene "bridge" ==============================================
\* what p goes on to do when its Bridge.Close() has returned
AfterClose(p) ==
  IF p \in Copiers
  THEN /\ once' = "done" /\ pc' = [pc EXCEPT ![p] = "gone"] /\ liveG' = liveG \ {p} /\ retd' = retd
  ELSE /\ pc' = [pc EXCEPT ![p] = "ret"] /\ Ret(p) /\ UNCHANGED <<once, liveG>>

\* what p goes on to do when its reportTrafficStats() has returned; leaves once, liveG, retd, pc, lock determined
AfterReport(p) ==
  CASE rctx[p] = "cleanup" -> /\ lock' = "none" /\ AfterClose(p)          \* handlers done: unlock, Close returns
    [] rctx[p] = "fin"     -> /\ IF "slowcloud" \in Paths
                                 THEN pc' = [pc EXCEPT ![p] = "fsend"] /\ liveG' = liveG      \* signals its end to the periodic goroutine: FDone
                                 ELSE pc' = [pc EXCEPT ![p] = "gone"] /\ liveG' = liveG \ {"fin"}   \* (one step where nobody gives up waiting)
                              /\ UNCHANGED <<lock, once, retd>>
    [] rctx[p] = "final"   -> /\ pc' = [pc EXCEPT ![p] = "life"]            \* Start returns
                              /\ UNCHANGED <<lock, once, retd, liveG>>

\* Bridge.Close(): under sourceConnMu / tunnelConnMu the forwarders are closed (the connections stop delivering: bconns),
\* then every tunnel connection the bridge holds is closed and its field cleared - one XCloseConn step per connection,
\* the lock (clock) held throughout, so a second Close or a SetTargetConnection waits.  Design "snapclose"
\* (hypothetical): references are snapshot under RLock, closed outside the locks and the fields cleared afterwards -
\* two overlapping Close calls close every connection twice, and a target connection stored meanwhile is wiped
\* without ever being closed (deviation dev_snap).
FieldSeq == SelectSeq(<<"s", "t", "t2">>, LAMBDA x : x \in fields)
XCall(p) ==
  /\ Scene = "bridge" /\ p \in Closers \cup {"st"} \cup Copiers
  /\ pc[p] = (IF p = "st" THEN "life" ELSE IF p \in Copiers THEN "xcall" ELSE "idle")
  /\ SnapClose \/ clock = "none"
  /\ csnap' = [csnap EXCEPT ![p] = FieldSeq]
  /\ dev_snap' = (dev_snap \/ (SnapClose /\ \E q \in Procs \ {p} : csnap[q] # <<>>))
  /\ IF FieldSeq = <<>>
     THEN clock' = clock /\ pc' = [pc EXCEPT ![p] = "latch"]
     ELSE clock' = (IF SnapClose THEN clock ELSE p) /\ pc' = [pc EXCEPT ![p] = "cclose"]
  /\ bconns' = "closed" /\ called' = TRUE /\ mustc' = owned
  /\ UNCHANGED <<liveG, ctxDone, retd, closed, lock, ran, lvars, tvars, once, batch, sent, ctr, last, moved, stored, reported, rloc, rctx, rmu, dev_overlap, dev_lateflush>>
  /\ UNCHANGED <<xvars, yvars, rvars, fields, owned, cclosed, ready>>
  /\ LogZ(p, "Close", p \in Copiers)

XCloseConn(p) ==   \* TunnelConnection.Close() of the next connection; after the last one the fields are cleared
  /\ Scene = "bridge" /\ pc[p] = "cclose"
  /\ LET c == Head(csnap[p]) IN
     /\ cclosed' = [cclosed EXCEPT ![c] = @ + 1]
     /\ csnap' = [csnap EXCEPT ![p] = Tail(@)]
     /\ IF Len(csnap[p]) = 1
        THEN /\ fields' = {} /\ clock' = (IF clock = p THEN "none" ELSE clock) /\ pc' = [pc EXCEPT ![p] = "latch"]
        ELSE /\ UNCHANGED <<fields, clock, pc>>
     /\ UNCHANGED <<liveG, ctxDone, retd, called, closed, lock, ran, lvars, tvars, bvars, xvars, yvars, rvars, owned, mustc, ready, dev_snap>>
     /\ LogZ(p, "CloseConn:" \o c, FALSE)

TgSet ==      \* SetTargetConnection: the target client's tunnel connection arrives (possibly while the bridge is closing)
  /\ Scene = "bridge" /\ "tg" \in Procs /\ pc["tg"] = "idle"
  /\ SnapClose \/ clock = "none"
  /\ fields' = fields \cup {"t2"} /\ owned' = owned \cup {"t2"} /\ ready' = TRUE
  /\ dev_snap' = (dev_snap \/ (SnapClose /\ \E q \in Procs : csnap[q] # <<>>))
  /\ pc' = [pc EXCEPT !["tg"] = "ret"]
  /\ UNCHANGED <<liveG, ctxDone, retd, called, closed, lock, ran, lvars, tvars, bvars, xvars, yvars, rvars, clock, mustc, cclosed, csnap>>
  /\ LogZ("tg", "SetTarget", FALSE)

XLatch(p) ==  \* ManagerBase.Close -> Dispose.Close: the latch; the winner cancels the context and enters cleanup()
  /\ Scene = "bridge" /\ pc[p] = "latch" /\ lock = "none"
  /\ IF closed
     THEN /\ AfterClose(p) /\ UNCHANGED <<closed, ctxDone, lock, ran, rctx>>
     ELSE /\ closed' = TRUE /\ ctxDone' = TRUE /\ lock' = p
          /\ ran' = [ran EXCEPT !["cleanup"] = @ + 1]
          /\ rctx' = [rctx EXCEPT ![p] = "cleanup"]
          /\ pc' = [pc EXCEPT ![p] = "rbegin"]
          /\ UNCHANGED <<once, liveG, retd>>
  /\ UNCHANGED <<called, lvars, tvars, bconns, batch, sent, ctr, last, moved, stored, reported, rloc, rmu, dev_overlap, dev_lateflush>>
  /\ Log(p, "Latch", TRUE)

InFlight(q) == pc[q] \in {"get", "upd", "sto"}

RBegin(p) ==  \* reportTrafficStats: load counters and last-reported values; nothing to report => return
  /\ Scene = "bridge" /\ pc[p] = "rbegin"
  /\ (FixReport /\ ~ClaimOnly) => rmu = "none"
  /\ LET d == ctr - last IN
     IF d = 0
     THEN /\ AfterReport(p) /\ UNCHANGED <<rloc, rmu, dev_overlap, last>>
     ELSE /\ rloc' = [rloc EXCEPT ![p] = [cur |-> ctr, delta |-> d, m |-> 0]]
          /\ rmu' = IF FixReport /\ ~ClaimOnly THEN p ELSE rmu
          /\ last' = IF ClaimOnly THEN ctr ELSE last        \* design "claim": the delta is claimed here, under a lock released at once
          /\ dev_overlap' = (dev_overlap \/ \E q \in Procs \ {p} : InFlight(q))   \* deviation: two reports in flight
          /\ pc' = [pc EXCEPT ![p] = "get"]
          /\ UNCHANGED <<lock, once, liveG, retd>>
  /\ UNCHANGED <<ctxDone, called, closed, ran, lvars, tvars, bconns, batch, sent, ctr, moved, stored, reported, rctx, dev_lateflush>>
  /\ Log(p, "RBegin", TRUE)

RGet(p) ==    \* CloudControl.GetPortMapping
  /\ Scene = "bridge" /\ pc[p] = "get"
  /\ rloc' = [rloc EXCEPT ![p].m = stored] /\ pc' = [pc EXCEPT ![p] = "upd"]
  /\ UNCHANGED <<liveG, ctxDone, retd, called, closed, lock, ran, lvars, tvars, bconns, once, batch, sent, ctr, last, moved, stored, reported, rctx, rmu, dev_overlap, dev_lateflush>>
  /\ Log(p, "RGet", FALSE)

RUpd(p) ==    \* CloudControl.UpdatePortMappingStats(mapping stats + delta)
  /\ Scene = "bridge" /\ pc[p] = "upd"
  /\ stored' = rloc[p].m + rloc[p].delta /\ reported' = reported + rloc[p].delta
  /\ pc' = [pc EXCEPT ![p] = "sto"]
  /\ dev_lost' = (dev_lost \/ stored # rloc[p].m)       \* deviation: the statistics changed since this reporter read them - that update is overwritten
  /\ UNCHANGED <<liveG, ctxDone, retd, called, closed, lock, ran, lvars, tvars, bconns, once, batch, sent, ctr, last, moved, rloc, rctx, rmu, dev_overlap, dev_lateflush>>
  /\ UNCHANGED <<xvars, yvars, cvars, rvars, order, objof, mustres, dev_lazy, npc, ntimed, dev_nstuck>>
  /\ LogW(p, "RUpd", FALSE)

RSto(p) ==    \* lastReported.Store(current); return
  /\ Scene = "bridge" /\ pc[p] = "sto"
  /\ last' = (IF ClaimOnly THEN last ELSE rloc[p].cur) /\ rmu' = IF rmu = p THEN "none" ELSE rmu
  /\ AfterReport(p)
  /\ UNCHANGED <<ctxDone, called, closed, ran, lvars, tvars, bconns, batch, sent, ctr, moved, stored, reported, rloc, rctx, dev_overlap, dev_lateflush>>
  /\ Log(p, "RSto", FALSE)

\* A cloud-control call fails (paths "gfail" / "ufail": storage behind cloud control unreachable for a moment; at most one
\* failure per behaviour, and not on Start's final report, after which nobody would try again).  As coded the reporter
\* logs the error and returns, still holding the mutex until then; the last-reported values are not advanced, so the next
\* reporter reports the same bytes.  Design "claim": the delta was claimed at RBegin and has to be handed back (RUnclaim);
\* a reporter that began in between found nothing to report and is gone (deviation dev_unclaim).
RFail(p, at, path) ==
  /\ Scene = "bridge" /\ pc[p] = at /\ path \in Paths /\ ~faulted /\ rctx[p] # "final" /\ FixFlush
  /\ faulted' = TRUE
  /\ IF ClaimOnly
     THEN /\ pc' = [pc EXCEPT ![p] = "unclaim"] /\ UNCHANGED <<lock, once, liveG, retd, rmu>>
     ELSE /\ rmu' = (IF rmu = p THEN "none" ELSE rmu) /\ AfterReport(p)
  /\ UNCHANGED <<ctxDone, called, closed, ran, lvars, tvars, bconns, batch, sent, ctr, last, moved, stored, reported, rloc, rctx, dev_overlap, dev_lateflush>>
  /\ UNCHANGED <<xvars, yvars, cvars, rvars, wvars, dev_unclaim, pertimed, dev_fstuck>>
  /\ LogV(p, IF at = "get" THEN "RGetFail" ELSE "RUpdFail", FALSE)
RGetFail(p) == RFail(p, "get", "gfail")
RUpdFail(p) == RFail(p, "upd", "ufail")

RUnclaim(p) ==   \* design "claim" only: lastReported -= delta, under the mutex; return
  /\ Scene = "bridge" /\ pc[p] = "unclaim"
  /\ last' = last - rloc[p].delta /\ dev_unclaim' = TRUE
  /\ AfterReport(p)
  /\ UNCHANGED <<ctxDone, called, closed, ran, lvars, tvars, bconns, batch, sent, ctr, moved, stored, reported, rloc, rctx, rmu, dev_overlap, dev_lateflush>>
  /\ UNCHANGED <<xvars, yvars, cvars, rvars, wvars, faulted, pertimed, dev_fstuck>>
  /\ LogV(p, "RUnclaim", TRUE)

FBegin ==     \* the periodic goroutine sees ctx.Done() and starts its final report in a new goroutine
  /\ Scene = "bridge" /\ pc["fin"] = "idle" /\ ctxDone
  /\ pc' = [pc EXCEPT !["fin"] = "rbegin"] /\ rctx' = [rctx EXCEPT !["fin"] = "fin"]
  /\ liveG' = liveG \cup {"fin"}
  /\ UNCHANGED <<ctxDone, retd, called, closed, lock, ran, lvars, tvars, bconns, once, batch, sent, ctr, last, moved, stored, reported, rloc, rmu, dev_overlap, dev_lateflush>>
  /\ Log("fin", "FBegin", TRUE)

\* The periodic goroutine waits for that report, but not for ever (5 s): with cloud control keeping the report waiting
\* (path "slowcloud") it gives up and ends (PerTimeout).  The reporting goroutine signals its end (FDone): as coded it
\* closes a channel and ends whether or not anybody is still waiting.  Design "finto" (hypothetical): it SENDS on an
\* unbuffered channel - with the waiting goroutine gone it blocks for ever (deviation dev_fstuck).
PerTimeout ==
  /\ Scene = "bridge" /\ "slowcloud" \in Paths /\ "per" \in liveG /\ ~pertimed
  /\ pc["fin"] \in {"rbegin", "get", "upd", "sto", "unclaim"}
  /\ pertimed' = TRUE /\ liveG' = liveG \ {"per"}
  /\ UNCHANGED <<pc, ctxDone, retd, called, closed, lock, ran, lvars, tvars, bvars, xvars, yvars, cvars, rvars, wvars, faulted, dev_unclaim, dev_fstuck>>
  /\ LogV("per", "GiveUp", FALSE)

FDone ==
  /\ Scene = "bridge" /\ pc["fin"] = "fsend"
  /\ IF FinTO /\ pertimed
     THEN pc' = [pc EXCEPT !["fin"] = "stuck"] /\ dev_fstuck' = TRUE /\ liveG' = liveG
     ELSE pc' = [pc EXCEPT !["fin"] = "gone"] /\ dev_fstuck' = dev_fstuck /\ liveG' = liveG \ {"fin"}
  /\ UNCHANGED <<ctxDone, retd, called, closed, lock, ran, lvars, tvars, bvars, xvars, yvars, cvars, rvars, wvars, faulted, dev_unclaim, pertimed>>
  /\ LogV("fin", "FDone", TRUE)

PerExit ==    \* ... and ends when that report is done
  /\ Scene = "bridge" /\ "per" \in liveG /\ pc["fin"] = "gone"
  /\ liveG' = liveG \ {"per"}
  /\ UNCHANGED <<pc, ctxDone, retd, called, closed, lock, ran, lvars, tvars, bvars>>
  /\ Log("per", "Exit", TRUE)

StStart ==    \* Start(): target ready; two copiers are spawned (or, forwarders gone / context done: wait for ctx.Done and return)
  /\ Scene = "bridge" /\ pc["st"] = "idle" /\ ready
  /\ IF bconns = "open"
     THEN /\ pc' = [pc EXCEPT !["st"] = "wg", !["cpA"] = "born", !["cpB"] = "born"]
          /\ liveG' = liveG \cup Copiers
     ELSE /\ pc' = [pc EXCEPT !["st"] = "ctxwait"] /\ liveG' = liveG
  /\ UNCHANGED <<ctxDone, retd, called, closed, lock, ran, lvars, tvars, bvars>>
  /\ Log("st", "Start", FALSE)

StCtx ==      \* Start without forwarders, or whose select picks ctx.Done(), returns when the context is done
  /\ Scene = "bridge" /\ pc["st"] \in {"ctxwait", "idle"} /\ ctxDone
  /\ pc' = [pc EXCEPT !["st"] = "life"]
  /\ UNCHANGED <<liveG, ctxDone, retd, called, closed, lock, ran, lvars, tvars, bvars>>
  /\ Log("st", "StartRet", TRUE)

CBorn(c) ==   \* the copier goroutine starts running: as written it reads b.targetForwarder only now - nil if a Close
              \* came in between (deviation dev_nilfwd: nil dereference, the process dies); repaired: Start took one snapshot
  /\ Scene = "bridge" /\ c \in Copiers /\ pc[c] = "born"
  /\ IF ~FixSnap /\ bconns = "closed"
     THEN /\ pc' = [pc EXCEPT ![c] = "panicked"] /\ panicked' = panicked \cup {c} /\ dev_nilfwd' = TRUE
     ELSE /\ pc' = [pc EXCEPT ![c] = IF c = "cpA" /\ ctxDone THEN "ended" ELSE "read"]   \* the source copier tests the context before its first read
          /\ UNCHANGED <<panicked, dev_nilfwd>>
  /\ UNCHANGED <<liveG, ctxDone, retd, called, closed, lock, ran, lvars, tvars, bvars, torn, dev_tornio>>
  /\ LogX(c, "Born", TRUE)

CData(c) ==   \* a copier moves one chunk (smaller than the 1 MiB batch threshold: counted locally only)
  /\ Scene = "bridge" /\ c \in Copiers /\ pc[c] = "read" /\ bconns = "open" /\ sent[c] < cf.chunks[c]
  /\ moved' = moved + 1 /\ batch' = [batch EXCEPT ![c] = @ + 1] /\ sent' = [sent EXCEPT ![c] = @ + 1]
  /\ UNCHANGED <<common, lvars, tvars, bconns, once, ctr, last, stored, reported, rloc, rctx, rmu, dev_overlap, dev_lateflush>>
  /\ Log(c, "Data", FALSE)

CDataBig(c) ==  \* path "big": more than the 1 MiB batch threshold moves: the batch is added to the shared counter at once
  /\ Scene = "bridge" /\ c \in Copiers /\ pc[c] = "read" /\ bconns = "open" /\ "big" \in Paths /\ sent[c] < cf.chunks[c]
  /\ moved' = moved + 1 /\ ctr' = ctr + 1 /\ sent' = [sent EXCEPT ![c] = @ + 1]
  /\ UNCHANGED <<common, lvars, tvars, bconns, once, batch, last, stored, reported, rloc, rctx, rmu, dev_overlap, dev_lateflush>>
  /\ Log(c, "DataBig", FALSE)

CCtx(c) ==    \* path "flow": the parent context was cancelled (no Close yet) while data keeps flowing: the copier reaches
              \* its periodic ctx.Done() check (every ContextCheckInterval reads) and leaves the loop there
  /\ Scene = "bridge" /\ c \in Copiers /\ pc[c] = "read" /\ bconns = "open" /\ ctxDone /\ "flow" \in Paths
  /\ pc' = [pc EXCEPT ![c] = "ended"]
  /\ UNCHANGED <<liveG, ctxDone, retd, called, closed, lock, ran, lvars, tvars, bvars>>
  /\ Log(c, "CtxExit", FALSE)

CEnd(c) ==    \* the copier's Read returns: end of its own I/O (path eofA / eofB) or the connections were closed
  /\ Scene = "bridge" /\ c \in Copiers /\ pc[c] = "read"
  /\ \/ bconns = "closed"
     \/ (c = "cpA" /\ "eofA" \in Paths) \/ (c = "cpB" /\ "eofB" \in Paths)
  /\ pc' = [pc EXCEPT ![c] = "ended"]
  /\ UNCHANGED <<liveG, ctxDone, retd, called, closed, lock, ran, lvars, tvars, bvars>>
  /\ Log(c, IF bconns = "closed" THEN "ReadErr" ELSE "Eof", bconns = "closed")

CFlush(c) ==  \* CopyWithControl returns: counter.Add(batchCounter)
  /\ Scene = "bridge" /\ c \in Copiers /\ pc[c] = "ended"
  /\ ctr' = ctr + batch[c] /\ batch' = [batch EXCEPT ![c] = 0]
  /\ dev_lateflush' = (dev_lateflush \/ (batch[c] > 0 /\ closed))    \* deviation: bytes counted after the closing report began
  /\ pc' = [pc EXCEPT ![c] = "once"]
  /\ UNCHANGED <<liveG, ctxDone, retd, called, closed, lock, ran, lvars, tvars, bconns, once, sent, last, moved, stored, reported, rloc, rctx, rmu, dev_overlap>>
  /\ Log(c, "Flush", FALSE)

COnce(c) ==   \* deferred closeBridge(): closeOnce.Do(b.Close) - the first copier closes, the other waits for it
  /\ Scene = "bridge" /\ c \in Copiers /\ pc[c] = "once" /\ once \in {"free", "done"}
  /\ IF once = "free"
     THEN /\ once' = c /\ pc' = [pc EXCEPT ![c] = "xcall"] /\ liveG' = liveG        \* b.Close() inline: XCall(c) next
     ELSE /\ once' = once /\ pc' = [pc EXCEPT ![c] = "gone"] /\ liveG' = liveG \ {c}
  /\ UNCHANGED <<ctxDone, retd, called, closed, lock, ran, lvars, tvars, bconns, batch, sent, ctr, last, moved, stored, reported, rloc, rctx, rmu, dev_overlap, dev_lateflush>>
  /\ Log(c, "Once", TRUE)

StWake ==     \* wg.Wait() returns; repaired: one more report now that both copiers have flushed
  /\ Scene = "bridge" /\ pc["st"] = "wg" /\ pc["cpA"] = "gone" /\ pc["cpB"] = "gone"
  /\ IF FixFlush
     THEN pc' = [pc EXCEPT !["st"] = "rbegin"] /\ rctx' = [rctx EXCEPT !["st"] = "final"]
     ELSE pc' = [pc EXCEPT !["st"] = "life"] /\ rctx' = rctx
  /\ UNCHANGED <<liveG, ctxDone, retd, called, closed, lock, ran, lvars, tvars, bconns, once, batch, sent, ctr, last, moved, stored, reported, rloc, rmu, dev_overlap, dev_lateflush>>
  /\ Log("st", "Wake", TRUE)

BCtx ==       \* the parent context is cancelled (server shutting down) before anybody called Close
  /\ Scene = "bridge" /\ "ctx" \in Paths /\ ~ctxDone
  /\ ctxDone' = TRUE
  /\ UNCHANGED <<pc, liveG, retd, called, closed, lock, ran, lvars, tvars, bvars>>
  /\ Log("env", "Cancel", FALSE)

\* =============================== scene "resmgr" =============================================
\* internal/core/dispose/manager.go  ResourceManager.DisposeAll: under mu, return if a disposal is in progress or nothing
\* is registered, else take every resource and clear the registry; outside the lock dispose them in reverse
\* registration order (r2, r1); finally disposing = false.  DisposeWithTimeout runs DisposeAll in a helper goroutine
\* ("hlp") and waits for its result or the timeout; the result channel has room for one value, so a helper that
\* finishes after the timeout still gets rid of its result and ends.  Design "unbuf" (hypothetical): unbuffered
\* channel - after a timeout nobody receives and the helper stays blocked on its send for ever (deviation dev_stuck).
RCall(p) ==
  /\ Scene = "resmgr" /\ p \in Closers \cup {"hlp"} /\ p \in Procs /\ pc[p] = "idle"
  /\ called' = TRUE
  /\ IF disposing \/ regs = {}
     THEN /\ pc' = [pc EXCEPT ![p] = IF p = "hlp" THEN "send" ELSE "ret"]
          /\ retd' = (IF p = "hlp" THEN retd ELSE retd \cup {p})
          /\ UNCHANGED <<disposing, regs, todo>>
     ELSE /\ disposing' = TRUE /\ regs' = {}
          /\ LET names == SelectSeq(Rev(order), LAMBDA n : n \in regs)      \* reverse registration order, names still registered
             IN todo' = [todo EXCEPT ![p] = [i \in 1..Len(names) |-> objof[names[i]]]]
          /\ pc' = [pc EXCEPT ![p] = "disp"] /\ retd' = retd
  /\ order' = (IF disposing \/ regs = {} THEN order ELSE <<>>)
  /\ mustres' = (IF disposing \/ regs = {} THEN mustres ELSE mustres \cup {objof[n] : n \in regs})
  /\ UNCHANGED <<liveG, ctxDone, closed, lock, ran, lvars, tvars, bvars, xvars, yvars, cvars, dev_stuck>>
  /\ UNCHANGED <<objof, dev_lazy, dev_lost, npc, ntimed, dev_nstuck>>
  /\ LogW(p, "Call", p = "hlp")

\* Registration history (path "reg"): the resource registered as r1 is unregistered and another one (object r1b) is
\* registered under the same name.  As coded Unregister removes the name from the order list.  Design "lazyorder"
\* (hypothetical): the name stays in the list - after the re-registration it is there twice and DisposeAll disposes the
\* current object twice (deviation dev_lazy).
RUnreg ==
  /\ Scene = "resmgr" /\ "reg" \in Procs /\ pc["reg"] = "idle"
  /\ IF "r1" \in regs
     THEN regs' = regs \ {"r1"} /\ order' = (IF LazyOrder THEN order ELSE RemoveFirst(order, "r1"))
     ELSE UNCHANGED <<regs, order>>
  /\ pc' = [pc EXCEPT !["reg"] = "rereg"]
  /\ UNCHANGED <<liveG, ctxDone, retd, called, closed, lock, ran, lvars, tvars, bvars, xvars, yvars, cvars, disposing, todo, dev_stuck>>
  /\ UNCHANGED <<objof, mustres, dev_lazy, dev_lost, npc, ntimed, dev_nstuck>>
  /\ LogW("reg", "Unreg", FALSE)

RReg ==
  /\ Scene = "resmgr" /\ "reg" \in Procs /\ pc["reg"] = "rereg"
  /\ IF "r1" \notin regs
     THEN /\ regs' = regs \cup {"r1"} /\ order' = Append(order, "r1") /\ objof' = [objof EXCEPT !["r1"] = "r1b"]
          /\ dev_lazy' = (dev_lazy \/ \E i \in 1..Len(order) : order[i] = "r1")
     ELSE UNCHANGED <<regs, order, objof, dev_lazy>>
  /\ pc' = [pc EXCEPT !["reg"] = "ret"]
  /\ UNCHANGED <<liveG, ctxDone, retd, called, closed, lock, ran, lvars, tvars, bvars, xvars, yvars, cvars, disposing, todo, dev_stuck>>
  /\ UNCHANGED <<mustres, dev_lost, npc, ntimed, dev_nstuck>>
  /\ LogW("reg", "Reg", FALSE)

RDisp(p) ==   \* resource.Dispose() of the next resource
  /\ Scene = "resmgr" /\ pc[p] = "disp"
  /\ ran' = [ran EXCEPT ![Head(todo[p])] = @ + 1]
  /\ todo' = [todo EXCEPT ![p] = Tail(@)]
  /\ IF Len(todo[p]) = 1
     THEN /\ disposing' = FALSE
          /\ pc' = [pc EXCEPT ![p] = IF p = "hlp" THEN "send" ELSE "ret"]
          /\ retd' = (IF p = "hlp" THEN retd ELSE retd \cup {p})
     ELSE UNCHANGED <<disposing, pc, retd>>
  /\ UNCHANGED <<liveG, ctxDone, called, closed, lock, lvars, tvars, bvars, xvars, yvars, cvars, regs, dev_stuck>>
  /\ LogZ(p, "Disp:" \o Head(todo[p]), FALSE)

TwCall ==     \* DisposeWithTimeout: go func() { resultChan <- rm.DisposeAll() }(); select { result / timeout }
  /\ Scene = "resmgr" /\ "tw" \in Procs /\ pc["tw"] = "idle"
  /\ pc' = [pc EXCEPT !["tw"] = "wait", !["hlp"] = "idle"] /\ liveG' = liveG \cup {"hlp"}
  /\ UNCHANGED <<ctxDone, retd, called, closed, lock, ran, lvars, tvars, bvars, xvars, yvars, cvars, rvars>>
  /\ LogZ("tw", "TwCall", FALSE)

TwRecv ==     \* the helper's result arrives in time
  /\ Scene = "resmgr" /\ "tw" \in Procs /\ pc["tw"] = "wait" /\ pc["hlp"] = "send"
  /\ pc' = [pc EXCEPT !["tw"] = "ret", !["hlp"] = "gone"] /\ liveG' = liveG \ {"hlp"} /\ retd' = retd \cup {"tw"}
  /\ UNCHANGED <<ctxDone, called, closed, lock, ran, lvars, tvars, bvars, xvars, yvars, cvars, rvars>>
  /\ LogZ("tw", "Recv", TRUE)

TwTimeout ==  \* the timeout fires first: DisposeWithTimeout returns the timeout error
  /\ Scene = "resmgr" /\ "tw" \in Procs /\ pc["tw"] = "wait"
  /\ pc' = [pc EXCEPT !["tw"] = "ret"] /\ retd' = retd \cup {"tw"}
  /\ UNCHANGED <<liveG, ctxDone, called, closed, lock, ran, lvars, tvars, bvars, xvars, yvars, cvars, rvars>>
  /\ LogZ("tw", "Timeout", FALSE)

HSend ==      \* the helper delivers its result after the caller has gone
  /\ Scene = "resmgr" /\ "hlp" \in Procs /\ pc["hlp"] = "send" /\ pc["tw"] = "ret"
  /\ IF Unbuf
     THEN pc' = [pc EXCEPT !["hlp"] = "stuck"] /\ dev_stuck' = TRUE /\ liveG' = liveG
     ELSE pc' = [pc EXCEPT !["hlp"] = "gone"] /\ dev_stuck' = dev_stuck /\ liveG' = liveG \ {"hlp"}
  /\ UNCHANGED <<ctxDone, retd, called, closed, lock, ran, lvars, tvars, bvars, xvars, yvars, cvars, disposing, regs, todo>>
  /\ LogZ("hlp", "Send", TRUE)

\* ==============================================================================================
Steps ==
        \/ \E p \in Closers : LCall(p) \/ LLatch(p) \/ LLatchLoad(p) \/ LLatchWait(p) \/ LLatchStore(p) \/ LRun(p)
        \/ LAdd \/ LOpCall \/ LOpCheck \/ IoCall \/ IoNext \/ IoEnd
        \/ \E g \in liveG : GExit(g)
        \/ \E p \in Procs : TLoad(p) \/ TCas(p) \/ TUnreg(p) \/ TCb(p)
        \/ TEof \/ StCall \/ StSetCtx \/ StCas \/ StSpawn
        \/ \E p \in Procs : RCall(p) \/ RDisp(p)
        \/ TwCall \/ TwRecv \/ TwTimeout \/ HSend \/ TgSet \/ RUnreg \/ RReg \/ NTimeout \/ NRelease
        \/ \E p \in Procs : XCall(p) \/ XCloseConn(p) \/ XLatch(p) \/ RBegin(p) \/ RGet(p) \/ RUpd(p) \/ RSto(p)
        \/ \E p \in Procs : RGetFail(p) \/ RUpdFail(p) \/ RUnclaim(p)
        \/ PerTimeout \/ FDone
        \/ FBegin \/ PerExit \/ StStart \/ StCtx \/ StWake \/ BCtx
        \/ \E c \in Copiers : CBorn(c) \/ CData(c) \/ CDataBig(c) \/ CCtx(c) \/ CEnd(c) \/ CFlush(c) \/ COnce(c)
\* Generation only (Emit = TRUE; the exhaustive runs explore every order): steps that have no gate in the real code and
\* cannot wait for anything are taken as soon as they are enabled, the way the real goroutines take them - schedules
\* that delay them could not be forced on the code.  Design "claim": a report beginning (RBegin: the claim) and the
\* periodic goroutine reacting to the cancelled context (FBegin).  Scene "resmgr": DisposeWithTimeout's helper goroutine
\* entering DisposeAll.
EagerClaim == Emit /\ ClaimOnly /\ Scene = "bridge"
               /\ ((pc["fin"] = "idle" /\ ctxDone) \/ \E p \in Procs : pc[p] = "rbegin")
EagerHlp   == Emit /\ Scene = "resmgr" /\ "hlp" \in Procs /\ pc["hlp"] = "idle"
Next == IF EagerClaim THEN FBegin \/ \E p \in Procs : RBegin(p)
        ELSE IF EagerHlp THEN RCall("hlp")
        ELSE Steps
Spec == Init /\ [][Next]_vars

\* ---- properties (C16) -----------------------------------------------------------------------
TypeOK == /\ \A h \in HandlerIds : ran[h] \in 0..8
          /\ cb \in 0..8 /\ unreg \in 0..8 /\ notif \in 0..8
          /\ liveG \subseteq {"w", "m1", "m2", "copy", "per", "fin", "cpA", "cpB", "hlp", "n"}

\* (1) every clean-up action / close callback runs at most once, always
AtMostOnce == /\ \A h \in HandlerIds : ran[h] <= 1
              /\ cb <= 1 /\ unreg <= 1 /\ notif <= 1
\* (2) ... and exactly once when a Close has returned (latch: handlers registered before any Close was called;
\*     bridge: the clean-up handler).  Tunnel.Close returns early to a closer that finds Closing, so for the
\*     tunnel the demand is made when every initiator has returned.
Initiated == \E p \in Procs : pc[p] \notin {"idle", "none"} /\ p \notin {"add", "op", "io", "start", "tg", "reg"}
AllRet == \A p \in Procs : \/ pc[p] \in {"ret", "gone", "stuck"}
                            \/ (p = "hlp" /\ pc[p] = "none" /\ pc["tw"] = "ret")
                            \/ (Scene = "bridge" /\ p = "fin" /\ ~ctxDone)
                            \/ (Scene = "bridge" /\ p \in Copiers /\ pc[p] = "none" /\ pc["st"] = "ret")
                            \/ (Scene = "tunnel" /\ p = "copy" /\ "copy" \notin liveG /\ pc[p] = "idle"
                                  /\ "start" \in Procs /\ pc["start"] = "ret")     \* Start failed: no copy goroutine
ExactlyOnce ==
  CASE Scene = "latch"  -> (retd # {}) => \A h \in must : ran[h] = 1
    [] Scene = "bridge" -> (retd # {}) => ran["cleanup"] = 1
    [] Scene = "tunnel" -> (AllRet /\ Initiated) => (cb = 1 /\ unreg = 1)
    [] Scene = "resmgr" -> (AllRet /\ Initiated) => \A o \in mustres : ran[o] = 1     \* every object a DisposeAll took over
\* (2b) every connection the bridge was handed before the last Close call is closed exactly once, never twice
ConnOnce == /\ \A c \in Conns : cclosed[c] <= 1
            /\ (Scene = "bridge" /\ AllRet) => \A c \in mustc : cclosed[c] = 1
\* (3) traffic totals are reported once: never more than was moved, and all of it when everything has ended
NoOverReport == reported <= moved
TrafficExact == (Scene = "bridge" /\ AllRet /\ closed) => reported = moved
\* (4) an operation invoked after a Close returned gets the closed error
ClosedError == (Scene = "latch" /\ opafter /\ opres # "none") => opres = "closed"
\* (5) no goroutine of the component panics (NoPanic, below)
\* (6) nothing is left running: when every process has returned, every remaining goroutine is on its way out
CanExit(g) == \/ g \in {"w", "m1", "m2"} /\ ctxDone
              \/ g = "per" /\ (pc["fin"] = "gone" \/ (pc["fin"] = "idle" /\ ctxDone))
LeakFree == (AllRet /\ Initiated /\ npc # "sending") => \A g \in liveG : CanExit(g)     \* (pending I/O unblocked)
\* (3b) ... and the statistics kept by cloud control end up with exactly the bytes moved (no update overwritten)
StoredExact == (Scene = "bridge" /\ AllRet /\ closed) => stored = moved

\* What is checked: the property, or - in a configuration of the code as written - a listed deviation.
InvAtMostOnce  == AtMostOnce \/ (~FixCas /\ fell) \/ (SplitLatch /\ dev_split) \/ (LazyOrder /\ dev_lazy)
InvExactlyOnce == ExactlyOnce \/ (~FixCas /\ fell) \/ (SplitLatch /\ dev_split) \/ (LazyOrder /\ dev_lazy)
InvLeakFree    == LeakFree \/ (CasFirst /\ dev_ctxlate) \/ (Unbuf /\ dev_stuck) \/ (NotifyTO /\ dev_nstuck) \/ (FinTO /\ dev_fstuck)
InvStored      == StoredExact \/ (~FixReport /\ dev_overlap) \/ (~FixFlush /\ dev_lateflush) \/ (ClaimOnly /\ (dev_lost \/ dev_unclaim))
InvConnOnce    == ConnOnce \/ (SnapClose /\ dev_snap)
InvNoOver      == NoOverReport \/ (~FixReport /\ dev_overlap)
InvNoPanic     == \A p \in panicked : (p = "io" /\ dev_tornio) \/ (p \in Copiers /\ ~FixSnap /\ dev_nilfwd)
NoPanic        == panicked = {}
InvTraffic     == TrafficExact \/ (~FixReport /\ dev_overlap) \/ (~FixFlush /\ dev_lateflush) \/ (ClaimOnly /\ dev_unclaim)
=============================================================================
