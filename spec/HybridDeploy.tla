---------------------------- MODULE HybridDeploy ----------------------------
(* Deployment selection of the tiered store: internal/app/server/storage.go createStorage.    *)
(* The configuration flags (storage.enabled, redis.enabled, persistence.enabled) choose which  *)
(* tiers a node builds.  C14's third clause ("shared cross-node keys are visible to every      *)
(* node") is a statement about the store a *deployed node* builds, so the selection function   *)
(* is part of the specification: the operators below are the documented priority order, the    *)
(* tiny state machine enumerates every flag combination for TLC, and HybridTrace.tla judges    *)
(* the stores built by the real createStorage with the same operators.                         *)
EXTENDS Naturals

\* which constructor the flags select (documented priority: remote > redis > json > memory)
Kind(st, rd, ps) == IF st THEN "remote" ELSE IF rd THEN "redis" ELSE IF ps THEN "json" ELSE "memory"

\* where the front tier of a shared-category key lives: one store for all nodes, or one per node
SharedFront(st, rd, ps) == IF rd THEN "redis" ELSE "local"

\* deployments that are advertised as multi-node ("Cluster (Redis)" run mode)
MultiNode(st, rd, ps) == rd

\* node-local JSON persistence is never combined with a cluster (multi-writer conflict)
LocalJSON(st, rd, ps) == Kind(st, rd, ps) = "json"

SharedCats == {"shared", "sharedPersistent"}
VisibleAcrossNodes(st, rd, ps, cat) == cat \in SharedCats /\ SharedFront(st, rd, ps) = "redis"

VARIABLE cfg
Init == cfg \in [st : BOOLEAN, rd : BOOLEAN, ps : BOOLEAN]
Next == cfg' \in [st : BOOLEAN, rd : BOOLEAN, ps : BOOLEAN]
Spec == Init /\ [][Next]_cfg

\* what C14 needs of the selection: every multi-node deployment keeps shared keys in the one shared store,
\* and never persists into a node-local file
InvClusterShares == MultiNode(cfg.st, cfg.rd, cfg.ps) =>
                      /\ \A c \in SharedCats : VisibleAcrossNodes(cfg.st, cfg.rd, cfg.ps, c)
                      /\ ~LocalJSON(cfg.st, cfg.rd, cfg.ps)
=============================================================================
