\* C05 behaviour generation: every history of MaxFrames frames on one or two connections, every reader-thread
\* schedule, with the exit of each ReadPacket call the model predicts ("BEH" lines, history kept in the state).
CONSTANTS
  MaxFrames = @@FRAMES@@
  MaxConns = 2
  NThreads = 2
  RelSites = {}
  LeakAt = {}
  KeepAt = {}
  Answers = {"refused"}
  Emit = TRUE
INIT Init
NEXT Next
CONSTRAINT GenStop
CHECK_DEADLOCK FALSE
