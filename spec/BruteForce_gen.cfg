\* C18 behaviour generation (template). Transition coverage: `hist` is hidden by the VIEW, so TLC
\* visits every distinct model state once (its hist is a shortest history reaching it) and the Next
\* action prints the history after every step whose action is in EMITACTS:
\*   {"Unban"} / {"Unbl"}  = every placement of the asynchronous removal in the state graph
\*   {"dev"}               = every step at which the model records a deviation or a violation
\*                           (TLC's counterexamples to the strict property, as behaviours)
\*   all action names      = one behaviour per (state, action) transition
\* With VIEW blank and MAXHIST = n (and XCON = QueryLast) the run enumerates ALL histories of at most n
\* steps instead (used where the ORDER of steps matters although it leads to the same model state).
\* With -simulate, EMITACTS = {"end"} prints each random history once, at length MAXHIST.
CONSTANTS
  IPs = @@IPS@@
  Procs = @@PROCS@@
  Threshold = @@THR@@
  PermAt = @@PERMAT@@
  Win = @@WIN@@
  Ban = @@BAN@@
  BlDur = 2
  Burst = 2
  Refill = 500
  MaxClock = @@MAXCLOCK@@
  MaxTotal = @@MAXTOTAL@@
  MaxPend = 2
  MaxAdm = @@MAXADM@@
  Acts = @@ACTS@@
  Atomic = @@ATOMIC@@
  BlForms = @@BLFORMS@@
  Fixed = @@FIXED@@
  EmitActs = @@EMITACTS@@
  MaxHist = @@MAXHIST@@
INIT Init
NEXT Next
@@VIEW@@
CONSTRAINT Bounded @@XCON@@
INVARIANTS TypeOK
CHECK_DEADLOCK FALSE
