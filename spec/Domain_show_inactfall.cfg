\* C19 - deviation inactiveFallsThrough (neighbour of C19-r3m2): the same fall-through for an INACTIVE repository owner.
\* Expected: Invariant NoShadow is violated.
\*   tlc -config Domain_show_inactfall.cfg Domain.tla      (the same constants with Deviate = {} pass: `./check C19`)
CONSTANTS
  ProcsC1 = {"p1"}
  ProcsC2 = {}
  LookProcs = {"lk"}
  Names = {"n1"}
  MaxOps = 2
  MaxLook = 1
  Kinds = {"Create", "Update"}
  Pre = FALSE
  Faults = 0
  Guess = FALSE
  HandlerProcs = {}
  Serial = TRUE
  MaxLegacy = 1
  Fix = TRUE
  Spell = {"plain"}
  CaseFold = TRUE
  OnlyDelete = {}
  OnlyCreate = {}
  Deviate = {"inactiveFallsThrough"}
  DelFaults = FALSE
  CreateFaults = FALSE
  ReadFaults = FALSE
  TTLRollback = TRUE
  UpdFields = {"inactive", "expired"}
  LegStatus = {"active"}
  OnlyList = {}
  Emit = FALSE
INIT Init
NEXT Next
VIEW view
INVARIANTS TypeOK NoShadow
CHECK_DEADLOCK FALSE
