\* Documentation only (not run by the check): AS FOUND a forwarded tunnel does not pass the source's end-of-stream
\* on to the target's connection, against the strict liveness clauses.  TLC reports a lasso for ClosureSeen:
\* Attach("fwd"), the source end closes, the s2t loop is done - the t2s loop sits in Read on the silent target for ever.
CONSTANTS
  BUF = 3
  MaxSends = 0
  MaxSlow = 5
  Lims = {"none"}
  Classes = {"one"}
  Faults = TRUE
  Replace = FALSE
  ExtCloseOn = FALSE
  DevLimiter = FALSE
  DevNilFwd = FALSE
  DevStaleSrc = FALSE
  DevSleepLimiter = FALSE
  DevWriteLock = FALSE
  DevRouteFirst = FALSE
  DevCleanupFirst = FALSE
  RegLegs = {}
  DevIdleSweep = FALSE
  DevFwdNoEof = TRUE
  SrcKinds = {"direct"}
  ErrClasses = {"plain"}
  PollOn = FALSE
  RetryOn = {}
  RetryWriteOn = {}
  DevBufio = FALSE
  AttachKinds = {"fwd"}
  HoldOn = FALSE
  Gen = FALSE
  Emit = FALSE
SPECIFICATION LiveSpec
VIEW view
INVARIANTS TypeOK
PROPERTIES ClosureSeen Forgotten
CHECK_DEADLOCK FALSE
