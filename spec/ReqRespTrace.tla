---------------------------- MODULE ReqRespTrace ----------------------------
(* X04 judge (property level) for request/response matching: the client's ResponseManager behind   *)
(* sendCommandAndWaitResponse, the server's CommandResponseManager behind SendCommandToClient      *)
(* (local and through another node).  It knows nothing about maps, channels or locks: it sees calls, *)
(* the requests and responses on the wire, and what the calls return.  Alphabet, per trace:         *)
(*   Cfg     [tag]                  input class / variant (prefix of every verdict detail)             *)
(*   Call    [c, p]                 caller p starts call number c                                      *)
(*   Sent    [c, id]                the peer received the request of call c; it carries id             *)
(*   Resp    [n, id, k]             the peer is about to send response number n carrying id;           *)
(*                                  k = ok | bad (body is not JSON) | unknown (id nobody registered)    *)
(*   Handled [n]                    the reader that received response n is back at its read            *)
(*   Expire  [c]                    the driver is about to cancel the context of call c / its timer     *)
(*                                  has certainly fired                                                 *)
(*   Stop    []                     the driver is about to close the client (cancels every call)        *)
(*   Drop    []                     the peer is about to close the control connection                   *)
(*   Ret     [c, r, n]              call c returned: r = resp (n = number of the response it carries) |  *)
(*                                  parse (an error built from an unparsable body) | timeout |          *)
(*                                  cancelled | closed | err                                            *)
(*   Stuck   [c]                    call c has not returned 3 s after the driver expected it to         *)
(*   Panic   [n, msg]               a reader panicked while handling response n (client: readLoop's     *)
(*                                  recover logged it)                                                   *)
(*   Obs     [pending, alive, q]    standstill: entries in the matcher's map; the client's read loop    *)
(*                                  still reads; q = no call in flight                                   *)
(*   Final   [pending, alive, open] end: everything cancelled and given 10 s; open = calls that still   *)
(*                                  have not returned                                                    *)
(* Ordering argument: Call/Resp/Expire/Stop/Drop are logged BEFORE the action, Sent/Handled/Ret/Stuck  *)
(* AFTER the fact they report, into one mutex-ordered log.  Hence: "Resp n logged after Sent c and     *)
(* Handled n logged before Ret c, no Expire c logged before Ret c" means the response was sent after    *)
(* the request was out, and completely processed by the reader while nothing but the (far away) real    *)
(* timer could have ended the call.                                                                      *)
(* Clauses (detail = tag + class):                                                                      *)
(*   RightWaiter  a call returned a response that carries another request's id                          *)
(*   Spurious     a call returned a response nobody sent                                                *)
(*   AtMostOnce   the same response was returned twice                                                  *)
(*   Delivered    a call whose response (right id, sent after the request, while the call was neither   *)
(*                expired nor stopped) was completely handled returned something else, or is stuck      *)
(*   NoPanic      a reader panicked (:dup = an earlier response for the id had been sent, :stop = the     *)
(*                client was being closed, :late = the call had expired / returned, :other)              *)
(*   ReaderAlive  at a standstill the client's read loop is gone although nobody stopped the client      *)
(*                and the connection is up                                                               *)
(*   NoLeak       no call in flight, yet the matcher's map is not empty                                  *)
(*   Returns      a call never returned                                                                  *)
(*   NoIdReuse    (client) a request went out with the id of a request that is still pending             *)
(* Silent (accepted): what a call returns when its response races with its expiry, Stop or Drop; the    *)
(* value Deliver / HandleResponse reports; callers of the server that reuse a pending id.                *)
EXTENDS VLib

VARIABLES tag, call, resp, retd, stopped, dropped
vars == <<l, viol, tag, call, resp, retd, stopped, dropped>>

Init == /\ l = 1 /\ viol = {} /\ tag = "?" /\ call = <<>> /\ resp = <<>> /\ retd = {} /\ stopped = FALSE /\ dropped = FALSE

Vs(b, c, d) == IF b THEN {V(c, tag \o d)} ELSE {}
HasCall(c) == c \in DOMAIN call
HasResp(n) == n \in DOMAIN resp
\* calls that carry id
CallsOf(id) == {c \in DOMAIN call : call[c].id = id}
\* the call is owed a response: one with its id was sent while it was pending and has been handled completely
Owes(c) == /\ HasCall(c) /\ call[c].st = "sent" /\ ~call[c].exp /\ ~call[c].stuck
           /\ \E n \in DOMAIN resp : resp[n].id = call[c].id /\ resp[n].c = c /\ resp[n].live /\ resp[n].handled

TrCfg == /\ Is("Cfg") /\ tag' = Ev.tag
         /\ l' = l + 1 /\ UNCHANGED <<viol, call, resp, retd, stopped, dropped>>

TrCall == /\ Is("Call")
          /\ call' = (Ev.c :> [p |-> Ev.p, id |-> "", st |-> "called", exp |-> FALSE, stuck |-> FALSE]) @@ call
          /\ l' = l + 1 /\ UNCHANGED <<viol, tag, resp, retd, stopped, dropped>>

TrSent == /\ Is("Sent")
          /\ LET c == Ev.c IN
             /\ call' = (IF HasCall(c) /\ call[c].st = "called" THEN [call EXCEPT ![c].id = Ev.id, ![c].st = "sent"] ELSE call)
             /\ viol' = viol \cup Vs(\E d \in DOMAIN call : d # c /\ call[d].st = "sent" /\ call[d].id = Ev.id, "NoIdReuse", "")
          /\ l' = l + 1 /\ UNCHANGED <<tag, resp, retd, stopped, dropped>>

TrResp == /\ Is("Resp")
          /\ LET pend == {c \in CallsOf(Ev.id) : call[c].st = "sent" /\ ~call[c].exp}
                 dup  == \E n \in DOMAIN resp : resp[n].id = Ev.id IN
             resp' = (Ev.n :> [id |-> Ev.id, k |-> Ev.k, handled |-> FALSE,
                               c |-> IF pend = {} THEN 0 ELSE CHOOSE c \in pend : TRUE,
                               live |-> pend # {} /\ ~stopped /\ ~dropped /\ Ev.k \in {"ok", "bad"},
                               dup |-> dup]) @@ resp
          /\ l' = l + 1 /\ UNCHANGED <<viol, tag, call, retd, stopped, dropped>>

TrHandled == /\ Is("Handled")
             /\ resp' = (IF HasResp(Ev.n) THEN [resp EXCEPT ![Ev.n].handled = TRUE] ELSE resp)
             /\ l' = l + 1 /\ UNCHANGED <<viol, tag, call, retd, stopped, dropped>>

TrExpire == /\ Is("Expire")
            /\ call' = (IF HasCall(Ev.c) THEN [call EXCEPT ![Ev.c].exp = TRUE] ELSE call)
            /\ l' = l + 1 /\ UNCHANGED <<viol, tag, resp, retd, stopped, dropped>>

TrStop == /\ Is("Stop") /\ stopped' = TRUE
          /\ call' = [c \in DOMAIN call |-> [call[c] EXCEPT !.exp = TRUE]]
          /\ l' = l + 1 /\ UNCHANGED <<viol, tag, resp, retd, dropped>>

TrDrop == /\ Is("Drop") /\ dropped' = TRUE
          /\ l' = l + 1 /\ UNCHANGED <<viol, tag, call, resp, retd, stopped>>

TrRet ==
  /\ Is("Ret")
  /\ LET c == Ev.c
         id == IF HasCall(c) THEN call[c].id ELSE "?" IN
     /\ viol' = viol \cup
          (IF Ev.r = "resp"
           THEN Vs(~HasResp(Ev.n), "Spurious", "")
                \cup Vs(HasResp(Ev.n) /\ (resp[Ev.n].id # id \/ id = ""), "RightWaiter", IF HasResp(Ev.n) THEN ":" \o resp[Ev.n].k ELSE "")
                \cup Vs(HasResp(Ev.n) /\ resp[Ev.n].k # "ok", "Spurious", ":kind")
                \cup Vs(Ev.n \in retd, "AtMostOnce", "")
           ELSE IF Ev.r = "parse"
           THEN Vs(~\E n \in DOMAIN resp : resp[n].id = id /\ resp[n].k = "bad", "Spurious", ":parse")
           ELSE Vs(Owes(c), "Delivered", ":" \o Ev.r))
     /\ retd' = (IF Ev.r = "resp" THEN retd \cup {Ev.n} ELSE retd)
     /\ call' = (IF HasCall(c) THEN [call EXCEPT ![c].st = "ret"] ELSE call)
  /\ l' = l + 1 /\ UNCHANGED <<tag, resp, stopped, dropped>>

TrStuck == /\ Is("Stuck")
           /\ viol' = viol \cup Vs(Owes(Ev.c), "Delivered", ":stuck")
           /\ call' = (IF HasCall(Ev.c) THEN [call EXCEPT ![Ev.c].stuck = TRUE] ELSE call)
           /\ l' = l + 1 /\ UNCHANGED <<tag, resp, retd, stopped, dropped>>

\* history shape of a panic while response n was being handled (evaluated when the panic is reported)
Class(n) == IF resp[n].dup THEN ":dup"
            ELSE IF stopped THEN ":stop"
            ELSE IF \E c \in CallsOf(resp[n].id) : call[c].st = "ret" \/ call[c].exp THEN ":late"
            ELSE ":other"
TrPanic == /\ Is("Panic")
           /\ viol' = viol \cup {V("NoPanic", tag \o (IF HasResp(Ev.n) THEN Class(Ev.n) \o ":" \o resp[Ev.n].k ELSE ":?"))}
           /\ l' = l + 1 /\ UNCHANGED <<tag, call, resp, retd, stopped, dropped>>

TrObs == /\ Is("Obs")
         /\ viol' = viol \cup Vs(Ev.q /\ Ev.pending # 0, "NoLeak", "")
                         \cup Vs(~Ev.alive /\ ~stopped /\ ~dropped, "ReaderAlive", "")
         /\ l' = l + 1 /\ UNCHANGED <<tag, call, resp, retd, stopped, dropped>>

TrFinal == /\ Is("Final")
           /\ viol' = viol \cup Vs(Ev.pending # 0 /\ Len(Ev.open) = 0, "NoLeak", ":final")
                           \cup Vs(Len(Ev.open) # 0, "Returns", "")
                           \cup Vs(~Ev.alive /\ ~stopped /\ ~dropped, "ReaderAlive", "")
           /\ l' = l + 1 /\ UNCHANGED <<tag, call, resp, retd, stopped, dropped>>

TrEnd == /\ Is("End") /\ EmitVerdict
         /\ l' = l + 1 /\ viol' = {} /\ tag' = "?" /\ call' = <<>> /\ resp' = <<>> /\ retd' = {}
         /\ stopped' = FALSE /\ dropped' = FALSE

Next == TrCfg \/ TrCall \/ TrSent \/ TrResp \/ TrHandled \/ TrExpire \/ TrStop \/ TrDrop \/ TrRet \/ TrStuck
        \/ TrPanic \/ TrObs \/ TrFinal \/ TrEnd
Spec == Init /\ [][Next]_vars
=============================================================================
