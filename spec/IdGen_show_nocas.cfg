\* The code as it is, on a store WITHOUT SetNX, two generator instances (two nodes / two IDManagers):
\* TLC finds a duplicate (Unique violated): p1 Exists(free) - p2 Exists(free) - p1 Set - p2 Set.
\* Not run by the check (it must fail); kept to show the counterexample:
\*   tlc -config IdGen_show_nocas.cfg IdGen.tla
CONSTANTS
  Mode = "gen"
  Procs = {"p1", "p2"}
  HasNX = "no"
  NCands = 2
  MaxAttempts = 2
  MaxCalls = 2
  Layouts = {"distinct"}
  NSlots = 1
  RenewTier = "local"
  Wiring = "split"
  TTLTicks = 3
  MaxTicks = 0
  Faults = {}
  MaxRenewFails = 0
  MaxConsecFails = 1
  HbGiveUp = "never"
  GiveUpAfter = 0
  RenewTTLTicks = 3
  Realloc = FALSE
  StopChan = "once"
  MaxU = 1
  ExhaustionReturnsLast = FALSE
  ReturnedIdReleased = FALSE
  WithLapse = FALSE
  Emit = FALSE
INIT Init
NEXT Next
VIEW view
INVARIANTS TypeOK NoTaken Unique
CHECK_DEADLOCK FALSE
