\* Documentation only (not run by the check): the target's tunnel connection (joined through handleExistingBridge) left in the ClientRegistry (RegLegs = {"T"}),
\* against NoSpontaneousEnd.  TLC reports: Attach("pkt"), Hold - the sweeper closes the leg's stream,
\* the t2s copier ends and the bridge closes with both ends open.
CONSTANTS
  BUF = 3
  MaxSends = 0
  MaxSlow = 5
  Lims = {"none"}
  Classes = {"one"}
  Faults = TRUE
  Replace = FALSE
  ExtCloseOn = FALSE
  DevLimiter = FALSE
  DevNilFwd = FALSE
  DevStaleSrc = FALSE
  DevSleepLimiter = FALSE
  DevWriteLock = FALSE
  DevRouteFirst = FALSE
  DevCleanupFirst = FALSE
  RegLegs = {"T"}
  DevIdleSweep = FALSE
  DevFwdNoEof = FALSE
  SrcKinds = {"direct"}
  ErrClasses = {"plain"}
  PollOn = FALSE
  RetryOn = {}
  RetryWriteOn = {}
  DevBufio = FALSE
  AttachKinds = {"pkt"}
  HoldOn = TRUE
  Gen = FALSE
  Emit = FALSE
INIT Init
NEXT Next
VIEW view
INVARIANTS TypeOK NoSpontaneousEnd
CHECK_DEADLOCK FALSE
