\* X07 demonstration, EXPECTED TO FAIL (a broadcast writes a NotifyClient command into an authenticated tunnel connection): the code as found (TunnelInBroadcast) violates OnlyTarget
CONSTANTS
  Part = "send"
  Devs = {"TunnelInBroadcast"}
  Emit = FALSE
  MinLen = 0
  Eager = FALSE
  NS = 1
  MaxConn = 2
  MaxSend = 0
  MaxBcast = 1
  NH = 1
  MaxNotif = 1
  MaxAdd = 1
  NG = 2
  Flags = {}
  NP = 1
  MaxPush = 2
  MaxMove = 1
  MaxChange = 1
SPECIFICATION Spec
INVARIANTS TypeOK OnlyTarget
CHECK_DEADLOCK FALSE
