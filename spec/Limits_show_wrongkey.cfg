\* mapping quota with the mutex keyed on the client that issued the code instead of the listen client that owns the
\* quota, n codes of n different issuers: nothing serialises the activations.
\*   tlc -config Limits_show_wrongkey.cfg Limits.tla   (expected: Invariant NoDeviation is violated (WrongLockKey:
\*   Call(1), Call(2)); with INVARIANTS NoOvershoot instead: Call(1), Count(1), Put(1), Call(2), Count(2), Put(2))
CONSTANTS
  Kinds = {"mapquota"}
  NS = {2, 3, 4}
  Lims = {0, 1, 2}
  NodeCounts = {1}
  Variants = {"wrongkey"}
  Shape = "free"
  MaxReRel = 2
  Slacks = {1, 2}
  Listers = 1
  Retries = 1
  FixedKinds = {"conncap", "maplimit", "maplive", "codequota", "mapquota"}
  WithRelease = TRUE
  Emit = FALSE
  EmitMaxN = 4
  EmitAll = FALSE
INIT Init
NEXT Next
VIEW view
INVARIANTS TypeOK NoDeviation
CHECK_DEADLOCK FALSE
