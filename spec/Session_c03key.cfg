\* C03, stored secrets in depth: control-type messages with clients whose stored secret cannot be
\* decrypted by this server (rotated master key / noise / not base64 / too short / no encrypted secret) and
\* clients whose secret was reset or whose record was deleted: responses under the handed-out key, the superseded key, another
\* client's key, the empty key, over the latest and over an earlier challenge.
CONSTANTS
  Conn <- Conn2
  Client <- Client2
  MaxNonce = 2
  MaxFail = 3
  MaxCtl = 0
  Faults = {}
  Ops = {"Msg", "Corrupt", "Rekey", "Delete"}
  Types = {"control"}
  PreAccept = TRUE
  Fixes = @@FIXES@@
  Split = FALSE
  MaxLevel = @@LEVEL@@
  Emit = @@EMIT@@
INIT Init
NEXT Next
VIEW view
INVARIANTS TypeOK OnlyProven StepsOK ProvenIssued C07InvMasked C07OneMasked
CHECK_DEADLOCK FALSE
