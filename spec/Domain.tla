------------------------------- MODULE Domain -------------------------------
(* C19 - implementation-shaped model of the HTTP domain mapping life cycle and of the host     *)
(* lookup of the domain proxy, at storage-operation granularity.                                *)
(*                                                                                              *)
(* Code mapped                                                                                  *)
(*   internal/cloud/repos/http_domain_mapping_repository.go                                     *)
(*     CreateMapping   generateMappingID (Incr next_id) -> SetNX(index:<name>, id)              *)
(*                     -> Set(mapping:<id>, json) -> AppendToList(client:<c>, id)               *)
(*                     rollbacks: Set fails    -> Delete(index)                                 *)
(*                                Append fails -> Delete(mapping), Delete(index)                *)
(*     DeleteMapping   Get(mapping:<id>) -> owner check -> Delete(index:<name>)                 *)
(*                     -> Delete(mapping:<id>) -> RemoveFromList(client:<c>, id)                *)
(*                     (Fix = TRUE: the repaired code - the cascade runs under a per-mapping    *)
(*                      delete claim SetNX(lock:<id>), re-reads the record under the claim and  *)
(*                      deletes the index entry only while it still names this mapping)         *)
(*     UpdateMapping   Get(mapping:<id>) -> Set(mapping:<id>, json')                            *)
(*     LookupByDomain  Get(index:<name>) -> Get(mapping:<id>)                                   *)
(*     GetMappingsByClientID (List)  GetList(client:<c>) -> Get(mapping:<id>) for every listed  *)
(*                     id, RemoveFromList(client:<c>, id) for ids whose record is gone          *)
(*   internal/command/handler_http_domain_create.go + app/server/http_domain_repository_adapter *)
(*     (p in HandlerProcs)  Exists(index:<name>) -> CreateMapping -> UpdateMapping (expiry)     *)
(*                     -> on a failed update (TTLRollback): DeleteMapping, the create fails      *)
(*   internal/httpservice/modules/domainproxy/mapping_lookup.go  lookupMapping                  *)
(*     extractDomain(host) -> repository (status / expiry check) -> DomainRegistry.LookupByHost *)
(*     -> CloudControl.GetPortMappingByDomain (+ cache into the registry)                       *)
(*   internal/httpservice/domain_registry.go, modules/management/handlers_mapping.go            *)
(*     legacy HTTP mappings: LegCreate / LegDelete (atomic; registry of the node that serves    *)
(*     the management call is updated, the registries of other nodes are not)                   *)
(*                                                                                              *)
(* The global list tunnox:http_domain:mappings:list is an auxiliary index that nothing in the   *)
(* property reads; it is not modelled (its storage operations pass ungated in the driver).      *)
(*                                                                                              *)
(* Deviations of the code from the property are named in `dev` by the step that commits them:   *)
(*   foreignIndexDelete    DeleteMapping deletes an index entry that names another mapping      *)
(*   rollbackForeignIndex  CreateMapping's rollback deletes an index entry of another mapping   *)
(*   resurrect             UpdateMapping writes back a record that was deleted meanwhile        *)
(*   crossSourceClaim      the same name is claimed in the repository and as a legacy mapping   *)
(*   staleRegistryCache    a legacy mapping deleted on another node stays in this registry      *)
(*   caseVariantClaim      a second spelling (letter case) of an owned name is claimed          *)
(*   unstoredExpiry        a create through the command handler is acknowledged although its     *)
(*                         expiry update failed: the expires_at of the response is never stored  *)
(*                         (TTLRollback = FALSE; repaired by fix C19-3 = TTLRollback = TRUE)      *)
(* Deviations that the present code does not have; they are modelled so that TLC rejects them   *)
(* (invariants OnlyHolderUnlocks / LockHeld / LookupPure) and so that the generator can emit     *)
(* schedules that follow such code (jobs "legacy:dev:*", Deviate # {}):                          *)
(*   foreignUnlock  ("conflictUnlock" in Deviate)  a delete that lost the delete claim (Conflict) *)
(*                  removes the claim marker of the delete that holds it                          *)
(*   lookupWrites   ("lazyClean" in Deviate)  LookupByDomain deletes an index entry whose record  *)
(*                  it does not find - e.g. the entry a running CreateMapping has just claimed    *)
(*   listWrites     ("listHeals" in Deviate)  GetMappingsByClientID re-creates a missing index entry  *)
(*                  (SetNX) for the records it lists - e.g. the entry a delete has just released  *)
(*   doubleRegister ("splitRegister" in Deviate)  DomainRegistry.Register / the management create *)
(*                  check "name free?" and insert in two critical sections: two parallel legacy   *)
(*                  claims of one name are both acknowledged (no storage gate lies between the    *)
(*                  two halves, so this one is driven by parallel free-running Register rounds)   *)
(* Round 3 - fault handling, fall-through and write-on-read deviations (each has a Domain_show_*.cfg):  *)
(*   nxErrRelease   CreateMapping's shared "release the index" rollback also runs when the index SetNX     *)
(*                  returned an ERROR (nothing was claimed): it deletes the OWNER's index entry            *)
(*   nxTakenRelease the same rollback on the "name is taken" outcome of the SetNX                          *)
(*   expiredFallsThrough / inactiveFallsThrough   lookupMapping treats an expired / inactive repository   *)
(*                  owner as "name unknown to the repository" and goes on to the legacy sources: a legacy  *)
(*                  mapping of the same name (another client's) serves the request (legacyShadowsOwner)    *)
(*   errFallsThrough  a storage ERROR of the repository lookup is treated like "not found" (same effect)  *)
(*   legacyStatusIgnored  the status / revoked / expiry checks of the registry and cloud-control sources   *)
(*                  are skipped: an inactive legacy mapping routes (routeInactiveLegacy)                   *)
(*   listErrPrunes  GetMappingsByClientID treats a storage ERROR of a record read like "record gone" and   *)
(*                  drops the id from the client's list (listDropsLive)                                    *)
(*   unguardedIndexDelete  (round 4) deleteCascade holds the delete claim and has re-read the record, but no longer reads  *)
(*                  the index entry before deleting it (D_iget / R_iget skipped): the RETRY of a delete that failed after  *)
(*                  its index delete wipes the entry of the client that claimed the freed name meanwhile                   *)
(*   updateRelabelsDomain  (round 5) UpdateMapping's immutable-field check lacks the full-domain term: an update whose only    *)
(*                  changed field is FullDomain is stored; the cascade of the owner's delete then keys the index on the     *)
(*                  new label, its "still names me" guard skips it, and the real index entry dangles for ever               *)
(*   updateMovesClient     the same for the client-id term: the record (and the routing) moves to another client            *)
(*   updateHeals    UpdateMapping re-creates a missing index entry (SetNX) after its write - the update    *)
(*                  twin of listHeals: racing the owner's delete it leaves an index entry for ever         *)
EXTENDS Naturals, Sequences, FiniteSets, TLC, Json

CONSTANTS ProcsC1, ProcsC2,  \* API-call processes acting with the proven identity of client c1 / c2
          LookProcs,         \* processes issuing host lookups (requests arriving at the proxy)
          Names,             \* full domain names
          MaxOps,            \* calls per client process
          MaxLook,           \* lookups per lookup process
          Kinds,             \* subset of {"Create", "Delete", "Update"}
          Pre,               \* TRUE: mapping 1 (client c1, first name) exists initially
          Faults,            \* number of storage writes that fail (0 or 1)
          Guess,             \* TRUE: Delete may target ids that no create has returned yet
          HandlerProcs,      \* processes whose Create is the command handler path (pre-check + expiry update)
          Serial,               \* TRUE: calls do not overlap (sequential histories)
          MaxLegacy,         \* number of legacy (management API) HTTP mappings that may be created
          Fix,               \* TRUE: model of the repaired DeleteMapping / rollback
          Spell,             \* host / subdomain spellings in use: subset of {"plain", "port", "upper", "dot", "v6", "v6port"}
          CaseFold,          \* TRUE: model of the repaired index key (lower-cased full domain)
          OnlyDelete,        \* processes that only issue Delete calls / only Create calls ({} = no restriction);
          OnlyCreate,        \*   used by the three-deleters-one-claimant configuration
          Deviate,           \* named deviations of the code that are switched on (see below); {} = the code as it is
          OnlyList,          \* processes that only issue List calls (GetMappingsByClientID)
          CreateFaults,      \* TRUE: the one failing storage operation may also be the pre-check, the id counter, the index
                             \*       SetNX (an ERROR, not "taken") or the handler's expiry update of a create
          ReadFaults,        \* TRUE: the one failing storage operation may also be a READ-path operation: any operation of a
                             \*       listing (GetList, Get, RemoveFromList), of a host lookup (Get index, Get record) or of a
                             \*       stand-alone UpdateMapping (Get, Set)
          TTLRollback,       \* TRUE: model of the repaired adapter.CreateHTTPDomainMapping - when the expiry update of a create
                             \*       fails the mapping is deleted again (DeleteMapping) and the create FAILS; FALSE: the failure is
                             \*       only logged and the create is acknowledged with an expires_at that was never stored
                             \*       (deviation unstoredExpiry)
          UpdFields,         \* which field of the record an UpdateMapping call changes (one per call): subset of
                             \*   {"inactive", "expired"} (status / expiry), "target", "desc", "created" (mutable resp. unchecked: the record's
                             \*   identity is unchanged), "client", "sub", "base", "full" (immutable: the call is refused); "sub" and "full"
                             \*   take the value of ANOTHER name of Names, "client" the other client
          LegStatus,         \* statuses a legacy mapping may be created with: subset of {"active", "inactive", "expired", "revoked"}
          DelFaults,         \* TRUE: the one failing storage operation may be ANY operation of the repaired DeleteMapping
                             \*       (reads, the claim, the list removal, the release), not only its two deletes
          Emit

VARIABLES nextId, index, rec, clist, dlock,   \* the store
          reg, cc, nleg,                       \* legacy registry of the proxy node, cloud control, #legacy ids
          pc, cur, tmp, done, fault,
          lpend, legown,                       \* legacy claims that passed the check; acknowledged legacy owners
          okc, failc, deld, delok, inact, meta, legdead, snap, bad, dev,   \* ghosts
          hist

vars == <<nextId, index, rec, clist, dlock, reg, cc, nleg, pc, cur, tmp, done, fault,
          lpend, legown, okc, failc, deld, delok, inact, meta, legdead, snap, bad, dev, hist>>
view == <<nextId, index, rec, clist, dlock, reg, cc, nleg, pc, cur, tmp, done, fault,
          lpend, legown, okc, failc, deld, delok, inact, meta, legdead, snap, bad, dev>>

CProcs == ProcsC1 \cup ProcsC2
Procs == CProcs \cup LookProcs
Cl(p) == IF p \in ProcsC1 THEN "c1" ELSE "c2"
Clients == {"c1", "c2"}
FirstName == "n1"     \* name of the pre-existing mapping ("n1" must be in Names)
PreN == IF Pre THEN 1 ELSE 0
MaxId == PreN + Cardinality(CProcs) * MaxOps
Ids == 1..MaxId

NoRec == [c |-> "-", n |-> "-", k |-> "-", st |-> "none"]
Has(r) == r.st # "none"
NoLeg == [id |-> 0, c |-> "-", st |-> "-"]
NoCur == [op |-> "none", n |-> "-", k |-> "-", fb |-> "-", id |-> 0, st |-> "-", res |-> "-", ids |-> {}]

\* Host spellings (finite table) and the normalisation the code implements:
\*   extractDomain / DomainRegistry.LookupByHost cut the host at its LAST colon and change nothing else;
\*   the repository looks the result up under HTTPDomainIndexKey (exact spelling; lower-cased once repaired).
\*     plain   name              -> index key name                     registry / cloud control key name
\*     port    name:8080         -> index key name                     registry / cloud control key name
\*     upper   NAME              -> Up(name), or name with CaseFold    (no legacy entry under that spelling)
\*     dot     name.             -> never an index key ("x." is no <sub>.<base domain>)
\*     v6      [::1]             -> "[:"    never an index key
\*     v6port  [::1]:8080        -> "[::1]" never an index key
\* A subdomain may be claimed in the "plain" or the "upper" spelling (the code validates nothing about it).
Up(n) == n \o "^"
Keys == Names \cup {Up(n) : n \in Names}
KeyOf(sp, n) == CASE sp \in {"plain", "port"} -> n
                  [] sp = "upper" -> IF CaseFold THEN n ELSE Up(n)
                  [] OTHER -> "none"
Denotes(sp, n) == IF sp \in {"v6", "v6port"} THEN "-" ELSE n      \* the DNS name a spelling stands for
FbKey(sp, n) == IF sp \in {"plain", "port"} THEN n ELSE "-"         \* key of the two legacy sources
NoSnap == [dead |-> {}, inact |-> {}, legdead |-> {}, own |-> {}]

Init == /\ nextId = PreN
        /\ index = [k \in Keys |-> IF Pre /\ k = FirstName THEN 1 ELSE 0]
        /\ rec = [i \in Ids |-> IF Pre /\ i = 1 THEN [c |-> "c1", n |-> FirstName, k |-> FirstName, st |-> "active"] ELSE NoRec]
        /\ clist = [c \in Clients |-> IF Pre /\ c = "c1" THEN {1} ELSE {}]
        /\ dlock = [i \in Ids |-> "none"]          \* delete claim marker of mapping i: the process holding it
        /\ reg = [n \in Names |-> NoLeg] /\ cc = [n \in Names |-> NoLeg] /\ nleg = 0
        /\ pc = [p \in Procs |-> "idle"] /\ cur = [p \in Procs |-> NoCur]
        /\ tmp = [p \in Procs |-> NoRec] /\ done = [p \in Procs |-> 0]
        /\ fault = Faults
        /\ okc = (IF Pre THEN {1} ELSE {}) /\ failc = {} /\ deld = {} /\ delok = {} /\ inact = {}
        /\ meta = [i \in Ids |-> IF Pre /\ i = 1 THEN [c |-> "c1", n |-> FirstName, k |-> FirstName] ELSE [c |-> "-", n |-> "-", k |-> "-"]]
        /\ legdead = {} /\ snap = [p \in Procs |-> NoSnap] /\ lpend = {} /\ legown = {}
        /\ bad = {} /\ dev = {} /\ hist = <<>>

Out(h) == IF Emit THEN PrintT("BEH " \o ToJson(h)) ELSE TRUE
\* one history entry per step: process, action, whether the storage write of this step was made to fail,
\* the arguments of a call, and - on the step that makes the call return - the result the model expects
\* (compact encoding "p|a|f|r" resp. "p|a|f|r|op|c|n|id|st|sp" to keep the generated output small)
Log(e) == hist' = Append(hist, e) /\ Out(hist')
St(p, a, f, r) == p \o "|" \o a \o "|" \o (IF f THEN "1" ELSE "0") \o "|" \o r
CallSt(p, a, op, c, n, i, st, sp) == St(p, a, FALSE, "-") \o "|" \o op \o "|" \o c \o "|" \o n \o "|" \o ToString(i) \o "|" \o st \o "|" \o sp

Live == okc \ deld                         \* created successfully, no effective delete has begun
Known == IF Guess THEN Ids ELSE okc        \* ids a client can name in a Delete / Update call
AllIdle == \A q \in Procs : pc[q] = "idle"

U_store == UNCHANGED <<nextId, index, rec, clist, dlock>>
U_leg == UNCHANGED <<reg, cc, nleg, legdead, lpend, legown>>
U_ghost == UNCHANGED <<okc, failc, deld, delok, inact, meta, snap, bad, dev>>

\* ---- calls ------------------------------------------------------------------------------------
Call(p, c, first) ==
  /\ pc[p] = "idle" /\ (Serial => AllIdle)
  /\ cur' = [cur EXCEPT ![p] = c]
  /\ pc' = [pc EXCEPT ![p] = first]
  /\ tmp' = [tmp EXCEPT ![p] = NoRec]
  /\ UNCHANGED <<done, fault>> /\ U_store /\ U_leg
  /\ UNCHANGED <<okc, failc, deld, delok, inact, meta, bad, dev>>

CallCreate(p, n, sp) ==
  /\ p \in CProcs \ (OnlyDelete \cup OnlyList) /\ done[p] < MaxOps /\ "Create" \in Kinds /\ sp \in Spell \cap {"plain", "upper"}
  /\ Call(p, [NoCur EXCEPT !.op = "Create", !.n = n, !.k = KeyOf(sp, n), !.st = "active"], IF p \in HandlerProcs THEN "C_pre" ELSE "C_id")
  /\ snap' = snap
  /\ Log(CallSt(p, "Call", "Create", Cl(p), n, 0, "-", sp))

CallDelete(p, i) ==
  /\ p \in CProcs \ (OnlyCreate \cup OnlyList) /\ done[p] < MaxOps /\ "Delete" \in Kinds /\ i \in Known
  /\ Call(p, [NoCur EXCEPT !.op = "Delete", !.id = i, !.res = "ok"], "D_get")
  /\ snap' = snap
  /\ Log(CallSt(p, "Call", "Delete", Cl(p), "-", i, "-", "-"))

CallUpdate(p, i, s, n) ==     \* only the owner's side ever updates; no client-facing path. s = the changed field, n = its new value (a name)
  /\ p \in CProcs \ (OnlyCreate \cup OnlyDelete \cup OnlyList) /\ done[p] < MaxOps /\ "Update" \in Kinds /\ i \in okc /\ meta[i].c = Cl(p)
  /\ s \in UpdFields
  /\ IF s \in {"full", "sub"} THEN n \in Names \ {meta[i].n} ELSE n = "-"
  /\ Call(p, [NoCur EXCEPT !.op = "Update", !.id = i, !.st = s, !.n = n], "U_get")
  /\ snap' = snap
  /\ Log(CallSt(p, "Call", "Update", Cl(p), n, i, s, "-"))

CallList(p) ==       \* the client lists its own mappings
  /\ p \in CProcs \ (OnlyCreate \cup OnlyDelete) /\ done[p] < MaxOps /\ "List" \in Kinds
  /\ Call(p, [NoCur EXCEPT !.op = "List"], "G_list")
  /\ snap' = snap
  /\ Log(CallSt(p, "Call", "List", Cl(p), "-", 0, "-", "-"))

CallLookup(q, n, sp) ==
  /\ q \in LookProcs /\ done[q] < MaxLook /\ sp \in Spell
  /\ Call(q, [NoCur EXCEPT !.op = "Lookup", !.n = Denotes(sp, n), !.k = KeyOf(sp, n), !.fb = FbKey(sp, n)], "L_idx")
  /\ snap' = [snap EXCEPT ![q] = [dead |-> delok \cup failc, inact |-> inact, legdead |-> legdead, own |-> okc \ deld]]
  /\ Log(CallSt(q, "Call", "Lookup", "-", n, 0, "-", sp))

\* the call of p returns
Return(p) == /\ pc' = [pc EXCEPT ![p] = "idle"] /\ done' = [done EXCEPT ![p] = done[p] + 1]
Goto(p, l) == /\ pc' = [pc EXCEPT ![p] = l] /\ done' = done

\* ---- CreateMapping ----------------------------------------------------------------------------
CPre(p) ==   \* handler: checker.IsSubdomainAvailable = Exists(index)
  /\ pc[p] = "C_pre"
  /\ IF index[cur[p].k] # 0 THEN Return(p) /\ Log(St(p, "ChkIndex", FALSE, "fail"))
                            ELSE Goto(p, "C_id") /\ Log(St(p, "ChkIndex", FALSE, "-"))
  /\ UNCHANGED <<cur, tmp, fault>> /\ U_store /\ U_leg /\ U_ghost

CId(p) ==    \* Incr(next_id): atomic counter of the shared tier
  /\ pc[p] = "C_id" /\ nextId < MaxId
  /\ nextId' = nextId + 1
  /\ cur' = [cur EXCEPT ![p].id = nextId + 1]
  /\ meta' = [meta EXCEPT ![nextId + 1] = [c |-> Cl(p), n |-> cur[p].n, k |-> cur[p].k]]
  /\ Goto(p, "C_nx")
  /\ UNCHANGED <<index, rec, clist, dlock, tmp, fault, okc, failc, deld, delok, inact, snap, bad, dev>> /\ U_leg
  /\ Log(St(p, "NextId", FALSE, "-"))

CNx(p) ==    \* SetNX(index:<name>, id)
  /\ pc[p] = "C_nx"
  /\ LET n == cur[p].n
         k == cur[p].k IN
     IF index[k] = 0
     THEN /\ index' = [index EXCEPT ![k] = cur[p].id]
          /\ dev' = dev \cup (IF cc[n] # NoLeg \/ reg[n] # NoLeg THEN {"crossSourceClaim"} ELSE {})
                         \cup (IF \E k2 \in Keys \ {k} : index[k2] # 0 /\ meta[index[k2]].n = n THEN {"caseVariantClaim"} ELSE {})
          /\ failc' = failc
          /\ Goto(p, "C_rec") /\ Log(St(p, "ClaimIndex", FALSE, "-"))
     ELSE /\ index' = index /\ dev' = dev
          /\ failc' = failc \cup {cur[p].id}
          /\ IF "nxTakenRelease" \in Deviate THEN Goto(p, "C_rb_idx") /\ Log(St(p, "ClaimIndex", FALSE, "-"))   \* deviation
                                              ELSE Return(p) /\ Log(St(p, "ClaimIndex", FALSE, "fail"))
  /\ UNCHANGED <<nextId, rec, clist, dlock, cur, tmp, fault, okc, deld, delok, inact, meta, snap, bad>> /\ U_leg

CreateOk(p) == okc' = okc \cup {cur[p].id}

\* CreateFaults: the other storage operations of a create may be the one that fails
\*   Exists(index) of the handler's pre-check: reported as "taken";  Incr(next_id), SetNX(index) returning an
\*   ERROR: the create fails and nothing is rolled back (nothing was written; the index entry, if any, is the owner's)
\*   Get / Set of the handler's expiry update: logged and ignored, the create is acknowledged
CFault(p) ==
  /\ CreateFaults /\ fault > 0 /\ fault' = fault - 1
  /\ pc[p] \in {"C_pre", "C_id", "C_nx", "C_uget", "C_uset"}
  /\ ~(pc[p] = "C_nx" /\ "nxErrRelease" \in Deviate)
  /\ ~(pc[p] \in {"C_uget", "C_uset"} /\ TTLRollback)
  /\ Return(p)
  /\ dev' = IF pc[p] \in {"C_uget", "C_uset"} THEN dev \cup {"unstoredExpiry"} ELSE dev
  /\ CASE pc[p] = "C_pre" -> okc' = okc /\ failc' = failc /\ Log(St(p, "ChkIndex", TRUE, "fail"))
       [] pc[p] = "C_id" -> okc' = okc /\ failc' = failc /\ Log(St(p, "NextId", TRUE, "fail"))
       [] pc[p] = "C_nx" -> okc' = okc /\ failc' = failc \cup {cur[p].id} /\ Log(St(p, "ClaimIndex", TRUE, "fail"))
       [] pc[p] = "C_uget" -> CreateOk(p) /\ failc' = failc /\ Log(St(p, "UpdGet", TRUE, "ok"))
       [] pc[p] = "C_uset" -> CreateOk(p) /\ failc' = failc /\ Log(St(p, "UpdSet", TRUE, "ok"))
  /\ UNCHANGED <<cur, tmp, deld, delok, inact, meta, snap, bad>> /\ U_store /\ U_leg

\* TTLRollback: the expiry update failed - the adapter deletes the mapping again (the DeleteMapping steps below run as
\* part of this create call, which then FAILS) instead of acknowledging an expiry time that is not stored
CFaultTTL(p) ==
  /\ CreateFaults /\ TTLRollback /\ fault > 0 /\ fault' = fault - 1
  /\ pc[p] \in {"C_uget", "C_uset"}
  /\ Goto(p, "D_get")
  /\ UNCHANGED <<cur, tmp>> /\ U_store /\ U_leg /\ U_ghost
  /\ Log(St(p, IF pc[p] = "C_uget" THEN "UpdGet" ELSE "UpdSet", TRUE, "-"))

\* result / ghost bookkeeping of the DeleteMapping steps when they run as the rollback of a create (TTLRollback)
InRb(p) == cur[p].op = "Create"
DRes(p, r) == IF InRb(p) THEN "fail" ELSE r
DFailc(p) == IF InRb(p) THEN failc \cup {cur[p].id} ELSE failc

\* deviation nxErrRelease: the SetNX ERROR path runs the index rollback (Delete(index:<name>), unconditional)
CFaultNx(p) ==
  /\ CreateFaults /\ fault > 0 /\ fault' = fault - 1
  /\ pc[p] = "C_nx" /\ "nxErrRelease" \in Deviate
  /\ Goto(p, "C_rb_idx")
  /\ failc' = failc \cup {cur[p].id}
  /\ UNCHANGED <<cur, tmp, okc, deld, delok, inact, meta, snap, bad, dev>> /\ U_store /\ U_leg
  /\ Log(St(p, "ClaimIndex", TRUE, "-"))

CRec(p) ==   \* Set(mapping:<id>); a failure rolls the index back
  /\ pc[p] = "C_rec"
  /\ \/ /\ rec' = [rec EXCEPT ![cur[p].id] = [c |-> Cl(p), n |-> cur[p].n, k |-> cur[p].k, st |-> "active"]]
        /\ fault' = fault /\ Goto(p, "C_list") /\ Log(St(p, "PutRec", FALSE, "-"))
     \/ /\ fault > 0 /\ fault' = fault - 1 /\ rec' = rec
        /\ Goto(p, "C_rb_idx") /\ Log(St(p, "PutRec", TRUE, "-"))
  /\ UNCHANGED <<nextId, index, clist, dlock, cur, tmp>> /\ U_leg /\ U_ghost


CList(p) ==  \* AppendToList(client:<c>, id); a failure rolls record and index back
  /\ pc[p] = "C_list"
  /\ \/ /\ clist' = [clist EXCEPT ![Cl(p)] = @ \cup {cur[p].id}]
        /\ fault' = fault
        /\ IF p \in HandlerProcs THEN Goto(p, "C_uget") /\ okc' = okc /\ Log(St(p, "AddList", FALSE, "-"))
                         ELSE Return(p) /\ CreateOk(p) /\ Log(St(p, "AddList", FALSE, "ok"))
     \/ /\ fault > 0 /\ fault' = fault - 1 /\ clist' = clist /\ okc' = okc
        /\ Goto(p, IF Fix THEN "R_lock" ELSE "C_rb_rec") /\ Log(St(p, "AddList", TRUE, "-"))
  /\ UNCHANGED <<nextId, index, rec, dlock, cur, tmp, failc, deld, delok, inact, meta, snap, bad, dev>> /\ U_leg

CRbRec(p) == \* rollback: Delete(mapping:<id>)
  /\ pc[p] = "C_rb_rec"
  /\ rec' = [rec EXCEPT ![cur[p].id] = NoRec]
  /\ Goto(p, "C_rb_idx")
  /\ UNCHANGED <<nextId, index, clist, dlock, cur, tmp, fault>> /\ U_leg /\ U_ghost
  /\ Log(St(p, "RbRec", FALSE, "-"))

CRbIdx(p) == \* rollback: Delete(index:<name>) - unconditional
  /\ pc[p] = "C_rb_idx"
  /\ LET n == cur[p].k IN
     /\ index' = [index EXCEPT ![n] = 0]
     /\ dev' = IF index[n] \notin {0, cur[p].id} THEN dev \cup {"rollbackForeignIndex"} ELSE dev
  /\ failc' = failc \cup {cur[p].id}
  /\ Return(p)
  /\ UNCHANGED <<nextId, rec, clist, dlock, cur, tmp, fault, okc, deld, delok, inact, meta, snap, bad>> /\ U_leg
  /\ Log(St(p, "RbIdx", FALSE, "fail"))

\* handler path: adapter.CreateHTTPDomainMapping calls UpdateMapping (expiry, description); its
\* failure is only logged, the create still succeeds
CUGet(p) ==
  /\ pc[p] = "C_uget"
  /\ IF Has(rec[cur[p].id])
     THEN /\ tmp' = [tmp EXCEPT ![p] = rec[cur[p].id]] /\ Goto(p, "C_uset") /\ okc' = okc
          /\ Log(St(p, "UpdGet", FALSE, "-"))
     ELSE IF TTLRollback                    \* UpdateMapping reports "not found": rolled back like any other failure
     THEN /\ tmp' = tmp /\ Goto(p, "D_get") /\ okc' = okc /\ Log(St(p, "UpdGet", FALSE, "-"))
     ELSE /\ tmp' = tmp /\ Return(p) /\ CreateOk(p) /\ Log(St(p, "UpdGet", FALSE, "ok"))
  /\ UNCHANGED <<cur, fault, failc, deld, delok, inact, meta, snap, bad, dev>> /\ U_store /\ U_leg

CUSet(p) ==
  /\ pc[p] = "C_uset"
  /\ rec' = [rec EXCEPT ![cur[p].id] = tmp[p]]
  /\ dev' = IF ~Has(rec[cur[p].id]) THEN dev \cup {"resurrect"} ELSE dev
  /\ Return(p) /\ CreateOk(p)
  /\ UNCHANGED <<nextId, index, clist, dlock, cur, tmp, fault, failc, deld, delok, inact, meta, snap, bad>> /\ U_leg
  /\ Log(St(p, "UpdSet", FALSE, "ok"))

\* ---- DeleteMapping ----------------------------------------------------------------------------
DGet(p) ==   \* GetMapping + owner check
  /\ pc[p] = "D_get"
  /\ LET r == rec[cur[p].id] IN
     IF ~Has(r) THEN Return(p) /\ tmp' = tmp /\ failc' = DFailc(p) /\ Log(St(p, "DelGet", FALSE, DRes(p, "ok")))   \* already gone: success
     ELSE IF r.c # Cl(p) THEN Return(p) /\ tmp' = tmp /\ failc' = DFailc(p) /\ Log(St(p, "DelGet", FALSE, "fail"))      \* forbidden
     ELSE /\ tmp' = [tmp EXCEPT ![p] = r] /\ failc' = failc
          /\ Goto(p, IF Fix THEN "D_lock" ELSE "D_idx") /\ Log(St(p, "DelGet", FALSE, "-"))
  /\ UNCHANGED <<cur, fault, okc, deld, delok, inact, meta, snap, bad, dev>> /\ U_store /\ U_leg

DIdx(p) ==   \* Delete(index:<name>)  (unrepaired code: unconditional)
  /\ pc[p] = "D_idx"
  /\ LET n == tmp[p].k IN
     \/ /\ index' = [index EXCEPT ![n] = 0]
        /\ dev' = IF index[n] \notin {0, cur[p].id} THEN dev \cup {"foreignIndexDelete"} ELSE dev
        /\ deld' = deld \cup {cur[p].id}
        /\ fault' = fault /\ cur' = cur
        /\ Goto(p, "D_rec") /\ Log(St(p, "DelIdx", FALSE, "-"))
     \/ /\ fault > 0 /\ fault' = fault - 1 /\ index' = index /\ dev' = dev /\ deld' = deld
        /\ IF Fix THEN Goto(p, "D_unlock") /\ cur' = [cur EXCEPT ![p].res = "fail"] /\ Log(St(p, "DelIdx", TRUE, "-"))
                  ELSE Return(p) /\ cur' = cur /\ Log(St(p, "DelIdx", TRUE, "fail"))
  /\ UNCHANGED <<nextId, rec, clist, dlock, tmp, okc, failc, delok, inact, meta, snap, bad>> /\ U_leg

DRec(p) ==   \* Delete(mapping:<id>)
  /\ pc[p] = "D_rec"
  /\ \/ /\ rec' = [rec EXCEPT ![cur[p].id] = NoRec]
        /\ deld' = deld \cup {cur[p].id}
        /\ fault' = fault /\ cur' = cur
        /\ Goto(p, "D_list") /\ Log(St(p, "DelRec", FALSE, "-"))
     \/ /\ fault > 0 /\ fault' = fault - 1 /\ rec' = rec /\ deld' = deld
        /\ IF Fix THEN Goto(p, "D_unlock") /\ cur' = [cur EXCEPT ![p].res = "fail"] /\ Log(St(p, "DelRec", TRUE, "-"))
                  ELSE Return(p) /\ cur' = cur /\ Log(St(p, "DelRec", TRUE, "fail"))
  /\ UNCHANGED <<nextId, index, clist, dlock, tmp, okc, failc, delok, inact, meta, snap, bad, dev>> /\ U_leg

\* DelFaults: any other storage operation of the repaired DeleteMapping is the one that fails
\*   Get(mapping) before the claim, SetNX(lock): the call reports the error, nothing has happened
\*   Get(mapping) / Get(index) under the claim: the call reports the error and releases the claim
\*   RemoveFromList: ignored by the code;  Delete(lock): ignored, the marker stays until its TTL runs out
DFault(p) ==
  /\ Fix /\ DelFaults /\ fault > 0 /\ fault' = fault - 1 /\ ~InRb(p)
  /\ pc[p] \in {"D_get", "D_lock", "D_get2", "D_iget", "D_list", "D_unlock"}
  /\ CASE pc[p] = "D_get" -> Return(p) /\ cur' = cur /\ delok' = delok /\ Log(St(p, "DelGet", TRUE, "fail"))
       [] pc[p] = "D_lock" -> Return(p) /\ cur' = cur /\ delok' = delok /\ Log(St(p, "DelLock", TRUE, "fail"))
       [] pc[p] = "D_get2" -> Goto(p, "D_unlock") /\ cur' = [cur EXCEPT ![p].res = "fail"] /\ delok' = delok /\ Log(St(p, "DelGet2", TRUE, "-"))
       [] pc[p] = "D_iget" -> Goto(p, "D_unlock") /\ cur' = [cur EXCEPT ![p].res = "fail"] /\ delok' = delok /\ Log(St(p, "DelIdxGet", TRUE, "-"))
       [] pc[p] = "D_list" -> Goto(p, "D_unlock") /\ cur' = cur /\ delok' = delok /\ Log(St(p, "DelList", TRUE, "-"))
       [] pc[p] = "D_unlock" -> /\ Return(p) /\ cur' = cur
                                /\ delok' = IF cur[p].res = "ok" /\ cur[p].id \in deld THEN delok \cup {cur[p].id} ELSE delok
                                /\ Log(St(p, "DelUnlock", TRUE, cur[p].res))
  /\ UNCHANGED <<nextId, index, rec, clist, dlock, tmp, okc, failc, deld, inact, meta, snap, bad, dev>> /\ U_leg

DList(p) ==  \* RemoveFromList(client:<c>, id); errors are ignored by the code
  /\ pc[p] = "D_list"
  /\ clist' = [clist EXCEPT ![Cl(p)] = @ \ {cur[p].id}]
  /\ IF Fix THEN Goto(p, "D_unlock") /\ delok' = delok /\ Log(St(p, "DelList", FALSE, "-"))
            ELSE Return(p) /\ delok' = delok \cup {cur[p].id} /\ Log(St(p, "DelList", FALSE, "ok"))
  /\ UNCHANGED <<nextId, index, rec, dlock, cur, tmp, fault, okc, failc, deld, inact, meta, snap, bad, dev>> /\ U_leg

\* repaired code only: the delete claim, the re-read under the claim, the conditional index delete
DLock(p) ==  \* SetNX(lock:<id>)
  /\ pc[p] = "D_lock"
  /\ IF dlock[cur[p].id] # "none"
     THEN /\ dlock' = dlock                    \* Conflict: another delete of this mapping is running; the marker is left alone
          /\ IF "conflictUnlock" \in Deviate THEN Goto(p, "D_cunlock") /\ failc' = failc /\ Log(St(p, "DelLock", FALSE, "-"))
                                              ELSE Return(p) /\ failc' = DFailc(p) /\ Log(St(p, "DelLock", FALSE, "fail"))
     ELSE Goto(p, "D_get2") /\ dlock' = [dlock EXCEPT ![cur[p].id] = p] /\ failc' = failc /\ Log(St(p, "DelLock", FALSE, "-"))
  /\ UNCHANGED <<nextId, index, rec, clist, cur, tmp, fault, okc, deld, delok, inact, meta, snap, bad, dev>> /\ U_leg

\* deviation foreignUnlock: the loser of the claim deletes the marker (Delete(lock:<id>)) before it reports Conflict
DCUnlock(p) ==
  /\ pc[p] = "D_cunlock"
  /\ dlock' = [dlock EXCEPT ![cur[p].id] = "none"]
  /\ dev' = IF dlock[cur[p].id] \notin {"none", p} THEN dev \cup {"foreignUnlock"} ELSE dev
  /\ Return(p)
  /\ UNCHANGED <<nextId, index, rec, clist, cur, tmp, fault, okc, failc, deld, delok, inact, meta, snap, bad>> /\ U_leg
  /\ Log(St(p, "DelCUnlock", FALSE, "fail"))

DGet2(p) ==  \* GetMapping under the claim
  /\ pc[p] = "D_get2"
  /\ Goto(p, IF ~Has(rec[cur[p].id]) THEN "D_unlock" ELSE IF "unguardedIndexDelete" \in Deviate THEN "D_idx" ELSE "D_iget")
  /\ UNCHANGED <<cur, tmp, fault>> /\ U_store /\ U_leg /\ U_ghost
  /\ Log(St(p, "DelGet2", FALSE, "-"))

DIGet(p) ==  \* Get(index:<name>): delete it only if it still names this mapping
  /\ pc[p] = "D_iget"
  /\ Goto(p, IF index[tmp[p].k] = cur[p].id THEN "D_idx" ELSE "D_rec")
  /\ UNCHANGED <<cur, tmp, fault>> /\ U_store /\ U_leg /\ U_ghost
  /\ Log(St(p, "DelIdxGet", FALSE, "-"))

DUnlock(p) == \* Delete(lock:<id>)
  /\ pc[p] = "D_unlock"
  /\ dlock' = [dlock EXCEPT ![cur[p].id] = "none"]
  /\ dev' = IF dlock[cur[p].id] \notin {"none", p} THEN dev \cup {"foreignUnlock"} ELSE dev
  /\ Return(p)
  /\ delok' = IF ~InRb(p) /\ cur[p].res = "ok" /\ cur[p].id \in deld THEN delok \cup {cur[p].id} ELSE delok
  /\ failc' = DFailc(p)
  /\ UNCHANGED <<nextId, index, rec, clist, cur, tmp, fault, okc, deld, inact, meta, snap, bad>> /\ U_leg
  /\ Log(St(p, "DelUnlock", FALSE, DRes(p, cur[p].res)))

\* repaired code only: CreateMapping's rollback after a failed AppendToList runs the same guarded cascade
RLock(p) ==
  /\ pc[p] = "R_lock"
  /\ IF dlock[cur[p].id] # "none"
     THEN /\ Return(p) /\ dlock' = dlock /\ failc' = failc \cup {cur[p].id}      \* a delete of this mapping is running: it cleans up
          /\ Log(St(p, "RbLock", FALSE, "fail"))
     ELSE /\ Goto(p, "R_get") /\ dlock' = [dlock EXCEPT ![cur[p].id] = p] /\ failc' = failc
          /\ Log(St(p, "RbLock", FALSE, "-"))
  /\ UNCHANGED <<nextId, index, rec, clist, cur, tmp, fault, okc, deld, delok, inact, meta, snap, bad, dev>> /\ U_leg

RGet(p) ==
  /\ pc[p] = "R_get"
  /\ Goto(p, IF ~Has(rec[cur[p].id]) THEN "R_unlock" ELSE IF "unguardedIndexDelete" \in Deviate THEN "R_idx" ELSE "R_iget")
  /\ UNCHANGED <<cur, tmp, fault>> /\ U_store /\ U_leg /\ U_ghost
  /\ Log(St(p, "RbGet", FALSE, "-"))

RIGet(p) ==
  /\ pc[p] = "R_iget"
  /\ Goto(p, IF index[cur[p].k] = cur[p].id THEN "R_idx" ELSE "R_rec")
  /\ UNCHANGED <<cur, tmp, fault>> /\ U_store /\ U_leg /\ U_ghost
  /\ Log(St(p, "RbIdxGet", FALSE, "-"))

RIdx(p) ==
  /\ pc[p] = "R_idx"
  /\ index' = [index EXCEPT ![cur[p].k] = 0]
  /\ dev' = IF index[cur[p].k] \notin {0, cur[p].id} THEN dev \cup {"rollbackForeignIndex"} ELSE dev
  /\ Goto(p, "R_rec")
  /\ UNCHANGED <<nextId, rec, clist, dlock, cur, tmp, fault, okc, failc, deld, delok, inact, meta, snap, bad>> /\ U_leg
  /\ Log(St(p, "RbIdx", FALSE, "-"))

RRec(p) ==
  /\ pc[p] = "R_rec"
  /\ rec' = [rec EXCEPT ![cur[p].id] = NoRec]
  /\ Goto(p, "R_list")
  /\ UNCHANGED <<nextId, index, clist, dlock, cur, tmp, fault>> /\ U_leg /\ U_ghost
  /\ Log(St(p, "RbRec", FALSE, "-"))

RList(p) ==
  /\ pc[p] = "R_list"
  /\ clist' = [clist EXCEPT ![Cl(p)] = @ \ {cur[p].id}]
  /\ Goto(p, "R_unlock")
  /\ UNCHANGED <<nextId, index, rec, dlock, cur, tmp, fault>> /\ U_leg /\ U_ghost
  /\ Log(St(p, "RbList", FALSE, "-"))

RUnlock(p) ==
  /\ pc[p] = "R_unlock"
  /\ dlock' = [dlock EXCEPT ![cur[p].id] = "none"]
  /\ dev' = IF dlock[cur[p].id] \notin {"none", p} THEN dev \cup {"foreignUnlock"} ELSE dev
  /\ failc' = failc \cup {cur[p].id}
  /\ Return(p)
  /\ UNCHANGED <<nextId, index, rec, clist, cur, tmp, fault, okc, deld, delok, inact, meta, snap, bad>> /\ U_leg
  /\ Log(St(p, "RbUnlock", FALSE, "fail"))

\* ---- UpdateMapping ----------------------------------------------------------------------------
\* the immutable-field check follows the read without a storage operation in between: subdomain, base domain, full domain
\* and client id must equal the stored ones, else the call is refused and nothing is written.
\* Deviations updateRelabelsDomain / updateMovesClient: the full-domain resp. client term of that check is missing.
UpdRefused(s) == \/ s \in {"sub", "base"}
                 \/ s = "full" /\ "updateRelabelsDomain" \notin Deviate
                 \/ s = "client" /\ "updateMovesClient" \notin Deviate
UGet(p) ==
  /\ pc[p] = "U_get"
  /\ IF ~Has(rec[cur[p].id]) THEN tmp' = tmp /\ Return(p) /\ Log(St(p, "UpdGet", FALSE, "fail"))
     ELSE IF UpdRefused(cur[p].st) THEN tmp' = tmp /\ Return(p) /\ Log(St(p, "UpdGet", FALSE, "fail"))
     ELSE tmp' = [tmp EXCEPT ![p] = rec[cur[p].id]] /\ Goto(p, "U_set") /\ Log(St(p, "UpdGet", FALSE, "-"))
  /\ UNCHANGED <<cur, fault>> /\ U_store /\ U_leg /\ U_ghost

UpdRec(p) == LET s == cur[p].st IN
  CASE s \in {"inactive", "expired"} -> [tmp[p] EXCEPT !.st = s]
    [] s = "full" -> [tmp[p] EXCEPT !.n = cur[p].n, !.k = cur[p].n]                       \* deviation: the record now carries another name
    [] s = "client" -> [tmp[p] EXCEPT !.c = IF tmp[p].c = "c1" THEN "c2" ELSE "c1"]       \* deviation: ... another client
    [] OTHER -> tmp[p]                                                                    \* target / description / created-at
USet(p) ==
  /\ pc[p] = "U_set"
  /\ rec' = [rec EXCEPT ![cur[p].id] = UpdRec(p)]
  /\ dev' = dev \cup (IF ~Has(rec[cur[p].id]) THEN {"resurrect"} ELSE {})
                 \cup (IF cur[p].st \in {"full", "client"} THEN {"updateRelabels"} ELSE {})
  /\ inact' = IF cur[p].st \in {"inactive", "expired"} THEN inact \cup {cur[p].id} ELSE inact
  /\ IF "updateHeals" \in Deviate THEN Goto(p, "U_heal") /\ Log(St(p, "UpdSet", FALSE, "-"))
                                    ELSE Return(p) /\ Log(St(p, "UpdSet", FALSE, "ok"))
  /\ UNCHANGED <<nextId, index, clist, dlock, cur, tmp, fault, okc, failc, deld, delok, meta, snap, bad>> /\ U_leg

\* deviation updateWrites: SetNX(index:<name>, id) after the update of a record - an update claims no name
UHeal(p) ==
  /\ pc[p] = "U_heal"
  /\ LET k == tmp[p].k IN
     IF index[k] = 0
     THEN index' = [index EXCEPT ![k] = cur[p].id] /\ dev' = dev \cup {"updateWrites"}
     ELSE index' = index /\ dev' = dev
  /\ Return(p)
  /\ UNCHANGED <<nextId, rec, clist, dlock, cur, tmp, fault, okc, failc, deld, delok, inact, meta, snap, bad>> /\ U_leg
  /\ Log(St(p, "UpdHeal", FALSE, "ok"))

\* ReadFaults: Get / Set of a stand-alone UpdateMapping fails: the call reports the error, the record is unchanged
UFault(p) ==
  /\ ReadFaults /\ fault > 0 /\ fault' = fault - 1
  /\ pc[p] \in {"U_get", "U_set"}
  /\ Return(p)
  /\ UNCHANGED <<cur, tmp>> /\ U_store /\ U_leg /\ U_ghost
  /\ Log(St(p, IF pc[p] = "U_get" THEN "UpdGet" ELSE "UpdSet", TRUE, "fail"))

\* ---- GetMappingsByClientID --------------------------------------------------------------------
\* reads only, except that ids whose record is gone are dropped from the client's list
ListNext(p, ids) ==    \* continue with the remaining ids (ascending = list order) or return
  IF ids = {} THEN Return(p) /\ cur' = [cur EXCEPT ![p].ids = {}]
  ELSE Goto(p, "G_rec") /\ cur' = [cur EXCEPT ![p].ids = ids, ![p].id = CHOOSE i \in ids : \A j \in ids : i <= j]

GList(p) ==   \* GetList(client:<c>)
  /\ pc[p] = "G_list"
  /\ ListNext(p, clist[Cl(p)])
  /\ UNCHANGED <<tmp, fault>> /\ U_store /\ U_leg /\ U_ghost
  /\ Log(St(p, "ListGet", FALSE, IF clist[Cl(p)] = {} THEN "ok" ELSE "-"))

GRec(p) ==    \* Get(mapping:<id>)
  /\ pc[p] = "G_rec"
  /\ LET i == cur[p].id
         rest == cur[p].ids \ {i} IN
     IF ~Has(rec[i]) THEN Goto(p, "G_prune") /\ cur' = cur /\ Log(St(p, "ListRec", FALSE, "-"))
     ELSE IF "listHeals" \in Deviate /\ rec[i].st = "active" THEN Goto(p, "G_heal") /\ cur' = cur /\ Log(St(p, "ListRec", FALSE, "-"))
     ELSE ListNext(p, rest) /\ Log(St(p, "ListRec", FALSE, IF rest = {} THEN "ok" ELSE "-"))
  /\ UNCHANGED <<tmp, fault>> /\ U_store /\ U_leg /\ U_ghost

GPrune(p) ==  \* RemoveFromList(client:<c>, id) of a dangling id
  /\ pc[p] = "G_prune"
  /\ clist' = [clist EXCEPT ![Cl(p)] = @ \ {cur[p].id}]
  /\ dev' = IF cur[p].id \in Live /\ Has(rec[cur[p].id]) THEN dev \cup {"listDropsLive"} ELSE dev
  /\ ListNext(p, cur[p].ids \ {cur[p].id})
  /\ UNCHANGED <<nextId, index, rec, dlock, tmp, fault, okc, failc, deld, delok, inact, meta, snap, bad>> /\ U_leg
  /\ Log(St(p, "ListPrune", FALSE, IF cur[p].ids \ {cur[p].id} = {} THEN "ok" ELSE "-"))

\* ReadFaults: a storage operation of the listing fails
\*   GetList(client:<c>), Get(mapping:<id>) with an ERROR (not "not found"): the call reports the error, nothing is written
\*   RemoveFromList of a dangling id: ignored, the listing goes on
\* deviation listErrPrunes: the failed record read is taken for "record gone": the id is dropped from the client's list
GFault(p) ==
  /\ ReadFaults /\ fault > 0 /\ fault' = fault - 1
  /\ pc[p] \in {"G_list", "G_rec", "G_prune"}
  /\ LET rest == cur[p].ids \ {cur[p].id} IN
     CASE pc[p] = "G_list" -> Return(p) /\ cur' = cur /\ Log(St(p, "ListGet", TRUE, "fail"))
       [] pc[p] = "G_rec" -> IF "listErrPrunes" \in Deviate
                             THEN Goto(p, "G_prune") /\ cur' = cur /\ Log(St(p, "ListRec", TRUE, "-"))
                             ELSE Return(p) /\ cur' = [cur EXCEPT ![p].ids = {}] /\ Log(St(p, "ListRec", TRUE, "fail"))
       [] pc[p] = "G_prune" -> ListNext(p, rest) /\ Log(St(p, "ListPrune", TRUE, IF rest = {} THEN "ok" ELSE "-"))
  /\ UNCHANGED <<tmp>> /\ U_store /\ U_leg /\ U_ghost

\* deviation listWrites: SetNX(index:<name>, id) for a listed active record - a listing must not claim names
GHeal(p) ==
  /\ pc[p] = "G_heal"
  /\ LET k == rec[cur[p].id].k IN
     IF Has(rec[cur[p].id]) /\ index[k] = 0
     THEN index' = [index EXCEPT ![k] = cur[p].id] /\ dev' = dev \cup {"listWrites"}
     ELSE index' = index /\ dev' = dev
  /\ ListNext(p, cur[p].ids \ {cur[p].id})
  /\ UNCHANGED <<nextId, rec, clist, dlock, tmp, fault, okc, failc, deld, delok, inact, meta, snap, bad>> /\ U_leg
  /\ Log(St(p, "ListHeal", FALSE, IF cur[p].ids \ {cur[p].id} = {} THEN "ok" ELSE "-"))

\* ---- lookupMapping ----------------------------------------------------------------------------
\* fallbacks 2 and 3 use no storage operation of the repository: they happen in the same step as
\* the repository miss that leads to them
\* f: the storage operation of this step was made to fail (errFallsThrough only)
\* A legacy mapping that is not active / revoked / expired is found and REJECTED (no further source is asked);
\* a cloud-control hit is cached into the registry only after it passed these checks.
LRet(q) == Return(q) /\ snap' = [snap EXCEPT ![q] = NoSnap]       \* the lookup returns: its snapshot ghost is dropped
Shadowed(q, n) == \E i \in snap[q].own : meta[i].n = n /\ i \notin deld      \* a repository owner known before the lookup began and still undeleted
LegRoutes(x) == x.st = "active" \/ "legacyStatusIgnored" \in Deviate
LegBad(q, n, x) == (IF Shadowed(q, n) THEN {"legacyShadowsOwner"} ELSE {})
                   \cup (IF x.st # "active" THEN {"routeInactiveLegacy"} ELSE {})
Fallback(q, n, f) ==
  IF n = "-"
  THEN /\ reg' = reg /\ bad' = bad
       /\ Log(St(q, pc[q], f, "reject"))
  ELSE IF reg[n] # NoLeg
  THEN /\ reg' = reg
       /\ IF LegRoutes(reg[n])
          THEN /\ bad' = bad \cup LegBad(q, n, reg[n]) \cup (IF reg[n].id \in snap[q].legdead THEN {"routeDeadLegacy"} ELSE {})
               /\ Log(St(q, pc[q], f, "leg:" \o ToString(reg[n].id)))
          ELSE bad' = bad /\ Log(St(q, pc[q], f, "reject"))
  ELSE IF cc[n] # NoLeg
  THEN IF LegRoutes(cc[n])
       THEN /\ reg' = [reg EXCEPT ![n] = cc[n]]                  \* cached into the local registry
            /\ bad' = bad \cup LegBad(q, n, cc[n])
            /\ Log(St(q, pc[q], f, "leg:" \o ToString(cc[n].id)))
       ELSE reg' = reg /\ bad' = bad /\ Log(St(q, pc[q], f, "reject"))
  ELSE /\ reg' = reg /\ bad' = bad
       /\ Log(St(q, pc[q], f, "reject"))

LIdx(q) ==   \* Get(index:<name>)
  /\ pc[q] = "L_idx"
  /\ LET k == cur[q].k IN
     IF k \notin Keys \/ index[k] = 0
     THEN LRet(q) /\ Fallback(q, cur[q].fb, FALSE) /\ cur' = cur
     ELSE /\ cur' = [cur EXCEPT ![q].id = index[k]] /\ Goto(q, "L_rec") /\ snap' = snap
          /\ reg' = reg /\ bad' = bad /\ Log(St(q, "L_idx", FALSE, "-"))
  /\ UNCHANGED <<tmp, fault, cc, nleg, legdead, lpend, legown, okc, failc, deld, delok, inact, meta, dev>> /\ U_store

FallsThrough(st) == \/ st = "expired" /\ "expiredFallsThrough" \in Deviate
                    \/ st = "inactive" /\ "inactiveFallsThrough" \in Deviate

LRec(q) ==   \* Get(mapping:<id>), status / expiry check: a repository owner that is not active is REJECTED, the legacy
             \* sources are asked only when the repository does not know the name
  /\ pc[q] = "L_rec"
  /\ LET i == cur[q].id
         r == rec[i]
         n == cur[q].n IN
     IF ~Has(r) /\ "lazyClean" \in Deviate
       THEN Goto(q, "L_clean") /\ snap' = snap /\ reg' = reg /\ bad' = bad /\ Log(St(q, "L_rec", FALSE, "-"))
     ELSE IF ~Has(r) THEN LRet(q) /\ Fallback(q, cur[q].fb, FALSE)
     ELSE IF r.st # "active" /\ FallsThrough(r.st) THEN LRet(q) /\ Fallback(q, cur[q].fb, FALSE)      \* deviation
     ELSE IF r.st # "active" THEN /\ LRet(q) /\ reg' = reg /\ bad' = bad /\ Log(St(q, "L_rec", FALSE, "reject"))
     ELSE /\ LRet(q) /\ reg' = reg
          /\ bad' = bad \cup (IF i \in snap[q].dead THEN {"routeDead"} ELSE {})
                        \cup (IF i \in snap[q].inact THEN {"routeInactive"} ELSE {})
                        \cup (IF r.n # n \/ meta[i].c # r.c THEN {"routeForeign"} ELSE {})
          /\ Log(St(q, "L_rec", FALSE, "route:" \o ToString(i)))
  /\ UNCHANGED <<cur, tmp, fault, cc, nleg, legdead, lpend, legown, okc, failc, deld, delok, inact, meta, dev>> /\ U_store

\* ReadFaults: Get(index) / Get(mapping) of the lookup fails with an ERROR: the request is rejected (500), the legacy
\* sources are NOT asked (the repository may well own the name).  Deviation errFallsThrough: treated like "not found".
LFault(q) ==
  /\ ReadFaults /\ fault > 0 /\ fault' = fault - 1
  /\ pc[q] \in {"L_idx", "L_rec"}
  /\ LRet(q)
  /\ IF "errFallsThrough" \in Deviate THEN Fallback(q, cur[q].fb, TRUE)
                                      ELSE reg' = reg /\ bad' = bad /\ Log(St(q, pc[q], TRUE, "reject"))
  /\ UNCHANGED <<cur, tmp, cc, nleg, legdead, lpend, legown, okc, failc, deld, delok, inact, meta, dev>> /\ U_store

\* deviation lookupWrites: the lookup removes the "stale" index entry (Delete(index:<name>)) - a lookup must
\* leave the store unchanged (LookupPure)
LClean(q) ==
  /\ pc[q] = "L_clean"
  /\ index' = [index EXCEPT ![cur[q].k] = 0]
  /\ dev' = dev \cup {"lookupWrites"}
  /\ LRet(q) /\ Fallback(q, cur[q].fb, FALSE)
  /\ UNCHANGED <<nextId, rec, clist, dlock, cur, tmp, fault, cc, nleg, legdead, lpend, legown, okc, failc, deld, delok, inact, meta>>

\* ---- legacy HTTP mappings (management API; atomic) -------------------------------------------
\* here = TRUE: the call is served by the proxy node (its registry is updated as well)
\* The management API creates the PortMapping and registers it: "is the name free?" and the insert are one
\* critical section of DomainRegistry.Register (LegCreate). With "splitRegister" in Deviate they are two
\* (LegCheck, LegInsert): every claim that passed the check is acknowledged.
LegGuard(n, here) ==
  /\ nleg + Cardinality(lpend) < MaxLegacy /\ (Serial => AllIdle)
  /\ reg[n] = NoLeg \/ ~here                               \* IsSubdomainAvailable of the serving node's registry
  /\ cc[n] = NoLeg                                         \* (the administrator does not book a name twice across nodes)

LegEffect(c, n, here, st) ==
  /\ nleg' = nleg + 1
  /\ cc' = [cc EXCEPT ![n] = [id |-> nleg + 1, c |-> c, st |-> st]]
  /\ reg' = IF here THEN [reg EXCEPT ![n] = [id |-> nleg + 1, c |-> c, st |-> st]] ELSE reg
  /\ legown' = legown \cup {[id |-> nleg + 1, n |-> n]}
  /\ dev' = dev \cup (IF \E i \in Live : meta[i].n = n THEN {"crossSourceClaim"} ELSE {})
                \cup (IF ~here /\ reg[n] # NoLeg THEN {"staleRegistryCache"} ELSE {})
                \cup (IF \E x \in legown : x.n = n THEN {"doubleRegister"} ELSE {})
  /\ UNCHANGED <<pc, cur, tmp, done, fault, legdead, okc, failc, deld, delok, inact, meta, snap, bad>> /\ U_store
  /\ Log(CallSt("adm", "LegCreate", "LegCreate", c, n, nleg + 1, IF here THEN "here" ELSE "other", st))

LegCreate(c, n, here, st) ==
  /\ "splitRegister" \notin Deviate /\ st \in LegStatus
  /\ LegGuard(n, here) /\ LegEffect(c, n, here, st) /\ lpend' = lpend

LegCheck(c, n, here) ==
  /\ "splitRegister" \in Deviate /\ "active" \in LegStatus
  /\ LegGuard(n, here) /\ [c |-> c, n |-> n, here |-> here] \notin lpend
  /\ lpend' = lpend \cup {[c |-> c, n |-> n, here |-> here]}
  /\ UNCHANGED <<reg, cc, nleg, legdead, legown, pc, cur, tmp, done, fault, okc, failc, deld, delok, inact, meta, snap, bad, dev, hist>> /\ U_store

LegInsert(x) ==
  /\ x \in lpend /\ (Serial => AllIdle)
  /\ lpend' = lpend \ {x}
  /\ LegEffect(x.c, x.n, x.here, "active")

LegDelete(n, here) ==
  /\ cc[n] # NoLeg /\ (Serial => AllIdle)
  /\ cc' = [cc EXCEPT ![n] = NoLeg]
  /\ reg' = IF here /\ reg[n].id = cc[n].id THEN [reg EXCEPT ![n] = NoLeg] ELSE reg    \* UnregisterByMappingID
  /\ legdead' = legdead \cup {cc[n].id}
  /\ legown' = {x \in legown : x.id # cc[n].id} /\ lpend' = lpend
  /\ dev' = IF ~here /\ reg[n].id = cc[n].id THEN dev \cup {"staleRegistryCache"} ELSE dev
  /\ UNCHANGED <<pc, cur, tmp, done, fault, nleg, okc, failc, deld, delok, inact, meta, snap, bad>> /\ U_store
  /\ Log(CallSt("adm", "LegDelete", "LegDelete", cc[n].c, n, cc[n].id, IF here THEN "here" ELSE "other", "-"))

Next == \/ \E p \in CProcs : \/ \E n \in Names, sp \in Spell : CallCreate(p, n, sp)
                             \/ \E i \in Ids : CallDelete(p, i)
                             \/ \E i \in Ids, s \in UpdFields, n \in Names \cup {"-"} : CallUpdate(p, i, s, n)
                             \/ CallList(p) \/ GList(p) \/ GRec(p) \/ GPrune(p) \/ GHeal(p) \/ GFault(p) \/ CFault(p) \/ CFaultNx(p) \/ CFaultTTL(p)
                             \/ CPre(p) \/ CId(p) \/ CNx(p) \/ CRec(p) \/ CList(p) \/ CRbRec(p) \/ CRbIdx(p)
                             \/ CUGet(p) \/ CUSet(p)
                             \/ DGet(p) \/ DIdx(p) \/ DRec(p) \/ DList(p)
                             \/ DFault(p) \/ DLock(p) \/ DCUnlock(p) \/ DGet2(p) \/ DIGet(p) \/ DUnlock(p)
                             \/ RLock(p) \/ RGet(p) \/ RIGet(p) \/ RIdx(p) \/ RRec(p) \/ RList(p) \/ RUnlock(p)
                             \/ UGet(p) \/ USet(p) \/ UHeal(p) \/ UFault(p)
        \/ \E q \in LookProcs : \/ \E n \in Names, sp \in Spell : CallLookup(q, n, sp)
                                \/ LIdx(q) \/ LRec(q) \/ LClean(q) \/ LFault(q)
        \/ \E c \in Clients, n \in Names, h \in BOOLEAN : (\E st \in LegStatus : LegCreate(c, n, h, st)) \/ LegCheck(c, n, h)
        \/ \E x \in lpend : LegInsert(x)
        \/ \E n \in Names, h \in BOOLEAN : LegDelete(n, h)
Spec == Init /\ [][Next]_vars

\* ---- properties (C19) ---------------------------------------------------------------------------
TypeOK == /\ nextId \in 0..MaxId /\ fault \in 0..Faults
          /\ \A k \in Keys : index[k] \in 0..MaxId
          /\ \A p \in Procs : done[p] \in 0..(MaxOps + MaxLook)

\* (1) at most one live mapping owns a full domain name (legacy mappings count as owners too)
Owners(n) == {i \in Live : meta[i].n = n}
OneOwner == \A n \in Names : Cardinality(Owners(n)) + Cardinality({x \in legown : x.n = n}) <= 1
RegisterAtomic == "doubleRegister" \notin dev

\* (2) a lookup returns the owner's mapping or rejects: never a mapping that was surely dead or
\*     inactive before the lookup began, never one of another name / client
RouteOK == bad = {}

\* (3) only the owner's delete changes anything
OwnerOnly == \A p \in CProcs : pc[p] \in {"D_idx", "D_rec", "D_list", "D_lock", "D_cunlock", "D_get2", "D_iget", "D_unlock"} => tmp[p].c = Cl(p)

\* (3b) the delete claim: whoever is inside the guarded cascade of mapping i holds its marker (so at most one
\*      process is), a Conflict outcome leaves the marker alone, only the holder removes it
InCascade(p) == Fix /\ pc[p] \in {"D_get2", "D_iget", "D_idx", "D_rec", "D_list", "D_unlock", "R_get", "R_iget", "R_idx", "R_rec", "R_list", "R_unlock"}
LockHeld == \A p \in CProcs : InCascade(p) => dlock[cur[p].id] = p
OnlyHolderUnlocks == "foreignUnlock" \notin dev

\* (2b) a legacy mapping never serves a request for a name that has a repository owner (known before the lookup began,
\*      no delete of it begun) - whatever that owner's status; NOT excused by the cross-source known finding
NoShadow == "legacyShadowsOwner" \notin bad
\* (2c) a legacy mapping that is inactive / revoked / expired does not route
LegacyInactiveRejects == "routeInactiveLegacy" \notin bad

\* (3c) a lookup leaves the store unchanged
LookupPure == "lookupWrites" \notin dev
\* (3d) a listing claims nothing and drops no live mapping from its owner's list; an update claims nothing
ListPure == dev \cap {"listWrites", "listDropsLive"} = {}
UpdateClaimsNothing == dev \cap {"updateWrites", "updateRelabels"} = {}
\* (3e) whatever is updated, a record keeps the name and the client it was created with (an update never changes who owns which name)
UpdateKeepsIdentity == \A i \in Ids : Has(rec[i]) => (rec[i].n = meta[i].n /\ rec[i].c = meta[i].c)
\* (6) an acknowledged create has stored the expiry time its response acknowledges (else the mapping outlives it for ever)
ExpiryStored == "unstoredExpiry" \notin dev

\* (4) quiescent store: no index entry without its record (name unclaimable for ever), every live
\*     mapping is reachable through the index and listed for its owner
Quiet == \A p \in Procs : pc[p] = "idle"
Consistent == Quiet =>
  /\ \A k \in Keys : index[k] # 0 => (Has(rec[index[k]]) /\ rec[index[k]].k = k)
  /\ \A i \in Live : Has(rec[i]) /\ index[meta[i].k] = i /\ i \in clist[meta[i].c]

\* (5) after the owner's delete has returned the name is claimable again unless somebody re-claimed it
Claimable == Quiet => \A i \in delok : index[meta[i].k] # i

\* deviations that are recorded as known findings / repaired by Fix: one of them does not hide other routes
Excused == dev \cap {"crossSourceClaim", "staleRegistryCache"} # {}
OneOwnerX == OneOwner \/ Excused
RouteOKX == (bad \ {"legacyShadowsOwner", "routeInactiveLegacy"} = {}) \/ Excused
NoIndexTheft == dev \cap {"foreignIndexDelete", "rollbackForeignIndex", "caseVariantClaim"} = {}
=============================================================================
