\* C07, the heartbeat-timeout sweep in its two parts: locked section of ClientRegistry.CleanupStale
\* (SweepBegin: the stale connection leaves both maps) and the callback that follows outside the lock
\* (SweepEnd: offline notification done, CloseConnection, stream closed), with logins (of the same client on
\* another connection, of the stale connection itself), closes and kicks in between; TickX = a whole sweep
\* with the cloud-control fault point of its callback (Cloud = outage begins / ends).
\* VIEW viewX = state graph (exhaustive check); without it every history to the depth bound is a state.
CONSTANTS
  Conn <- Conn3
  Client <- @@CLIENT@@
  MaxNonce = 2
  MaxFail = 3
  MaxCtl = 0
  Faults = @@FAULTS@@
  Ops = @@OPS@@
  Types = {"control"}
  PreAccept = TRUE
  Fixes = @@FIXES@@
  Split = FALSE
  MaxLevel = @@LEVEL@@
  Emit = @@EMIT@@
INIT InitX
NEXT NextX
@@VIEW@@
INVARIANTS TypeOKX OnlyProven C07InvX C07OneX SweepComplete
CHECK_DEADLOCK FALSE
