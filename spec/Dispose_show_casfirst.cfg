\* C16, documentation run (not part of ./check): hypothetical design "casfirst" alone against the STRICT property.
\* TLC reports "Invariant LeakFree is violated":
\* Tunnel.Start doing its CAS before SetCtx: a Close in between closes a Dispose without context, SetCtx re-
\* opens the latch on a fresh context and the monitors spawned afterwards never end (dev_ctxlate)
\* The check itself (Dispose.cfg) verifies the same configuration against  property \/ named deviation  and passes.
CONSTANTS
  Suite = "show_casfirst"
  Emit = FALSE
INIT Init
NEXT Next
VIEW view
INVARIANTS TypeOK LeakFree
CHECK_DEADLOCK FALSE
