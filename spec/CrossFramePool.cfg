\* C10 pooled-connection reuse: all histories of <=3 tunnels (each ending clean or with a residual
\* frame) on one pool; exhaustive check and behaviour generator. ProbeRejectsData is substituted:
\* FALSE = the code as it is (AlignedKnown holds, AlignedStrict does not).
CONSTANTS
  MaxTunnels = 3
  F = 3
  ProbeResets = TRUE
  ProbeRejectsData = @@REJ@@
  Emit = @@EMIT@@
INIT Init
NEXT Next
INVARIANTS NoLeftoverDeadline AlignedKnown
CHECK_DEADLOCK FALSE
