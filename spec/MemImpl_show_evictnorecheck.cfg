\* C13 - named deviation of spec/MemImpl.tla: seeded C13-r2m1 - the second section of GetExpiration / GetHash / GetAllHash deletes by name. Expected: StoresAgree violated - Set(S); Tick; p1 GetExp (answers not-found, goes for the write lock); p2 Set(ttl 0); p1 Evict.
\*   tlc -config MemImpl_show_evictnorecheck.cfg MemImpl.tla      (the same constants with Sweep = "locked", Evict = "recheck",
\*   LazyReads / OldCAS / OldSetExp = FALSE pass: ./check C13)
CONSTANTS
  Keys = {"s1"}
  Vals = {"a", "b"}
  MaxClock = 2
  OldCAS = FALSE
  OldSetExp = FALSE
  Procs = {"p1", "p2"}
  Sweepers = {}
  Sweep = "locked"
  Evict = "norecheck"
  LazyReads = FALSE
  Emit = FALSE
INIT Init
NEXT Next
INVARIANTS TypeOK StoresAgree AnswersAgree NeverExpiringStays
PROPERTY SilentInvisible
CHECK_DEADLOCK FALSE
