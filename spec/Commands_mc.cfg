\* C11 design model, exhaustive: actor connection through every handshake state,
\* then up to MaxCmds commands of every row of the policy table x packet type x claimed fields x object.
\* Substituted by the driver: SETS (row sets), FIXES (patches the modelled tree has), DEVS (named deviations: {} in every run of
\* the check; Commands_show_*.cfg have one each), WVS (world variants), CMDS, RESP, EMIT.
CONSTANTS
  Sets = @@SETS@@
  WVs = @@WVS@@
  Fixes = @@FIXES@@
  Devs = @@DEVS@@
  MaxCmds = @@CMDS@@
  RespToo = @@RESP@@
  Emit = @@EMIT@@
INIT Init
NEXT Next
VIEW view
INVARIANTS TypeOK EffIdIsAuth UnauthNoEffect UnauthRefused PartyOnly CreatedForCaller DeliveredToParty
CHECK_DEADLOCK FALSE
