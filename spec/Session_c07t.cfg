\* C07 thorough: 3 connections x 3 clients, more challenges per connection.
CONSTANTS
  Conn <- Conn3
  Client <- Client3
  MaxNonce = 4
  MaxFail = 3
  MaxCtl = 0
  Faults = {}
  Ops = {"Accept", "FirstLogin", "Login", "Knock", "Close", "Kick", "Heartbeat", "Tick", "Unregister", "Cloud"}
  Types = {"control", "tunnel"}
  PreAccept = FALSE
  Fixes = @@FIXES@@
  Split = FALSE
  MaxLevel = @@LEVEL@@
  Emit = @@EMIT@@
INIT Init
NEXT Next
VIEW view
INVARIANTS TypeOK OnlyProven @@INV@@
CHECK_DEADLOCK FALSE
