\* Documentation only (not run by the check): the list commands trust the per-client index (class of seeded change C11-r3m1).
\* With WVs = {"base"} TLC finds nothing - index and records agree; after MigrateClientMappings the former listen client A
\* still has m1 in its index and TLC reports PartyOnly: A, authenticated, MappingList "inbound" returns m1 = C <-> B.
CONSTANTS
  Sets = {"server", "special"}
  WVs = {"base", "migrated", "migratedT"}
  Fixes = {"trafficParty", "dnsAuth", "domainAuth", "notifyAuth", "socksAuth"}
  Devs = {"listByIndex"}
  MaxCmds = 1
  RespToo = FALSE
  Emit = FALSE
INIT Init
NEXT Next
VIEW view
INVARIANTS TypeOK EffIdIsAuth UnauthNoEffect UnauthRefused PartyOnly CreatedForCaller DeliveredToParty
CHECK_DEADLOCK FALSE
