\* Documentation only (not run by the check; verified by hand): the design that encodes
\* routing records into a pooled buffer which goes back to the pool before the command is sent.
\* TLC reports StoredOwn violated: Enc(t1), Enc(t2) [gets t1's buffer back], Send(t1) - the store
\* holds t2's bytes under t1's key.
CONSTANTS
  Tunnels = {"t1", "t2"}
  Lookers = {}
  PooledEncode = TRUE
  PooledDecode = FALSE
  MaxHist = 99
  Emit = FALSE
INIT Init
NEXT Next
VIEW view
INVARIANTS TypeOK StoredOwn
CHECK_DEADLOCK FALSE
