\* Documentation only (not run by the check): named deviation "phase2SkipsIdentityCheck" of Session.tla - the
\* one-identity check runs on first connect and phase 1 only.  TLC: FC(c1) = A, FC(c2) = B, P1(c1, A) = challenge,
\* P2(c1, B, response under B's key) = ok: c1 flips from A to B and replaces B's control channel.
\* TLC reports StepsOK violated (IdentityFlipped, ControlChannelTakenOver); Session_c03msg.cfg (Faults = {}) passes.
CONSTANTS
  Conn <- Conn2
  Client <- Client2
  MaxNonce = 2
  MaxFail = 3
  MaxCtl = 0
  Faults = {"phase2SkipsIdentityCheck"}
  Ops = {"Msg"}
  Types = {"control", "tunnel"}
  PreAccept = TRUE
  Fixes = {"oneIdentity", "atomicEvict"}
  Split = FALSE
  MaxLevel = 5
  Emit = "no"
INIT Init
NEXT Next
VIEW view
INVARIANTS TypeOK OnlyProven StepsOK ProvenIssued C07InvMasked C07OneMasked
CHECK_DEADLOCK FALSE
