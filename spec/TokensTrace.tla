---------------------------- MODULE TokensTrace ----------------------------
(* X02 judge: what a user of security.ReconnectTokenManager / security.SessionTokenManager relies  *)
(* on, over the observable alphabet of the component (calls and their answers).                     *)
(*                                                                                                  *)
(* Events (one trace = one world: a deployment of managers sharing secret k1 over their stores,      *)
(* plus a foreign manager with secret k2):                                                           *)
(*   Cfg   [sc, be]                    scene "rt" | "st", backend label (only used in details)        *)
(*   Issue [t, sec, cl]                token number t was generated under secret `sec` for client cl  *)
(*   Call  [p, op, t, tam, sec, st, cur, chk]                                                         *)
(*                                     process p presents token t, tampered as `tam`, to a manager    *)
(*                                     with secret `sec` over store `st`; op = val (Validate only) |  *)
(*                                     use (Validate, then MarkTokenAsUsed; accepted iff both nil) |  *)
(*                                     mark (MarkTokenAsUsed only = revocation) | renew | should      *)
(*   Ret   [p, ok, why, ph]            the answer; ph = where the call's real-time bracket lies with  *)
(*                                     respect to the token's true expiry: "live" (returned before),  *)
(*                                     "dead" (started after), "edge" (straddles it: no demand)       *)
(*         renew: [p, ok, keeps]       keeps = new token has the presented client/ip/fingerprint,     *)
(*                                     a later expiry and a fresh id                                  *)
(*         should: [p, val, rem]       rem = remaining lifetime "below" | "above" | "edge" threshold  *)
(*   Tick                              the driver let time pass (informational)                        *)
(*                                                                                                  *)
(* Clauses:                                                                                          *)
(*   Authentic     accepted => issued under the validator's secret and no signed field changed        *)
(*                 (tam "act" = LastActivity of a session token, documented as unsigned, is allowed)   *)
(*   NeverLate     a call that starts after the expiry is never accepted (a forged presentation that   *)
(*                 is accepted is reported under Authentic only)                                       *)
(*   SingleUse     at most one accepted use per reconnect token (counted among uses returning live)   *)
(*   RevokedStays  a validation/use that starts after a successful mark/use returned, and returns     *)
(*                 while the token is live, is not accepted                                           *)
(*   IPBound       st: checkIP with a different, non-empty current address is refused                 *)
(*   Exact         no spurious refusal: an authentic, live token on which no use/mark was ever        *)
(*                 started is accepted (whatever happened to other tokens / clients); and of the      *)
(*                 live uses of a never-marked token at least one is accepted (":lost")               *)
(*   RenewKeeps / ShouldRenew   the helper contracts of the session token manager                     *)
EXTENDS VLib

VARIABLES sc, be, tk, calls, done, acc, ms, want
vars == <<l, viol, sc, be, tk, calls, done, acc, ms, want>>

Empty == [x \in {} |-> {}]
Init == /\ l = 1 /\ viol = {} /\ sc = "rt" /\ be = "?"
        /\ tk = Empty /\ calls = Empty /\ done = Empty /\ acc = Empty /\ ms = Empty /\ want = Empty

Put(f, k, v) == [x \in DOMAIN f \cup {k} |-> IF x = k THEN v ELSE f[x]]

TrCfg == /\ Is("Cfg") /\ sc' = Ev.sc /\ be' = Ev.be
         /\ l' = l + 1 /\ UNCHANGED <<viol, tk, calls, done, acc, ms, want>>

TrIssue == /\ Is("Issue")
           /\ tk' = Put(tk, Ev.t, [sec |-> Ev.sec, cl |-> Ev.cl])
           /\ done' = Put(done, Ev.t, {}) /\ acc' = Put(acc, Ev.t, {})
           /\ ms' = Put(ms, Ev.t, {}) /\ want' = Put(want, Ev.t, [w |-> FALSE, m |-> FALSE])
           /\ l' = l + 1 /\ UNCHANGED <<viol, sc, be, calls>>

TrCall == /\ Is("Call")
          /\ calls' = Put(calls, Ev.p, [op |-> Ev.op, t |-> Ev.t, tam |-> Ev.tam, sec |-> Ev.sec, st |-> Ev.st,
                                        cur |-> Ev.cur, chk |-> Ev.chk, l0 |-> l,
                                        rv |-> {d.st : d \in done[Ev.t]},
                                        others |-> ms[Ev.t]])
          /\ ms' = IF Ev.op \in {"use", "mark"} THEN [ms EXCEPT ![Ev.t] = @ \cup {Ev.p}] ELSE ms
          /\ want' = IF Ev.op = "mark" THEN [want EXCEPT ![Ev.t].m = TRUE] ELSE want
          /\ l' = l + 1 /\ UNCHANGED <<viol, sc, be, tk, done, acc>>

Auth(c) == tk[c.t].sec = c.sec /\ c.tam \in {"none", "act"}

RetVal(c) ==
  LET ok  == Ev.ok
      ph  == Ev.ph
      ipx == c.chk /\ c.cur = "other"
      v1 == IF ok /\ ~Auth(c) THEN {V("Authentic", sc \o ":" \o (IF tk[c.t].sec # c.sec THEN "foreign" ELSE c.tam))} ELSE {}
      v2 == IF ok /\ ph = "dead" /\ Auth(c) THEN {V("NeverLate", sc \o ":" \o c.op)} ELSE {}
      v3 == IF ok /\ ph = "live" /\ c.rv # {}
            THEN {V("RevokedStays", sc \o ":" \o (IF c.st \in c.rv THEN "same" ELSE "xnode"))} ELSE {}
      v4 == IF ok /\ c.op = "use" /\ ph = "live" /\ acc[c.t] # {}
            THEN {V("SingleUse", sc \o ":" \o (IF \E a \in acc[c.t] : a.l1 > c.l0 THEN "conc" ELSE "seq")
                                   \o ":" \o (IF \E a \in acc[c.t] : a.st = c.st THEN "same" ELSE "xnode"))} ELSE {}
      v5 == IF ok /\ ipx THEN {V("IPBound", sc)} ELSE {}
      \* no use/mark has ever been started on this token, except by this very call
      untouched == (ms[c.t] \cup c.others) \ {Ev.p} = {}
      v6 == IF ~ok /\ Auth(c) /\ ph = "live" /\ untouched /\ ~ipx
            THEN {V("Exact", sc \o ":spurious:" \o c.op \o ":" \o Ev.why)} ELSE {}
  IN /\ viol' = viol \cup v1 \cup v2 \cup v3 \cup v4 \cup v5 \cup v6
     /\ acc' = IF ok /\ c.op = "use" THEN [acc EXCEPT ![c.t] = @ \cup {[st |-> c.st, l0 |-> c.l0, l1 |-> l]}] ELSE acc
     /\ done' = IF ok /\ c.op = "use" THEN [done EXCEPT ![c.t] = @ \cup {[st |-> c.st, l1 |-> l]}] ELSE done
     /\ want' = IF ~ok /\ c.op = "use" /\ Auth(c) /\ ph = "live" THEN [want EXCEPT ![c.t].w = TRUE] ELSE want

RetMark(c) == /\ done' = IF Ev.ok THEN [done EXCEPT ![c.t] = @ \cup {[st |-> c.st, l1 |-> l]}] ELSE done
              /\ UNCHANGED <<viol, acc, want>>

RetRenew(c) == /\ viol' = viol \cup (IF Ev.ok /\ Ev.keeps THEN {} ELSE {V("RenewKeeps", sc \o ":" \o (IF Ev.ok THEN "changed" ELSE "failed"))})
               /\ UNCHANGED <<done, acc, want>>

RetShould(c) == /\ viol' = viol \cup (IF Ev.rem = "edge" \/ Ev.val = (Ev.rem = "below") THEN {}
                                      ELSE {V("ShouldRenew", sc \o ":" \o Ev.rem)})
                /\ UNCHANGED <<done, acc, want>>

TrRet == /\ Is("Ret")
         /\ LET c == calls[Ev.p]
            IN CASE c.op \in {"val", "use"} -> RetVal(c)
                 [] c.op = "mark"           -> RetMark(c)
                 [] c.op = "renew"          -> RetRenew(c)
                 [] OTHER                   -> RetShould(c)
         /\ l' = l + 1 /\ UNCHANGED <<sc, be, tk, calls, ms>>

TrTick == Is("Tick") /\ l' = l + 1 /\ UNCHANGED <<viol, sc, be, tk, calls, done, acc, ms, want>>

Lost == {V("Exact", sc \o ":lost") : t \in {x \in DOMAIN want : want[x].w /\ ~want[x].m /\ acc[x] = {}}}

TrEnd == /\ Is("End")
         /\ PrintT("VERDICT " \o ToJson([tr |-> Ev.tr, viol |-> SetToSeq(viol \cup Lost)]))
         /\ l' = l + 1 /\ viol' = {} /\ sc' = "rt" /\ be' = "?"
         /\ tk' = Empty /\ calls' = Empty /\ done' = Empty /\ acc' = Empty /\ ms' = Empty /\ want' = Empty

Next == TrCfg \/ TrIssue \/ TrCall \/ TrRet \/ TrTick \/ TrEnd
Spec == Init /\ [][Next]_vars
=============================================================================
