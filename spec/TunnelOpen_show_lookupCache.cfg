\* Named deviation "lookupCache" (the behaviour class of seeded change C04-m3): the tunnel handler
\* memoises a positive validation of the mapping and never drops it; a request after the mapping
\* was revoked / expired / deactivated / deleted is validated against the memo.
\* Must FAIL (AttachedEntitled; dev memoisedValidation);
\* the check confirms it through TunnelOpen_show_all.cfg (one run for all named deviations):
\*   tlc -config TunnelOpen_show_lookupCache.cfg TunnelOpen.tla
CONSTANTS
  FIXES = {"validateJoin", "secretValidity", "bindMapping", "bindMappingPoll"}
  Idents = {"none", "noneHs", "listen", "target", "stranger"}
  Creds = {"idOnly", "rightSecret", "wrongSecret", "resume", "nothing", "otherId", "otherSecret"}
  MStates = {"active", "revoked", "expired", "expiredJust", "lapsed", "inactive", "error", "suspended", "missing"}
  Shapes = {"std"}
  MUT = {"lookupCache"}
  TStates = {"waiting", "served"}
  Orders = {"legitFirst"}
  Masked = FALSE
  Emit = FALSE
INIT Init
NEXT Next
INVARIANTS TypeOK AttachedEntitled RefusedClean OnlyAttachedRead LegitWorks
CHECK_DEADLOCK FALSE
