------------------------------ MODULE CtrlConn ------------------------------
(* X05 (extension) - implementation-shaped model of the life cycle of the client's control        *)
(* connection: internal/client/control_connection.go (Connect, Disconnect, Reconnect),             *)
(* control_connection_handshake.go (sendHandshake), control_connection_read.go (readLoop),         *)
(* control_connection_keepalive.go (heartbeatLoop, sendHeartbeat), reconnect.go (reconnect,        *)
(* shouldReconnect), command_handler.go (handleKickCommand), client_core.go (Stop, the clean-up    *)
(* handler of Close).  The automatic end-point detection (auto_connector.go,                       *)
(* control_connection_dial.go) is a separate scene of the driver (see CtrlConnTrace.tla, clause    *)
(* NoSpuriousClose/auto); it is not part of this state machine.                                    *)
(*                                                                                                 *)
(* (a) CODE MAPPED - one action per critical section / blocking point.  "x" is a caller of         *)
(* Connect(): a user goroutine ("u1","u2") or the reconnect loop ("rc").                           *)
(*                                                                                                 *)
(*  goroutine   code                                        actions                                *)
(*  user        Connect()                                   UConnect   entry: ctx check, dial goroutine started (blocks in the dialer)   *)
(*              Reconnect()                                 UReconnect CAS reconnecting; Disconnect(); Connect() as above                *)
(*              Disconnect()                                UDisconnect c.mu section: close stream+conn, fields = nil                   *)
(*              Stop() / Close()                            UStop      disconnect note, cancel ctx, clean-up handler closes controlConn *)
(*  Connect(x)  transport.Dial returned a connection        DialOK     (seam: yield point client.connect.dialed, patch X05-0)            *)
(*              c.mu section                                Install    controlConn/controlStream = new; handshake request written; the   *)
(*                                                                     caller blocks reading the reply                                   *)
(*                                                          DialFail   dial error: Connect returns the error                             *)
(*              dial of a Connect that gave up returns      DialLate   (Stop cancelled the Connect while its goroutine was in the dialer) *)
(*              sendHandshake returned                      HsOK       readLoop / heartbeatLoop started (as found: behind the            *)
(*                                                                     readLoopRunning / heartbeatLoopRunning compare-and-swap)          *)
(*                                                          HsRej      server refused (kind auth: authFailed = true); clean-up section   *)
(*                                                          HsErr      connection closed under the caller / dropped; clean-up section    *)
(*                                                          HsTimeout  (repaired only) the handshake deadline expired                    *)
(*  readLoop    ReadPacket returned an error                RLErr      (seam: the transport's failing Read returns when the driver says) *)
(*              c.mu clean-up section + deferred            RLCleanup  close, fields = nil, shouldReconnect(), `go c.reconnect()`        *)
(*              shouldReconnect / go reconnect                                                                                           *)
(*              readLoopRunning.Store(false)                RLExit     (seam: yield point client.readloop.exiting, patch X05-0)          *)
(*              KickClient command received                 RLKick     kicked = true, Stop() inline, loop sees ctx done, defer            *)
(*  heartbeat   ticker fired: stream snapshot (RLock)       HBTick     nil => error path; else about to write (seam: the conn's Write)   *)
(*              WritePacket returned                        HBWrite    error => c.mu clean-up section                                    *)
(*              loop returns, flag reset                    HBExit     (seam: the log call "failed to send heartbeat")                   *)
(*              ctx.Done                                    HBStop                                                                       *)
(*  reconnect   `go c.reconnect()`: CAS reconnecting        (part of RLCleanup / RLKick: the loop arrives at its wait)                   *)
(*              timer fired / ctx done, shouldReconnect,    RCFire     (seam: the log call "waiting %v before reconnect attempt")        *)
(*              Connect() entered                                                                                                        *)
(*              Connect returned an error                   (part of DialFail/Hs*: attempts++, delay*Backoff, top of loop: kicked /      *)
(*                                                          authFailed (os.Exit) / ctx / MaxAttempts, next wait)                        *)
(*              Connect returned nil, the loop returns:     RCDone     (seam: the log call "reconnect successful")                       *)
(*              deferred reconnecting.Store(false)                                                                                       *)
(*  server      closes / resets an established connection   SrvDrop                                                                     *)
(*                                                                                                 *)
(* Time: the back-off delays themselves are not state here (a wait is one step); their bounds are  *)
(* a clause of the judge (BackoffLower, MaxAttempts), checked on every real trace.  The 5 s        *)
(* heart-beat period is the environment action HBTick.                                             *)
(*                                                                                                 *)
(* (b) WHAT A USER RELIES ON                                                                       *)
(*   OneLive       at most one established control connection at a time                            *)
(*   NoOrphan      every open socket is the current connection or the one being handshaken         *)
(*   Served        an established current connection has a read loop reading IT and a heart-beat   *)
(*                 loop (else the client is deaf / the server times it out)                        *)
(*   OneReconnector at most one holder of the reconnect role (loop or a user's Reconnect())        *)
(*   NoSpurious    a healthy established connection is closed only because the user asked          *)
(*                 (Stop/Disconnect/Reconnect) or the server kicked - ghost `spur`                 *)
(*   StopClean     after Stop, once everything has come to rest: no loop, no Connect in flight, no *)
(*                 open socket; QuietAfterStop (action property): no connection is established    *)
(*                 any more; QuietAfterKick: no new dial                                           *)
(*   Recovers      (liveness, weak fairness on every client step and on the server's answers,      *)
(*                 bounded faults) eventually for ever: stopped, kicked, exited (auth failure),    *)
(*                 gave up (MaxAttempts), or connected AND served                                  *)
(*   Terminates    (liveness) stopped ~> every goroutine gone                                      *)
(*                                                                                                 *)
(* (c) NAMED DEVIATIONS of the code as found (Fixed = FALSE; ghost `dev`), each with a             *)
(* CtrlConn_show_*.cfg that makes TLC print a schedule:                                            *)
(*   DoubleConnect    reconnect() never looks whether the client is connected already: a user's    *)
(*                    Connect() during the back-off wait (CLI `connect`) succeeds, then the loop   *)
(*                    dials again and overwrites controlConn without closing it: two established   *)
(*                    connections, the first one orphaned (show_double)                            *)
(*   StaleCleanup     the failure clean-up of readLoop / sendHeartbeat / Connect closes whatever   *)
(*                    is CURRENT, not the connection that failed: a stalled failure path closes    *)
(*                    the healthy connection a later Connect installed (show_stale)                *)
(*   SkippedReadLoop  Connect starts no read loop when readLoopRunning is still set - the old      *)
(*                    loop is on its way out (between `go c.reconnect()` and the flag reset) or    *)
(*                    blocked on an orphan: connected, heart-beating, deaf for ever (show_deaf)    *)
(*   SkippedHeartbeat same for heartbeatLoopRunning while the old loop is returning (show_silent)  *)
(*   LostReconnect    the loop releases the reconnecting flag only when it returns; a connection it *)
(*                    has just established and that is lost again before that (a server that drops  *)
(*                    right after the handshake) finds the flag set - `go c.reconnect()` of its     *)
(*                    read loop returns at once - and nobody ever reconnects (show_lost; found by   *)
(*                    the free-running "churn" scene without any scheduling help)                   *)
(*   LateInstall      Connect does not look at the context after the dial: a Stop between the dial's  *)
(*                    return and the c.mu section closes nothing new; the connection is installed,  *)
(*                    handshaken (packet I/O ignores the context), its loops return at once: an     *)
(*                    established connection nobody owns survives Stop (show_late; found by the     *)
(*                    free-running scene "stop-race")                                               *)
(*   LostDial         Connect gives up when its context is cancelled while the dial goroutine is     *)
(*                    still in the dialer; a connection the dialer returns at that moment is put     *)
(*                    into a channel nobody reads: never closed (show_lostdial; found by             *)
(*                    "stop-race")                                                                   *)
(*   HandshakeHang    the handshake reply is read without any deadline: a server that accepts and  *)
(*                    stays silent blocks Connect - and with it the reconnect loop - for ever      *)
(*                    (show_hang, liveness)                                                        *)
(* Fixed = TRUE is the repaired design (patches X05-1..3, X05-6..8): Connect is serialised and     *)
(* returns at once when connected; read loop and heart-beat loop are bound to the connection they  *)
(* were started for, every clean-up closes that connection only; the handshake has a deadline; the *)
(* reconnect loop looks again after it has released its flag; Connect looks at the context again   *)
(* once the new connection is installed and closes what a dial returns after it has given up.      *)
(*                                                                                                 *)
(* WHERE THE CONTRACT IS SILENT (accepted, modelled as the code does it): Disconnect() is followed *)
(* by an automatic reconnect; a user's Reconnect() that loses/wins the reconnecting flag against   *)
(* the loop (a failed user Reconnect() may leave no loop behind: the caller got the error);        *)
(* IsConnected() after Stop; jitter may lengthen a delay beyond MaxDelay; Connect() called by the  *)
(* user while connected or while another user call is connecting (not generated).  Not modelled:   *)
(* server traffic other than kick (the read loop as found re-reads c.controlStream per packet);    *)
(* the circuit breaker (judge clause Breaker); the moment at which the goroutine started by        *)
(* `go c.reconnect()` performs its compare-and-swap (taken as part of the read loop's clean-up).   *)
EXTENDS Naturals, Sequences, FiniteSets, TLC, Json

CONSTANTS Users,        \* user goroutines, e.g. {"u1","u2"}
          MaxConn,      \* connections per behaviour (largest scene)
          Scenes,       \* one TLC run explores several bounded scenes; a scene is a record
                        \*   [name, users (subset of Users that act), ops (API calls they may make: subset of
                        \*    {"Connect","Reconnect","Disconnect","Stop"}), init (TRUE: start from an established, served
                        \*    connection - the usual prefix), conn (successful dials), user (API calls), drop, fail, rej,
                        \*    tick, kick, silent (faults / environment events of each kind)]
          RejKinds,     \* subset of {"auth","other"}
          MaxAttempts,  \* ReconnectConfig.MaxAttempts (0 = unlimited)
          Fixed, Emit

\* ---- the scene sets the configurations refer to (Scenes <- ...) -----------------------------------
AllOps == {"Connect", "Reconnect", "Disconnect", "Stop"}
Sc(name, users, ops, init, conn, user, drop, fail, rej, tick, kick, silent) ==
  [name |-> name, users |-> users, ops |-> ops, init |-> init, conn |-> conn, user |-> user, drop |-> drop, fail |-> fail,
   rej |-> rej, tick |-> tick, kick |-> kick, silent |-> silent]
\*                                                              init   conn user drop fail rej tick kick silent
ScApi   == Sc("api",  {"u1", "u2"}, AllOps,                     TRUE,  3,   2,   1,   1,   1,  0,   0,   0)
ScEnv   == Sc("env",  {"u1"}, {"Connect", "Reconnect", "Stop"}, TRUE,  3,   1,   1,   1,   1,  1,   1,   1)
ScCold  == Sc("cold", {"u1", "u2"}, {"Connect", "Stop"},        FALSE, 2,   2,   1,   1,   1,  0,   0,   0)
ScCore  == Sc("core", {"u1", "u2"}, {"Connect", "Stop"},        TRUE,  3,   2,   1,   1,   1,  0,   1,   0)
ScApi0  == Sc("api",  {"u1", "u2"}, AllOps,                     TRUE,  3,   2,   1,   1,   0,  0,   0,   0)
ScHb    == Sc("hb",   {"u1"}, {"Connect", "Reconnect", "Stop"}, TRUE,  3,   1,   1,   0,   0,  1,   0,   0)
ScCold1 == Sc("cold", {"u1"}, {"Connect", "Stop"},              FALSE, 2,   2,   1,   1,   1,  0,   0,   0)
ScLive  == Sc("live", {"u1"}, {"Connect", "Disconnect", "Stop"}, TRUE, 3,   1,   1,   1,   1,  1,   1,   1)
ScLive2 == Sc("live2", {"u1", "u2"}, {"Connect", "Disconnect", "Stop"}, TRUE, 3, 2, 1,   1,   1,  1,   1,   1)
ScBig   == Sc("big",  {"u1", "u2"}, AllOps,                     TRUE,  4,   3,   2,   1,   1,  0,   0,   0)
ScEnv2  == Sc("env2", {"u1", "u2"}, AllOps,                     TRUE,  3,   2,   1,   1,   1,  1,   1,   1)
ScSim   == Sc("sim",  {"u1", "u2"}, AllOps,                     TRUE,  4,   3,   2,   2,   1,  0,   1,   0)
ScAtt   == Sc("att",  {"u1"}, {"Connect", "Stop"},              TRUE,  3,   1,   1,   3,   0,  0,   0,   0)
ScHang  == Sc("hang", {"u1"}, {},                               TRUE,  3,   0,   1,   0,   0,  0,   0,   1)
McQuick   == {ScApi, ScEnv, ScCold}
AttScenes == {ScAtt}
HangScenes == {ScHang}
ScLost  == Sc("lost", {"u1"}, {},                               TRUE,  3,   0,   2,   0,   0,  0,   0,   0)
LostScenes == {ScLost}
McBig     == {ScBig, ScEnv2, ScCold}
LiveQuick == {ScLive}
LiveBig   == {ScLive2}
GenQuick  == {ScCore, ScApi0, ScHb, ScCold1}
SimScenes == {ScSim}

Callers == Users \cup {"rc"}
Conns   == 1..MaxConn
Slots   == 0..MaxConn      \* heart-beat loops: slot 0 = the single loop of the code as found, slot c = the loop of connection c (repaired)

VARIABLES s, hist
vars == <<s, hist>>
view == s

Conn0 == [st |-> "none", hs |-> FALSE, srv |-> "up"]
Hb0   == [pc |-> "off", c |-> 0]

Init0(sc) == [sc |-> sc, stopped |-> FALSE, kicked |-> FALSE, exited |-> FALSE, gaveUp |-> FALSE, authFailed |-> FALSE,
          cur |-> 0, cs |-> [c \in Conns |-> Conn0], nconn |-> 0,
          rlRun |-> FALSE, hbRun |-> FALSE, recon |-> FALSE,
          rl |-> [c \in Conns |-> "off"],          \* read loop that was started for / reads connection c: off|read|err|exiting
          hb |-> [i \in Slots |-> Hb0],            \* pc: off|idle|write|failed ; c = stream snapshot of the tick
          rc |-> [pc |-> "off", k |-> 0],          \* reconnect loop: off|wait|conn ; k = failed attempts of this loop
          cn |-> [x \in Callers |-> [pc |-> "off", c |-> 0]],   \* Connect() in flight: off|dial|hs
          us |-> [u \in Users |-> ""],             \* API call in flight ("" = none)
          cnt |-> [user |-> 0, drop |-> 0, fail |-> 0, rej |-> 0, tick |-> 0, kick |-> 0, silent |-> 0],
          orph |-> 0,                              \* dial goroutines whose Connect() has given up (Stop) and that are still in the dialer
          dev |-> {}, spur |-> FALSE]

\* the usual prefix: Connect succeeded, both loops run
Init1(sc) == [Init0(sc) EXCEPT !.cur = 1, !.nconn = 1, !.cs[1] = [st |-> "open", hs |-> TRUE, srv |-> "up"],
                       !.rlRun = TRUE, !.hbRun = TRUE, !.rl[1] = "read",
                       !.hb[IF Fixed THEN 1 ELSE 0] = [pc |-> "idle", c |-> IF Fixed THEN 1 ELSE 0]]

Init == /\ \E sc \in Scenes : s = IF sc.init THEN Init1(sc) ELSE Init0(sc)
        /\ hist = <<>>

\* ---- helpers (state transformers) ---------------------------------------------------------------
Dev(t, d) == [t EXCEPT !.dev = @ \cup {d}]
Healthy(t, c) == c # 0 /\ t.cs[c].st = "open" /\ t.cs[c].hs /\ t.cs[c].srv = "up"
CloseConn(t, c) == IF c = 0 \/ t.cs[c].st # "open" THEN t ELSE [t EXCEPT !.cs[c].st = "closed"]
\* a close nobody asked for: the connection was healthy, the user did not stop / disconnect, the server did not kick
Spur(t, c) == IF Healthy(t, c) /\ ~t.stopped THEN [t EXCEPT !.spur = TRUE] ELSE t

\* the failure clean-up section of somebody who was using connection c
Cleanup(t, c) ==
  IF Fixed
  THEN LET t1 == CloseConn(t, c) IN IF t.cur = c THEN [t1 EXCEPT !.cur = 0] ELSE t1
  ELSE IF t.cur = 0 THEN t
       ELSE LET t0 == IF t.cur # c THEN Dev(Spur(t, t.cur), "StaleCleanup") ELSE t
            IN [CloseConn(t0, t.cur) EXCEPT !.cur = 0]

\* shouldReconnect() + `go c.reconnect()` up to the loop's first wait
SpawnRc(t) == IF t.kicked THEN t
              ELSE IF t.authFailed THEN [t EXCEPT !.exited = TRUE]
              ELSE IF t.stopped \/ t.recon THEN t
              ELSE [t EXCEPT !.recon = TRUE, !.rc = [pc |-> "wait", k |-> 0]]

\* Connect() of caller x returns r
ConnRet(t, x, r) ==
  LET t1 == [t EXCEPT !.cn[x] = [pc |-> "off", c |-> 0]] IN
  IF x \in Users
  THEN [t1 EXCEPT !.us[x] = "", !.recon = IF t.us[x] = "Reconnect" THEN FALSE ELSE @]
  ELSE IF r = "ok" THEN [t1 EXCEPT !.rc = [pc |-> "done", k |-> 0]]     \* "reconnect successful": the flag is still held
  ELSE LET k2 == t.rc.k + 1
           off == [t1 EXCEPT !.rc = [pc |-> "off", k |-> 0], !.recon = FALSE] IN
       IF t1.kicked THEN off
       ELSE IF t1.authFailed THEN [t1 EXCEPT !.exited = TRUE]
       ELSE IF t1.stopped THEN off
       ELSE IF MaxAttempts > 0 /\ k2 >= MaxAttempts THEN [off EXCEPT !.gaveUp = TRUE]
       ELSE [t1 EXCEPT !.rc = [pc |-> "wait", k |-> k2]]

\* Stop(): disconnect note, cancel, the clean-up handler closes controlConn (the fields stay as they are).  A Connect() that is
\* waiting for its dial goroutine returns at once with the context's error; the dial goroutine itself stays in the dialer until
\* that returns (DialLate).
RECURSIVE CancelDials(_, _)
CancelDials(t, S) == IF S = {} THEN t
                     ELSE LET x == CHOOSE y \in S : TRUE IN
                          CancelDials(IF t.cn[x].pc = "dial" THEN [ConnRet(t, x, "err") EXCEPT !.orph = @ + 1] ELSE t, S \ {x})
StopBody(t) == CancelDials([CloseConn(t, t.cur) EXCEPT !.stopped = TRUE], Callers)

NoConnectInFlight(t) == \A y \in Callers : t.cn[y].pc = "off"
UserBusyConnecting(t) == \E v \in Users : t.us[v] \in {"Connect", "Reconnect"}

Beh(h) == [fixed |-> Fixed, maxAtt |-> MaxAttempts, init |-> s.sc.init, sn |-> s.sc.name, steps |-> h]
\* p = goroutine that moves, a = action, x = Connect caller concerned, c = connection, m = kind/mode, r = result of a call that returned
Step(t, p, a, x, c, m, r) ==
  /\ s' = t
  /\ hist' = Append(hist, [p |-> p, a |-> a, x |-> x, c |-> c, m |-> m, r |-> r])
  /\ (Emit => PrintT("BEH " \o ToJson(Beh(hist'))))

Live == ~s.exited

\* ---- user calls ---------------------------------------------------------------------------------
UConnect(u) ==
  /\ Live /\ "Connect" \in s.sc.ops /\ u \in s.sc.users /\ s.us[u] = "" /\ s.cnt.user < s.sc.user
  /\ s.cur = 0 /\ ~UserBusyConnecting(s)            \* legitimate use: the user sees "disconnected", one connecting call at a time
  /\ (Fixed => NoConnectInFlight(s))                \* repaired: Connect is serialised (a second caller would wait for the first)
  /\ LET t == [s EXCEPT !.cnt.user = @ + 1] IN
     IF s.stopped THEN Step(t, u, "Connect", u, 0, "", "err")
     ELSE Step([t EXCEPT !.us[u] = "Connect", !.cn[u] = [pc |-> "dial", c |-> 0]], u, "Connect", u, 0, "", "")

UReconnect(u) ==
  /\ Live /\ "Reconnect" \in s.sc.ops /\ u \in s.sc.users /\ s.us[u] = "" /\ s.cnt.user < s.sc.user
  /\ ~UserBusyConnecting(s)
  /\ (Fixed => NoConnectInFlight(s))
  /\ LET t == [s EXCEPT !.cnt.user = @ + 1] IN
     IF s.recon THEN Step(t, u, "Reconnect", u, 0, "busy", "ok")          \* "reconnect already in progress": nil
     ELSE LET t1 == [CloseConn(t, t.cur) EXCEPT !.cur = 0] IN           \* Disconnect()
          IF s.stopped THEN Step(t1, u, "Reconnect", u, 0, "", "err")
          ELSE Step([t1 EXCEPT !.recon = TRUE, !.us[u] = "Reconnect", !.cn[u] = [pc |-> "dial", c |-> 0]], u, "Reconnect", u, 0, "", "")

UDisconnect(u) ==
  /\ Live /\ "Disconnect" \in s.sc.ops /\ u \in s.sc.users /\ s.us[u] = "" /\ s.cnt.user < s.sc.user /\ ~s.stopped
  /\ s.cur # 0
  /\ Step([CloseConn(s, s.cur) EXCEPT !.cur = 0, !.cnt.user = @ + 1], u, "Disconnect", u, s.cur, "", "ok")

\* (Stop writes its disconnect note under the stream's write lock: while a heart-beat write is in progress it waits for it;
\*  that wait is not modelled - Stop is scheduled when no heart-beat write is in progress)
HbWriting == \E i \in Slots : s.hb[i].pc = "write"
UStop(u) ==
  /\ Live /\ "Stop" \in s.sc.ops /\ u \in s.sc.users /\ s.us[u] = "" /\ s.cnt.user < s.sc.user /\ ~s.stopped /\ ~HbWriting
  /\ Step([StopBody(s) EXCEPT !.cnt.user = @ + 1], u, "Stop", u, s.cur, "", "ok")

\* ---- Connect() of caller x ----------------------------------------------------------------------
DialOK(x, mode) ==
  /\ Live /\ s.cn[x].pc = "dial" /\ ~s.stopped /\ s.nconn < s.sc.conn
  /\ (mode = "silent" => s.cnt.silent < s.sc.silent)
  /\ LET n == s.nconn + 1
         t == [s EXCEPT !.nconn = n, !.cs[n] = [st |-> "open", hs |-> FALSE, srv |-> mode],
                        !.cn[x] = [pc |-> "got", c |-> n],
                        !.cnt.silent = IF mode = "silent" THEN @ + 1 ELSE @] IN
     Step(t, x, "DialOK", x, n, mode, "")

\* the c.mu section that installs the new connection, then the handshake request is written.  As found nothing looks at the
\* context any more: a Stop that ran between the dial's return and this section has closed the OLD controlConn (or none) - the
\* new connection is installed, handshaken, its loops see ctx done and leave it open for ever (deviation LateInstall).
Install(x) ==
  /\ Live /\ s.cn[x].pc = "got"
  /\ LET n == s.cn[x].c IN
     IF Fixed /\ s.stopped
     THEN Step(ConnRet(CloseConn(s, n), x, "err"), x, "Install", x, n, "ctx", "err")
     ELSE LET t0 == IF ~Fixed /\ s.cur # 0 /\ s.cs[s.cur].st = "open" THEN Dev(s, "DoubleConnect") ELSE s
              t1 == IF s.stopped THEN Dev(t0, "LateInstall") ELSE t0 IN
          Step([t1 EXCEPT !.cur = n, !.cn[x] = [pc |-> "hs", c |-> n]], x, "Install", x, n, IF s.stopped THEN "late" ELSE "", "")

DialFail(x) ==
  /\ Live /\ s.cn[x].pc = "dial" /\ (s.stopped \/ s.cnt.fail < s.sc.fail)
  /\ LET t == IF s.stopped THEN s ELSE [s EXCEPT !.cnt.fail = @ + 1] IN
     Step(ConnRet(t, x, "err"), x, "DialFail", x, 0, IF s.stopped THEN "ctx" ELSE "net", "err")

\* the dial of a Connect() that has given up returns.  With an error (the dialer honours its context): nothing.  With a
\* connection (it was established just before the cancellation): the goroutine's select between "hand over" and "ctx done"
\* has both cases ready; as found the first puts the connection into a channel nobody reads any more - it is never closed
\* (deviation LostDial); repaired: Connect takes what arrives late and closes it.
DialLate(kind) ==
  /\ Live /\ s.orph > 0
  /\ kind = "err" \/ s.nconn < s.sc.conn
  /\ (kind = "leak" => ~Fixed)
  /\ LET n == s.nconn + 1
         t == [s EXCEPT !.orph = @ - 1] IN
     IF kind = "err" THEN Step(t, "dl", "DialLate", "", 0, "err", "")
     ELSE Step([IF kind = "leak" THEN Dev(t, "LostDial") ELSE t EXCEPT !.nconn = n,
                  !.cs[n] = [st |-> IF kind = "leak" THEN "open" ELSE "closed", hs |-> FALSE, srv |-> "up"]], "dl", "DialLate", "", n, kind, "")

HsOK(x) ==
  /\ Live /\ s.cn[x].pc = "hs"
  /\ LET c == s.cn[x].c
         \* packet I/O does not look at the context: after Stop the handshake still completes on a connection Stop did not
         \* close (only possible as found, when the connection is not the current one); the loops then see ctx done at once
         rl0 == IF s.stopped THEN "exiting" ELSE "read" IN
     /\ s.cs[c].st = "open" /\ s.cs[c].srv = "up"
     /\ LET t1 == [s EXCEPT !.cs[c].hs = TRUE]
            \* read loop: as found behind the flag (it reads c.controlStream, i.e. the current connection)
            t2 == IF Fixed THEN [t1 EXCEPT !.rl[c] = rl0]
                  ELSE IF ~t1.rlRun THEN [t1 EXCEPT !.rlRun = TRUE, !.rl[IF t1.cur # 0 THEN t1.cur ELSE c] = rl0]
                  ELSE Dev(t1, "SkippedReadLoop")
            t3 == IF Fixed THEN [t2 EXCEPT !.hb[c] = [pc |-> "idle", c |-> c]]
                  ELSE IF ~t2.hbRun THEN [t2 EXCEPT !.hbRun = TRUE, !.hb[0] = [pc |-> "idle", c |-> 0]]
                  ELSE IF t2.hb[0].pc = "failed" THEN Dev(t2, "SkippedHeartbeat") ELSE t2 IN
        Step(ConnRet(t3, x, "ok"), x, "HsOK", x, c, "", "ok")

HsRej(x, kind) ==
  /\ Live /\ s.cn[x].pc = "hs" /\ s.cnt.rej < s.sc.rej
  /\ LET c == s.cn[x].c IN
     /\ s.cs[c].st = "open" /\ s.cs[c].srv = "up"
     /\ LET t1 == [s EXCEPT !.cnt.rej = @ + 1, !.authFailed = @ \/ (kind = "auth")] IN
        Step(ConnRet(Cleanup(t1, c), x, "err"), x, "HsRej", x, c, kind, "err")

\* the reply cannot be read: connection closed under the caller (Stop, Disconnect, somebody's clean-up) / dropped by the server
HsErr(x) ==
  /\ Live /\ s.cn[x].pc = "hs"
  /\ LET c == s.cn[x].c IN
     /\ s.cs[c].st = "closed" \/ s.cs[c].srv = "down"
     /\ Step(ConnRet(Cleanup(s, c), x, "err"), x, "HsErr", x, c, IF s.cs[c].st = "closed" THEN "closed" ELSE "down", "err")

HsTimeout(x) ==
  /\ Live /\ Fixed /\ s.cn[x].pc = "hs"
  /\ LET c == s.cn[x].c IN
     /\ s.cs[c].st = "open" /\ s.cs[c].srv = "silent"
     /\ Step(ConnRet(Cleanup(s, c), x, "err"), x, "HsTimeout", x, c, "", "err")

\* ---- read loop ----------------------------------------------------------------------------------
RLErr(c) ==
  /\ Live /\ s.rl[c] = "read"
  /\ s.cs[c].st = "closed" \/ s.cs[c].srv = "down"
  /\ Step([s EXCEPT !.rl[c] = "err"], "rl", "RLErr", "", c, IF s.cs[c].st = "closed" THEN "closed" ELSE "down", "")

RLCleanup(c) ==
  /\ Live /\ s.rl[c] = "err"
  /\ LET t1 == SpawnRc(Cleanup(s, c)) IN
     Step([t1 EXCEPT !.rl[c] = "exiting"], "rl", "RLCleanup", "", c, IF t1.rc.pc = "wait" /\ s.rc.pc = "off" THEN "spawn" ELSE "", "")

RLExit(c) ==
  /\ Live /\ s.rl[c] = "exiting"
  /\ Step([s EXCEPT !.rl[c] = "off", !.rlRun = IF Fixed THEN @ ELSE FALSE], "rl", "RLExit", "", c, "", "")

\* the server kicks the client over connection c: handleKickCommand runs in the read loop
RLKick(c) ==
  /\ Live /\ s.rl[c] = "read" /\ Healthy(s, c) /\ s.cnt.kick < s.sc.kick /\ ~s.stopped /\ ~HbWriting
  /\ (\A x \in Callers : s.cn[x].pc = "off")
  /\ LET t1 == StopBody([s EXCEPT !.kicked = TRUE, !.cnt.kick = @ + 1]) IN
     Step([SpawnRc(t1) EXCEPT !.rl[c] = "exiting"], "rl", "RLKick", "", c, "", "")

\* ---- heart-beat loop (slot 0 as found, slot c repaired) ------------------------------------------
HBTick(i) ==
  /\ Live /\ s.hb[i].pc = "idle" /\ ~s.stopped /\ s.cnt.tick < s.sc.tick
  /\ LET t == [s EXCEPT !.cnt.tick = @ + 1] IN
     IF Fixed
     THEN IF s.cur # i
          THEN Step([t EXCEPT !.hb[i] = Hb0], "hb", "HBTick", "", i, "gone", "")           \* not the current connection any more: the loop ends
          ELSE Step([t EXCEPT !.hb[i].pc = "write"], "hb", "HBTick", "", i, "write", "")
     ELSE IF s.cur = 0
          THEN Step([t EXCEPT !.hb[i] = [pc |-> "failed", c |-> 0]], "hb", "HBTick", "", 0, "nil", "")
          ELSE Step([t EXCEPT !.hb[i] = [pc |-> "write", c |-> s.cur]], "hb", "HBTick", "", s.cur, "write", "")

HBWrite(i) ==
  /\ Live /\ s.hb[i].pc = "write"
  /\ LET c == s.hb[i].c IN
     IF s.cs[c].st = "open" /\ s.cs[c].srv # "down"
     THEN Step([s EXCEPT !.hb[i].pc = "idle"], "hb", "HBWrite", "", c, "ok", "")
     ELSE Step([Cleanup(s, c) EXCEPT !.hb[i].pc = "failed"], "hb", "HBWrite", "", c, "fail", "")

HBExit(i) ==
  /\ Live /\ s.hb[i].pc = "failed"
  /\ Step([s EXCEPT !.hb[i] = Hb0, !.hbRun = IF Fixed THEN @ ELSE FALSE], "hb", "HBExit", "", s.hb[i].c, "", "")

HBStop(i) ==
  /\ Live /\ s.hb[i].pc = "idle" /\ s.stopped
  /\ Step([s EXCEPT !.hb[i] = Hb0, !.hbRun = IF Fixed THEN @ ELSE FALSE], "hb", "HBStop", "", 0, "", "")

\* ---- reconnect loop ------------------------------------------------------------------------------
RCFire ==
  /\ Live /\ s.rc.pc = "wait"
  /\ LET off == [s EXCEPT !.rc = [pc |-> "off", k |-> 0], !.recon = FALSE] IN
     IF s.kicked \/ (s.stopped /\ ~s.authFailed) THEN Step(off, "rc", "RCFire", "rc", 0, "stop", "")
     ELSE IF s.authFailed THEN Step([s EXCEPT !.exited = TRUE], "rc", "RCFire", "rc", 0, "exit", "")
     ELSE IF Fixed /\ s.cur # 0 /\ NoConnectInFlight(s)
          THEN Step([s EXCEPT !.rc = [pc |-> "done", k |-> 0]], "rc", "RCFire", "rc", 0, "already", "")   \* repaired Connect: connected already
     ELSE /\ (Fixed => NoConnectInFlight(s))
          /\ Step([s EXCEPT !.rc.pc = "conn", !.cn["rc"] = [pc |-> "dial", c |-> 0]], "rc", "RCFire", "rc", 0, "dial", "")

\* the loop returns after a successful Connect: the deferred reconnecting.Store(false).  A connection that was lost again
\* meanwhile found the flag set (its read loop's `go c.reconnect()` returned at once): as found nobody reconnects it
\* (deviation LostReconnect); repaired: the loop looks again after releasing the flag and starts over.
RCDone ==
  /\ Live /\ s.rc.pc = "done"
  /\ LET off == [s EXCEPT !.rc = [pc |-> "off", k |-> 0], !.recon = FALSE]
         lost == s.cur = 0 /\ ~s.kicked /\ ~s.stopped IN
     IF ~lost THEN Step(off, "rc", "RCDone", "rc", 0, "", "")
     ELSE IF s.authFailed THEN (IF Fixed THEN Step([s EXCEPT !.exited = TRUE], "rc", "RCDone", "rc", 0, "exit", "")
                                ELSE Step(off, "rc", "RCDone", "rc", 0, "", ""))
     ELSE IF Fixed THEN Step([s EXCEPT !.rc = [pc |-> "wait", k |-> 0]], "rc", "RCDone", "rc", 0, "respawn", "")
     ELSE Step(Dev(off, "LostReconnect"), "rc", "RCDone", "rc", 0, "", "")

\* ---- environment ---------------------------------------------------------------------------------
\* (a connection is dropped once it is established or while the client waits for the handshake reply; a drop before the
\*  request was written is the same failed handshake one step earlier)
SrvDrop(c) ==
  /\ Live /\ s.cs[c].st = "open" /\ s.cs[c].srv = "up" /\ s.cnt.drop < s.sc.drop /\ ~s.stopped
  /\ s.cs[c].hs \/ \E x \in Callers : s.cn[x].pc = "hs" /\ s.cn[x].c = c
  /\ Step([s EXCEPT !.cs[c].srv = "down", !.cnt.drop = @ + 1], "env", "SrvDrop", "", c, "", "")

Next == \/ \E u \in Users : UConnect(u) \/ UReconnect(u) \/ UDisconnect(u) \/ UStop(u)
        \/ \E k \in {"err", "close", "leak"} : DialLate(k)
        \/ \E x \in Callers : \/ DialOK(x, "up") \/ DialOK(x, "silent") \/ DialFail(x) \/ Install(x)
                              \/ HsOK(x) \/ HsErr(x) \/ HsTimeout(x)
                              \/ \E k \in RejKinds : HsRej(x, k)
        \/ \E c \in Conns : RLErr(c) \/ RLCleanup(c) \/ RLExit(c) \/ RLKick(c) \/ SrvDrop(c)
        \/ \E i \in Slots : HBTick(i) \/ HBWrite(i) \/ HBExit(i) \/ HBStop(i)
        \/ RCFire \/ RCDone

\* every step of the client and every answer of the server is taken eventually; faults are bounded by the counters
Spec == Init /\ [][Next]_vars
FairSpec == /\ Spec
            /\ \A x \in Callers : WF_vars(DialOK(x, "up")) /\ WF_vars(Install(x)) /\ WF_vars(HsOK(x)) /\ WF_vars(HsErr(x)) /\ WF_vars(HsTimeout(x))
                                  /\ WF_vars(s.stopped /\ DialFail(x))      \* a cancelled dial returns
            /\ \A c \in Conns : WF_vars(RLErr(c)) /\ WF_vars(RLCleanup(c)) /\ WF_vars(RLExit(c))
            /\ \A i \in Slots : WF_vars(HBWrite(i)) /\ WF_vars(HBExit(i)) /\ WF_vars(HBStop(i))
            /\ WF_vars(RCFire) /\ WF_vars(RCDone) /\ WF_vars(DialLate("err"))

\* ---- properties ----------------------------------------------------------------------------------
TypeOK == /\ s.cur \in 0..MaxConn /\ s.nconn \in 0..MaxConn
          /\ \A c \in Conns : s.cs[c].st \in {"none", "open", "closed"} /\ s.cs[c].srv \in {"up", "down", "silent"}
                              /\ s.rl[c] \in {"off", "read", "err", "exiting"}
          /\ \A i \in Slots : s.hb[i].pc \in {"off", "idle", "write", "failed"}
          /\ s.rc.pc \in {"off", "wait", "conn", "done"}
          /\ \A x \in Callers : s.cn[x].pc \in {"off", "dial", "got", "hs"}
          /\ (~Fixed => \A i \in Conns : s.hb[i].pc = "off")

Established(c) == s.cs[c].st = "open" /\ s.cs[c].hs /\ s.cs[c].srv = "up"
OneLive  == Cardinality({c \in Conns : Established(c)}) <= 1
NoOrphan == \A c \in Conns : s.cs[c].st = "open" => (c = s.cur \/ \E x \in Callers : s.cn[x].pc \in {"got", "hs"} /\ s.cn[x].c = c)
HbServes(c) == IF Fixed THEN s.hb[c].pc \in {"idle", "write"} ELSE s.hb[0].pc \in {"idle", "write"}
Served   == (~s.stopped /\ ~s.exited /\ s.cur # 0 /\ Established(s.cur)) => (s.rl[s.cur] = "read" /\ HbServes(s.cur))
Holders  == {u \in Users : s.us[u] = "Reconnect"} \cup (IF s.rc.pc # "off" THEN {"rc"} ELSE {})
OneReconnector == Cardinality(Holders) <= 1 /\ (s.recon <=> Holders # {})
OneReadLoop == ~Fixed => Cardinality({c \in Conns : s.rl[c] # "off"}) <= 1
NoSpurious == ~s.spur
Rest == /\ \A x \in Callers : s.cn[x].pc = "off" \/ (s.cn[x].pc = "hs" /\ s.cs[s.cn[x].c].st = "open" /\ s.cs[s.cn[x].c].srv = "silent")
        /\ \A u \in Users : s.us[u] = "" \/ s.cn[u].pc # "off"
        /\ s.rc.pc \notin {"wait", "done"} /\ s.orph = 0
        /\ \A c \in Conns : s.rl[c] \in {"off", "read"} /\ (s.rl[c] = "read" => s.cs[c].st = "open" /\ s.cs[c].srv # "down")
        /\ \A i \in Slots : s.hb[i].pc \in {"off", "idle"} /\ (s.hb[i].pc = "idle" => ~s.stopped)
AllOff == /\ \A x \in Callers : s.cn[x].pc = "off"
          /\ \A c \in Conns : s.rl[c] = "off"
          /\ \A i \in Slots : s.hb[i].pc = "off"
          /\ s.rc.pc = "off" /\ ~s.recon /\ s.orph = 0
StopClean == (s.stopped /\ ~s.exited /\ Rest) => (AllOff /\ \A c \in Conns : s.cs[c].st # "open")
AnyDev == s.dev # {}
OneLiveOrDev == OneLive \/ AnyDev
NoOrphanOrDev == NoOrphan \/ AnyDev
ServedOrDev == Served \/ AnyDev
NoSpuriousOrDev == NoSpurious \/ AnyDev
StopCleanOrDev == StopClean \/ AnyDev
NoDeviation == s.dev = {}
\* single deviations for the demonstration configurations (TLC stops at the first state that has it)
NoDoubleConnect == "DoubleConnect" \notin s.dev
NoStaleCleanup == "StaleCleanup" \notin s.dev
NoSkippedReadLoop == "SkippedReadLoop" \notin s.dev
NoSkippedHeartbeat == "SkippedHeartbeat" \notin s.dev
NoLostReconnect == "LostReconnect" \notin s.dev
NoLateInstall == "LateInstall" \notin s.dev
NoLostDial == "LostDial" \notin s.dev

\* after Stop no connection comes into use (a dial that was under way may still return one: it must be closed - StopClean)
QuietAfterStop == [][s.stopped => \A c \in Conns : s'.cs[c].hs = s.cs[c].hs]_vars
QuietAfterStopOrDev == [][s.stopped => ((\A c \in Conns : s'.cs[c].hs = s.cs[c].hs) \/ s'.dev # {})]_vars
QuietAfterKick == [][s.kicked => s'.nconn = s.nconn]_vars

Terminal == s.stopped \/ s.kicked \/ s.exited \/ s.gaveUp
Good == s.cur # 0 /\ Established(s.cur) /\ s.rl[s.cur] = "read" /\ HbServes(s.cur) /\ NoConnectInFlight(s)
Recovers == <>[](Terminal \/ Good \/ s.nconn = s.sc.conn)
Terminates == (s.stopped /\ ~s.exited) ~> (AllOff \/ s.exited)
=============================================================================
