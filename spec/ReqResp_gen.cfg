\* X04 behaviour generation (template filled by harness/drivers/x04): Emit = TRUE prints one behaviour per
\* transition of the state graph (VIEW hides hist), Eager = TRUE keeps to schedules a driver can force
\* (a blocked caller takes a delivered response at once; no expiry while a response sits in the channel).
\*   gen:client     Fixed TRUE    legacy:client   Fixed FALSE (the code as found: schedules that end in the panic)
\*   gen:server     Wired TRUE, Cross FALSE (the cross-node route is driven by scripted scenarios, not scheduled)
CONSTANTS
  Variant = @@VARIANT@@
  NW = @@NW@@
  NR = @@NR@@
  MaxReq = @@MAXREQ@@
  MaxMsg = @@MAXMSG@@
  MaxExp = @@MAXEXP@@
  MaxStop = @@MAXSTOP@@
  MaxDrop = @@MAXDROP@@
  Kinds = @@KINDS@@
  Unknown = @@UNKNOWN@@
  Cross = FALSE
  Fixed = @@FIXED@@
  Wired = @@WIRED@@
  Eager = TRUE
  Emit = TRUE
INIT Init
NEXT Next
VIEW view
INVARIANTS TypeOK
CHECK_DEADLOCK FALSE
