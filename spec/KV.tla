--------------------------------- MODULE KV ---------------------------------
(* C13 design model and behaviour generator: the reference TTL key-value store driven by    *)
(* every operation of a key-type family from every reachable state (clock-bounded).         *)
(* With VIEW vars_noh TLC explores each distinct (store, clock) once - its `hist` is a       *)
(* shortest operation sequence reaching it - and the Next action prints one behaviour per    *)
(* transition (state, operation): transition coverage of the reference state graph.          *)
EXTENDS KVRef, Json

CONSTANTS Keys, Vals, MaxClock, Emit
VARIABLES store, clock, hist
vars == <<store, clock, hist>>
view == <<store, clock>>

Ops == (IF \E k \in Keys : KeyType(k) = "str"  THEN StrOps({k \in Keys : KeyType(k) = "str"}, Vals) ELSE {})
  \cup (IF \E k \in Keys : KeyType(k) = "list" THEN ListOps({k \in Keys : KeyType(k) = "list"}, Vals) ELSE {})
  \cup (IF \E k \in Keys : KeyType(k) = "hash" THEN HashOps({k \in Keys : KeyType(k) = "hash"}, Vals) ELSE {})
  \cup (IF \E k \in Keys : KeyType(k) = "ctr"  THEN CtrOps({k \in Keys : KeyType(k) = "ctr"}) ELSE {})

Init == /\ store = [k \in Keys |-> NoneOf(k)]
        /\ clock = 0
        /\ hist = <<>>

Out(h) == IF Emit THEN PrintT("BEH " \o ToJson(h)) ELSE TRUE

\* bound the otherwise unbounded counters / lists so the state graph is finite
Small(st) == \A k \in Keys :
               /\ KeyType(k) = "list" => Len(st[k].v) <= 3
               /\ KeyType(k) = "ctr"  => st[k].v <= 4

DoOp(o) == LET a == Apply(store, clock, o)
               h == Append(hist, [o EXCEPT !.op = o.op] @@ [exp |-> a.res])
           IN /\ Small(a.st)
              /\ store' = a.st
              /\ clock' = clock
              /\ hist' = h
              /\ Out(h)

Tick == /\ clock < MaxClock
        /\ clock' = clock + 1
        /\ store' = store
        /\ hist' = Append(hist, [op |-> "Tick"])
        /\ Out(hist')

Next == Tick \/ \E o \in Ops : DoOp(o)
Spec == Init /\ [][Next]_vars

\* ---- design-level sanity of the reference (checked exhaustively) -----------------------
TypeOK == /\ clock \in 0..MaxClock
          /\ \A k \in Keys : store[k].p \in BOOLEAN /\ store[k].exp \in Nat

\* an expired entry is indistinguishable from an absent one for every read operation
GhostsInvisible ==
  \A k \in Keys : (store[k].p /\ ~Live(store[k], clock)) =>
     \A o \in {x \in Ops : x.k = k /\ x.op \in {"Get", "Exists", "GetList", "GetHash", "GetAllHash", "GetExp"}} :
        Apply(store, clock, o).res = Apply([store EXCEPT ![k] = NoneOf(k)], clock, o).res

\* ttl "0" never expires: an entry written with exp = 0 is live at every clock value
ZeroNeverExpires == \A k \in Keys : (store[k].p /\ store[k].exp = 0) => \A c \in 0..(MaxClock + 5) : Live(store[k], c)

\* reads never change the store
ReadsArePure == \A o \in {x \in Ops : x.op \in {"Get", "Exists", "GetList", "GetHash", "GetAllHash", "GetExp"}} :
                   Apply(store, clock, o).st = store

\* SetNX succeeds exactly when the key is not live; CAS succeeds exactly on a matching current value
AtomicsExact ==
  \A o \in {x \in Ops : x.op \in {"SetNX", "CAS"}} :
     LET a == Apply(store, clock, o) live == Live(store[o.k], clock)
     IN IF o.op = "SetNX" THEN a.res.v = ~live
        ELSE a.res.v = ((IF live THEN store[o.k].v ELSE "nil") = o.old)
=============================================================================
