-------------------------- MODULE CrossFrameTrace --------------------------
(* C10 judge: property-level trace specification over what callers of the real code observed. *)
(* It knows nothing about frames on the wire or FrameStream's buffers; it knows the statement: *)
(*   - bytes written to a cross-node stream arrive at the peer unchanged, in order, complete,  *)
(*     for any write sizes, followed by end-of-stream after close or half-close;               *)
(*   - frames of other tunnels / unknown types on the same connection are never delivered;     *)
(*   - every encoded frame decodes to itself; any byte string given to the decoder yields a    *)
(*     frame or an error, without panic and without allocating more than the frame size limit. *)
(*                                                                                            *)
(* Alphabet (one trace = one behaviour on the real code):                                      *)
(*  Cfg  {kind: stream|dec|rt|fwd, ...}     first event, names the input class                *)
(*  W    {op: write|eof|close, c, n, ret, err}   a call on the writing FrameStream and result *)
(*        (a refused or short Write of any size class is an observation, judged under Complete)*)
(*  Inj  {k, idrel: diff|same16, ty: data|eof|unk}   a frame another user put on the conn      *)
(*  D    {src: own|inj|junk, k, off, len, eq}    bytes returned by FrameStream.Read on the     *)
(*        peer, classified in Go: own = equal (eq) to our stream at offset off                 *)
(*  REnd {how: eof|err|hung, after: eof|data|err|na}   how reading ended; `after` = what one   *)
(*        more Read returned after end-of-stream                                               *)
(*  Dec  {e, c, chunk, res: frame|error|done|panic, eq, alloc}   crafted bytes fed to entry point e *)
(*        (ReadFrameFromReader, ReadFrame on a TCP conn, FrameStream.Read, the listener)         *)
(*  Rt   {len, ty, chunk, enc: ok|refused, res, eq, alloc}  WriteFrameToWriter then decode     *)
(*  FD   {dir, sent, len, eq, eof, hung}    forwarding pair (runBidirectionalForward x2):      *)
(*        what FrameStream.Read returned on the receiving node for one direction               *)
(*  LD   {sent, len, eq, eof, hung}   listener path: what the source side of the bridge received  *)
(*        of the tunnel bytes written right behind the TargetReady frame                        *)
(*  PT   {i, dir, c, prev, reused, sent, len, eq, eof, hung, needEof}   pooled-connection reuse    *)
(*  FE   {who, sent, len, eq, eof, hung, needEof}   what the endpoint behind the receiving     *)
(*        forwarder got                                                                        *)
(*  bidi (schedules of CrossFrameForward.tla on the real runBidirectionalForward, one forwarder *)
(*  per tunnel between a local endpoint and a real FrameStream, peer = the other node's stream):*)
(*  BS   {t}                 the forwarder of tunnel t was started                              *)
(*  BR   {t, d, k, n}        the source of direction d (up: local endpoint, down: the peer's    *)
(*        Write on the cross-node stream) produced its k-th chunk, n bytes                      *)
(*  BW   {t, d, off, n, eq, stable, by}   a Write at the sink of direction d returned: the n    *)
(*        bytes of its slice as the sink sees them on return are (eq) the direction's own bytes *)
(*        off..off+n; stable = the slice did not change while the Write was in progress;        *)
(*        by = whose bytes it holds otherwise (own | otherdir | othertunnel | mixed)            *)
(*  BD   {t, d, sent, len, eq, eof, hung}   end of the run: what arrived at the far end of      *)
(*        direction d (up: FrameStream.Read on the peer node; down: the local endpoint), whether *)
(*        end-of-stream followed, whether the forwarder failed to return                        *)
(* Write results are logged before the deliveries of a trace (the writer's calls are a script; *)
(* the predicate does not depend on the real-time interleaving of writer and reader).          *)
EXTENDS VLib

CONSTANTS MaxFrame,   \* the frame size limit of the statement (payload bytes)
          Slack       \* allowance for the 21-byte header, error values and accounting noise

VARIABLES cfg,        \* the Cfg record of the current trace (or Nil)
          written,    \* bytes accepted by Write before the stream was closed
          closed,     \* "" or the kind of the first successful CloseWrite/Close
          delivered,  \* own bytes delivered so far
          collEnd,    \* an EOF/Close frame of a tunnel with a colliding 16-byte id was on the connection
          nulEnd,     \* an EOF/Close frame of a tunnel whose id agrees with ours up to a NUL byte was on it
          ended,      \* REnd seen
          bprod       \* bidi: bytes produced so far per direction ("t:d" -> n)
vars == <<l, viol, cfg, written, closed, delivered, collEnd, nulEnd, ended, bprod>>

Nil == [kind |-> "none"]
Init == l = 1 /\ viol = {} /\ cfg = Nil /\ written = 0 /\ closed = "" /\ delivered = 0 /\ collEnd = FALSE /\ nulEnd = FALSE /\ ended = FALSE
        /\ bprod = [x \in {} |-> 0]

F(r, f, d) == IF f \in DOMAIN r THEN r[f] ELSE d
Idk == F(cfg, "idk", "?")
Rsz == F(cfg, "rsz", "?")
\* behaviours with other tunnels writing concurrently on the connection are a class of their own
ParSfx == IF F(cfg, "par", 0) > 0 THEN ":concurrent" ELSE ""
Add(c, d) == viol' = viol \cup {V(c, d)}
Keep == UNCHANGED <<cfg, written, closed, delivered, collEnd, nulEnd, ended, bprod>>

TrCfg == /\ Is("Cfg") /\ cfg' = Ev /\ l' = l + 1
         /\ UNCHANGED <<viol, written, closed, delivered, collEnd, nulEnd, ended, bprod>>

\* ---- stream --------------------------------------------------------------------------------
TrW == /\ Is("W") /\ l' = l + 1
       /\ IF Ev.op = "write"
          THEN IF closed # ""
               THEN UNCHANGED <<viol, written, closed>>       \* after close the statement is silent
               ELSE /\ written' = written + Ev.ret
                    /\ closed' = closed
                    \* "complete for any write sizes": a Write on an open stream must accept every byte,
                    \* whether it leaves as one frame or is split into several
                    /\ IF Ev.err THEN Add("Complete", "write-refused:" \o Ev.c)
                       ELSE IF Ev.ret # Ev.n THEN Add("Complete", "short-write:" \o Ev.c)
                       ELSE viol' = viol
          ELSE /\ written' = written
               /\ IF Ev.err THEN Add("Complete", "close-failed:" \o Ev.op) /\ closed' = closed
                  ELSE viol' = viol /\ closed' = (IF closed = "" THEN Ev.op ELSE closed)
       /\ UNCHANGED <<cfg, delivered, collEnd, nulEnd, ended, bprod>>

TrInj == /\ Is("Inj") /\ l' = l + 1
         /\ collEnd' = (collEnd \/ (Ev.idrel = "same16" /\ Ev.ty # "data"))
         /\ nulEnd' = (nulEnd \/ (Ev.idrel = "diffnul" /\ Ev.ty # "data"))
         /\ UNCHANGED <<viol, cfg, written, closed, delivered, ended, bprod>>

ForeignDetail(e) == IF e.src = "junk" THEN "junk" \o ParSfx
                    ELSE IF e.k \in {"fds", "fes"} THEN "id16:" \o Idk \o ":data"
                    ELSE IF e.k = "unk" THEN "unknown-type"
                    ELSE IF e.k \in {"fdn", "fen"} THEN "foreign:data:nul:" \o Idk   \* ids differ inside the 16 bytes, after a NUL
                    ELSE "foreign:data" \o ParSfx

TrD == /\ Is("D") /\ l' = l + 1
       /\ IF Ev.src = "own"
          THEN /\ delivered' = delivered + Ev.len
               /\ IF ended THEN Add("Complete", "data-after-eof")
                  ELSE IF Ev.off # delivered \/ ~Ev.eq THEN Add("InOrder", "corrupt:rsz=" \o Rsz \o ParSfx)
                  ELSE IF delivered + Ev.len > written THEN Add("InOrder", "beyond-written:rsz=" \o Rsz \o ParSfx)
                  ELSE viol' = viol
          ELSE /\ delivered' = delivered
               /\ Add("NoForeign", ForeignDetail(Ev))
       /\ UNCHANGED <<cfg, written, closed, collEnd, nulEnd, ended, bprod>>

EndDetail == "rsz=" \o Rsz \o ":end=" \o closed \o ParSfx
TrREnd == /\ Is("REnd") /\ l' = l + 1 /\ ended' = TRUE
          /\ LET vs == (IF Ev.how = "eof" /\ closed = "" THEN {V("Complete", "eof-before-close")} ELSE {})
                  \cup (IF Ev.how = "eof" /\ closed # "" /\ delivered < written
                        THEN {V("Complete", IF collEnd THEN "id16:" \o Idk \o ":eof"
                                               ELSE IF nulEnd THEN "foreign-end:nul:" \o Idk ELSE "lost:" \o EndDetail)} ELSE {})
                  \cup (IF Ev.how = "hung" /\ closed # "" THEN {V("Complete", "hung:" \o EndDetail)} ELSE {})
                  \cup (IF Ev.how = "err" THEN {V("Complete", "read-error:" \o EndDetail)} ELSE {})
                  \cup (IF Ev.after = "data" THEN {V("Complete", "data-after-eof")} ELSE {})
             IN viol' = viol \cup vs
          /\ UNCHANGED <<cfg, written, closed, delivered, collEnd, nulEnd, bprod>>

\* ---- decoder -------------------------------------------------------------------------------
Cls(c) == c.hdr \o ":" \o c.ty \o ":" \o c.decl \o ":" \o c.avail
\* crafted bytes that are exactly a well-formed empty frame must decode to that frame (where the
\* payload limit lies is the implementation's business: the statement only bounds it from above)
WellFormed(c) == c.hdr = "full" /\ c.decl = "0"
\* entry point the bytes were fed to (e): rfr | sessrfr = ReadFrameFromReader (crossnode / session facade) on a reader,
\* tcp | sess = ReadFrame on a real *net.TCPConn, stream = FrameStream.Read, listener = handleConnection's first-frame
\* read. Outcome and allocation are judged identically for all of them; only what "a frame" looks like differs:
\* FrameStream.Read hands out the payload of a data frame of its tunnel (res = frame) and skips / ends on everything
\* else (res = error), the listener consumes the frame and returns (res = done).
EntryOf(e) == F(e, "e", "rfr")
ESfx(e) == IF EntryOf(e) = "rfr" THEN "" ELSE ":" \o EntryOf(e)
ReturnsFrames(e) == EntryOf(e) \in {"rfr", "sessrfr", "tcp", "sess"}
Outcomes(e) == IF EntryOf(e) = "listener" THEN {"done", "panic"} ELSE {"frame", "error", "panic"}
TrDec == /\ Is("Dec") /\ l' = l + 1
         /\ LET d == Cls(Ev.c) \o ":" \o Ev.chunk \o ESfx(Ev)
                vs == (IF Ev.res = "panic" THEN {V("DecoderSafe", "panic:" \o d)} ELSE {})
                 \cup (IF Ev.res \notin Outcomes(Ev) THEN {V("DecoderSafe", "outcome:" \o d)} ELSE {})
                 \cup (IF Ev.alloc > MaxFrame + Slack THEN {V("DecoderAlloc", d)} ELSE {})
                 \cup (IF Ev.res = "frame" /\ ~Ev.eq THEN {V("DecoderSafe", "wrong-frame:" \o d)} ELSE {})
                 \cup (IF ReturnsFrames(Ev) /\ WellFormed(Ev.c) /\ Ev.res = "error" THEN {V("RoundTrip", "rejected:" \o d)} ELSE {})
            IN viol' = viol \cup vs
         /\ Keep

TrRt == /\ Is("Rt") /\ l' = l + 1
        /\ LET d == Ev.len \o ":" \o Ev.ty \o ":" \o Ev.chunk \o ESfx(Ev)
               \* an encoder that refuses a payload has not encoded a frame: the statement is silent
               vs == (IF Ev.enc = "ok" /\ (Ev.res # "frame" \/ ~Ev.eq) THEN {V("RoundTrip", d)} ELSE {})
                \cup (IF Ev.res = "panic" THEN {V("DecoderSafe", "panic:rt:" \o d)} ELSE {})
                \cup (IF Ev.alloc > MaxFrame + Slack THEN {V("DecoderAlloc", "rt:" \o d)} ELSE {})
           IN viol' = viol \cup vs
        /\ Keep

\* ---- forwarding pair -----------------------------------------------------------------------
FwdDetail(x) == "fwd:" \o F(cfg, "pat", "?") \o ":" \o x \o ":req=" \o F(cfg, "req", "?") \o ":resp=" \o F(cfg, "resp", "?")
                \o ":cnt=" \o F(cfg, "cnt", "?") \o ":eofs=" \o F(cfg, "eofs", "?")
PipeViol(e, x, needEof) ==
       (IF ~e.eq \/ e.len > e.sent THEN {V("InOrder", FwdDetail(x))} ELSE {})
  \cup (IF e.eq /\ e.len < e.sent THEN {V("Complete", "short:" \o FwdDetail(x))} ELSE {})
  \cup (IF needEof /\ e.eq /\ e.len = e.sent /\ ~e.eof THEN {V("Complete", "no-eof:" \o FwdDetail(x))} ELSE {})
PipeViol2(e, d) ==
       (IF ~e.eq \/ e.len > e.sent THEN {V("InOrder", d)} ELSE {})
  \cup (IF e.eq /\ e.len < e.sent THEN {V("Complete", "short:" \o d)} ELSE {})
  \cup (IF e.eq /\ e.len = e.sent /\ ~e.eof THEN {V("Complete", "no-eof:" \o d)} ELSE {})
TrFD == /\ Is("FD") /\ l' = l + 1
        /\ viol' = viol \cup PipeViol(Ev, Ev.dir, TRUE)     \* each direction is (half-)closed by its writer
        /\ Keep
TrFE == /\ Is("FE") /\ l' = l + 1
        /\ viol' = viol \cup PipeViol(Ev, Ev.who, Ev.needEof)
        /\ Keep

\* ---- bidirectional forwarder under a schedule: both directions of a tunnel (and other tunnels) at once ----
\* "bytes ... arrive at the peer unchanged, in order and complete ... followed by end-of-stream", per
\* direction: the sink of a direction receives that direction's bytes and nothing else, whatever the
\* other direction / other tunnels do meanwhile and however long its Write takes.
BKey(e) == ToString(e.t) \o ":" \o e.d
BProd(k) == IF k \in DOMAIN bprod THEN bprod[k] ELSE 0
BidiDetail(e) == "bidi:" \o e.d \o ":lk=" \o F(cfg, "lk", "?") \o ":cnt=" \o F(cfg, "cnt", "?")
                 \o ":nt=" \o ToString(F(cfg, "nt", 0)) \o ":" \o F(cfg, "mode", "?")
TrBS == /\ Is("BS") /\ l' = l + 1 /\ UNCHANGED viol /\ Keep
TrBR == /\ Is("BR") /\ l' = l + 1
        /\ bprod' = (BKey(Ev) :> (BProd(BKey(Ev)) + Ev.n)) @@ bprod
        /\ UNCHANGED <<viol, cfg, written, closed, delivered, collEnd, nulEnd, ended>>
TrBW == /\ Is("BW") /\ l' = l + 1
        /\ LET vs == (IF ~Ev.eq THEN {V("InOrder", "changed:" \o BidiDetail(Ev) \o ":by=" \o Ev.by
                                                     \o (IF Ev.stable THEN ":before-write" ELSE ":during-write"))} ELSE {})
                 \cup (IF Ev.eq /\ Ev.off + Ev.n > BProd(BKey(Ev)) THEN {V("InOrder", "beyond-written:" \o BidiDetail(Ev))} ELSE {})
           IN viol' = viol \cup vs
        /\ Keep
TrBD == /\ Is("BD") /\ l' = l + 1
        /\ LET d == BidiDetail(Ev)
               vs == (IF ~Ev.eq \/ Ev.len > Ev.sent THEN {V("InOrder", "changed:" \o d \o ":arrived")} ELSE {})
                \cup (IF Ev.eq /\ Ev.len < Ev.sent THEN {V("Complete", "short:" \o d)} ELSE {})
                \cup (IF Ev.eq /\ Ev.len = Ev.sent /\ ~Ev.eof THEN {V("Complete", "no-eof:" \o d)} ELSE {})
                \cup (IF Ev.hung THEN {V("Complete", "hung:" \o d)} ELSE {})
           IN viol' = viol \cup vs
        /\ Keep

\* ---- listener path: TargetReady frame, then raw tunnel bytes on the same connection ------------
\* LD = what the source side of the bridge received of the bytes the target node wrote right
\* behind the TargetReady frame (handleConnection -> handleTargetReady -> runBridgeForward)
TrLD == /\ Is("LD") /\ l' = l + 1
        /\ viol' = viol \cup PipeViol2(Ev, "listener:" \o F(cfg, "cuts", "?") \o ":dsz=" \o F(cfg, "dsz", "?"))
        /\ Keep

\* ---- pooled connection reuse: several tunnels one after the other on one NodeConnectionPool ----
\* PT = one direction of tunnel i (sp: server -> pooled side, ps: pooled side -> server) on a
\* connection obtained with Get; prev = how the previous tunnel on that connection ended
\* (first | clean | residual = its last frame was left unread), reused = same TCP connection
TrPT == /\ Is("PT") /\ l' = l + 1
        /\ LET d == "pool:prev=" \o Ev.prev \o ":" \o Ev.dir \o ":" \o Ev.c
           IN viol' = viol \cup (IF Ev.needEof THEN PipeViol2(Ev, d) ELSE PipeViol2([Ev EXCEPT !.eof = TRUE], d))
        /\ Keep

TrEnd == /\ Is("End") /\ EmitVerdict /\ l' = l + 1
         /\ viol' = {} /\ cfg' = Nil /\ written' = 0 /\ closed' = "" /\ delivered' = 0 /\ collEnd' = FALSE /\ nulEnd' = FALSE /\ ended' = FALSE
         /\ bprod' = [x \in {} |-> 0]

Next == TrCfg \/ TrW \/ TrInj \/ TrD \/ TrREnd \/ TrDec \/ TrRt \/ TrFD \/ TrFE \/ TrLD \/ TrPT
        \/ TrBS \/ TrBR \/ TrBW \/ TrBD \/ TrEnd
Spec == Init /\ [][Next]_vars
=============================================================================
