\* X01 exhaustive check of the implementation-shaped broker model (template: @@..@@ filled by drivers/x01).
\*   KIND = "memory"                      memory broker (every API call one critical section)
\*   KIND = "redis", SYNC = FALSE         redis broker with its receive loop(s) as separate processes
\*   FIXED = {}                           the code before the X01 repairs: INVS = ...OrKnown (a violation is
\*                                        excused only by a listed deviation: multiLoop, sendOnClosed)
\*   FIXED = {"loop1", "lockedSend"}      repaired code: strict invariants, one loop
\* Quick: 2 topics, 3 channels, 3 messages, capacity 2; thorough: 4 messages.
CONSTANTS
  Kind = @@KIND@@
  Topics = {"t1", "t2"}
  Cap = 2
  MaxSub = @@MAXSUB@@
  MaxMsg = @@MAXMSG@@
  Sync = @@SYNC@@
  Fixed = @@FIXED@@
  MaxLoops = @@MAXLOOPS@@
  Acts = {"Sub", "Unsub", "Pub", "Loop", "Close", "Ping", "Recv"}
  EmitActs = {}
  MaxHist = 0
SPECIFICATION FairSpec
INVARIANTS TypeOK SubsConsistent TopicIsolation ClosedIsFinal CloseClosesAll Delivered DeliveredNow @@INVS@@
PROPERTIES @@PROPS@@
CHECK_DEADLOCK FALSE
