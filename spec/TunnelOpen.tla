------------------------------ MODULE TunnelOpen ------------------------------
(* C04 - "tunnel data reaches only connections authorised for that mapping".                   *)
(*                                                                                              *)
(* Implementation-shaped model of the open-tunnel dispatcher                                    *)
(*   session/packet_handler_tunnel.go         handleTunnelOpen (dispatch)                       *)
(*   session/packet_handler_tunnel_bridge.go  handleExistingBridge / handleSourceBridge /       *)
(*                                            handleTargetBridge                                 *)
(*   session/cross_node_session.go            handleCrossNodeTargetConnection, forwardToSource  *)
(*   app/server/tunnel_handler.go             HandleTunnelOpen (credential validation)          *)
(*   conncode/activation.go ValidateMapping, models PortMapping.CanBeAccessedBy / IsValid       *)
(* as a decision structure.  One tunnel id, one mapping M (listen client L, target client T,    *)
(* a non-empty secret) whose state is a variable, and a second mapping M2 that belongs to the   *)
(* stranger (always active).  Three connections open the tunnel id:                              *)
(*   S - the legitimate source  (authenticated as L, presents the mapping id)                   *)
(*   T - the legitimate target  (authenticated as the target client, presents id + secret)      *)
(*   R - the requester of the cell: identity x credential of the product                        *)
(* A behaviour is one cell of the product                                                        *)
(*   identity x credential x mapping state x tunnel state at arrival x arrival order            *)
(* run through its script (Script below).  Each Open step is ONE dispatcher branch, named as    *)
(* in the code: NewBridge (validation -> SourceBridge | TargetBridge), ExistingBridge,          *)
(* CrossNodeTarget; attachment points SetSource / SetTarget / ForwardToSourceNode are the       *)
(* updates of `br`.  What the code does is modelled, not what it should do: a branch that       *)
(* attaches (or acknowledges) without the check the property needs sets a ghost flag in `dev`.  *)
(*                                                                                              *)
(* FIXES selects the tree:                                                                      *)
(*   {}                - tunnox-core as found: only the NewBridge branch validates; the secret  *)
(*                       branch of the validation never looks at revoked/expired/inactive;      *)
(*                       nothing ties the presented mapping to the tunnel's mapping             *)
(*   "validateJoin"    - patches/C04-1: control-connection lookup + HandleTunnelOpen run before *)
(*                       the dispatch, i.e. on every branch                                     *)
(*   "secretValidity"  - patches/C04-2: the secret branch requires mapping.IsValid()            *)
(*   "bindMapping"     - patches/C04-3: joining an existing / remotely waiting tunnel requires   *)
(*                       the presented mapping id to be the tunnel's mapping id (checked by      *)
(*                       handleTunnelOpen / handleExistingBridge on what exists AT ARRIVAL)      *)
(*   "bindMappingPoll" - patches/C04-3, second half: the same comparison in                      *)
(*                       processCrossNodeForward, i.e. on the record that lookupTunnelRouting    *)
(*                       finds while it POLLS (request arrived before the tunnel was registered)  *)
(*                                                                                              *)
(* Tunnel states "lateLocal" / "lateRemote": no bridge and no routing record when the request    *)
(* arrives; the legitimate source registers the tunnel (on the same / on another node) while    *)
(* the request is being served.  A validated request that is not the mapping's listen client     *)
(* sits in handleTargetBridge -> handleCrossNodeTargetConnection -> lookupTunnelRouting (polls   *)
(* up to 10 s): action PollFound, with the mapping comparison as its explicit first step.        *)
(* Mapping states beyond the statement's list: "error" (models.MappingStatusError) and           *)
(* "suspended" (a free-form status stored through UpdatePortMappingStatus) - every status other  *)
(* than "active" makes PortMapping.IsValid() false.                                              *)
(* Mapping shape: "std" (listen client L, target client T), "noListen" (ListenClientID = 0:      *)
(* server-ingress / HTTP-domain mappings), "noTarget" (TargetClientID = 0).  Client ids are      *)
(* modelled ("0" = the id of a connection that never authenticated) because the code compares    *)
(* ids: 0 = 0 would make an unauthenticated connection "the listen client" of a noListen        *)
(* mapping - what stops it is the client-id check at the top of HandleTunnelOpen (MUT =          *)
(* {"authLast"} models a tree where that check only guards the no-credentials branch).          *)
(* Mapping state "expiredJust": ExpiresAt a fraction of a second in the past (the boundary of   *)
(* IsExpired; "expired" is an hour in the past).                                                 *)
(*                                                                                              *)
(* Store vs. administration.  `adm` is what was done to mapping M (revoked, expired, ...: the    *)
(* property's predicate reads it), `mst` is what the mapping store holds (the validation reads   *)
(* it).  They differ only through a stale write-back: an admitted mapping-id request calls       *)
(* conncode.RecordMappingUsage = read the record, set LastActive, write the WHOLE record back.   *)
(* Orders "slowUsage" / "inflightUsage" hold that write (slow store) while the mapping is        *)
(* changed: slowUsage changes the mapping after the open was ACKNOWLEDGED - in the tree the      *)
(* write is part of HandleTunnelOpen and has landed by then (MUT "usageAsync": it runs in the    *)
(* background and lands later, resurrecting the record); inflightUsage changes it while the      *)
(* open is still between its read and its write (reachable in the tree as well: show cfg).       *)
(*                                                                                              *)
(* Tunnel state "prefixRemote": two tunnels whose ids share their first 16 bytes - T (<= 16      *)
(* bytes, mapping M, source S) and T+ (T plus a suffix, mapping M2, opened as source by the      *)
(* stranger's own client P) - both waiting on node A; the request names T+ and arrives on node   *)
(* B.  The cross-node frame header carries 16 bytes of the id, the TargetReady payload the full  *)
(* id; the source node must resolve the bridge by the FULL id (MUT "headerFirst": header first). *)
(* Credential "otherSecret": id + secret of a third mapping M3 whose TARGET client is the        *)
(* stranger - valid credentials that pass the validation and do not make the presenter a source. *)
(*                                                                                              *)
(* Round 3 (mechanisms around the three behaviour classes the round-3 seeded changes live in):   *)
(*  - Validity is computed AT READ TIME from the stored record and the clock (PortMapping.       *)
(*    IsValid: status, IsRevoked, time.Now().After(ExpiresAt)).  Mapping state "lapsed": the     *)
(*    record carries an ExpiresAt in the near future from the start ("lapsing") and the instant   *)
(*    passes (SetMap = the clock, NO store write; variable `late`).  "expiredJust" is the same    *)
(*    boundary reached by an administrative write.  MUT "expirySkew": IsExpired tolerates a       *)
(*    recently passed ExpiresAt.  MUT "lookupCache" / "validityCache": the handler memoises a     *)
(*    positive validation of M (`vc`) - never dropped / dropped by the next write to M's record   *)
(*    (the second kind is only caught by "lapsed": no write ever drops it).                        *)
(*  - Writers of M's whole record besides the administration: RecordMappingUsage (above) and the   *)
(*    bridge's traffic report (tunnel/bridge_traffic.go: read the record, add the deltas,          *)
(*    UpdatePortMappingStats = read again and write the whole record).  Order "closeAfter": a      *)
(*    served tunnel carries data, the mapping is changed, THEN the tunnel closes (final traffic   *)
(*    report) and the requester arrives.  `bc` is the record as it was when the bridge was        *)
(*    created; MUT "closeStaleCopy": the report writes that copy back.                             *)
(*  - Two tunnel ids with the same first 16 bytes, in both role assignments and on both paths:    *)
(*    "prefixRemote" (victim T short, requester names T+ on node B), "prefixRemoteRev" (victim    *)
(*    T+ LONG: its header names the other mapping's short tunnel T), "prefixLocal" /              *)
(*    "prefixLocalRev" (the request arrives on the node that holds both bridges: the dispatcher   *)
(*    resolves the bridge and compares the mapping on the SAME lookup, so a lossy key there is     *)
(*    caught by the bindMapping comparison; on the node-to-node hop the comparison (node B,        *)
(*    routing record, full id) and the resolution (node A, frame) are different lookups).          *)
EXTENDS Naturals, Sequences, FiniteSets, TLC, Json

CONSTANTS FIXES,     \* see above
          Idents,    \* subset of {"none", "noneHs", "listen", "target", "stranger"}
          Creds,     \* subset of {"idOnly", "rightSecret", "wrongSecret", "resume", "nothing", "otherId", "otherSecret"}
          MStates,   \* subset of {"active", "revoked", "expired", "expiredJust", "lapsed", "inactive", "error", "suspended", "missing"}
          Shapes,    \* subset of {"std", "noListen", "noTarget"} (non-std: tunnel state "none" only)
          MUT,       \* seeded deviations the model can express ({} = the tree): "authLast", "usageAsync", "headerFirst",
                     \* "expirySkew", "lookupCache", "validityCache", "closeStaleCopy"
          TStates,   \* subset of {"none", "waiting", "served", "remote", "lateLocal", "lateRemote",
                     \*            "prefixRemote", "prefixRemoteRev", "prefixLocal", "prefixLocalRev"}
          Orders,    \* subset of {"legitFirst", "reqFirst", "slowUsage", "inflightUsage", "closeAfter"}
          Masked,    \* BOOLEAN: invariants hold "or a named deviation fired" (as-found tree)
          Emit       \* BOOLEAN: print one behaviour per cell

None == "-"

\* One run for all named deviations (TunnelOpen_show_all.cfg): MUT = {"*"} makes the deviation a
\* dimension of the cell - cell.mut ranges over ShowMuts, "asFound" standing for FIXES = {} - and
\* ShowRecord / AllShown (below) check that EVERY one of them leads to an unauthorised attachment.
\* In every other configuration cell.mut = "-", Mut = MUT and Fx = FIXES.
ShowMuts == <<"asFound", "usageAsync", "expirySkew", "headerFirst", "lookupCache", "validityCache", "closeStaleCopy">>
Who  == {"S", "T", "R", "P"}     \* P: the stranger's own client, source of the prefix-related tunnel T+

VARIABLES cell,   \* the cell of the product this behaviour runs
          pc,     \* index of the next script step
          mst,    \* state of mapping M in the mapping store (what the validation reads)
          adm,    \* state of mapping M as administered (what was done to it: the property reads this)
          uw,     \* stale copy a pending RecordMappingUsage write-back will store (None: nothing pending)
          br,     \* the bridge of tunnel id T: [node, map, src, tgt, live, xn]
          br2,    \* the bridge of tunnel id T+ (same first 16 bytes; tunnel state prefixRemote only)
          ack,    \* who -> "none" | "ok" | "fail"      (TunnelOpenAck received)
          att,    \* who -> "none" | "src" | "tgt" | "fwd"  (attachment of the connection)
          got,    \* who -> BOOLEAN  (a marker written by another attached end was readable)
          ent,    \* who -> BOOLEAN  ghost: the property's predicate at the time of the request
          opened, \* set of connections that sent their TunnelOpen
          dev,    \* ghost: named deviations that fired
          poll,   \* connection waiting in lookupTunnelRouting (None: nobody)
          late,   \* BOOLEAN: the ExpiresAt of a "lapsing" record has passed (the clock, not the store)
          vc,     \* BOOLEAN: a positive validation of M is memoised by the handler (matters under MUT only)
          bc,     \* the record of M as it was when M's bridge was created (None: no bridge yet)
          hist    \* the steps taken (behaviour handed to the driver)
Mut == IF "*" \in MUT THEN {cell.mut} \ {"asFound"} ELSE MUT
Fx  == IF cell.mut = "asFound" THEN {} ELSE FIXES
vars == <<cell, pc, mst, adm, uw, br, br2, ack, att, got, ent, opened, dev, poll, late, vc, bc, hist>>
Late == {"lateLocal", "lateRemote"}
UsageOrders == {"slowUsage", "inflightUsage"}
HistOrders == UsageOrders \cup {"closeAfter"}      \* orders that need an admitted open BEFORE the change
Prefix    == {"prefixRemote", "prefixRemoteRev", "prefixLocal", "prefixLocalRev"}
PrefixRev == {"prefixRemoteRev", "prefixLocalRev"}
OnB       == {"remote", "lateRemote", "prefixRemote", "prefixRemoteRev"}   \* the requester arrives on node B

NoBridge == [node |-> None, map |-> None, src |-> None, tgt |-> None, live |-> None, xn |-> None]

\* ------------------------------------------------------------------------------------------
\* who presents what
Prof(w) == CASE w = "S" -> [id |-> "listen", cred |-> "idOnly"]
             [] w = "T" -> [id |-> "target", cred |-> "rightSecret"]
             [] w = "R" -> [id |-> cell.id, cred |-> cell.cred]
             [] w = "P" -> [id |-> "stranger", cred |-> "otherId"]

\* tunnel id a connection names, and the bridge registered under it
\* prefix classes: the victim (mapping M, source S) has the short id T and the other mapping's
\* tunnel the long one T+ - or the other way round (Rev).  The requester always names the LONG id:
\* only a long id is truncated on its way into a 16-byte field
Tid(w) == IF cell.ts \in Prefix \ PrefixRev /\ w \in {"P", "R"} THEN "T+"
          ELSE IF cell.ts \in PrefixRev /\ w \in {"S", "T", "R"} THEN "T+" ELSE "T"
Bof(w) == IF Tid(w) = "T" THEN br ELSE br2

\* mapping named in the request ("nothing" carries the tunnel id only)
Pres(p) == IF p.cred = "otherId" THEN "M2" ELSE IF p.cred = "otherSecret" THEN "M3"
           ELSE IF p.cred = "nothing" THEN None ELSE "M"

\* PortMapping.IsValid of a stored record r, evaluated now: status active, not revoked, ExpiresAt
\* not passed.  "lapsing" = active with an ExpiresAt that passes when `late` becomes true
StoreValid(r)  == \/ r = "active"
                  \/ r = "lapsing" /\ (~late \/ "expirySkew" \in Mut)
                  \/ r = "expiredJust" /\ "expirySkew" \in Mut         \* IsExpired with a tolerance
\* a memoised positive validation stands in for the lookup (MUT only)
Cached         == vc /\ Mut \cap {"lookupCache", "validityCache"} # {}
MExists(m)     == m \in {"M2", "M3"} \/ (m = "M" /\ (mst # "missing" \/ Cached))
MValid(m)      == m \in {"M2", "M3"} \/ (m = "M" /\ (StoreValid(mst) \/ Cached))
\* client ids: of a connection (0 until the key is proven) and of the mappings' parties
Cid(i) == CASE i \in {"none", "noneHs"} -> "0" [] i = "listen" -> "L" [] i = "target" -> "T" [] i = "stranger" -> "X"
LId(m) == CASE m = "M" -> (IF cell.shape = "noListen" THEN "0" ELSE "L") [] m = "M2" -> "X" [] m = "M3" -> "X2" [] OTHER -> "?"
TId(m) == CASE m = "M" -> (IF cell.shape = "noTarget" THEN "0" ELSE "T") [] m = "M2" -> "X2" [] m = "M3" -> "X" [] OTHER -> "?"
IsListen(i, m) == Cid(i) = LId(m)        \* mapping.ListenClientID == clientID
IsTarget(i, m) == Cid(i) = TId(m)        \* mapping.TargetClientID == clientID

HasCtl(i) == i # "none"                                  \* a handshake registered a control connection
Authd(i)  == i \in {"listen", "target", "stranger"}      \* ... and the key was proven (client id set)

\* findOrCreateControlConnection + ServerTunnelHandler.HandleTunnelOpen
Validate(p) ==
  LET m == Pres(p) IN
  /\ HasCtl(p.id)                      \* else "connection not found or not authenticated"
  /\ p.cred # "resume"                 \* resumeTunnel: cloud control offers no ValidateTunnelResumeToken
  /\ (Authd(p.id) \/ ("authLast" \in Mut /\ p.cred # "nothing"))   \* conn.GetClientID() = 0 -> "client not authenticated"
  /\ CASE p.cred \in {"idOnly", "otherId"} ->      \* mapping id, empty secret: conncode.ValidateMapping
            MExists(m) /\ MValid(m) /\ IsListen(p.id, m)
       [] p.cred \in {"rightSecret", "otherSecret"} ->  \* secret branch: party of the mapping + equal secret
            MExists(m) /\ (IsListen(p.id, m) \/ IsTarget(p.id, m))
                       /\ ("secretValidity" \in Fx => MValid(m))
       [] OTHER -> FALSE                            \* wrong secret / no credential at all

\* ------------------------------------------------------------------------------------------
\* ghost: the property's predicate.  tm = mapping of the tunnel the request joins (None: it
\* would create the tunnel, which then belongs to the mapping it presents)
\* the identities "listen" / "target" are M's parties only if M has such a party
ListenOf(p) == p.id = "listen" /\ cell.shape # "noListen"
TargetOf(p) == p.id = "target" /\ cell.shape # "noTarget"
EntM(p) == /\ Authd(p.id) /\ adm = "active"
           /\ \/ ListenOf(p) /\ p.cred \in {"idOnly", "rightSecret", "wrongSecret", "resume"}  \* presents the mapping id
              \/ (ListenOf(p) \/ TargetOf(p)) /\ p.cred = "rightSecret"                        \* presents the secret
Entitled(p, tm) == IF p.cred = "otherId" THEN p.id = "stranger" /\ tm \in {None, "M2"}
                   ELSE IF p.cred = "otherSecret" THEN p.id = "stranger" /\ tm \in {None, "M3"}
                   ELSE EntM(p) /\ tm \in {None, "M"}

\* ------------------------------------------------------------------------------------------
\* the script of a cell
OpenStep(w, n) == [op |-> "Open", who |-> w, node |-> n]
Script(c) ==
  LET rn    == IF c.ts \in OnB THEN "B" ELSE "A"
      build == CASE c.ts = "none"    -> <<>>
                 [] c.ts \in Prefix  -> <<OpenStep("S", "A"), OpenStep("P", "A")>>
                 [] c.ts \in Late    -> <<OpenStep("S", "A"), [op |-> "Resolve", who |-> "R"]>>
                 [] c.ts = "waiting" -> <<OpenStep("S", "A")>>
                 [] c.ts = "remote"  -> <<OpenStep("S", "A")>>
                 [] c.ts = "served"  -> <<OpenStep("S", "A"), OpenStep("T", "A")>>
  IN IF c.ord \in UsageOrders
       THEN build \o <<[op |-> "SetMap"], [op |-> "UsageLand"], OpenStep("R", rn), [op |-> "Marker"]>>
     ELSE IF c.ord = "closeAfter"
       THEN build \o <<[op |-> "SetMap"], [op |-> "Close"], OpenStep("R", rn), [op |-> "Marker"]>>
     ELSE IF c.ord = "legitFirst"
       THEN build \o <<[op |-> "SetMap"], OpenStep("R", rn), [op |-> "Marker"]>>
       ELSE <<[op |-> "SetMap"], OpenStep("R", rn)>> \o build \o <<[op |-> "Marker"]>>

Step == Script(cell)[pc]
Running == pc <= Len(Script(cell))

\* the late classes are "request first" by construction, and the tunnel can only appear late if
\* its mapping is active (the legitimate source is refused otherwise: that is the "none" state)
\* a mapping without a listen client has no legitimate client source: its cells are the requester
\* alone against the validation (which runs on every branch)
Init == /\ cell \in [id : Idents, cred : Creds, ms : MStates, ts : TStates, ord : Orders, shape : Shapes,
                     mut : IF "*" \in MUT THEN {ShowMuts[i] : i \in 1..Len(ShowMuts)} ELSE {"-"}]
        /\ cell.ts \in Late => (cell.ord = "reqFirst" /\ cell.ms = "active")
        /\ cell.shape # "std" => (cell.ts = "none" /\ cell.ord = "legitFirst")
        \* the usage orders need an admitted mapping-id open before the change: the waiting tunnel
        /\ cell.ord \in UsageOrders => (cell.ts = "waiting" /\ cell.shape = "std" /\ cell.ms \notin {"active", "lapsed"})
        \* ... closeAfter a served tunnel that carried data
        /\ cell.ord = "closeAfter" => (cell.ts = "served" /\ cell.shape = "std" /\ cell.ms \notin {"active", "lapsed"})
        \* the prefix classes are about how a tunnel id is resolved, not about M's state
        /\ cell.ts \in Prefix => (cell.ord = "legitFirst" /\ cell.ms = "active" /\ cell.shape = "std")
        \* natural expiry: plain orders, plain shape (the record is "lapsing" from the start)
        /\ cell.ms = "lapsed" => (cell.ord \in {"legitFirst", "reqFirst"} /\ cell.shape = "std")
        /\ poll = None /\ uw = None /\ adm = "active" /\ br2 = NoBridge
        /\ late = FALSE /\ vc = FALSE /\ bc = None
        /\ pc = 1 /\ mst = (IF cell.ms = "lapsed" THEN "lapsing" ELSE "active") /\ br = NoBridge
        /\ ack = [w \in Who |-> "none"] /\ att = [w \in Who |-> "none"]
        /\ got = [w \in Who |-> FALSE] /\ ent = [w \in Who |-> FALSE]
        /\ opened = {} /\ dev = {} /\ hist = <<>>

\* tunnel state the request meets (for the record handed to the driver and the judge's detail)
Arrival(w, n) == LET b == Bof(w) IN
                 IF b.node = None THEN "none"
                 ELSE IF b.node # n THEN "remote"
                 ELSE IF b.live # None \/ b.xn # None THEN "served" ELSE "waiting"

Rec(w, n, via) == [op |-> "Open", who |-> w, node |-> n, id |-> Prof(w).id, cred |-> Prof(w).cred,
                   ms |-> adm, ts |-> Arrival(w, n), tid |-> Tid(w), via |-> via]

\* why an unentitled request was let in: a cause the MUT set introduces, else the branch's own
\* (as-found) deviation
TreeValid(r) == r = "active" \/ (r = "lapsing" /\ ~late)
MutCause == {c \in {"expiryTolerance"} : "expirySkew" \in Mut /\ (mst = "expiredJust" \/ (mst = "lapsing" /\ late))}
            \cup {c \in {"memoisedValidation"} : Cached /\ ~(mst # "missing" /\ TreeValid(mst))}
            \cup {c \in {"staleStore"} : TreeValid(mst) /\ adm # "active"}
AdmitDev(p, e, d) == IF e THEN {} ELSE IF Pres(p) = "M" /\ MutCause # {} THEN MutCause ELSE {d}

\* bt: the bridge ("T" | "T+") the branch worked on
DoneOn(bt, w, n, via, a, at, e, d, b) ==
  /\ ack' = [ack EXCEPT ![w] = a] /\ att' = [att EXCEPT ![w] = at]
  /\ ent' = [ent EXCEPT ![w] = e] /\ opened' = opened \cup {w}
  /\ dev' = dev \cup d
  /\ IF bt = "T" THEN br' = b /\ br2' = br2 ELSE br2' = b /\ br' = br
  /\ hist' = Append(hist, Rec(w, n, via) @@ [exp |-> [ack |-> a, att |-> at]])
  /\ pc' = pc + 1 /\ UNCHANGED <<cell, mst, adm, got, late>>
  \* the bridge of M keeps what it learnt about the mapping when it was created
  /\ bc' = IF via = "NewBridge:SourceBridge" /\ Pres(Prof(w)) = "M" THEN mst ELSE bc
  \* an admitted request that presented M: its validation may be memoised (MUT); the usage write
  \* of a mapping-id request is a write to M's record (drops a memo that writes invalidate)
  /\ vc' = IF a = "ok" /\ Pres(Prof(w)) = "M" /\ Validate(Prof(w))
              THEN ~(Prof(w).cred = "idOnly" /\ "validityCache" \in Mut) ELSE vc
  \* an admitted mapping-id request records the mapping's usage: read - set LastActive - write the
  \* whole record back.  With a slow store the write is still pending when the open is over
  \* (background write, MUT usageAsync) or the open itself is still in it (inflightUsage)
  /\ uw' = IF w = "S" /\ a = "ok" /\ Prof(w).cred = "idOnly"
                /\ (cell.ord = "inflightUsage" \/ (cell.ord = "slowUsage" /\ "usageAsync" \in Mut))
            THEN mst ELSE uw
  /\ poll' = IF via = "NewBridge:TargetBridge:polling" THEN w ELSE poll
Done(w, n, via, a, at, e, d, b) == DoneOn(Tid(w), w, n, via, a, at, e, d, b)

\* --- the validation moved in front of the dispatch (patches/C04-1) refuses ------------------
RefusedBeforeDispatch(w, n) ==
  /\ "validateJoin" \in Fx /\ ~Validate(Prof(w))
  /\ Done(w, n, "Refused", "fail", "none", Entitled(Prof(w), Bof(w).map), {}, Bof(w))

Pass(w) == "validateJoin" \in Fx => Validate(Prof(w))

\* --- bridge registered on this node: handleExistingBridge -----------------------------------
\* as found: no control-connection lookup, no HandleTunnelOpen; success ack; SetTargetConnection
\* (SetSourceConnection needs a transport that knows its client id - not a TCP-like one)
ExistingBridge(w, n) ==
  /\ Pass(w) /\ Bof(w).node = n
  /\ LET p == Prof(w) b == Bof(w) e == Entitled(p, b.map) IN
     IF "bindMapping" \in Fx /\ Pres(p) # b.map
       THEN Done(w, n, "ExistingBridge:otherMapping", "fail", "none", e, {}, b)
       ELSE Done(w, n, "ExistingBridge", "ok", "tgt", e,
                 AdmitDev(p, e, "existingBridgeNoCheck"),
                 \* SetTarget: the bridge's books name the newcomer; the copy loops keep the
                 \* forwarder they started with (first target that made the bridge ready)
                 [b EXCEPT !.tgt = w, !.live = IF b.live = None /\ b.xn = None THEN w ELSE @])

\* --- no local bridge, routing record of another node: handleCrossNodeTargetConnection --------
\* as found: no validation; forwardToSourceNode acknowledges, dials the source node and
\* announces TargetReady there.  The frame header has room for 16 bytes of the tunnel id, the
\* payload carries the full id: CrossNodeListener.handleTargetReady resolves the bridge by the
\* full id (MUT headerFirst: by the header first - for T+ that is the bridge of T), then
\* SetCrossNodeConnection + NotifyTargetReady + runBridgeForward on THAT bridge.
HeaderHit(w) == "headerFirst" \in Mut /\ Tid(w) = "T+" /\ br.node = br2.node /\ br.node # None
CrossNodeTarget(w, n) ==
  /\ Pass(w) /\ Bof(w).node \notin {None, n}
  /\ LET p == Prof(w) b == Bof(w) IN
     IF "bindMapping" \in Fx /\ Pres(p) # b.map
       THEN Done(w, n, "CrossNodeTarget:otherMapping", "fail", "none", Entitled(p, b.map), {}, b)
       ELSE IF HeaderHit(w)
         THEN \* ForwardToSourceNode, attached to the bridge of the 16-byte prefix
              DoneOn("T", w, n, "CrossNodeTarget:headerBridge", "ok", "fwd", Entitled(p, br.map),
                     IF Entitled(p, br.map) THEN {} ELSE {"headerBridgeLookup"}, [br EXCEPT !.xn = w])
         ELSE Done(w, n, "CrossNodeTarget", "ok", "fwd", Entitled(p, b.map),
                   AdmitDev(p, Entitled(p, b.map), "crossNodeNoCheck"),
                   [b EXCEPT !.xn = w])          \* ForwardToSourceNode

\* --- neither: the only branch that validates in the tree as found ----------------------------
NewBridge(w, n) ==
  /\ Bof(w).node = None
  /\ LET p == Prof(w) m == Pres(p) e == Entitled(p, None) IN
     IF ~Validate(p)
       THEN /\ "validateJoin" \notin Fx        \* (with the patch this is RefusedBeforeDispatch)
            /\ Done(w, n, "NewBridge:refused", "fail", "none", e, {}, Bof(w))
       ELSE IF IsListen(p.id, m)                  \* isSourceClient
         THEN \* SourceBridge: startSourceBridge registers the bridge and the routing record; SetSource
              Done(w, n, "NewBridge:SourceBridge", "ok", "src", e,
                   AdmitDev(p, e, "secretNoValidity"),
                   [node |-> n, map |-> m, src |-> w, tgt |-> None, live |-> None, xn |-> None])
         ELSE \* TargetBridge: no bridge -> handleCrossNodeTargetConnection -> lookupTunnelRouting
              \* polls for a record.  In the late classes one appears (PollFound); otherwise the
              \* lookup ends with an error after the success ack and nothing is attached
              Done(w, n, IF cell.ts \in Late /\ w = "R" THEN "NewBridge:TargetBridge:polling" ELSE "NewBridge:TargetBridge",
                   "ok", "none", e, AdmitDev(p, e, "secretNoValidity"), Bof(w))

Open == /\ Running /\ Step.op = "Open"
        /\ LET w == Step.who n == Step.node IN
           \* the legitimate target is told to connect only once a bridge exists
           IF w = "T" /\ Bof(w).node = None
             THEN /\ pc' = pc + 1 /\ hist' = Append(hist, [op |-> "Skip", who |-> w])
                  /\ UNCHANGED <<cell, mst, adm, uw, br, br2, ack, att, got, ent, opened, dev, poll, late, vc, bc>>
             ELSE \/ RefusedBeforeDispatch(w, n)
                  \/ ExistingBridge(w, n)
                  \/ CrossNodeTarget(w, n)
                  \/ NewBridge(w, n)

\* --- the polling request sees the record the legitimate source registered meanwhile -----------
\* processCrossNodeForward: (1) mapping comparison [patches/C04-3], (2) record of this node ->
\* handleLocalBridgeWait -> SetTarget; record of another node -> ForwardToSourceNode.  The
\* success ack went out before the poll, so a refusal here is an error without a second ack.
ResolveRec(w, a) == [op |-> "Resolve", who |-> w, exp |-> [ack |-> ack[w], att |-> a]]
Resolve ==
  /\ Running /\ Step.op = "Resolve"
  /\ LET w == Step.who p == Prof(w) n == IF cell.ts = "lateRemote" THEN "B" ELSE "A" IN
     IF poll # w
       THEN \* the request was refused, or created the bridge itself: nothing is pending
            /\ hist' = Append(hist, ResolveRec(w, att[w]))
            /\ UNCHANGED <<br, att, ent, dev>>
       ELSE IF br.node = None                                        \* PollTimeout
         THEN /\ hist' = Append(hist, ResolveRec(w, "none")) /\ UNCHANGED <<br, att, ent, dev>>
       ELSE IF "bindMappingPoll" \in Fx /\ Pres(p) # br.map      \* PollFound, step (1)
         THEN /\ hist' = Append(hist, ResolveRec(w, "none"))
              /\ ent' = [ent EXCEPT ![w] = Entitled(p, None)] /\ UNCHANGED <<br, att, dev>>
       ELSE LET e == Entitled(p, br.map)                             \* PollFound, step (2)
                a == IF br.node = n THEN "tgt" ELSE "fwd" IN
              /\ att' = [att EXCEPT ![w] = a]
              /\ ent' = [ent EXCEPT ![w] = e]
              /\ dev' = dev \cup (IF e THEN {} ELSE {"pollNoMappingCheck"})
              /\ br' = IF a = "tgt" THEN [br EXCEPT !.tgt = w, !.live = IF br.live = None /\ br.xn = None THEN w ELSE @]
                                    ELSE [br EXCEPT !.xn = w]
              /\ hist' = Append(hist, ResolveRec(w, a))
  /\ poll' = None /\ pc' = pc + 1
  /\ UNCHANGED <<cell, mst, adm, uw, br2, ack, got, opened, late, vc, bc>>

\* the mapping reaches the state of the cell (revoked / expired / deactivated / deleted through
\* the real services) - before the requester arrives
\* "lapsed" is not an act: the ExpiresAt the record has carried from the start passes (no write)
SetMap == /\ Running /\ Step.op = "SetMap"
          /\ adm' = cell.ms /\ pc' = pc + 1
          /\ IF cell.ms = "lapsed" THEN late' = TRUE /\ UNCHANGED <<mst, vc>>
             ELSE /\ mst' = cell.ms /\ late' = late
                  \* a write to M's record (cell.ms = "active": nothing is written)
                  /\ vc' = IF cell.ms # "active" /\ "validityCache" \in Mut THEN FALSE ELSE vc
          /\ hist' = Append(hist, [op |-> "SetMap", ms |-> cell.ms])
          /\ UNCHANGED <<cell, uw, br, br2, ack, att, got, ent, opened, dev, poll, bc>>

\* the held RecordMappingUsage write lands: the copy read before the change goes back into the
\* store (UpdatePortMapping writes the whole record).  Nothing pending: nothing happens.
UsageLand == /\ Running /\ Step.op = "UsageLand"
             /\ mst' = IF uw # None THEN uw ELSE mst
             /\ dev' = dev \cup (IF uw # None /\ uw # mst THEN {"staleUsageWriteBack"} ELSE {})
             /\ uw' = None /\ pc' = pc + 1
             /\ vc' = IF uw # None /\ "validityCache" \in Mut THEN FALSE ELSE vc
             /\ hist' = Append(hist, [op |-> "UsageLand", exp |-> [valid |-> TreeValid(mst')]])
             /\ UNCHANGED <<cell, adm, br, br2, ack, att, got, ent, opened, poll, late, bc>>

\* the served tunnel of M closes after it carried data: both ends hang up, the bridge is removed,
\* its final traffic report runs - GetPortMapping (the record as it is NOW), add the byte counts,
\* UpdatePortMappingStats (reads the record again, writes the whole record).  The tree writes back
\* what it has just read; MUT closeStaleCopy: the copy the bridge took when it was created.
Close == /\ Running /\ Step.op = "Close"
         /\ LET stale == "closeStaleCopy" \in Mut /\ bc # None /\ br.node # None IN
            /\ mst' = IF stale THEN bc ELSE mst
            /\ dev' = dev \cup (IF stale /\ bc # mst THEN {"staleCloseWriteBack"} ELSE {})
            /\ vc'  = IF br.node # None /\ mst # "missing" /\ "validityCache" \in Mut THEN FALSE ELSE vc
            /\ hist' = Append(hist, [op |-> "Close", exp |-> [valid |-> TreeValid(mst')]])
         /\ br' = NoBridge /\ bc' = None /\ pc' = pc + 1
         /\ UNCHANGED <<cell, adm, uw, br2, ack, att, got, ent, opened, poll, late>>

\* every attached end writes a marker; bytes of a bridge's source go to its cross-node forwarder
\* if one is attached, else to the target its copy loops started with; bytes of that end go to
\* the source.  A target that only replaced the books receives nothing.
RouteIn(b, v) == IF b.node = None THEN None
                 ELSE IF v = b.src THEN (IF b.xn # None THEN b.xn ELSE b.live)
                 ELSE IF v \in {b.live, b.xn} THEN b.src ELSE None
Out(b) == IF Emit THEN PrintT("BEH " \o ToJson(b)) ELSE TRUE
Marker == /\ Running /\ Step.op = "Marker"
          /\ LET g == [w \in Who |-> \E v \in Who \ {w} : att[v] # "none" /\ (RouteIn(br, v) = w \/ RouteIn(br2, v) = w)] IN
             /\ got' = g /\ pc' = pc + 1
             /\ hist' = Append(hist, [op |-> "Marker", exp |-> g])
             /\ Out([cell |-> cell, steps |-> hist', dev |-> dev])
          /\ UNCHANGED <<cell, mst, adm, uw, br, br2, ack, att, ent, opened, dev, poll, late, vc, bc>>

Next == Open \/ SetMap \/ UsageLand \/ Close \/ Resolve \/ Marker
Spec == Init /\ [][Next]_vars

\* ------------------------------------------------------------------------------------------
\* the property
TypeOK == /\ pc \in 1..(Len(Script(cell)) + 1)
          /\ \A w \in Who : ack[w] \in {"none", "ok", "fail"} /\ att[w] \in {"none", "src", "tgt", "fwd"}
          /\ br.node \in {None, "A", "B"} /\ br2.node \in {None, "A", "B"}

Known == {"existingBridgeNoCheck", "crossNodeNoCheck", "secretNoValidity", "pollNoMappingCheck"}
\* (staleUsageWriteBack / staleCloseWriteBack / headerBridgeLookup / expiryTolerance / memoisedValidation /
\*  staleStore only fire under MUT or the inflightUsage order: never masked)
\* the in-flight order is a deviation the tree HAS (lost update between RecordMappingUsage's read and
\* write and the change of the mapping): masked like the as-found ones, shown by TunnelOpen_show_inflight.cfg
Mask  == Masked /\ (dev \cap Known # {} \/ (cell.ord = "inflightUsage" /\ dev \cap {"staleUsageWriteBack", "staleStore"} # {}))

\* attached (as source, as target, through another node) only if authenticated and entitled
AttachedEntitled == Mask \/ \A w \in Who : att[w] # "none" => ent[w]
\* a request that is not entitled gets a failure acknowledgement and never any tunnel byte
RefusedClean     == Mask \/ \A w \in opened : ~ent[w] => (ack[w] = "fail" /\ ~got[w])
\* bytes reach attached connections only
OnlyAttachedRead == \A w \in Who : got[w] => att[w] # "none"
\* no deviation is reachable in the repaired design
NoDeviation      == Masked \/ dev = {}
\* every named deviation shows (TunnelOpen_show_all.cfg, one worker): ShowRecord is an always-true
\* INVARIANT that notes in a TLC register which deviation produced an unauthorised attachment,
\* AllShown the POSTCONDITION that none is missing.  A deviation the model can no longer express
\* would make the "no deviation reachable" run of the patched design vacuous.
ASSUME \A i \in 1..Len(ShowMuts) : TLCSet(i, FALSE)
ShowRecord == \A i \in 1..Len(ShowMuts) :
                (cell.mut = ShowMuts[i] /\ \E w \in Who : att[w] # "none" /\ ~ent[w]) => TLCSet(i, TRUE)
AllShown   == \A i \in 1..Len(ShowMuts) :
                TLCGet(i) \/ ~PrintT("NOT SHOWN: " \o ShowMuts[i])
\* sanity of the model itself: the plain legitimate flows work (source creates, target joins)
LegitWorks == (~Running /\ cell.ord = "legitFirst" /\ cell.ts = "served")
                 => (att["S"] = "src" /\ att["T"] = "tgt" /\ ack["S"] = "ok" /\ ack["T"] = "ok")
=============================================================================
