\* variant: the per-client quota mutexes are created on demand and the table entry is deleted on unlock. Two requests
\* are still serialised; with three, a waiter takes over the old mutex while a late arrival creates a fresh one.
\*   tlc -config Limits_show_lockdrop.cfg Limits.tla   (expected: Invariant NoOvershoot is violated, n = 3, limit = 2,
\*   slack = 2: Call(1), Call(2) [waits], Count(1), Put(1), Index(1) [returns; 2 gets the old mutex], Call(3) [fresh mutex] ...)
CONSTANTS
  Kinds = {"codequota", "mapquota"}
  NS = {2, 3, 4}
  Lims = {0, 1, 2}
  NodeCounts = {1}
  Variants = {"lockdrop"}
  Shape = "free"
  MaxReRel = 2
  Slacks = {1, 2}
  Listers = 1
  Retries = 1
  FixedKinds = {"conncap", "maplimit", "maplive", "codequota", "mapquota"}
  WithRelease = TRUE
  Emit = FALSE
  EmitMaxN = 4
  EmitAll = FALSE
INIT Init
NEXT Next
VIEW view
INVARIANTS TypeOK NoOvershoot
CHECK_DEADLOCK FALSE
