\* C20 relay level with the named deviation "payload aliases the read buffer" (seeded change m3):
\* Faithful holds only because every corrupted forward is explained by `dev`; Intact / NoDev are violated
\* (TLC counterexample: Recv 1, Recv 2, Open, Forward(1) -> destination 1 receives octets of datagram 2)
\* and the deviation "the reply to a control-channel DNS query is headed by the address that was asked"
\* (seeded change r3m3): ReplyIntact is violated for a datagram to the virtual DNS address.
CONSTANTS
  Emit = FALSE
  MaxK = 2
  Alias = TRUE
  ReplySubst = TRUE
INIT Init
NEXT Next
INVARIANTS TypeOK Faithful Complete
CHECK_DEADLOCK TRUE
