\* C20 relay level with the named deviation "payload aliases the read buffer" (seeded change m3):
\* Faithful holds only because every corrupted forward is explained by `dev`; Intact / NoDev are violated
\* (TLC counterexample: Recv 1, Recv 2, Open, Forward(1) -> destination 1 receives octets of datagram 2)
\* and the deviation "the reply to a control-channel DNS query is headed by the address that was asked"
\* (seeded change r3m3): ReplyIntact is violated for a datagram to the virtual DNS address.
\* and the deviation NetipText (seeded change r5m3): the parser spells an IPv4-mapped address as IPv6 text - Intact and ReplyIntact
\* still hold (why the fault is invisible end to end), OneSessionPerDest / VdnsRecognised do not (Socks5Relay_show_netiptext.cfg).
CONSTANTS
  Emit = FALSE
  MaxK = 2
  Alias = TRUE
  ReplySubst = TRUE
  NetipText = TRUE
  ValClasses = TRUE
INIT Init
NEXT Next
INVARIANTS TypeOK Faithful Complete
CHECK_DEADLOCK TRUE
