\* behaviour generation (C05): one "BEH" line per hostile frame class with the outcome of
\* ReadPacket the contract model predicts.
CONSTANTS
  Mode = "hostile"
  MaxPkts = 1
  MaxLen = 2
  BodyClasses = {"any"}
  Flags = {"none"}
  MaxFrames = 1
  Threads = {1}
  MaxStall = 0
  Chunking = "max"
  Dev = {}
  Emit = TRUE
INIT Init
NEXT Next
CHECK_DEADLOCK FALSE
