\* C10 judge: MaxFrame = crossnode.MaxFrameSize (64 KiB payload limit of the statement);
\* Slack covers the 21-byte header buffer, error values and allocation-accounting noise.
CONSTANTS
  MaxFrame = 65536
  Slack = 4096
INIT Init
NEXT Next
POSTCONDITION Consumed
CHECK_DEADLOCK FALSE
