\* C11 concurrent part: every interleaving of dispatch / duplex timeout / storage return of two commands.
\* POOLED = FALSE: the code as it is (per-call CommandContext); TRUE = recycled contexts (rejected by TLC).
CONSTANTS
  Pooled = @@POOLED@@
  Whos = {"vB:create", "vB:check", "c1:check"}
  Emit = @@EMIT@@
INIT Init
NEXT Next
INVARIANTS EffIdIsAuth ResponseToSender EmitBeh
CHECK_DEADLOCK FALSE
