\* C11 concurrent part: every interleaving of dispatch / duplex timeout / storage return of two commands.
\* POOLED = FALSE: the code as it is (per-call CommandContext); TRUE = recycled contexts (rejected by TLC:
\* CommandsConc_show_pooled.cfg).  The two command ids are different or equal (SameIds); Dedupe: CommandsConc_show_dedupe.cfg.
CONSTANTS
  Pooled = @@POOLED@@
  Dedupe = FALSE
  SameIds = {FALSE, TRUE}
  Whos = {"vB:create", "vB:check", "c1:check"}
  Emit = @@EMIT@@
INIT Init
NEXT Next
INVARIANTS EffIdIsAuth ResponseToSender EmitBeh
CHECK_DEADLOCK FALSE
