------------------------------- MODULE HttpProxy -------------------------------
(* X06 (extension) - implementation-shaped model of the HTTP domain proxy's request path: the pending  *)
(* tables behind a small request (command mode) and behind a large request (tunnel mode).  The data     *)
(* side of the same path (what the target receives, what the caller gets back) is HttpProxyData.tla.    *)
(*                                                                                                     *)
(* (a) CODE MAPPED.  Two tables of the same shape (a process-wide map id -> one-slot channel, one       *)
(* HTTP handler goroutine per request blocked in a select, reader goroutines - the read loops of the    *)
(* control / tunnel connections - that look the id up and do a non-blocking send), selected by Variant: *)
(*                                                                                                     *)
(*  Variant = "req"  domainproxy/request_small.go (handleSmallRequest), session/http_proxy.go           *)
(*                   (SendHTTPProxyRequest, sendHTTPProxyRequestLocal, HandleHTTPProxyResponse),        *)
(*                   session/httpproxy/manager.go (Manager), session/command_integration.go             *)
(*                   (handleHTTPProxyResponsePacket); the peer is the client's handleHTTPProxyRequest + *)
(*                   client/http_proxy_executor.go (Execute)                                            *)
(*  Variant = "tun"  domainproxy/request_large.go (handleLargeRequest, handleUserWebSocket),            *)
(*                   session/http_proxy.go (RequestTunnelForHTTP, TunnelWaitManager,                    *)
(*                   NotifyHTTPTunnelEstablished); session/httpproxy/tunnel_wait.go is a second copy of  *)
(*                   the same manager (nothing uses it)                                                 *)
(*                                                                                                     *)
(*  action       "req"                                          "tun"                                   *)
(*  Start(p)     ServeHTTP: lookupMapping (C19, not redone),    the same, then GenerateTunnelID and     *)
(*               GetControlConnectionInterface: nil -> 503      RegisterPendingTunnel (mu section):     *)
(*               (r = "offline"); buildProxyRequest (body read, the entry exists BEFORE the command is  *)
(*               uuid = request id); second look-up in          written                                 *)
(*               SendHTTPProxyRequest; json.Marshal.  RegFirst                                          *)
(*               (repaired): RegisterPendingRequest here                                                *)
(*  Write(p)     conn.Stream.WritePacket(HTTPProxyRequest) ok   WritePacket(TunnelOpenRequestCmd) ok    *)
(*  WriteFail(p) WritePacket error (connection closed           the same                                *)
(*               meanwhile): 500, nothing registered (as found)                                         *)
(*  Reg(p)       as found ONLY: WaitForResponse's               -                                       *)
(*               RegisterPendingRequest AFTER the write                                                 *)
(*  Take(p)      select: <-ch                                   select: <-waitCh                        *)
(*  Expire(p)    select: time.After(request.Timeout s)          select: time.After(30 s) (hard-coded)   *)
(*  Cancel       select: SessionManager ctx.Done - every blocked caller at once                         *)
(*  Unreg(p)     deferred UnregisterPendingRequest (delete;     deferred UnregisterPendingTunnel;       *)
(*               the channel is never closed); the handler      repaired (Atomic): then one non-blocking *)
(*               writes the response: writeProxyResponse /      receive that closes a connection sent   *)
(*               handleError (504 timeout, 500 other)           meanwhile; handler: request/response    *)
(*                                                              over the tunnel, deferred Close         *)
(*  Arrive(r)    read loop of a control connection got          the client's tunnel connection arrived: *)
(*               CommandResp/HTTPProxyResponse:                 Wired: NotifyHTTPTunnelEstablished:     *)
(*               handleHTTPProxyResponsePacket (json: a bad     RLock look-up; as found (~Wired)        *)
(*               body ends here), RequestID or CommandId,       NOTHING calls it: the waiter can only   *)
(*               HandleResponse: RLock look-up                  time out                                *)
(*  Send(r)      `select { case ch <- resp: default: }`         the same, outside the lock (as found);  *)
(*               outside the lock                               Atomic: inside the look-up's section    *)
(*  Offline      the client's control connection is closed (no responses afterwards; new requests: 503) *)
(*                                                                                                     *)
(* Seams (where the driver parks a goroutine): Start|Write = the fake control connection's              *)
(* BeforeNextWrite, Write|Reg = its AfterNextPacket (still inside WritePacket), Take,Expire|Unreg =     *)
(* yield point httpproxy.wait.selected / httptunnel.wait.selected, Arrive|Send = httpproxy.handle.found  *)
(* / httptunnel.notify.found (patch X06-0).  A caller blocked in its select is not parked anywhere:      *)
(* generation uses Eager = TRUE (Send performs the Take of a blocked caller, Expire/Cancel only while    *)
(* the channel is empty); the exhaustive configurations use Eager = FALSE.                               *)
(*                                                                                                     *)
(* (b) WHAT A USER RELIES ON.                                                                            *)
(*  OneOutcome   every request gets exactly one outcome (a response, or one gateway error)               *)
(*  RightWaiter  a request is answered only by a response / tunnel connection that carries its id        *)
(*  AtMostOnce   a response / connection is handed to at most one request                                *)
(*  NoLoss       a well-formed response that arrives after its request went out, while the caller has    *)
(*               not given up and has nothing else in its channel, is never thrown away                  *)
(*  NoLeak       when every request has returned the table is empty                                      *)
(*  NoOrphan     (tun) a connection given to Notify ends up with exactly one of: the waiter that asked   *)
(*               for it, closed, or back with the notifier who was TOLD it was not taken - never in a    *)
(*               channel nobody reads, never dropped without telling                                     *)
(*  Returns (liveness, WF on caller steps and timers): every request returns; ReaderFree (WF on reader   *)
(*  steps): no response - late, duplicate, unknown, malformed - keeps a reader from its next read.       *)
(*  Silent (accepted): a response racing with the expiry / cancellation of its request may be returned   *)
(*  or dropped (Go's select); which connection a response came from is not checked by either table (ids  *)
(*  are random); the HTTP status of a gateway error beyond "it is a 5xx".                                *)
(*                                                                                                     *)
(* (c) NAMED DEVIATIONS of the code as found (ghost `dev`):                                              *)
(*  LateRegister  req, RegFirst = FALSE: the command is written first and the entry made afterwards - a   *)
(*                response that comes back in between finds no entry, is dropped, and the request runs   *)
(*                into its timeout (HttpProxy_show_latereg.cfg)                                           *)
(*  Orphan        tun, Atomic = FALSE: Notify sends after releasing the lock; the waiter times out / is   *)
(*                cancelled / has taken an earlier connection and unregisters in between: the connection *)
(*                sits in a channel nobody will ever read (HttpProxy_show_orphan.cfg)                     *)
(*  Untold        tun, Told = FALSE: Notify returns nothing: a connection that arrives late, twice or for *)
(*                an unknown id is dropped and the notifier cannot know it still owns it                  *)
(*                (HttpProxy_show_untold.cfg)                                                             *)
(*  Unwired       tun, Wired = FALSE: nothing calls NotifyHTTPTunnelEstablished - every large request and *)
(*                every WebSocket upgrade waits its 30 s and fails (HttpProxy_show_unwired.cfg)           *)
(*  Repaired: X06-1 (RegFirst), X06-2 (Atomic + Told).  Unwired is recorded as an open finding: wiring it  *)
(*  needs more than the call (the tunnel command carries no target host/port for the client, the server's  *)
(*  TunnelOpen handler knows nothing of HTTP tunnels).                                                     *)
EXTENDS Naturals, Sequences, FiniteSets, TLC, Json

CONSTANTS Variant,   \* "req" | "tun"
          NW,        \* handler goroutines
          NR,        \* reader goroutines
          MaxReq,    \* requests per behaviour (= ids)
          MaxMsg,    \* responses / tunnel connections that arrive
          MaxExp,    \* timer expiries
          MaxCancel, \* 0 | 1: the server context is cancelled
          MaxOff,    \* 0 | 1: the client goes offline
          Kinds,     \* subset of {"ok", "bad"}; "bad" = body that is not JSON (req only)
          Unknown,   \* TRUE: responses with an id nobody ever registered arrive too
          RegFirst,  \* req: the entry is made before the command is written (tun: always)
          Atomic,    \* tun: look-up + send in one section, waiter drains after unregistering
          Told,      \* tun: Notify reports whether the connection was taken
          Wired,     \* tun: something calls Notify
          Eager,     \* generation: a blocked caller takes a delivered response in the same step
          Emit       \* print one behaviour per transition

Procs   == 1..NW
Readers == 1..NR
Ids     == 1..MaxReq
Req     == Variant = "req"
Tun     == Variant = "tun"
First   == Tun \/ RegFirst      \* the entry exists before the command is on the wire

VARIABLES reg,     \* id -> the table holds an entry for id
          buf,     \* id -> serial of the response sitting in the channel made for id (0 = empty)
          sent,    \* id -> the command reached the client
          owner,   \* id -> caller
          pc,      \* caller -> idle | built | wrote | wait | took
          rid,     \* caller -> id of its current request
          res,     \* caller -> [r, n] what the select produced
          rd,      \* reader -> [st : idle | checked, n]
          msgs,    \* serial -> [id, kind]
          cst,     \* serial -> (tun) where the connection is: fly | chan | given | closed | kept | limbo
          online, cancelled, nreq, cnt,
          rets,    \* ghost: outcomes [p, id, r, n]
          lost,    \* ghost: a response owed to a waiting caller was thrown away
          dev,     \* ghost: named deviations that happened
          hist
vars == <<reg, buf, sent, owner, pc, rid, res, rd, msgs, cst, online, cancelled, nreq, cnt, rets, lost, dev, hist>>
view == <<reg, buf, sent, owner, pc, rid, res, rd, msgs, cst, online, cancelled, nreq, cnt, rets, lost, dev>>

NoRes == [r |-> "", n |-> 0]
Rd0   == [st |-> "idle", n |-> 0]

Init == /\ reg = [i \in Ids |-> FALSE] /\ buf = [i \in Ids |-> 0] /\ sent = [i \in Ids |-> FALSE]
        /\ owner = [i \in Ids |-> 0]
        /\ pc = [p \in Procs |-> "idle"] /\ rid = [p \in Procs |-> 0] /\ res = [p \in Procs |-> NoRes]
        /\ rd = [r \in Readers |-> Rd0] /\ msgs = <<>> /\ cst = <<>>
        /\ online = TRUE /\ cancelled = FALSE /\ nreq = 0 /\ cnt = [exp |-> 0, cancel |-> 0, off |-> 0]
        /\ rets = {} /\ lost = FALSE /\ dev = {} /\ hist = <<>>

\* ---- behaviour output ------------------------------------------------------------------------
Beh(h) == [variant |-> Variant, first |-> First, atomic |-> Atomic, told |-> Told, wired |-> Wired, steps |-> h]
\* p = caller or reader (0 = environment), id = request (0 = unknown id), k = kind, st = where p is afterwards,
\* r/n = outcome of a returning call, wk = callers that moved as a consequence [p, st, r, n], c = where the connection went
Log(a, p, id, k, st, r, n, wk, c) ==
   /\ hist' = (IF Emit THEN Append(hist, [a |-> a, p |-> p, id |-> id, k |-> k, st |-> st, r |-> r, n |-> n, wk |-> wk, c |-> c]) ELSE hist)
   /\ (Emit => PrintT("BEH " \o ToJson(Beh(hist'))))

Ret(p, id, r, n) == rets' = rets \cup {[p |-> p, id |-> id, r |-> r, n |-> n]}

\* ---- callers -----------------------------------------------------------------------------------
Start(p) ==
  /\ pc[p] = "idle" /\ nreq < MaxReq /\ ~cancelled
  /\ LET id == nreq + 1 IN
     /\ nreq' = id
     /\ UNCHANGED <<buf, sent, rd, msgs, cst, online, cancelled, cnt, lost, dev>>
     /\ IF ~online
        THEN /\ Ret(p, id, "offline", 0)
             /\ UNCHANGED <<reg, owner, pc, rid, res>>
             /\ Log("Start", p, id, "", "idle", "offline", 0, <<>>, "")
        ELSE /\ rid' = [rid EXCEPT ![p] = id] /\ owner' = [owner EXCEPT ![id] = p]
             /\ reg' = (IF First THEN [reg EXCEPT ![id] = TRUE] ELSE reg)
             /\ pc' = [pc EXCEPT ![p] = "built"] /\ res' = [res EXCEPT ![p] = NoRes]
             /\ UNCHANGED rets
             /\ Log("Start", p, id, "", "built", "", 0, <<>>, "")

Write(p) ==
  /\ pc[p] = "built" /\ online
  /\ sent' = [sent EXCEPT ![rid[p]] = TRUE]
  /\ pc' = [pc EXCEPT ![p] = IF First THEN "wait" ELSE "wrote"]
  /\ UNCHANGED <<reg, buf, owner, rid, res, rd, msgs, cst, online, cancelled, nreq, cnt, rets, lost, dev>>
  /\ Log("Write", p, rid[p], "", IF First THEN "wait" ELSE "wrote", "", 0, <<>>, "")

\* the connection was closed while the request was being prepared: the write fails
WriteFail(p) ==
  /\ pc[p] = "built" /\ ~online
  /\ res' = [res EXCEPT ![p] = [r |-> "err", n |-> 0]]
  /\ UNCHANGED <<reg, buf, sent, owner, rid, rd, msgs, cst, online, cancelled, nreq, cnt, lost, dev>>
  /\ IF First
     THEN /\ pc' = [pc EXCEPT ![p] = "took"] /\ UNCHANGED rets
          /\ Log("WriteFail", p, rid[p], "", "took", "", 0, <<>>, "")
     ELSE /\ pc' = [pc EXCEPT ![p] = "idle"] /\ Ret(p, rid[p], "err", 0)
          /\ Log("WriteFail", p, rid[p], "", "idle", "err", 0, <<>>, "")

\* as found (req): the entry is made only now
Reg(p) ==
  /\ pc[p] = "wrote"
  /\ reg' = [reg EXCEPT ![rid[p]] = TRUE]
  /\ pc' = [pc EXCEPT ![p] = "wait"]
  /\ UNCHANGED <<buf, sent, owner, rid, res, rd, msgs, cst, online, cancelled, nreq, cnt, rets, lost, dev>>
  /\ Log("Reg", p, rid[p], "", "wait", "", 0, <<>>, "")

Give(n) == IF Tun THEN [cst EXCEPT ![n] = "given"] ELSE cst

Take(p) ==
  /\ ~Eager
  /\ pc[p] = "wait" /\ buf[rid[p]] # 0
  /\ res' = [res EXCEPT ![p] = [r |-> "resp", n |-> buf[rid[p]]]]
  /\ cst' = Give(buf[rid[p]])
  /\ buf' = [buf EXCEPT ![rid[p]] = 0]
  /\ pc' = [pc EXCEPT ![p] = "took"]
  /\ UNCHANGED <<reg, sent, owner, rid, rd, msgs, online, cancelled, nreq, cnt, rets, lost, dev>>
  /\ Log("Take", p, rid[p], "", "took", "", 0, <<>>, "")

\* the select's timer branch; ready at any time - also when a response is in the channel
Expire(p) ==
  /\ pc[p] = "wait" /\ cnt.exp < MaxExp
  /\ Eager => buf[rid[p]] = 0
  /\ cnt' = [cnt EXCEPT !.exp = @ + 1]
  /\ res' = [res EXCEPT ![p] = [r |-> "timeout", n |-> 0]]
  /\ pc' = [pc EXCEPT ![p] = "took"]
  /\ UNCHANGED <<reg, buf, sent, owner, rid, rd, msgs, cst, online, cancelled, nreq, rets, lost, dev>>
  /\ Log("Expire", p, rid[p], "", "took", "", 0, <<>>, "")

\* the SessionManager's context is cancelled: every blocked caller leaves through ctx.Done
Cancel ==
  /\ ~cancelled /\ cnt.cancel < MaxCancel
  /\ \A p \in Procs : pc[p] \in {"idle", "wait", "took"}
  /\ Eager => \A p \in Procs : pc[p] = "wait" => buf[rid[p]] = 0
  /\ cnt' = [cnt EXCEPT !.cancel = @ + 1] /\ cancelled' = TRUE
  /\ LET W == {p \in Procs : pc[p] = "wait"} IN
     /\ pc' = [p \in Procs |-> IF p \in W THEN "took" ELSE pc[p]]
     /\ res' = [p \in Procs |-> IF p \in W THEN [r |-> "cancelled", n |-> 0] ELSE res[p]]
     /\ UNCHANGED <<reg, buf, sent, owner, rid, rd, msgs, cst, online, nreq, rets, lost, dev>>
     /\ Log("Cancel", 0, 0, "", "", "", 0, [i \in 1..Cardinality(W) |->
              LET q == CHOOSE q \in W : Cardinality({x \in W : x < q}) = i - 1 IN [p |-> q, st |-> "took", r |-> "cancelled", n |-> 0]], "")

\* the deferred unregister; the handler writes the outcome to the user
Unreg(p) ==
  /\ pc[p] = "took"
  /\ LET id == rid[p]
         drain == Tun /\ Atomic /\ buf[id] # 0 IN
     /\ reg' = [reg EXCEPT ![id] = FALSE]
     /\ buf' = (IF drain THEN [buf EXCEPT ![id] = 0] ELSE buf)
     /\ cst' = (IF drain THEN [cst EXCEPT ![buf[id]] = "closed"] ELSE cst)
     /\ dev' = (IF Tun /\ ~Atomic /\ buf[id] # 0 THEN dev \cup {"Orphan"} ELSE dev)
     /\ pc' = [pc EXCEPT ![p] = "idle"]
     /\ Ret(p, id, res[p].r, res[p].n)
     /\ UNCHANGED <<sent, owner, rid, res, rd, msgs, online, cancelled, nreq, cnt, lost>>
     /\ Log("Unreg", p, id, "", "idle", res[p].r, res[p].n, <<>>, IF drain THEN "closed" ELSE "")

\* ---- readers -----------------------------------------------------------------------------------
\* a caller whose command is out and that has neither a response nor given up is owed the next well-formed response
Owed(id) == IF id = 0 THEN FALSE
            ELSE sent[id] /\ rid[owner[id]] = id /\ pc[owner[id]] \in {"wrote", "wait"} /\ buf[id] = 0

\* what becomes of a connection Notify does not hand over
Refused == IF Told THEN "kept" ELSE "limbo"
RefDev  == IF Tun /\ ~Told THEN {"Untold"} ELSE {}

Arrive(r, id, k) ==
  /\ rd[r].st = "idle" /\ Len(msgs) < MaxMsg /\ online
  /\ (IF id = 0 THEN TRUE ELSE sent[id])
  /\ (k = "bad" => Req)
  /\ LET n == Len(msgs) + 1 IN
     /\ msgs' = Append(msgs, [id |-> id, kind |-> k])
     /\ UNCHANGED <<reg, sent, owner, rid, online, cancelled, nreq, cnt, rets>>
     /\ IF Tun /\ ~Wired
        THEN \* as found: the tunnel connection is handled as an ordinary tunnel; nobody looks at the waiters
             /\ lost' = (lost \/ Owed(id)) /\ dev' = (IF Owed(id) THEN dev \cup {"Unwired"} ELSE dev)
             /\ cst' = Append(cst, "kept")
             /\ UNCHANGED <<buf, pc, res, rd>>
             /\ Log("Arrive", r, id, k, "idle", "", n, <<>>, "kept")
        ELSE IF k = "bad"
        THEN \* the body does not parse: handleHTTPProxyResponsePacket returns an error, nothing is looked up
             /\ cst' = Append(cst, "") /\ UNCHANGED <<buf, pc, res, rd, lost, dev>>
             /\ Log("Arrive", r, id, k, "idle", "", n, <<>>, "")
        ELSE IF (IF id = 0 THEN TRUE ELSE ~reg[id])
        THEN \* no entry: dropped
             /\ lost' = (lost \/ Owed(id))
             /\ dev' = dev \cup (IF Owed(id) THEN {"LateRegister"} ELSE {}) \cup RefDev
             /\ cst' = Append(cst, IF Tun THEN Refused ELSE "")
             /\ UNCHANGED <<buf, pc, res, rd>>
             /\ Log("Arrive", r, id, k, "idle", "", n, <<>>, IF Tun THEN Refused ELSE "")
        ELSE IF Tun /\ Atomic
        THEN \* repaired: the send happens inside the look-up's section
             LET w == owner[id]
                 wake == Eager /\ pc[w] = "wait" /\ rid[w] = id IN
             /\ UNCHANGED <<rd, lost>>
             /\ IF buf[id] # 0
                THEN /\ cst' = Append(cst, Refused) /\ dev' = dev \cup RefDev /\ UNCHANGED <<buf, pc, res>>
                     /\ Log("Arrive", r, id, k, "idle", "", n, <<>>, Refused)
                ELSE IF wake
                THEN /\ pc' = [pc EXCEPT ![w] = "took"] /\ res' = [res EXCEPT ![w] = [r |-> "resp", n |-> n]]
                     /\ cst' = Append(cst, "given") /\ UNCHANGED <<buf, dev>>
                     /\ Log("Arrive", r, id, k, "idle", "", n, <<[p |-> w, st |-> "took", r |-> "resp", n |-> n]>>, "given")
                ELSE /\ buf' = [buf EXCEPT ![id] = n] /\ cst' = Append(cst, "chan") /\ UNCHANGED <<pc, res, dev>>
                     /\ Log("Arrive", r, id, k, "idle", "", n, <<>>, "chan")
        ELSE /\ rd' = [rd EXCEPT ![r] = [st |-> "checked", n |-> n]]
             /\ cst' = Append(cst, IF Tun THEN "fly" ELSE "")
             /\ UNCHANGED <<buf, pc, res, lost, dev>>
             /\ Log("Arrive", r, id, k, "checked", "", n, <<>>, "")

Send(r) ==
  /\ rd[r].st = "checked"
  /\ LET n == rd[r].n
         id == msgs[n].id
         w == owner[id]
         wake == Eager /\ pc[w] = "wait" /\ rid[w] = id IN
     /\ rd' = [rd EXCEPT ![r] = Rd0]
     /\ UNCHANGED <<reg, sent, owner, rid, msgs, online, cancelled, nreq, cnt, rets, lost>>
     /\ IF buf[id] # 0
        THEN \* channel full: dropped
             /\ cst' = (IF Tun THEN [cst EXCEPT ![n] = Refused] ELSE cst) /\ dev' = dev \cup RefDev
             /\ UNCHANGED <<buf, pc, res>>
             /\ Log("Send", r, id, msgs[n].kind, "idle", "", n, <<>>, IF Tun THEN Refused ELSE "")
        ELSE IF wake
        THEN /\ pc' = [pc EXCEPT ![w] = "took"] /\ res' = [res EXCEPT ![w] = [r |-> "resp", n |-> n]]
             /\ cst' = Give(n) /\ UNCHANGED <<buf, dev>>
             /\ Log("Send", r, id, msgs[n].kind, "idle", "", n, <<[p |-> w, st |-> "took", r |-> "resp", n |-> n]>>, IF Tun THEN "given" ELSE "")
        ELSE \* into the channel - whether or not anybody will ever read it
             /\ buf' = [buf EXCEPT ![id] = n]
             /\ cst' = (IF Tun THEN [cst EXCEPT ![n] = "chan"] ELSE cst)
             /\ dev' = (IF Tun /\ ~reg[id] THEN dev \cup {"Orphan"} ELSE dev)
             /\ UNCHANGED <<pc, res>>
             /\ Log("Send", r, id, msgs[n].kind, "idle", "", n, <<>>, IF Tun THEN "chan" ELSE "")

\* ---- environment ---------------------------------------------------------------------------------
\* the client's control connection is closed (nobody is in the middle of a write, no reader in the middle of a response)
Offline ==
  /\ online /\ cnt.off < MaxOff
  /\ \A p \in Procs : pc[p] \in {"idle", "wait", "took"}
  /\ \A r \in Readers : rd[r].st = "idle"
  /\ cnt' = [cnt EXCEPT !.off = @ + 1] /\ online' = FALSE
  /\ UNCHANGED <<reg, buf, sent, owner, pc, rid, res, rd, msgs, cst, cancelled, nreq, rets, lost, dev>>
  /\ Log("Offline", 0, 0, "", "", "", 0, <<>>, "")

IdsOrUnknown == Ids \cup (IF Unknown THEN {0} ELSE {})
CallerStep(p) == Start(p) \/ Write(p) \/ WriteFail(p) \/ Reg(p) \/ Take(p) \/ Unreg(p)
ReaderStep(r) == Send(r)
Next == \/ \E p \in Procs : CallerStep(p) \/ Expire(p)
        \/ \E r \in Readers : \/ ReaderStep(r)
                              \/ \E id \in IdsOrUnknown, k \in Kinds : Arrive(r, id, k)
        \/ Cancel \/ Offline
Spec == Init /\ [][Next]_vars
\* fairness for the liveness properties: callers and readers keep running, timers fire
Fair == /\ \A p \in Procs : WF_vars(Write(p) \/ WriteFail(p) \/ Reg(p) \/ Take(p) \/ Unreg(p)) /\ WF_vars(Expire(p))
        /\ \A r \in Readers : WF_vars(ReaderStep(r))
LiveSpec == Spec /\ Fair

\* ---- properties ------------------------------------------------------------------------------------
TypeOK == /\ \A i \in Ids : buf[i] \in 0..MaxMsg /\ owner[i] \in 0..NW
          /\ \A p \in Procs : pc[p] \in {"idle", "built", "wrote", "wait", "took"} /\ rid[p] \in 0..MaxReq
          /\ \A r \in Readers : rd[r].st \in {"idle", "checked"} /\ rd[r].n \in 0..MaxMsg
          /\ nreq \in 0..MaxReq /\ Len(msgs) <= MaxMsg /\ Len(cst) = Len(msgs)
          /\ \A n \in 1..Len(cst) : cst[n] \in {"", "fly", "chan", "given", "closed", "kept", "limbo"}
Quiet == \A p \in Procs : pc[p] = "idle"
\* (1) exactly one outcome per request
OneOutcome == /\ \A x, y \in rets : x.id = y.id => x = y
              /\ Quiet => \A i \in 1..nreq : \E x \in rets : x.id = i
\* (2) a request is answered only by what carries its id
RightWaiter == \A x \in rets : x.r = "resp" => (x.n \in 1..Len(msgs) /\ msgs[x.n].id = x.id /\ owner[x.id] = x.p)
\* (3) at most once
AtMostOnce == \A x, y \in rets : (x.r = "resp" /\ y.r = "resp" /\ x.n = y.n) => x = y
\* (4) nothing owed is thrown away
NoLoss == ~lost
NoLossOrDev == ~lost \/ dev \cap {"LateRegister", "Unwired"} # {}
\* (5) when every request has returned the table is empty
NoLeak == Quiet => \A i \in Ids : ~reg[i]
\* (6) tun: no connection in a channel nobody reads, none dropped without telling
NoOrphan == \A n \in 1..Len(cst) : /\ cst[n] # "limbo"
                                   /\ cst[n] = "chan" => (reg[msgs[n].id] /\ buf[msgs[n].id] = n)
NoOrphanOrDev == NoOrphan \/ dev \cap {"Orphan", "Untold"} # {}
\* at a standstill every connection is accounted for
Settled == (Quiet /\ \A r \in Readers : rd[r].st = "idle") => \A n \in 1..Len(cst) : cst[n] \in {"", "given", "closed", "kept"}
SettledOrDev == Settled \/ dev \cap {"Orphan", "Untold"} # {}
\* shape
BufOwned == \A i \in Ids : buf[i] # 0 => msgs[buf[i]].id = i
NoDeviation == dev = {}
\* liveness
Returns == \A p \in Procs : (pc[p] # "idle") ~> (pc[p] = "idle")
ReaderFree == \A r \in Readers : (rd[r].st # "idle") ~> (rd[r].st = "idle")
=============================================================================
