\* Documentation only (not run by the check): the WebSocket wrapper with the named deviation "wsEmptyIsEof"
\* (see the header of Framing.tla) against the C01 contract on the message transport.  TLC reports a violation
\* of C01; with Dev = {} (Framing_mc.cfg, Chunking = "msg") the same bounds pass.
\* Counterexample (depth 5): an empty message before the first packet ends the stream (NoError violated).
CONSTANTS
  Mode = "honest"
  MaxPkts = 2
  MaxLen = 1
  BodyClasses = {"any"}
  Flags = {"none"}
  MaxFrames = 1
  Threads = {1}
  MaxStall = 1
  Chunking = "msg"
  Dev = {"wsEmptyIsEof"}
  Emit = FALSE
SPECIFICATION Spec
INVARIANTS C01
CHECK_DEADLOCK FALSE
