\* C10 exhaustive check (quick): every interleaving of writer script steps, per-frame sends and
\* reader steps; <=3 writes over the 6 size classes, <=2 injected frames of every kind, all three
\* caller buffer classes.  The colliding-id deviation is modelled, so the foreign-data and
\* end-of-stream clauses are checked in their "or the named deviation happened" form.
CONSTANTS
  MAX = 3
  MaxWrites = @@MAXW@@
  MaxInj = 2
  InjKinds = @@INJ@@
  RSizes = {"one", "small", "big"}
  Concurrent = TRUE
  AtomicFrames = TRUE
  LimitOnlyOnReaderPath = FALSE
  Gen = FALSE
  Emit = FALSE
INIT Init
NEXT Next
VIEW view
INVARIANTS TypeOK FramesAtomic WritesAccepted InOrderPrefix NoForeignKnown EofComplete DoneComplete ReaderAllocBound DecoderBounded EntriesAgree
CHECK_DEADLOCK FALSE
