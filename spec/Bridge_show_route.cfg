\* Documentation only (not run by the check): routing cleanup first with `return` on its error against
\* the strict liveness clauses.  TLC reports a lasso for Forgotten: RouteFail, Attach, an end closes,
\* both copiers end, Unregister leaves the map entry in place.
CONSTANTS
  BUF = 3
  MaxSends = 0
  MaxSlow = 5
  Lims = {"none"}
  Classes = {"one"}
  Faults = TRUE
  Replace = FALSE
  ExtCloseOn = FALSE
  DevLimiter = FALSE
  DevNilFwd = FALSE
  DevStaleSrc = FALSE
  DevSleepLimiter = FALSE
  DevWriteLock = FALSE
  DevRouteFirst = TRUE
  DevCleanupFirst = FALSE
  RegLegs = {}
  DevIdleSweep = FALSE
  DevFwdNoEof = FALSE
  SrcKinds = {"direct"}
  ErrClasses = {"plain"}
  PollOn = FALSE
  RetryOn = {}
  RetryWriteOn = {}
  DevBufio = FALSE
  AttachKinds = {"local"}
  HoldOn = FALSE
  Gen = FALSE
  Emit = FALSE
SPECIFICATION LiveSpec
VIEW view
INVARIANTS TypeOK
PROPERTIES ClosureSeen Forgotten
CHECK_DEADLOCK FALSE
