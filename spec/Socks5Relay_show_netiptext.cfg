\* C20 relay level, named deviation NetipText alone (seeded change r5m3): parseUDPHeader spells an IPv4-mapped IPv6
\* address as IPv6 text, everything else conforms.  TLC must report @@INV@@ violated:
\*   INV = OneSessionPerDest  ATYP=1 a.b.c.d and ATYP=4 ::ffff:a.b.c.d get two sessions (two keys for one destination)
\*   INV = VdnsRecognised     a query for ::ffff:10.0.0.1:53 is sent to the virtual address itself instead of the resolver
\*   INV = NoDev              the ghost flag of the deviation
\* Intact / ReplyIntact / Complete hold: forwards and reply headers name the right destination - the fault does not show
\* end to end, it is the parser's round trip that breaks (Socks5_show_netiptext.cfg).
CONSTANTS
  Emit = FALSE
  MaxK = 2
  Alias = FALSE
  ReplySubst = FALSE
  NetipText = TRUE
  ValClasses = TRUE
INIT Init
NEXT Next
INVARIANTS TypeOK Intact ReplyIntact Complete @@INV@@
CHECK_DEADLOCK TRUE
