\* Documentation only (not run by the check): the SOURCE's tunnel connection (packet path: Handshake, TunnelOpen ->
\* handleSourceBridge) left in the ClientRegistry, against NoSpontaneousEnd.  TLC reports: Attach, Hold - the
\* sweeper closes the source leg's stream, the s2t copier ends and the bridge closes with both ends open.
CONSTANTS
  BUF = 3
  MaxSends = 0
  MaxSlow = 5
  Lims = {"none"}
  Classes = {"one"}
  Faults = TRUE
  Replace = FALSE
  ExtCloseOn = FALSE
  DevLimiter = FALSE
  DevNilFwd = FALSE
  DevStaleSrc = FALSE
  DevSleepLimiter = FALSE
  DevWriteLock = FALSE
  DevRouteFirst = FALSE
  DevCleanupFirst = FALSE
  RegLegs = {"S"}
  DevIdleSweep = FALSE
  DevFwdNoEof = FALSE
  SrcKinds = {"pkt"}
  ErrClasses = {"plain"}
  PollOn = FALSE
  RetryOn = {}
  RetryWriteOn = {}
  DevBufio = FALSE
  AttachKinds = {"local"}
  HoldOn = TRUE
  Gen = FALSE
  Emit = FALSE
INIT Init
NEXT Next
VIEW view
INVARIANTS TypeOK NoSpontaneousEnd
CHECK_DEADLOCK FALSE
