------------------------------ MODULE FramingRes ------------------------------
(* C05 - what one ReadPacket / HandlePacket call LEAVES BEHIND for the next one.                *)
(*                                                                                              *)
(* Framing.tla (Mode = "hostile") decides what a single hostile frame does to a single call.    *)
(* This module models the three resources of the pre-authentication path that outlive a call,   *)
(* at the granularity of the code (one action per pool operation / lock operation / table       *)
(* operation), so that a fault which no single malformed packet can show - only a HISTORY of     *)
(* packets, possibly on another reader thread, possibly on another connection - is a reachable   *)
(* state of the model:                                                                          *)
(*                                                                                              *)
(*  pool   utils.BufferPool of the connection's StreamProcessor (buffer_pool.go): one sync.Pool  *)
(*         per 4 KiB size class, created by the first Get of that class.  Put files a buffer     *)
(*         under the class of its CAPACITY rounded up; Get(size) re-slices whatever the class    *)
(*         holds to [:size:cap] - which panics if the buffer is shorter than size.  sync.Pool:   *)
(*         Put fills the private slot of the calling P, else pushes on that P's shared list;     *)
(*         Get takes the private slot, else the head of the own list, else steals the TAIL of    *)
(*         another P's list, else New (a full-size buffer).  The reader goroutine changes P      *)
(*         between two packets (it blocks on the socket), never inside the model's steps.        *)
(*         ReadPacket: readPacketType Get(1)/Put, readPacketBodySize Get(4)/Put, readPacketBody  *)
(*         Get(n), copy into a fresh slice (make: capacity n, NOT from the pool), Put.           *)
(*  lock   StreamProcessor.readLock: acquireReadLock at the start of ReadPacket / ReadExact /    *)
(*         ReadAvailable, released on EVERY exit (defer).                                        *)
(*  tables server-side state keyed by request or connection: RPCManager.pendingRequests          *)
(*         (executeDuplex: RegisterRequest ... UnregisterRequest on every exit), connMap         *)
(*         and the stream manager's map (CreateConnection registers / CloseConnection removes),  *)
(*         control-connection registry (handleHandshake registers one per connection,            *)
(*         CloseConnection removes it).                                                          *)
(*                                                                                              *)
(* Environment: a peer opens up to MaxConns connections one after the other and sends up to      *)
(* MaxFrames complete frames in total (size classes below; compressed / encrypted flag; decodable *)
(* or not; command handler class); each ReadPacket call runs on any reader thread; when the      *)
(* peer's frames are used up the server side makes four more calls on the connection - ReadPacket,*)
(* ReadExact, ReadAvailable (the three holders of readLock), ReadPacket again - and closes it.   *)
(*                                                                                              *)
(* Named deviations (constants; {} = the code as it is):                                         *)
(*   RelSites  sites of ReadPacket that hand the body COPY (or what was inflated from it) to     *)
(*             bufferMgr.Release although it never came from the pool:                           *)
(*             "enc" before the encrypted-flag refusal, "gunzip" after a successful decompress   *)
(*             (the compressed body is dead then), "gunzipErr" after a failed one, "json" /       *)
(*             "jsonErr" after json.Unmarshal of a command body, "payload" the body handed to    *)
(*             the caller as Payload.  seeded C05-r3m1 = {"gunzip", "gunzipErr"}.                *)
(*   LeakAt    exits of the three readers that return WITHOUT unlocking readLock (explicit       *)
(*             Unlock per exit instead of defer, one forgotten).  seeded C05-r3m2 = {"enc"}.     *)
(*   KeepAt    exits that leave a table entry behind: "pending:refused" | "pending:ok" |         *)
(*             "pending:timeout" (executeDuplex), "ctl:close" | "conn:close" | "stream:close"    *)
(*             (CloseConnection).  seeded C05-r3m3 = {"pending:refused"}; "stream:close" is the  *)
(*             code as found at 8c06b96 (CloseConnection never called RemoveStream: fixed, C05-2).*)
EXTENDS Naturals, Sequences, FiniteSets, TLC, Json

CONSTANTS MaxFrames,  \* frames per behaviour (all connections together)
          MaxConns,   \* connections per behaviour
          NThreads,   \* reader threads (Ps) a call may run on
          RelSites, LeakAt, KeepAt,
          Answers,    \* answers of a duplex handler that are considered ("refused", "ok", "timeout")
          Emit        \* TRUE: keep history and print behaviours ("BEH ...")

Threads == 1..NThreads
ReadExits == {"eof", "hb", "lenErr", "oversize", "bodyErr", "enc", "gzErr", "jsonErr", "ok", "exactEof", "availEof"}
ASSUME RelSites \subseteq {"enc", "gunzip", "gunzipErr", "json", "jsonErr", "payload"}
ASSUME LeakAt \subseteq ReadExits
ASSUME KeepAt \subseteq {"pending:refused", "pending:ok", "pending:timeout", "ctl:close", "conn:close", "stream:close"}
ASSUME Answers \subseteq {"refused", "ok", "timeout"} /\ Answers # {}

(* ---------------------------------- sizes --------------------------------------------------- *)
\* abstract byte counts, ordered as the real ones are:  0 < type buffer (1 byte) <= nano body (1..3 bytes)
\* < length buffer (4) < tiny body (tens of bytes) < mid body (2-4 KiB) < 4096 = full buffer of class 1
\* < big body (4.1-5.5 KiB) < big2 body (7-8 KiB) < 8192 = full buffer of class 2
SzType == 1  SzNano == 2  SzLen == 3  SzTiny == 4  SzMid == 5  Full1 == 6  SzBig == 7  SzBig2 == 8  Full2 == 9
Bucket(s) == IF s <= Full1 THEN 1 ELSE 2          \* alignBufferSize: 0 is filed under the first class as well
Full(b)   == IF b = 1 THEN Full1 ELSE Full2
Buckets   == {1, 2}
SizeOf(sub) == CASE sub = "zero" -> 0 [] sub = "nano" -> SzNano [] sub = "tiny" -> SzTiny [] sub = "mid" -> SzMid
                 [] sub = "big" -> SzBig [] sub = "big2" -> SzBig2
\* capacity of what decompressData returns for a body of size s (bytes.Buffer of 3 * len, grown by the output)
InflatedCap(s) == IF s <= SzTiny THEN SzTiny ELSE SzBig2

(* ---------------------------------- frames -------------------------------------------------- *)
\* fields as in Framing.tla (k kind, z / e flag bits, hdr, sc, av, gz, pay) plus
\*   sub  size class of the body ON THE WIRE ("zero" .. "big2")
\*   h    handler class of a well-formed command: "duplex" (a registered handler - the server registers duplex
\*        handlers only) | "none" (no handler) | "session" (answered by the session manager itself) | "na"
Fr(k, z, e, sub, gz, pay, h) ==
  [k |-> k, z |-> z, e |-> e, hdr |-> 4, sc |-> IF sub = "zero" THEN "0" ELSE "S", av |-> IF sub = "zero" THEN 0 ELSE 2,
   gz |-> gz, pay |-> pay, sub |-> sub, h |-> h]
Sizes == {"zero", "nano", "tiny", "mid", "big", "big2"}
Handlers == {"duplex", "none", "session"}
PayFrames ==
       {Fr("PAY", FALSE, FALSE, s, "na", "good", "na") : s \in Sizes}
  \cup {Fr("PAY", TRUE, FALSE, s, "ok", "good", "na") : s \in Sizes \ {"zero", "nano"}}
  \cup {Fr("PAY", TRUE, FALSE, s, "corrupt", "bad", "na") : s \in Sizes}                  \* a gzip member of 0..3 bytes is never valid
  \cup {Fr("PAY", z, TRUE, s, IF z THEN "corrupt" ELSE "na", "bad", "na") : z \in BOOLEAN, s \in {"nano", "tiny", "mid", "big2"}}
CmdFrames ==
       {Fr("CMD", FALSE, FALSE, s, "na", "bad", "na") : s \in {"zero", "nano", "tiny", "mid"}}
  \cup {Fr("CMD", FALSE, FALSE, "tiny", "na", "good", h) : h \in Handlers}
  \cup {Fr("CMD", FALSE, FALSE, "nano", "na", "good", "none")}                             \* the two bytes {}
  \cup {Fr("CMD", FALSE, FALSE, s, "na", "good", "duplex") : s \in {"mid", "big2"}}
  \cup {Fr("CMD", TRUE, FALSE, s, "ok", "good", "duplex") : s \in {"tiny", "mid"}}
  \cup {Fr("CMD", TRUE, FALSE, "tiny", "ok", "bad", "na")}                                 \* inflates, but to something that is no command
  \cup {Fr("CMD", TRUE, FALSE, s, "corrupt", "bad", "na") : s \in {"nano", "tiny"}}
  \cup {Fr("CMD", z, TRUE, "tiny", IF z THEN "corrupt" ELSE "na", "bad", "na") : z \in BOOLEAN}
OtherFrames ==
       {Fr("HS", FALSE, FALSE, "tiny", "na", p, "na") : p \in {"good", "bad"}}
  \cup {Fr("HS", FALSE, FALSE, "mid", "na", "good", "na"), Fr("HS", TRUE, FALSE, "tiny", "ok", "good", "na")}
  \cup {Fr("TOPEN", FALSE, FALSE, "tiny", "na", p, "na") : p \in {"good", "bad"}}
  \cup {Fr("RESP", FALSE, FALSE, "tiny", "na", "good", "none"), Fr("UNK", FALSE, FALSE, "tiny", "na", "good", "na")}
  \cup {[Fr("HB", FALSE, FALSE, "zero", "na", "empty", "na") EXCEPT !.hdr = 0]}
\* frames after which the stream is no longer aligned - only as the LAST frame of a connection:
\* a declared length above the limit (nothing of the body sent), a body cut short by the end of the stream
LastFrames == {[Fr("PAY", FALSE, FALSE, "tiny", "na", "bad", "na") EXCEPT !.sc = "OVER", !.av = 0],
               [Fr("PAY", FALSE, FALSE, "tiny", "na", "bad", "na") EXCEPT !.av = 1],
               [Fr("CMD", FALSE, FALSE, "mid", "na", "bad", "na") EXCEPT !.hdr = 2, !.sc = "0", !.av = 0, !.sub = "zero"]}
Frames == PayFrames \cup CmdFrames \cup OtherFrames \cup LastFrames
Eof == [k |-> "EOF"]

(* ---------------------------------- state --------------------------------------------------- *)
VARIABLES nconn,    \* connections accepted so far
          sent,     \* frames sent so far (all connections)
          onconn,   \* frames sent on the current connection
          fin,      \* end-of-stream calls made on the current connection (0..4)
          call,     \* the call in progress: [pc, op, fr, thr, exit]
          lock,     \* readLock of the current connection's StreamProcessor is held
          pool,     \* its buffer pool: [p |-> private slot per thread and class, s |-> shared list per thread and class,
                    \*                  made |-> classes that exist]
          buf,      \* capacity of the pool buffer the call holds (NoBuf: none)
          body,     \* capacity of the slice that holds the body (the copy made by readPacketBody, later the inflated data)
          tab,      \* [pending, conn, stream, ctl |-> number of entries]
          bad,      \* ghost: what went wrong so far ("panic", "blocked")
          hist      \* Emit: [conn, fr, thr, exit] per ReadPacket call on a frame
vars == <<nconn, sent, onconn, fin, call, lock, pool, buf, body, tab, bad, hist>>

NoBuf == 99
EmptyPool == [p |-> [t \in Threads |-> [b \in Buckets |-> NoBuf]], s |-> [t \in Threads |-> [b \in Buckets |-> <<>>]], made |-> {}]
NoCall == [pc |-> "closed", op |-> "none", fr |-> Eof, thr |-> 1, exit |-> "none"]

Init == /\ nconn = 0 /\ sent = 0 /\ onconn = 0 /\ fin = 0 /\ call = NoCall /\ lock = FALSE /\ pool = EmptyPool
        /\ buf = NoBuf /\ body = NoBuf /\ tab = [pending |-> 0, conn |-> 0, stream |-> 0, ctl |-> 0] /\ bad = {} /\ hist = <<>>

(* ---------------------------------- sync.Pool per size class -------------------------------- *)
\* the P a thread steals from first: the next one in cyclic order that has something on its shared list
StealFrom(pl, t, b) ==
  LET cands == {u \in Threads \ {t} : pl.s[u][b] # <<>>} IN
  IF cands = {} THEN 0
  ELSE CHOOSE u \in cands : \A v \in cands : ((u + NThreads - t) % NThreads) <= ((v + NThreads - t) % NThreads)
\* BufferPool.Get(size) on thread t, before the re-slice: [x |-> capacity of the buffer obtained, pl |-> pool afterwards]
Get(pl, t, size) ==
  LET b  == Bucket(size)
      p1 == [pl EXCEPT !.made = @ \cup {b}] IN
  IF b \notin pl.made THEN [x |-> Full(b), pl |-> p1]                                           \* class created: New
  ELSE IF pl.p[t][b] # NoBuf THEN [x |-> pl.p[t][b], pl |-> [p1 EXCEPT !.p[t][b] = NoBuf]]       \* private slot
  ELSE IF pl.s[t][b] # <<>> THEN [x |-> Head(pl.s[t][b]), pl |-> [p1 EXCEPT !.s[t][b] = Tail(@)]] \* own list, head
  ELSE LET u == StealFrom(pl, t, b) IN
       IF u # 0 THEN [x |-> pl.s[u][b][Len(pl.s[u][b])], pl |-> [p1 EXCEPT !.s[u][b] = SubSeq(@, 1, Len(@) - 1)]]  \* steal the tail
       ELSE [x |-> Full(b), pl |-> p1]                                                          \* New
\* BufferPool.Put(buf) on thread t: filed under the class of cap(buf) - if that class exists
Put(pl, t, x) ==
  LET b == Bucket(x) IN
  IF b \notin pl.made THEN pl
  ELSE IF pl.p[t][b] = NoBuf THEN [pl EXCEPT !.p[t][b] = x]
  ELSE [pl EXCEPT !.s[t][b] = <<x>> \o @]
\* a site that releases the body slice if it is one of the deviating sites
Rel(pl, t, site) == IF site \in RelSites /\ body # NoBuf THEN Put(pl, t, body) ELSE pl

(* ---------------------------------- plumbing ------------------------------------------------ *)
H(x) == IF Emit THEN Append(hist, x) ELSE hist
Step(c, lk, pl, bf, bd) == /\ call' = c /\ lock' = lk /\ pool' = pl /\ buf' = bf /\ body' = bd
                           /\ UNCHANGED <<nconn, sent, onconn, fin, tab, bad, hist>>
At(pc) == call.pc = pc
Goto(pc) == [call EXCEPT !.pc = pc]
Exit(e)  == [call EXCEPT !.pc = "ret", !.exit = e]
Panic == /\ call' = Goto("panicked") /\ bad' = bad \cup {"panic"} /\ lock' = FALSE   \* the deferred Unlock runs while unwinding
         /\ UNCHANGED <<nconn, sent, onconn, fin, pool, buf, body, tab, hist>>

(* ---------------------------------- environment --------------------------------------------- *)
\* SessionManager.AcceptConnection: a connection entry, a fresh StreamProcessor (own lock, own pool) registered
\* with the stream manager
Accept ==
  /\ At("closed") /\ nconn < MaxConns /\ sent < MaxFrames
  /\ nconn' = nconn + 1 /\ onconn' = 0 /\ fin' = 0 /\ call' = Goto("idle") /\ lock' = FALSE /\ pool' = EmptyPool
  /\ tab' = [tab EXCEPT !.conn = @ + 1, !.stream = @ + 1]
  /\ UNCHANGED <<sent, buf, body, bad, hist>>

\* the read loop calls ReadPacket on thread t; the peer's next frame is fr
CallRead(t, fr) ==
  /\ At("idle") /\ fin = 0 /\ sent < MaxFrames /\ fr \in Frames /\ call.fr \notin LastFrames
  /\ (onconn = 0 => t = 1)                                          \* symmetry: a fresh pool does not know the threads apart
  /\ call' = [pc |-> "acq", op |-> "ReadPacket", fr |-> fr, thr |-> t, exit |-> "none"]
  /\ sent' = sent + 1 /\ onconn' = onconn + 1
  /\ UNCHANGED <<nconn, fin, lock, pool, buf, body, tab, bad, hist>>

LastConn == sent = MaxFrames \/ nconn = MaxConns
\* generation only (CONSTRAINT): what follows the last frame of the last connection is the same in every behaviour
GenStop == ~(fin > 0 /\ LastConn)
\* the peer has nothing more to send on this connection: ReadPacket, ReadExact, ReadAvailable and once more ReadPacket
\* meet the end of the stream, each on the thread the previous call did NOT run on
CallFinal ==
  /\ At("idle") /\ onconn > 0 /\ fin < 4
  /\ (fin = 0 => (sent = MaxFrames \/ call.fr \in LastFrames \/ nconn < MaxConns))
  /\ fin' = fin + 1
  /\ (Emit /\ fin = 0 /\ LastConn => PrintT("BEH " \o ToJson([calls |-> hist])))      \* the peer's part of the behaviour is complete
  /\ call' = [pc |-> "acq", op |-> (CASE fin = 1 -> "ReadExact" [] fin = 2 -> "ReadAvailable" [] OTHER -> "ReadPacket"),
              fr |-> Eof, thr |-> (call.thr % NThreads) + 1, exit |-> "none"]
  /\ UNCHANGED <<nconn, sent, onconn, lock, pool, buf, body, tab, bad, hist>>

\* SessionManager.CloseConnection: the connection entry, its stream and its control connection go away
CloseConn ==
  /\ At("idle") /\ fin = 4
  /\ tab' = [tab EXCEPT !.conn = IF "conn:close" \in KeepAt THEN @ ELSE @ - 1,
                        !.stream = IF "stream:close" \in KeepAt THEN @ ELSE @ - 1,
                        !.ctl  = IF "ctl:close" \in KeepAt THEN @ ELSE 0]
  /\ call' = Goto("closed")
  /\ UNCHANGED <<nconn, sent, onconn, fin, lock, pool, buf, body, bad, hist>>

(* ---------------------------------- the three readers --------------------------------------- *)
\* acquireReadLock: Lock() - blocks for ever if an earlier call returned without Unlock
Acquire ==
  /\ At("acq")
  /\ IF lock THEN /\ call' = Goto("blocked") /\ bad' = bad \cup {"blocked"}
                  /\ UNCHANGED <<nconn, sent, onconn, fin, lock, pool, buf, body, tab, hist>>
     ELSE Step(Goto(CASE call.op = "ReadPacket" -> "type" [] call.op = "ReadExact" -> "exact" [] OTHER -> "avail"),
               TRUE, pool, NoBuf, NoBuf)

\* a Get / use / Put of a scratch buffer of `size` bytes; `next` = the call afterwards
Scratch(size, next) ==
  LET g == Get(pool, call.thr, size) IN
  IF g.x < size THEN Panic                                          \* buf[:size:cap(buf)] with cap(buf) < size
  ELSE Step(next, lock, Put(g.pl, call.thr, g.x), NoBuf, body)

\* readPacketType
ReadType ==
  /\ At("type")
  /\ Scratch(SzType, CASE call.fr = Eof -> Exit("eof") [] call.fr.k = "HB" -> Exit("hb") [] OTHER -> Goto("len"))
\* readPacketBodySize (a stream that ends inside the length field: io.ReadFull fails)
ReadLen ==
  /\ At("len")
  /\ Scratch(SzLen, IF call.fr.hdr < 4 THEN Exit("lenErr") ELSE Goto("size"))
\* readPacketBody: limit check, then Allocate(bodySize)
AllocBody ==
  /\ At("size")
  /\ IF call.fr.sc = "OVER" THEN Step(Exit("oversize"), lock, pool, NoBuf, NoBuf)
     ELSE LET n == SizeOf(call.fr.sub)
              g == Get(pool, call.thr, n) IN
          IF g.x < n THEN Panic ELSE Step(Goto("body"), lock, g.pl, g.x, NoBuf)
\* ... read loop, copy into a fresh slice, Release of the pool buffer (also on the error path)
CopyBody ==
  /\ At("body")
  /\ IF call.fr.av = 1 THEN Step(Exit("bodyErr"), lock, Put(pool, call.thr, buf), NoBuf, NoBuf)
     ELSE Step(Goto("post"), lock, Put(pool, call.thr, buf), NoBuf, SizeOf(call.fr.sub))
\* encrypted? -> decompressData -> json.Unmarshal for command kinds
Post ==
  /\ At("post")
  /\ LET fr == call.fr  t == call.thr IN
     IF fr.e THEN Step(Exit("enc"), lock, Rel(pool, t, "enc"), buf, body)
     ELSE IF fr.z /\ fr.gz # "ok" THEN Step(Exit("gzErr"), lock, Rel(pool, t, "gunzipErr"), buf, body)
     ELSE LET p1 == IF fr.z THEN Rel(pool, t, "gunzip") ELSE pool           \* the compressed body is dead now ...
              b1 == IF fr.z THEN InflatedCap(body) ELSE body IN              \* ... bodyData is the inflated buffer
          IF fr.k \in {"CMD", "RESP"}
          THEN IF fr.pay = "good"
               THEN Step(Exit("ok"), lock, IF "json" \in RelSites THEN Put(p1, t, b1) ELSE p1, buf, b1)
               ELSE Step(Exit("jsonErr"), lock, IF "jsonErr" \in RelSites THEN Put(p1, t, b1) ELSE p1, buf, b1)
          ELSE Step(Exit("ok"), lock, IF "payload" \in RelSites THEN Put(p1, t, b1) ELSE p1, buf, b1)

\* ReadExact(4) / ReadAvailable(0 -> 32 KiB: no pool class) at the end of the stream: Allocate, Read = EOF, Release
ReadExactEof == /\ At("exact") /\ Scratch(SzLen, Exit("exactEof"))
ReadAvailEof == /\ At("avail") /\ Step(Exit("availEof"), lock, pool, NoBuf, body)

\* the call returns: readLock is released - unless this exit forgot to
Return ==
  /\ At("ret")
  /\ lock' = IF call.exit \in LeakAt THEN lock ELSE FALSE
  /\ call' = IF call.exit \in {"hb", "ok"} THEN Goto("disp") ELSE Goto("idle")
  /\ hist' = IF call.fr # Eof THEN H([conn |-> nconn, fr |-> call.fr, thr |-> call.thr, exit |-> call.exit]) ELSE hist
  /\ UNCHANGED <<nconn, sent, onconn, fin, pool, buf, body, tab, bad>>

(* ---------------------------------- dispatcher ---------------------------------------------- *)
\* SessionManager.HandlePacket on the unauthenticated connection
Dispatch ==
  /\ At("disp")
  /\ LET fr == call.fr IN
     IF fr.k = "CMD" /\ fr.h = "duplex"
     THEN /\ tab' = [tab EXCEPT !.pending = @ + 1] /\ call' = Goto("handler")          \* executeDuplex: RegisterRequest, go handler
     ELSE IF fr.k = "HS" /\ fr.pay = "good"
     THEN /\ tab' = [tab EXCEPT !.ctl = 1] /\ call' = Goto("idle")                      \* one control connection per connection
     ELSE /\ tab' = tab /\ call' = Goto("idle")                                         \* refused / heartbeat answered
  /\ UNCHANGED <<nconn, sent, onconn, fin, lock, pool, buf, body, bad, hist>>
\* the handler answers (pre-auth: refuses; a few commands succeed) or the executor's timer fires
HandlerAnswer(a) ==
  /\ At("handler") /\ a \in Answers
  /\ call' = [call EXCEPT !.pc = "dret", !.exit = a]
  /\ UNCHANGED <<nconn, sent, onconn, fin, lock, pool, buf, body, tab, bad, hist>>
\* executeDuplex returns: UnregisterRequest - unless this exit forgot to
DispatchReturn ==
  /\ At("dret")
  /\ tab' = [tab EXCEPT !.pending = IF ("pending:" \o call.exit) \in KeepAt THEN @ ELSE @ - 1]
  /\ call' = Goto("idle")
  /\ UNCHANGED <<nconn, sent, onconn, fin, lock, pool, buf, body, bad, hist>>

Next == \/ Accept \/ CallFinal \/ CloseConn
        \/ \E t \in Threads, fr \in Frames : CallRead(t, fr)
        \/ Acquire \/ ReadType \/ ReadLen \/ AllocBody \/ CopyBody \/ Post \/ ReadExactEof \/ ReadAvailEof \/ Return
        \/ Dispatch \/ (\E a \in Answers : HandlerAnswer(a)) \/ DispatchReturn

Spec == Init /\ [][Next]_vars /\ WF_vars(Next)

(* ---------------------------------- properties ---------------------------------------------- *)
TypeOK == /\ nconn \in 0..MaxConns /\ sent \in 0..MaxFrames /\ fin \in 0..4 /\ lock \in BOOLEAN
          /\ tab.pending \in Nat /\ tab.conn \in Nat /\ tab.stream \in Nat /\ tab.ctl \in Nat /\ bad \subseteq {"panic", "blocked"}
Quiet == call.pc \in {"idle", "closed"}                      \* between two calls
\* "never panics": no Get is ever handed a buffer shorter than it asked for ...
NoPanic == "panic" \notin bad
\* ... because the pool only ever holds what it made itself: full-size buffers of the class they are filed under
PoolSound == \A t \in Threads, b \in Buckets :
               /\ pool.p[t][b] \in {NoBuf, Full(b)}
               /\ \A i \in 1..Len(pool.s[t][b]) : pool.s[t][b][i] = Full(b)
\* "never blocks for ever on a finite stream": the lock is free between two calls, so no call ever waits for it
LockFree == Quiet => ~lock
NeverBlocked == "blocked" \notin bad
\* "never retains": no request stays registered once its packet has been handled - whatever the answer was - and
\* nothing of a connection stays once it is closed
NothingPending == Quiet => tab.pending = 0
NothingAfterClose == At("closed") => (tab.conn = 0 /\ tab.stream = 0 /\ tab.ctl = 0)
\* bounded use of the pool itself: at most one buffer per class and thread is ever kept
PoolBounded == \A t \in Threads, b \in Buckets : Len(pool.s[t][b]) <= 1
\* every behaviour ends: all frames decoded or refused, all connections closed
Done == At("closed") /\ LastConn
Terminal == Done \/ call.pc \in {"panicked", "blocked"}
ProgressPossible == ~Terminal => ENABLED Next
Termination == <>Terminal
C05Res == NoPanic /\ PoolSound /\ LockFree /\ NeverBlocked /\ NothingPending /\ NothingAfterClose
=============================================================================
