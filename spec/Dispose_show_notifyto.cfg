\* C16, documentation run (not part of ./check): hypothetical design "notifyto" alone against the STRICT property.
\* TLC reports "Invariant LeakFree is violated":
\* Tunnel.Close sending its close notification under a timeout idiom with an unbuffered result channel (seeded
\* change C16-r3m3): x1.Load x1.Cas env.NotifyTimeout env.NotifyRelease leaves the inner goroutine blocked on
\* its send for ever (dev_nstuck)
\* The check itself (Dispose.cfg) verifies the same configuration against  property \/ named deviation  and passes.
CONSTANTS
  Suite = "show_notifyto"
  Emit = FALSE
INIT Init
NEXT Next
VIEW view
INVARIANTS TypeOK LeakFree
CHECK_DEADLOCK FALSE
