\* C10 decoder entry points under the named deviation LimitOnlyOnReaderPath (seeded change C10-r6m1:
\* ReadFrame on a *net.TCPConn got an implementation of its own, the length check stayed in
\* ReadFrameFromReader only): TLC must report @@INV@@ (DecoderBounded / EntriesAgree) violated.
CONSTANTS
  MAX = 3
  MaxWrites = 0
  MaxInj = 0
  InjKinds = {"fd"}
  RSizes = {"one"}
  Concurrent = FALSE
  AtomicFrames = TRUE
  LimitOnlyOnReaderPath = TRUE
  Gen = FALSE
  Emit = FALSE
INIT Init
NEXT Next
VIEW view
INVARIANTS TypeOK @@INV@@
CHECK_DEADLOCK FALSE
