\* Documentation only (not run by the check): named deviation "whitelistAny" of Session.tla -
\* a whitelist entry for one address lets every address pass: a blacklisted address is authenticated as soon as
\* some other address is whitelisted.
\* TLC reports StepsOK / OnlyProven violated; the same configuration with Faults = {} (Session_c03addr.cfg) passes.
CONSTANTS
  Conn <- Conn2
  Client <- Client2
  MaxNonce = 2
  MaxFail = 3
  MaxCtl = 0
  Faults = {"whitelistAny"}
  Ops = {"Msg", "Ban", "Blacklist", "Whitelist", "Reload"}
  Types = {"control"}
  PreAccept = TRUE
  Fixes = {"oneIdentity", "atomicEvict"}
  Split = FALSE
  MaxLevel = 5
  Emit = "no"
INIT Init
NEXT Next
VIEW view
INVARIANTS TypeOK OnlyProven StepsOK ProvenIssued C07InvMasked C07OneMasked
CHECK_DEADLOCK FALSE
