\* Documentation only (not run by the check): named deviation "cleanupDropsLiveTemp" of Session.tla -
\* the protector's clean-up deletes temporary ban records that are still running.
\* TLC reports StepsOK violated; the same configuration with Faults = {} (Session_c03ban.cfg) passes.
CONSTANTS
  Conn <- Conn2
  Client <- Client2
  MaxNonce = 2
  MaxFail = 2
  MaxCtl = 0
  Faults = {"cleanupDropsLiveTemp"}
  Ops = {"Msg", "Ban", "BanKinds", "Unban", "Cleanup", "PermBan", "Blacklist"}
  Types = {"control"}
  PreAccept = TRUE
  Fixes = {"oneIdentity", "atomicEvict"}
  Split = FALSE
  MaxLevel = 5
  Emit = "no"
INIT Init
NEXT Next
VIEW view
INVARIANTS TypeOK OnlyProven StepsOK ProvenIssued C07InvMasked C07OneMasked
CHECK_DEADLOCK FALSE
