\* C10 exhaustive check without colliding tunnel ids: the clauses hold in their strict form,
\* i.e. the 16-byte id comparison is the only route to a violation in the model.
CONSTANTS
  MAX = 3
  MaxWrites = @@MAXW@@
  MaxInj = 2
  InjKinds = {"fd", "fdn", "fe", "fen", "unk"}
  RSizes = {"one", "small", "big"}
  Concurrent = TRUE
  AtomicFrames = TRUE
  LimitOnlyOnReaderPath = FALSE
  Gen = FALSE
  Emit = FALSE
INIT Init
NEXT Next
VIEW view
INVARIANTS TypeOK FramesAtomic WritesAccepted InOrderPrefix NoForeignStrict EofCompleteStrict DoneComplete ReaderAllocBound DecoderBounded EntriesAgree
CHECK_DEADLOCK FALSE
