\* C07, KickOldConnection in its two parts (as Session_kick.cfg) on the extension module SessionReg:
\* with EMIT = "canon" and no VIEW every operation history to the depth bound is a state of its own and one
\* representative per renaming of the three pre-accepted connections is printed (path-dependent faults:
\* the whole set is driven, nothing is sampled away).
CONSTANTS
  Conn <- Conn3
  Client <- @@CLIENT@@
  MaxNonce = 2
  MaxFail = 3
  MaxCtl = 0
  Faults = @@FAULTS@@
  Ops = {"FirstLogin", "Login", "KickBegin", "Close"}
  Types = {"control"}
  PreAccept = TRUE
  Fixes = @@FIXES@@
  Split = FALSE
  MaxLevel = @@LEVEL@@
  Emit = @@EMIT@@
INIT InitX
NEXT NextX
@@VIEW@@
INVARIANTS TypeOKX OnlyProven C07InvX C07OneX
CHECK_DEADLOCK FALSE
