\* ConnCode.tla - the repaired design plus "reset on failed create": the neighbour of ConnCode_show_reset.cfg at the OTHER
\* failure site. When CreatePortMapping fails (record write or list append), the failure path writes the activation's own
\* copy of the code record back as not activated before it releases the claim. That copy was read at the start of the call:
\* a revoke that completed in between is erased, and a later activation of the revoked code succeeds.
\* EXPECTED RESULT: TLC reports "Invariant NoActivationAfterDeath is violated". With ResetCreate = FALSE: no error.
\*   tlc -workers 8 -config ConnCode_show_resetcreate.cfg ConnCode.tla
CONSTANTS
  Acts = {"a1", "a2"}
  HasRev = TRUE
  CanExpire = FALSE
  MaxFault = 1
  PreSet = {}
  Quota = 3
  Claim = TRUE
  CreateRb = TRUE
  Node2 = {"a2"}
  ClaimLocal = FALSE
  SameAs = {}
  Reclaim = FALSE
  ResetOnFail = FALSE
  ResetCreate = TRUE
  RelScope = "fail"
  CanTick = FALSE
  ShortClaim = FALSE
  Emit = FALSE
INIT Init
NEXT Next
VIEW view
INVARIANTS TypeOK NoActivationAfterDeath LockOK AtMostOneSuccess AtMostOneMapping SuccessWasValid FailedLeavesNone FieldsOK
CHECK_DEADLOCK FALSE
