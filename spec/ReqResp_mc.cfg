\* X04 exhaustive check of the request/response model (template: the @@..@@ fields are filled by harness/drivers/x04).
\*   mc:client:fixed   Variant "client", Fixed TRUE   INVS RightWaiter AtMostOnce NoLoss NoPanic NoLeak BufOwned ClosedUnreg NoDeviation
\*   mc:client:asis    Variant "client", Fixed FALSE  INVS RightWaiter AtMostOnce NoLoss NoPanicOrDev NoLeak BufOwned ClosedUnreg
\*   mc:server:fixed   Variant "server", Wired TRUE, Cross TRUE   INVS as client:fixed
\*   mc:server:asis    Variant "server", Wired FALSE  INVS RightWaiter AtMostOnce NoLossOrDev NoPanic NoLeak BufOwned ClosedUnreg
\*   live:*            SPEC LiveSpec, PROPS Returns ReaderFree (MaxExp never binding: 2 x MaxReq)
\* Eager = FALSE: every interleaving of Take.  Emit = FALSE: hist stays empty.
\* Bounds: NW callers, NR readers (client: the one read loop), MaxReq requests = ids, MaxMsg response packets,
\*         MaxExp expiries, one Stop, one Drop.
CONSTANTS
  Variant = @@VARIANT@@
  NW = @@NW@@
  NR = @@NR@@
  MaxReq = @@MAXREQ@@
  MaxMsg = @@MAXMSG@@
  MaxExp = @@MAXEXP@@
  MaxStop = @@MAXSTOP@@
  MaxDrop = @@MAXDROP@@
  Kinds = @@KINDS@@
  Unknown = @@UNKNOWN@@
  Cross = @@CROSS@@
  Fixed = @@FIXED@@
  Wired = @@WIRED@@
  Eager = FALSE
  Emit = FALSE
SPECIFICATION @@SPEC@@
INVARIANTS TypeOK @@INVS@@
@@PROPS@@
CHECK_DEADLOCK FALSE
