\* C02 behaviour generation (transition coverage): `hist` (environment steps and the Read / Write
\* gates of the two copiers) is kept outside the VIEW, so TLC reaches every distinct state of the
\* bridge model once, by a shortest script, and prints one behaviour per (state, step) pair.
\* With -simulate the same configuration yields random deep scripts.  Lims = {"slow"} (1 KiB/s) is
\* generated on its own: only its "an end goes away during the pacing of a chunk" scripts are driven.
CONSTANTS
  BUF = 3
  MaxSends = @@MAXS@@
  MaxSlow = @@MAXSLOW@@
  Lims = @@LIMS@@
  Classes = @@CLS@@
  Faults = @@FAULTS@@
  Replace = @@REPL@@
  ExtCloseOn = @@EXT@@
  DevLimiter = @@DEVLIM@@
  DevNilFwd = TRUE
  DevStaleSrc = TRUE
  DevSleepLimiter = FALSE
  DevWriteLock = FALSE
  DevRouteFirst = FALSE
  DevCleanupFirst = FALSE
  RegLegs = {}
  DevIdleSweep = FALSE
  DevFwdNoEof = FALSE
  SrcKinds = @@SK@@
  ErrClasses = @@EC@@
  PollOn = @@POLL@@
  RetryOn = {}
  RetryWriteOn = {}
  DevBufio = FALSE
  AttachKinds = @@AK@@
  HoldOn = @@HOLD@@
  Gen = TRUE
  Emit = TRUE
INIT Init
NEXT Next
VIEW view
INVARIANTS TypeOK
CHECK_DEADLOCK FALSE
