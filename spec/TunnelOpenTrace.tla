--------------------------- MODULE TunnelOpenTrace ---------------------------
(* C04 judge: property-level, deterministic, total.  It knows nothing about dispatcher       *)
(* branches; it reads what a connection was (identity), what it presented (credential), the    *)
(* state of the tunnel's mapping and of the tunnel at the moment of the request, and what the   *)
(* real server did:                                                                            *)
(*   Open : who, id, cred, ms, ts, tm, ack ("ok" | "fail" | "none"), closed                     *)
(*          id   "none" (no handshake) | "noneHs" (failed handshake) | "listen" | "target" |    *)
(*               "stranger"                                                                    *)
(*          cred "idOnly" | "rightSecret" | "wrongSecret" | "resume" | "nothing" | "otherId"    *)
(*               (otherId = the id of another, active mapping whose listen client is the        *)
(*               stranger; resume / wrongSecret carry the mapping id as well)                   *)
(*          ms   "active" | "revoked" | "expired" | "inactive" | "missing"  (mapping M now)     *)
(*          ts   "none" | "waiting" | "served" | "remote"    (tunnel state at arrival)          *)
(*          tm   "-" | "M" | "M2"   (mapping the already registered tunnel belongs to)          *)
(*          keyless (optional) TRUE: mapping M has an empty secret                              *)
(*   Obs  : att    who -> "none" | "src" | "tgt" | "fwd"  (connection object the bridge holds / *)
(*                                                         forwarded from another node)         *)
(*          marker who -> BOOLEAN  (a marker written by another end is readable on it)          *)
(*          stray  who -> BOOLEAN  (any byte at all arrived after the acknowledgement)          *)
(* The statement, literally:                                                                    *)
(*   entitled == authenticated /\ mapping active /\ (listen client presenting the mapping id    *)
(*               \/ listen or target client presenting the mapping's secret), for the tunnel's  *)
(*               own mapping                                                                    *)
(*   Unentitled   : attached (as source, as target, through another node)  => entitled          *)
(*   Leak         : marker readable \/ any tunnel byte                     => entitled          *)
(*   NoFailureAck : ~entitled => failure acknowledgement (or connection closed)                 *)
(* Nothing is demanded of entitled requests (the statement says "only if").                     *)
EXTENDS VLib

VARIABLES reqs     \* who -> [e, d, ack, closed] of the requests seen in the current trace
jvars == <<l, viol, reqs>>

Empty == [w \in {} |-> [e |-> FALSE, d |-> "", ack |-> "", closed |-> FALSE]]
Init == l = 1 /\ viol = {} /\ reqs = Empty

Authd(i) == i \in {"listen", "target", "stranger"}
Keyless(o) == "keyless" \in DOMAIN o /\ o.keyless

EntM(o) == /\ Authd(o.id) /\ o.ms = "active"
           /\ \/ o.id = "listen" /\ o.cred \in {"idOnly", "rightSecret", "wrongSecret", "resume"}
              \/ o.id \in {"listen", "target"} /\ o.cred = "rightSecret"
              \/ o.id = "target" /\ o.cred = "idOnly" /\ Keyless(o)    \* the mapping's secret is the empty one
Entitled(o) == IF o.cred = "otherId" THEN o.id = "stranger" /\ o.tm \in {"-", "M2"}
               ELSE EntM(o) /\ o.tm \in {"-", "M"}

Path(ts) == CASE ts = "none" -> "newBridge" [] ts = "waiting" -> "existingBridge"
              [] ts = "served" -> "servedBridge" [] ts = "remote" -> "crossNode" [] OTHER -> ts
Detail(o) == Path(o.ts) \o ":" \o o.id \o ":" \o o.cred \o ":" \o o.ms
             \o (IF Keyless(o) THEN ":keyless" ELSE "")
             \o (IF o.tm = "M2" /\ o.cred # "otherId" THEN ":squatted" ELSE "")

TrOpen == /\ Is("Open")
          /\ LET r == [e |-> Entitled(Ev), d |-> Detail(Ev), ack |-> Ev.ack, closed |-> Ev.closed]
             IN reqs' = [w \in DOMAIN reqs \cup {Ev.who} |-> IF w = Ev.who THEN r ELSE reqs[w]]
          /\ l' = l + 1 /\ viol' = viol

Check(w) == LET r == reqs[w]
                a == Ev.att[w] # "none"
                b == Ev.marker[w] \/ Ev.stray[w]
            IN   (IF a /\ ~r.e THEN {V("Unentitled", r.d)} ELSE {})
            \cup (IF b /\ ~r.e THEN {V("Leak", r.d)} ELSE {})
            \cup (IF ~r.e /\ r.ack # "fail" /\ ~r.closed THEN {V("NoFailureAck", r.d)} ELSE {})

TrObs == /\ Is("Obs")
         /\ viol' = viol \cup UNION {Check(w) : w \in DOMAIN reqs}
         /\ l' = l + 1 /\ reqs' = reqs

TrCell == Is("Cell") /\ l' = l + 1 /\ UNCHANGED <<viol, reqs>>

TrEnd == /\ Is("End") /\ EmitVerdict
         /\ l' = l + 1 /\ viol' = {} /\ reqs' = Empty

Next == TrOpen \/ TrObs \/ TrCell \/ TrEnd
Spec == Init /\ [][Next]_jvars
=============================================================================
