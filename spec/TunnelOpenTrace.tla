--------------------------- MODULE TunnelOpenTrace ---------------------------
(* C04 judge: property-level, deterministic, total.  It knows nothing about dispatcher       *)
(* branches; it reads what a connection was (identity), what it presented (credential), the    *)
(* state of the tunnel's mapping and of the tunnel at the moment of the request, and what the   *)
(* real server did:                                                                            *)
(*   Open : who, id, cred, ms, ts, tm, ack ("ok" | "fail" | "none"), closed                     *)
(*          id   "none" (no handshake) | "noneHs" (failed handshake) | "listen" | "target" |    *)
(*               "stranger"                                                                    *)
(*          cred "idOnly" | "rightSecret" | "wrongSecret" | "resume" | "nothing" | "otherId" |  *)
(*               "otherSecret"  (otherId = the id of another, active mapping M2 whose listen    *)
(*               client is the stranger; otherSecret = id + secret of a third active mapping M3 *)
(*               whose target client is the stranger; resume / wrongSecret carry M's id too)    *)
(*          ms   "active" | "revoked" | "expired" | "inactive" | "missing" | any other status  *)
(*               ("error", "suspended", ...): state of mapping M now; only "active" is valid    *)
(*               ("expiredJust": ExpiresAt set a few ms into the past; "lapsed": the ExpiresAt   *)
(*               the mapping carried from its creation has passed - nothing was written)         *)
(*          shape (optional) "std" | "noListen" | "noTarget": M has no listen / target client    *)
(*               (client id 0) - then nobody is "the mapping's listening / target client"        *)
(*          ts   "none" | "waiting" | "served" | "remote"    (tunnel state at arrival), or      *)
(*               "lateLocal" | "lateRemote": nothing at arrival, the tunnel was registered on   *)
(*               this / another node while the request was being served                         *)
(*          tm   "-" | "M" | "M2" | "M3" (mapping the tunnel registered AT ARRIVAL belongs to)  *)
(*          keyless (optional) TRUE: mapping M has an empty secret                              *)
(*   Obs  : bm     "-" | "M" | "M2" | "M3"  mapping of the bridge that exists in the end        *)
(*          att    who -> "none" | "src" | "tgt" | "fwd"  (connection object the bridge holds / *)
(*                                                         forwarded from another node)         *)
(*          marker who -> BOOLEAN  (a marker written by another end is readable on it)          *)
(*          stray  who -> BOOLEAN  (any byte at all arrived after the acknowledgement)          *)
(* The statement, literally:                                                                    *)
(*   entitled == authenticated /\ mapping active /\ (listen client presenting the mapping id    *)
(*               \/ listen or target client presenting the mapping's secret), for the tunnel's  *)
(*               own mapping                                                                    *)
(*          am     who -> mapping of the tunnel the connection is attached to ("-": none)       *)
(*          lm     who -> mapping of the tunnel whose other end's marker it read ("-": none)   *)
(*   Open may carry  ord "slowUsage" | "inflightUsage" (history class: the mapping was changed  *)
(*   while / right after an earlier admitted open's usage write was held by a slow store; ms is *)
(*   what was DONE to the mapping, not what the store holds), ord "closeAfter" (history class:   *)
(*   a tunnel of the mapping that had carried data was closed AFTER the mapping was changed,     *)
(*   before the request) and ts "prefixRemote" | "prefixRemoteRev" | "prefixLocal" |             *)
(*   "prefixLocalRev" (the named tunnel id shares its first 16 bytes with another mapping's      *)
(*   tunnel registered on the same node; Rev: the named, long id is mapping M's own tunnel;       *)
(*   Local: the request arrives on that node).                                                   *)
(*   Unentitled   : attached (as source, as target, through another node)  => entitled          *)
(*   Leak         : marker readable \/ any tunnel byte                     => entitled          *)
(*                  - both for the mapping of the tunnel that exists in the end (bm)            *)
(*   NoFailureAck : ~entitled (for what existed at arrival) => failure acknowledgement (or      *)
(*                  connection closed)                                                          *)
(* Nothing is demanded of entitled requests (the statement says "only if").                     *)
EXTENDS VLib

VARIABLES reqs     \* who -> [o, d, ack, closed] of the requests seen in the current trace
jvars == <<l, viol, reqs>>

Req(o) == [id |-> o.id, cred |-> o.cred, ms |-> o.ms, tm |-> o.tm, kl |-> "keyless" \in DOMAIN o /\ o.keyless,
           sh |-> IF "shape" \in DOMAIN o THEN o.shape ELSE "std"]
Empty == [w \in {} |-> [o |-> Req([id |-> "", cred |-> "", ms |-> "", tm |-> ""]), d |-> "", ack |-> "", closed |-> FALSE]]
Init == l = 1 /\ viol = {} /\ reqs = Empty

Authd(i) == i \in {"listen", "target", "stranger"}
Keyless(o) == "keyless" \in DOMAIN o /\ o.keyless

ListenOf(o) == o.id = "listen" /\ o.sh # "noListen"
TargetOf(o) == o.id = "target" /\ o.sh # "noTarget"
EntM(o) == /\ Authd(o.id) /\ o.ms = "active"
           /\ \/ ListenOf(o) /\ o.cred \in {"idOnly", "rightSecret", "wrongSecret", "resume"}
              \/ (ListenOf(o) \/ TargetOf(o)) /\ o.cred = "rightSecret"
              \/ TargetOf(o) /\ o.cred = "idOnly" /\ o.kl             \* the mapping's secret is the empty one
\* r = Req(o); tm = mapping of the tunnel in question ("-": none, the request may create one)
Entitled(r, tm) == IF r.cred = "otherId" THEN r.id = "stranger" /\ tm \in {"-", "M2"}
                   ELSE IF r.cred = "otherSecret" THEN r.id = "stranger" /\ tm \in {"-", "M3"}
                   ELSE EntM(r) /\ tm \in {"-", "M"}

Path(ts) == CASE ts = "none" -> "newBridge" [] ts = "waiting" -> "existingBridge"
              [] ts = "served" -> "servedBridge" [] ts = "remote" -> "crossNode"
              [] ts = "lateRemote" -> "crossNodeLate" [] ts = "lateLocal" -> "localLate"
              [] ts = "prefixRemote" -> "crossNodePrefix" [] ts = "prefixRemoteRev" -> "crossNodePrefixRev"
              [] ts = "prefixLocal" -> "localPrefix" [] ts = "prefixLocalRev" -> "localPrefixRev" [] OTHER -> ts
\* a history class (usage orders) leads the detail, so that one prefix pattern names the class
Hist(o) == IF "ord" \in DOMAIN o /\ o.ord \in {"slowUsage", "inflightUsage", "closeAfter"} THEN o.ord \o ":" ELSE ""
Detail(o) == Hist(o) \o Path(o.ts) \o ":" \o o.id \o ":" \o o.cred \o ":" \o o.ms
             \o (IF Keyless(o) THEN ":keyless" ELSE "")
             \o (IF "shape" \in DOMAIN o /\ o.shape # "std" THEN ":" \o o.shape ELSE "")
             \o (IF o.tm \in {"M2", "M3"} /\ o.cred \notin {"otherId", "otherSecret"} THEN ":squatted" ELSE "")

TrOpen == /\ Is("Open")
          /\ LET r == [o |-> Req(Ev), d |-> Detail(Ev), ack |-> Ev.ack, closed |-> Ev.closed]
             IN reqs' = [w \in DOMAIN reqs \cup {Ev.who} |-> IF w = Ev.who THEN r ELSE reqs[w]]
          /\ l' = l + 1 /\ viol' = viol

Check(w) == LET r == reqs[w]
                a == Ev.att[w] # "none"
                b == Ev.marker[w] \/ Ev.stray[w]
                e0 == Entitled(r.o, r.o.tm)                                  \* for what existed at arrival
                tx == IF Ev.bm # "-" THEN Ev.bm ELSE r.o.tm                  \* the tunnel that exists now
                ta == IF "am" \in DOMAIN Ev /\ Ev.am[w] # "-" THEN Ev.am[w] ELSE tx   \* ... the one it is attached to
                tl == IF "lm" \in DOMAIN Ev /\ Ev.lm[w] # "-" THEN Ev.lm[w] ELSE ta   \* ... the one its bytes came from
            IN   (IF a /\ ~Entitled(r.o, ta) THEN {V("Unentitled", r.d)} ELSE {})
            \cup (IF b /\ ~Entitled(r.o, tl) THEN {V("Leak", r.d)} ELSE {})
            \cup (IF ~e0 /\ r.ack # "fail" /\ ~r.closed THEN {V("NoFailureAck", r.d)} ELSE {})

TrObs == /\ Is("Obs")
         /\ viol' = viol \cup UNION {Check(w) : w \in DOMAIN reqs}
         /\ l' = l + 1 /\ reqs' = reqs

TrCell == Is("Cell") /\ l' = l + 1 /\ UNCHANGED <<viol, reqs>>

TrEnd == /\ Is("End") /\ EmitVerdict
         /\ l' = l + 1 /\ viol' = {} /\ reqs' = Empty

Next == TrOpen \/ TrObs \/ TrCell \/ TrEnd
Spec == Init /\ [][Next]_jvars
=============================================================================
