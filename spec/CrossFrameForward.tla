------------------------- MODULE CrossFrameForward -------------------------
(* C10 - the bidirectional forwarder (session/cross_node_forward_helper.go:                   *)
(* runBidirectionalForward) that carries the two directions of one tunnel between a local      *)
(* endpoint and the cross-node stream.                                                         *)
(*                                                                                            *)
(* Each direction is a copy loop of its own (a goroutine running io.Copy):                     *)
(*     up   : LocalConn.Read  -> RemoteConn.Write      (RemoteConn = crossnode.FrameStream)    *)
(*     down : RemoteConn.Read -> LocalConn.Write                                               *)
(* A copy loop owns a COPY BUFFER.  The bytes of a chunk live in that buffer from the moment   *)
(* the Read returns until the matching Write has completed ("in flight"): the sink may look at *)
(* the slice it was handed at any time until its Write returns (a TCP socket with a full send  *)
(* buffer, a throttled or mutex-guarded writer, a FrameStream whose peer is slow).             *)
(* The two directions - and the forwarders of other tunnels - run at the same time, so the     *)
(* buffers are part of the state:                                                              *)
(*     buf[p]      the buffer copy loop p = <<tunnel, direction>> works with                    *)
(*     content[b]  which chunk's bytes buffer b holds now                                      *)
(*     free        the buffers the allocator / pool may hand out                               *)
(* The code as it is: io.Copy allocates a buffer per copy loop (Acquire, at the start of the   *)
(* loop); it is garbage - may be handed out again - when the loop has ended (CopyEnd).         *)
(* This holds for both kinds of local endpoint: a bare *net.TCPConn goes through               *)
(* TCPConn.WriteTo / ReadFrom, which fall back to a generic copy with a buffer of its own; any *)
(* other io.ReadWriter - and every endpoint once traffic counters are configured, because the  *)
(* CountingReadWriter wrapper hides those methods - goes through io.Copy's own loop.           *)
(*                                                                                            *)
(* Named deviations (constants; all FALSE = the code as it is):                                *)
(*   SharedCopyBuffer    the forwarder takes ONE buffer per tunnel (from a pool) and hands it  *)
(*                       to both copy loops (io.CopyBuffer); returned when both have ended     *)
(*   PutAtFirstDone      (with SharedCopyBuffer) ... returned when the FIRST direction ended   *)
(*   PutBeforeWriteDone  a copy loop's buffer goes back to the pool when its Read has returned,*)
(*                       before the matching Write has finished (the loop keeps using it)      *)
(*   GlobalBuffer        every copy loop of every tunnel uses one package-level buffer         *)
(* Property (statement of C10, per direction of every tunnel): the chunks the sink receives    *)
(* are the chunks the source produced - unchanged, in order (Unchanged), all of them           *)
(* (Delivered).  Buffer discipline behind it: BufferOwned, NoClobber, PoolSound.               *)
EXTENDS Naturals, Sequences, FiniteSets, TLC, Json

CONSTANTS Tunnels,            \* e.g. {1, 2}
          Chunks,             \* chunks a source produces per direction (upper bound)
          Bufs,               \* buffers the allocator / pool can hand out (>= 2 * |Tunnels|; model values)
          Static,             \* the package-level buffer of deviation GlobalBuffer
          None,
          SharedCopyBuffer, PutAtFirstDone, PutBeforeWriteDone, GlobalBuffer,
          Gen,                \* behaviour generation: the loops' internal steps (Acquire, CopyEnd, Return) run
                              \* before the next driver-controlled step, buffers are handed out in a fixed order
          Emit

Dirs  == {"up", "down"}
Procs == Tunnels \X Dirs
BufSym == Permutations(Bufs)  \* which buffer is which does not matter (SYMMETRY in the exhaustive runs)

VARIABLES fst,        \* fst[t]  : forwarder of tunnel t: idle | running | returned
          tbuf,       \* tbuf[t] : the buffer the forwarder itself took (SharedCopyBuffer), or None
          pc,         \* pc[p]   : idle | start | read | inflight | ended | done
          buf,        \* buf[p]  : buffer of copy loop p, or None
          content,    \* content[b] : <<t, d, k>> = chunk k of direction d of tunnel t, or <<>>
          nread,      \* nread[p]: chunks the source of p has produced so far
          out,        \* out[p]  : what the sink of p received, one entry per completed Write
          free,       \* buffers in the allocator / pool
          clobbered,  \* history: a Read landed in a buffer that held another loop's in-flight bytes
          hist        \* the schedule so far (visible steps only); not part of the VIEW
vars == <<fst, tbuf, pc, buf, content, nread, out, free, clobbered, hist>>
View == <<fst, tbuf, pc, buf, content, nread, out, free, clobbered>>
\* generation: which steps are enabled depends on the control state only (buffer identities do not
\* steer the code as it is), so one representative per control state is enough
GenView == <<fst, pc, nread>>

Out(b) == IF Emit THEN PrintT("BEH " \o ToJson(b)) ELSE TRUE
Step(a, t, d) == [a |-> a, t |-> t, d |-> d]
\* an internal step of some copy loop / forwarder is possible
InternalEnabled == \/ \E p \in Procs : pc[p] \in {"start", "ended"}
                   \/ \E t \in Tunnels : fst[t] = "running" /\ \A d \in Dirs : pc[<<t, d>>] = "done"
Pick(S) == CHOOSE b \in S : TRUE   \* generation only: one fixed choice per pool content
\* visible (driver-controlled) steps extend the schedule; one behaviour per (state, step) pair
Visible(s) == /\ Gen => ~InternalEnabled
              /\ hist' = Append(hist, s)
              /\ Out([kind |-> "bidi", nt |-> Cardinality(Tunnels), steps |-> hist'])

Init == /\ fst = [t \in Tunnels |-> "idle"] /\ tbuf = [t \in Tunnels |-> None]
        /\ pc = [p \in Procs |-> "idle"] /\ buf = [p \in Procs |-> None]
        /\ content = [b \in Bufs \cup {Static} |-> <<>>]
        /\ nread = [p \in Procs |-> 0] /\ out = [p \in Procs |-> <<>>]
        /\ free = Bufs /\ clobbered = FALSE /\ hist = <<>>

\* runBidirectionalForward is called for tunnel t: both copy goroutines are spawned
Start(t) ==
  /\ fst[t] = "idle"
  /\ fst' = [fst EXCEPT ![t] = "running"]
  /\ pc' = [p \in Procs |-> IF p[1] = t THEN "start" ELSE pc[p]]
  /\ IF SharedCopyBuffer /\ ~GlobalBuffer
     THEN \E b \in free : (Gen => b = Pick(free)) /\ tbuf' = [tbuf EXCEPT ![t] = b] /\ free' = free \ {b}
     ELSE UNCHANGED <<tbuf, free>>
  /\ Visible(Step("S", t, ""))
  /\ UNCHANGED <<buf, content, nread, out, clobbered>>

\* the copy loop gets its buffer (io.Copy: make; the deviations: what the forwarder hands it)
Acquire(p) ==
  /\ pc[p] = "start"
  /\ pc' = [pc EXCEPT ![p] = "read"]
  /\ IF GlobalBuffer THEN buf' = [buf EXCEPT ![p] = Static] /\ free' = free
     ELSE IF SharedCopyBuffer THEN buf' = [buf EXCEPT ![p] = tbuf[p[1]]] /\ free' = free
     ELSE \E b \in free : (Gen => b = Pick(free)) /\ buf' = [buf EXCEPT ![p] = b] /\ free' = free \ {b}
  /\ UNCHANGED <<fst, tbuf, content, nread, out, clobbered, hist>>

\* the source's Read returns the next chunk into the loop's buffer: the chunk is in flight
Read(p) ==
  /\ pc[p] = "read" /\ nread[p] < Chunks
  /\ LET b == buf[p] IN
       /\ content' = [content EXCEPT ![b] = <<p[1], p[2], nread[p] + 1>>]
       /\ clobbered' = (clobbered \/ \E q \in Procs \ {p} : buf[q] = b /\ pc[q] = "inflight")
  /\ nread' = [nread EXCEPT ![p] = @ + 1]
  /\ pc' = [pc EXCEPT ![p] = "inflight"]
  /\ Visible(Step("R", p[1], p[2]))
  /\ UNCHANGED <<fst, tbuf, buf, out, free>>

\* the sink's Write returns; it has used the slice as late as it may: what it received is what
\* the buffer holds now
WriteDone(p) ==
  /\ pc[p] = "inflight"
  /\ out' = [out EXCEPT ![p] = Append(@, content[buf[p]])]
  /\ pc' = [pc EXCEPT ![p] = "read"]
  /\ Visible(Step("W", p[1], p[2]))
  /\ UNCHANGED <<fst, tbuf, buf, content, nread, free, clobbered>>

\* the source is at end-of-stream (local half-close resp. EOF frame of the peer)
ReadEOF(p) ==
  /\ pc[p] = "read"
  /\ pc' = [pc EXCEPT ![p] = "ended"]
  /\ Visible(Step("E", p[1], p[2]))
  /\ UNCHANGED <<fst, tbuf, buf, content, nread, out, free, clobbered>>

\* io.Copy returns: the loop's own buffer is garbage; the direction signals `done`
CopyEnd(p) ==
  /\ pc[p] = "ended"
  /\ pc' = [pc EXCEPT ![p] = "done"]
  /\ buf' = [buf EXCEPT ![p] = None]
  /\ IF ~SharedCopyBuffer /\ ~GlobalBuffer THEN free' = free \cup {buf[p]}
     ELSE IF SharedCopyBuffer /\ ~GlobalBuffer /\ PutAtFirstDone THEN free' = free \cup {tbuf[p[1]]}
     ELSE free' = free
  /\ UNCHANGED <<fst, tbuf, content, nread, out, clobbered, hist>>

\* both directions have signalled: the forwarder closes both sides and returns (deferred Put)
Return(t) ==
  /\ fst[t] = "running" /\ \A d \in Dirs : pc[<<t, d>>] = "done"
  /\ fst' = [fst EXCEPT ![t] = "returned"]
  /\ IF tbuf[t] # None THEN free' = free \cup {tbuf[t]} /\ tbuf' = [tbuf EXCEPT ![t] = None]
     ELSE UNCHANGED <<free, tbuf>>
  /\ UNCHANGED <<pc, buf, content, nread, out, clobbered, hist>>

\* DEVIATION PutBeforeWriteDone: the buffer is handed back while its bytes are still in flight
EarlyPut(p) ==
  /\ PutBeforeWriteDone /\ pc[p] = "inflight" /\ buf[p] \in Bufs /\ buf[p] \notin free
  /\ free' = free \cup {buf[p]}
  /\ UNCHANGED <<fst, tbuf, pc, buf, content, nread, out, clobbered, hist>>

Next == \/ \E t \in Tunnels : Start(t) \/ Return(t)
        \/ \E p \in Procs : Acquire(p) \/ Read(p) \/ WriteDone(p) \/ ReadEOF(p) \/ CopyEnd(p) \/ EarlyPut(p)
Spec == Init /\ [][Next]_vars

\* ---- properties ----------------------------------------------------------------------------
TypeOK == /\ \A p \in Procs : pc[p] \in {"idle", "start", "read", "inflight", "ended", "done"}
          /\ \A p \in Procs : buf[p] \in Bufs \cup {Static, None} /\ nread[p] \in 0..Chunks
          /\ free \subseteq Bufs
\* C10, forwarder part: every direction delivers the chunks of its own source, unchanged, in order
Unchanged == \A p \in Procs : \A i \in 1..Len(out[p]) : out[p][i] = <<p[1], p[2], i>>
\* ... and all of them, once everything has ended
Delivered == (\A p \in Procs : pc[p] = "done") => \A p \in Procs : Len(out[p]) = nread[p]
\* ownership: while a loop may read into or has bytes in flight in a buffer, no other loop uses it
BufferOwned == \A b \in Bufs \cup {Static} :
                 Cardinality({p \in Procs : buf[p] = b /\ pc[p] \in {"read", "inflight"}}) <= 1
NoClobber == ~clobbered
\* a buffer in the pool has no user
PoolSound == \A b \in free : \A p \in Procs : buf[p] # b /\ tbuf[p[1]] # b
=============================================================================
