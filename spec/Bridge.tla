------------------------------- MODULE Bridge -------------------------------
(* C02 - implementation-shaped model of a tunnel bridge of tunnox-core and behaviour generator.  *)
(*                                                                                                *)
(* Code modelled (internal/protocol/session):                                                     *)
(*   server_bridge.go   startSourceBridge  : NewBridge, tunnelBridges[id] = bridge, go lifecycle  *)
(*                      runBridgeLifecycle : Start(); delete(tunnelBridges, id); deferred Close() *)
(*   tunnel/bridge_forward.go  Start       : wait for `ready` (30 s timer / ctx), then two copier *)
(*                                           goroutines, each `defer closeBridge()`, wg.Wait()    *)
(*                      CopyWithControl    : loop { src.Read(32 KiB buf); rateLimiter.WaitN(n);   *)
(*                                           dst.Write(buf[:n]) }, leaves the loop on any error   *)
(*                      dynamicSourceWriter: target->source writes use the *current* source       *)
(*   tunnel/bridge_connection.go SetTargetConnection (close(ready)), SetSourceConnection          *)
(*   tunnel/bridge.go   NewBridge: rate.NewLimiter(limit, burst = 2*limit); Close(): closes the   *)
(*                      current source and target connections, then cancels the context          *)
(*                                                                                                *)
(* Ends: S (source client connection) and T (target client connection).  Directions: s2t, t2s.   *)
(* Bytes are abstract: the stream an end writes is the counter stream 0,1,2,...; `sent[d]` is how *)
(* many bytes the end feeding direction d has written, `rdOff[d]` how many the copier has read,   *)
(* `inflight[d]` the chunk in the copy buffer (read, not yet written), `delivered[d]` how many    *)
(* were written to the other end.  BUF is the (scaled-down) copy buffer: the driver maps the size *)
(* classes to {1, 32K-1, 32K, 32K+1, 2*32K (gated) / 1 MiB (free running)} real bytes.            *)
(*                                                                                                *)
(* Bandwidth limit classes (what NewBridge makes of them):                                        *)
(*   none  - no limiter                      large - limiter whose burst exceeds every read       *)
(*   edge  - burst = BUF exactly (limit 16384 B/s): every read fits, WaitN paces                  *)
(*   tiny  - burst < BUF-1 (limit < 16 KiB/s): WaitN(n) with n > burst returns an ERROR at once.  *)
(*           What CopyWithControl then does is the named deviation DevLimiterError: it leaves the *)
(*           loop, the chunk in the buffer is dropped and closeBridge() ends the tunnel although  *)
(*           neither end closed (DESIGN.md 6 row 16).  DevLimiter = FALSE models the limiter as   *)
(*           the statement needs it (the wait is split into burst-sized pieces).                  *)
(*                                                                                                *)
(* Start of the copiers: Start() launches the s2t goroutine, then the t2s goroutine; each         *)
(* evaluates b.targetForwarder itself when it first runs, and Close() sets that field to nil.     *)
(* If one copier ends at once (an end was already closed / failed when the target attached) and   *)
(* Close() completes before the t2s goroutine has started, CopyWithControl is entered with a nil  *)
(* reader and the server process dies of a nil dereference (named deviation in Enter, flag        *)
(* `crashed`; DevNilFwd = FALSE models a snapshot of the forwarder taken before the goroutines    *)
(* start).  The s2t goroutine cannot be caught the same way: Close() clears the source forwarder  *)
(* first and the goroutine then waits for the cancelled context.                                  *)
(*                                                                                                *)
(* Source replacement (handleExistingBridge -> SetSourceConnection): the new connection becomes   *)
(* the write side of t2s at once (dynamicSourceWriter); the s2t copier keeps reading the OLD      *)
(* connection until that read ends, then continues with the new one.  Close() closes only the     *)
(* current connections, never the replaced one (named deviation, ghost devStale: a copier parked  *)
(* in Read on the replaced connection keeps Start() from returning, the tunnel stays registered   *)
(* and a close of the source's new connection goes unnoticed).  DevStaleSrc = FALSE models        *)
(* SetSourceConnection closing the connection it replaces.                                        *)
(*                                                                                                *)
(* Reads that carry bytes AND an error (io.Reader allows it; deadline-polling transports do it):   *)
(* GlitchData = the next read returns its bytes together with a temporary timeout; CloseEnd /     *)
(* ErrorEnd with w = "data" = the last read returns its bytes together with io.EOF / with the     *)
(* connection error.  CopyWithControl handles the bytes first (`if nr > 0`), then the error:      *)
(* `rdErr[d]` remembers what came with the chunk in the buffer; after the Write a timeout means   *)
(* `continue`, anything else leaves the loop.                                                     *)
(*                                                                                                *)
(* Pacing and closing: with split waits a chunk larger than the burst is paid for piece by piece  *)
(* (`paid[d]`), the clock (Refill) refilling the bucket in between.  Each piece is a              *)
(* WaitN(ctx, piece): Close() cancels the context and the copier leaves at once.  A wait that     *)
(* cannot be cancelled (ReserveN + time.Sleep, context looked at only on entry) is the named      *)
(* variant DevSleepLimiter: the copier sits out the rest of the pacing although the tunnel is     *)
(* over.  "Bounded time" is expressed through fairness: after Close() nothing may depend on the   *)
(* pacing clock any more (Refill is only fair while the bridge is open), so TLC reports the       *)
(* stuttering copier as a liveness failure of Forgotten (Bridge_show_sleep.cfg).  Limit class     *)
(* "slow" (1 KiB/s, burst 2 KiB: one 32 KiB chunk takes 30 s) is `tiny` with rates that make      *)
(* the remaining pacing exceed the watchdog.                                                      *)
(*                                                                                                *)
(* Back-pressure: Stall(e) = end e stops draining (its receive window is full), a Write to it     *)
(* parks until the end drains again, goes away, or the bridge closes the connection.  A failure   *)
(* of the other end is then noticed only when the bridge touches that end again (the stalled end  *)
(* sends something): until then nothing is demanded (Unnoticed).  Once a copier has noticed,      *)
(* Close() must get through: dynamicSourceWriter only looks the forwarder up under sourceConnMu.  *)
(* Holding that lock across the Write (named variant DevWriteLock) lets a parked t2s Write keep   *)
(* Close() out for ever.                                                                          *)
(*                                                                                                *)
(* Routing table (cluster deployments): runBridgeLifecycle deletes the map entry, then removes    *)
(* the routing entry and ignores a storage error (RouteFail).  Cleaning the routing entry first   *)
(* and returning on its error (named variant DevRouteFirst) leaves the tunnel registered.         *)
(*                                                                                                *)
(* Ways the target end gets attached (Attach(k)): "local" = SetTargetConnection called directly   *)
(* (what the driver did so far), "pkt" = the target's tunnel connection comes through the packet  *)
(* path (Handshake with connection_type tunnel registers it in the ClientRegistry, TunnelOpen ->  *)
(* handleExistingBridge unregisters it again and attaches it), "xnode" = the target sits on       *)
(* another node: CrossNodeListener.handleConnection reads the TargetReady frame from a TCP        *)
(* connection and runBridgeForward then splices that connection and the source with two io.Copy   *)
(* loops (no limiter; a finished direction half-closes its destination - seenEOF -, the bridge is *)
(* closed when both are done; an end that sees EOF closes: React).                                *)
(*   "fwd" = the server in the OTHER cross-node role: it is the target's node, the bridge lives   *)
(* on the source's node.  The target's tunnel connection comes through the packet path,           *)
(* handleTunnelOpen finds the tunnel in the routing table (source node = another node),           *)
(* forwardToSourceNode acknowledges, dials the source node through the TunnelConnectionManager,   *)
(* sends TargetReady and runCrossNodeDataForwardDedicated splices the target's connection and     *)
(* that TCP connection (for this server the source END is that connection) with two io.Copy       *)
(* loops, as above; `registered` = the connection manager's entry for the tunnel.                 *)
(*   The source leg, too, arrives either as a call of startSourceBridge (skind "direct": what     *)
(* the driver did so far, and what StartServerTunnel does) or through the packet path (skind      *)
(* "pkt": Handshake registers it in the ClientRegistry, TunnelOpen -> handleTunnelOpen            *)
(* unregisters it - removeFromControlConnMap / cleanupTunnelFromControlConn - and                 *)
(* handleSourceBridge starts the bridge).                                                         *)
(*   Hold = the tunnel lives longer than the heartbeat timeout and the idle timeout, both ends    *)
(* talking all the while.  A tunnel leg that is still registered as a control connection never    *)
(* heartbeats: the stale-connection sweeper closes its stream - the tunnel ends with both ends    *)
(* open.  RegLegs names the legs left registered: "S" = the source leg (seeded variant), "T" =    *)
(* the target leg joined through handleExistingBridge (seeded variant), "F" = the target leg      *)
(* forwarded to the source node: AS FOUND forwardToSourceNode never unregisters it.               *)
(*   DevIdleSweep (as found): the TunnelConnectionManager notes activity when the connection is   *)
(* dialled and when a direction ENDS, not when bytes move: its idle sweep (5 min, every 30 s)     *)
(* closes the cross-node connection of a tunnel that is busy.                                     *)
(*   DevFwdNoEof (as found): when the source side of a forwarded tunnel is done (end-of-stream    *)
(* from the source node) nothing is passed on to the target's connection - the source node's      *)
(* runBridgeForward half-closes the source forwarder in the mirror case -: a silent target never  *)
(* sees the closure, the forwarder never returns, the tunnel is never forgotten.                  *)
(*   DevBufio (named variant): the first frame is read through a buffered reader that is thrown   *)
(* away - what the target sent right behind the frame is gone.                                    *)
(*   Statistics backend (cloud control): Close() closes the connections, cancels the context and  *)
(* then runs the clean-up handlers, the last traffic report among them (closerBusy until it       *)
(* returns).  StatStall = the backend does not answer: the goroutine that closed stays in there,  *)
(* the tunnel is forgotten once the backend answers again - but both ends have long seen the      *)
(* closure.  Running the handlers BEFORE closing the connections (named variant DevCleanupFirst)  *)
(* makes the closure itself wait for the backend.                                                 *)
(*                                                                                                *)
(*   Error classes.  What a Read / Write of an end returns is a dimension of its own: clean EOF  *)
(* (CloseEnd; w = "data": with the last bytes), the expiry of a read deadline = Timeout() AND      *)
(* Temporary() (Glitch: t0 once without bytes, tn once with bytes, tp = a polling transport, every  *)
(* idle Read, persistent) - the ONLY error the copy loop may retry -, and a permanent failure       *)
(* (ErrorEnd; w = "data": with the bytes in hand), which every further call returns again and       *)
(* which says about itself nothing ("plain"), Timeout() but not Temporary() ("tmo": quic-go's       *)
(* IdleTimeoutError, the peer vanished) or Temporary() but not Timeout() ("tmp").  RetryOn /        *)
(* RetryWriteOn (named variants, as is {}) = the classes a sloppier retry test takes for a deadline *)
(* expiry: with the other end idle the copier then spins on the dead connection (ghost `spin`,      *)
(* invariant NoBusyLoop), no copier ever ends, closeBridge is never called - ClosureSeen and        *)
(* Forgotten fail (Bridge_show_retry*.cfg).  After the first close / failure the tunnel is being    *)
(* torn down; a second ending is not modelled.                                                      *)
(* Configurations: Bridge_mc.cfg (as found, clauses in "or the named deviation happened" form),   *)
(* Bridge_fixed.cfg (as the statement needs it, strict clauses), Bridge_live.cfg /                *)
(* Bridge_live_fixed.cfg (liveness under weak fairness, as found / as needed), Bridge_gen.cfg     *)
(* (behaviour generation), Bridge_show_*.cfg (documentation: the strict clauses fail as found).   *)
EXTENDS Naturals, Sequences, FiniteSets, TLC, Json

CONSTANTS BUF,         \* copy buffer size (model scale, >= 3)
          MaxSends,    \* bound on Send steps of a script
          MaxSlow,     \* bound on the bytes sent under a pacing limit (tiny / edge): keeps behaviours short
          Lims,        \* limit classes explored: subset of {"none", "tiny", "edge", "large"}
          Classes,     \* size classes explored: subset of {"one", "Bm1", "B", "Bp1", "big"}
          Faults,      \* TRUE: short-write and transient read-timeout injection explored
          Replace,     \* TRUE: source replacement explored
          ExtCloseOn,  \* TRUE: Bridge.Close() by a third party (shutdown, quota) explored
          DevLimiter,  \* TRUE: limiter as found (error when n > burst); FALSE: split waits
          DevNilFwd,   \* TRUE: goroutines read b.targetForwarder when they start (as found); FALSE: snapshot
          DevStaleSrc, \* TRUE: a replaced source connection is left open (as found); FALSE: it is closed
          DevSleepLimiter, \* TRUE: limiter waits cannot be cancelled by Close() (seeded variant); FALSE: WaitN(ctx)
          DevWriteLock,    \* TRUE: target->source writes hold sourceConnMu (seeded variant); FALSE: lookup only
          DevRouteFirst,   \* TRUE: routing cleanup first, return on its error (seeded variant); FALSE: map entry first
          DevCleanupFirst, \* TRUE: Close() runs the clean-up handlers before it closes the connections (seeded variant)
          RegLegs,         \* tunnel legs left in the ClientRegistry: subset of {"S", "T", "F"} ("F" as found; "S", "T" seeded variants)
          DevIdleSweep,    \* TRUE: the connection manager's idle sweep ignores moving bytes (as found); FALSE: they count as activity
          DevFwdNoEof,     \* TRUE: a forwarded tunnel does not pass the source's end-of-stream on to the target (as found)
          SrcKinds,        \* ways the source leg arrives: subset of {"direct", "pkt"}
          ErrClasses,      \* classes of the error a failed end returns on every further call: subset of {"plain", "tmo", "tmp"}
          PollOn,          \* TRUE: polling transports (Glitch "tp") explored
          RetryOn,         \* classes of a Read error the copy loop's retry test takes for a deadline expiry (as is: {}; seeded variant {"tmo"})
          RetryWriteOn,    \* likewise for the error of a Write (as is: {} - any write error ends the loop)
          DevBufio,        \* TRUE: cross-node first frame read through a discarded bufio.Reader (seeded variant)
          AttachKinds,     \* ways of attaching the target explored: subset of {"local", "pkt", "xnode", "fwd"}
          HoldOn,          \* TRUE: tunnels that outlive the heartbeat timeout explored
          Gen,         \* TRUE: generation mode (history kept)
          Emit         \* TRUE: print behaviours

VARIABLES lim, tokens, paid,
          attached, endSt, avail, sent, delivered, rdOff, inflight, pc,
          armed, glitch, nfault, bridgeClosed, registered, nsend, ended,
          endMode, errClass, spin, rdErr, stalled, routeFail,
          akind, skind, held, seenEOF, statStall, closerBusy,
          replaced, oldClosed, rdgen,
          devLimErr, devStale, lost, misorder, crashed, dropped,
          hist

vars == <<lim, tokens, paid, attached, endSt, avail, sent, delivered, rdOff, inflight, pc,
          armed, glitch, nfault, bridgeClosed, registered, nsend, ended, endMode, errClass, spin, rdErr, stalled, routeFail, akind, skind, held, seenEOF, statStall, closerBusy,
          replaced, oldClosed, rdgen,
          devLimErr, devStale, lost, misorder, crashed, dropped, hist>>
view == <<lim, tokens, paid, attached, endSt, avail, sent, delivered, rdOff, inflight, pc,
          armed, glitch, nfault, bridgeClosed, registered, nsend, ended, endMode, errClass, spin, rdErr, stalled, routeFail, akind, skind, held, seenEOF, statStall, closerBusy,
          replaced, oldClosed, rdgen,
          devLimErr, devStale, lost, misorder, crashed, dropped>>

Ends  == {"S", "T"}
Dirs  == {"s2t", "t2s"}
Chans == {"s1", "s2", "t"}          \* byte queues towards the bridge: source conn 1, source conn 2 (after replacement), target conn
Src(d)   == IF d = "s2t" THEN "S" ELSE "T"
Dst(d)   == IF d = "s2t" THEN "T" ELSE "S"
OutOf(e) == IF e = "S" THEN "s2t" ELSE "t2s"
Other(e) == IF e = "S" THEN "T" ELSE "S"
Min(a, b) == IF a < b THEN a ELSE b
RECURSIVE SumSeq(_)
SumSeq(q) == IF q = <<>> THEN 0 ELSE Head(q) + SumSeq(Tail(q))

Size(c) == CASE c = "one" -> 1 [] c = "Bm1" -> BUF - 1 [] c = "B" -> BUF [] c = "Bp1" -> BUF + 1 [] c = "big" -> 2 * BUF
Paced(l) == l \in {"tiny", "edge", "slow"}
Burst(l) == CASE l = "tiny" -> 1 [] l = "slow" -> 1 [] l = "edge" -> BUF [] OTHER -> 0
ASSUME ErrClasses \subseteq {"plain", "tmo", "tmp"} /\ RetryOn \subseteq {"tmo", "tmp"} /\ RetryWriteOn \subseteq {"tmo", "tmp"}
ASSUME AttachKinds \subseteq {"local", "pkt", "xnode", "fwd"} /\ SrcKinds \subseteq {"direct", "pkt"} /\ RegLegs \subseteq {"S", "T", "F"}
ASSUME BUF >= 3 /\ Lims \subseteq {"none", "tiny", "edge", "large", "slow"} /\ Classes \subseteq {"one", "Bm1", "B", "Bp1", "big"}

\* the connection an end currently writes to / the copier of direction d currently reads
SendChan(e) == IF e = "T" THEN "t" ELSE IF replaced THEN "s2" ELSE "s1"
RdChan(d)   == IF d = "t2s" THEN "t" ELSE IF rdgen = 1 THEN "s1" ELSE "s2"
\* the s2t copier still reads the connection that was replaced
OnOld(d) == d = "s2t" /\ replaced /\ rdgen = 1
\* the two directions are two io.Copy loops between the end on this node and a TCP connection to the
\* other node (no limiter, half-close instead of close-on-first-finish)
Splice(k) == k \in {"xnode", "fwd"}

Init == /\ lim \in Lims /\ tokens = Burst(lim) /\ paid = [d \in Dirs |-> 0]
        /\ attached = FALSE
        /\ endSt = [e \in Ends |-> "open"]
        /\ avail = [c \in Chans |-> <<>>]
        /\ sent = [d \in Dirs |-> 0] /\ delivered = [d \in Dirs |-> 0]
        /\ rdOff = [d \in Dirs |-> 0] /\ inflight = [d \in Dirs |-> 0]
        /\ pc = [d \in Dirs |-> "idle"]
        /\ armed = [e \in Ends |-> FALSE] /\ glitch = [e \in Ends |-> "no"] /\ nfault = 0
        /\ endMode = [e \in Ends |-> "plain"] /\ rdErr = [d \in Dirs |-> "none"]
        /\ errClass = [e \in Ends |-> "none"] /\ spin = [d \in Dirs |-> 0]
        /\ stalled = [e \in Ends |-> FALSE] /\ routeFail = FALSE
        /\ akind = "none" /\ skind \in SrcKinds /\ held = FALSE /\ seenEOF = [e \in Ends |-> FALSE] /\ statStall = FALSE /\ closerBusy = FALSE
        /\ bridgeClosed = FALSE /\ registered = TRUE /\ nsend = 0 /\ ended = "none"
        /\ replaced = FALSE /\ oldClosed = FALSE /\ rdgen = 1
        /\ devLimErr = FALSE /\ devStale = FALSE /\ lost = [d \in Dirs |-> 0] /\ misorder = FALSE /\ crashed = FALSE /\ dropped = 0
        /\ hist = <<>>

Out(h) == IF Emit THEN PrintT("BEH " \o ToJson([lim |-> lim, src |-> skind, steps |-> h])) ELSE TRUE
\* record a step of the script (environment steps and the two gates Read / Write of a copier)
H(x) == IF Gen THEN hist' = Append(hist, x) /\ Out(hist') ELSE hist' = hist
NoH  == hist' = hist

LimU   == UNCHANGED <<lim, tokens, paid>>
CopU   == UNCHANGED <<sent, delivered, rdOff, inflight, pc, rdgen, rdErr>>
FaultU == UNCHANGED <<armed, glitch, nfault, stalled, routeFail>>
RepU   == UNCHANGED <<replaced, oldClosed>>
XU     == UNCHANGED <<akind, skind, held, seenEOF, statStall, closerBusy>>
DevU   == UNCHANGED <<devLimErr, devStale, lost, misorder, crashed, dropped>>

\* ---- environment: the two clients, the target's arrival, third parties --------------------------
Send(e, c) ==
  /\ c \in Classes /\ endSt[e] = "open" /\ ~bridgeClosed /\ registered /\ nsend < MaxSends
  /\ (Paced(lim) => sent["s2t"] + sent["t2s"] + Size(c) <= MaxSlow)
  /\ nsend' = nsend + 1
  /\ avail' = [avail EXCEPT ![SendChan(e)] = Append(@, Size(c))]
  /\ sent' = [sent EXCEPT ![OutOf(e)] = @ + Size(c)]
  /\ H([a |-> "send", e |-> e, c |-> c])
  /\ LimU /\ FaultU /\ RepU /\ DevU
  /\ UNCHANGED <<attached, endSt, delivered, rdOff, inflight, pc, rdgen, bridgeClosed, registered, ended, endMode, errClass, spin, rdErr>>
  /\ XU

\* SetTargetConnection: close(ready); Start() leaves its select and launches the two copiers; the s2t
\* goroutine loads the source forwarder that is current at that moment (a replacement that slips in
\* between close(ready) and that load is, for the copier, a replacement before the attach)
Attach(k) ==
  /\ k \in AttachKinds /\ ~attached /\ registered /\ ~bridgeClosed
  /\ (Splice(k) => ~replaced)
  /\ (k = "fwd" => ended # "bridge")
  /\ (k # "local" => endSt["T"] = "open")     \* a connection that is gone cannot shake hands / dial
  /\ attached' = TRUE /\ akind' = k
  \* local / pkt: Bridge.Start launches its copiers (the t2s goroutine still has to start running);
  \* xnode: runBridgeForward's two io.Copy loops
  /\ pc' = [d \in Dirs |-> IF d = "t2s" /\ ~Splice(k) THEN "start" ELSE "read"]
  /\ rdgen' = IF replaced THEN 2 ELSE 1
  /\ IF k = "xnode" /\ DevBufio /\ avail["t"] # <<>>
     THEN \* DEVIATION: the discarded buffered reader has swallowed what came right behind the frame
          /\ avail' = [avail EXCEPT !["t"] = IF Head(@) > 1 THEN <<Head(@) - 1>> \o Tail(@) ELSE Tail(@)]
          /\ rdOff' = [rdOff EXCEPT !["t2s"] = @ + 1]
          /\ lost' = [lost EXCEPT !["t2s"] = @ + 1]
     ELSE UNCHANGED <<avail, rdOff, lost>>
  /\ H([a |-> "attach", k |-> k])
  /\ LimU /\ FaultU /\ RepU
  /\ UNCHANGED <<endSt, sent, delivered, inflight, bridgeClosed, registered, nsend, ended, endMode, errClass, spin, rdErr,
                 skind, held, seenEOF, statStall, closerBusy, devLimErr, devStale, misorder, crashed, dropped>>

\* an end may only end the tunnel under the "slow" limit when nothing of its own is still being paced
\* out (generation only): closure then has to come at once, not after 30 s of legitimate pacing
NoBacklog(e) == (Gen /\ lim = "slow") => sent[OutOf(e)] = delivered[OutOf(e)]

\* an end closes its connection (what it wrote before stays readable, then EOF; writes to it fail);
\* w = "data": the read that takes the last bytes returns them together with io.EOF
CloseEnd(e, w) ==
  /\ ended = "none" /\ endSt[e] = "open" /\ registered /\ ~bridgeClosed /\ NoBacklog(e)
  /\ (w = "data" => Faults)
  /\ endSt' = [endSt EXCEPT ![e] = "closed"]
  /\ endMode' = [endMode EXCEPT ![e] = w] /\ UNCHANGED <<errClass, spin>>
  /\ ended' = "close"
  /\ H([a |-> "close", e |-> e, w |-> w])
  /\ LimU /\ CopU /\ FaultU /\ RepU /\ DevU
  /\ UNCHANGED <<attached, avail, bridgeClosed, registered, nsend>>
  /\ XU

\* an end's connection fails for good (reset, the peer vanished): unread bytes are gone, every further Read
\* and Write returns the same error; w = "data": the failing read still returns what it had in hand (one
\* buffer-full at most) with the error.  c = what the error says about itself: "plain" = nothing (no
\* Timeout() / Temporary() methods, e.g. ECONNRESET), "tmo" = Timeout() but not Temporary() (quic-go's
\* IdleTimeoutError, a keep-alive that gave up), "tmp" = Temporary() but not Timeout().  None of them is
\* the expiry of a read deadline (Timeout() and Temporary(): Glitch), which alone may be retried.
ErrorEnd(e, w, c) ==
  /\ c \in ErrClasses
  /\ ended = "none" /\ endSt[e] = "open" /\ registered /\ ~bridgeClosed /\ NoBacklog(e)
  /\ (w = "data" => Faults /\ avail[SendChan(e)] # <<>>)
  /\ endSt' = [endSt EXCEPT ![e] = "failed"]
  /\ errClass' = [errClass EXCEPT ![e] = c] /\ spin' = spin
  /\ endMode' = [endMode EXCEPT ![e] = w]
  /\ avail' = [avail EXCEPT ![SendChan(e)] = IF w = "data" THEN <<Min(BUF, Head(@))>> ELSE <<>>]
  /\ ended' = "error"
  /\ H([a |-> "error", e |-> e, w |-> w, x |-> c])
  /\ LimU /\ CopU /\ FaultU /\ RepU /\ DevU
  /\ UNCHANGED <<attached, bridgeClosed, registered, nsend>>
  /\ XU

\* the next Write to end e accepts only part of the chunk and returns an error
Arm(e) ==
  /\ Faults /\ nfault = 0 /\ ended = "none" /\ endSt[e] = "open" /\ registered /\ ~bridgeClosed
  /\ armed' = [armed EXCEPT ![e] = TRUE] /\ nfault' = 1 /\ glitch' = glitch /\ UNCHANGED <<stalled, routeFail>>
  /\ H([a |-> "arm", e |-> e])
  /\ LimU /\ CopU /\ RepU /\ DevU
  /\ UNCHANGED <<attached, endSt, avail, bridgeClosed, registered, nsend, ended, endMode, errClass, spin>>
  /\ XU

\* k = "t0": the next Read on end e's connection returns (0, temporary timeout) - retried by the loop;
\* k = "tn": the next Read that has bytes returns them TOGETHER WITH a temporary timeout;
\* k = "tp": from now on EVERY Read that finds nothing returns (0, temporary timeout) after its poll interval
\*           (a deadline-polling transport; persistent).  Such a Read changes nothing: it is a stuttering step.
Glitch(e, k) ==
  /\ Faults /\ nfault = 0 /\ ended = "none" /\ endSt[e] = "open" /\ registered /\ ~bridgeClosed
  /\ glitch' = [glitch EXCEPT ![e] = k] /\ nfault' = 1 /\ armed' = armed /\ UNCHANGED <<stalled, routeFail>>
  /\ H([a |-> "glitch", e |-> e, k |-> k])
  /\ LimU /\ CopU /\ RepU /\ DevU
  /\ UNCHANGED <<attached, endSt, avail, bridgeClosed, registered, nsend, ended, endMode, errClass, spin>>
  /\ XU

\* end e stops draining what the bridge writes to it (back-pressure) / drains again
Stall(e) ==
  /\ Faults /\ nfault = 0 /\ ended = "none" /\ endSt[e] = "open" /\ registered /\ ~bridgeClosed /\ ~stalled[e]
  /\ stalled' = [stalled EXCEPT ![e] = TRUE] /\ nfault' = 1
  /\ H([a |-> "stall", e |-> e])
  /\ LimU /\ CopU /\ RepU /\ DevU
  /\ UNCHANGED <<attached, endSt, avail, bridgeClosed, registered, nsend, ended, endMode, errClass, spin, armed, glitch, routeFail>>
  /\ XU
Unstall(e) ==
  /\ stalled[e] /\ endSt[e] = "open" /\ ~bridgeClosed
  /\ stalled' = [stalled EXCEPT ![e] = FALSE]
  /\ H([a |-> "unstall", e |-> e])
  /\ LimU /\ CopU /\ RepU /\ DevU
  /\ UNCHANGED <<attached, endSt, avail, bridgeClosed, registered, nsend, ended, endMode, errClass, spin, armed, glitch, nfault, routeFail>>
  /\ XU
  /\ XU

\* the routing table's storage starts failing deletes (shared store unreachable)
RouteFail ==
  /\ Faults /\ nfault = 0 /\ registered /\ ~bridgeClosed /\ ~routeFail
  /\ routeFail' = TRUE /\ nfault' = 1
  /\ H([a |-> "routefail"])
  /\ LimU /\ CopU /\ RepU /\ DevU
  /\ UNCHANGED <<attached, endSt, avail, bridgeClosed, registered, nsend, ended, endMode, errClass, spin, armed, glitch, stalled>>
  /\ XU

\* the source client re-opens the tunnel on a new connection (handleExistingBridge)
ReplaceSource ==
  /\ Replace /\ ~replaced /\ ended = "none" /\ endSt["S"] = "open" /\ registered /\ ~bridgeClosed
  /\ ~Splice(akind)                 \* (runBridgeForward works on the forwarder it found when it started)
  /\ replaced' = TRUE
  /\ IF DevStaleSrc
     THEN UNCHANGED <<oldClosed, avail, dropped>>
     ELSE \* SetSourceConnection closes the connection it replaces: what was unread there is gone
          /\ oldClosed' = TRUE
          /\ avail' = [avail EXCEPT !["s1"] = <<>>]
          /\ dropped' = dropped + SumSeq(avail["s1"])
  /\ H([a |-> "replace"])
  /\ LimU /\ CopU /\ FaultU
  /\ UNCHANGED <<attached, endSt, bridgeClosed, registered, nsend, ended, endMode, errClass, spin, devLimErr, devStale, lost, misorder, crashed>>
  /\ XU

\* the replaced connection finally ends (the client or the network closes it)
CloseOld ==
  /\ replaced /\ ~oldClosed
  /\ oldClosed' = TRUE /\ replaced' = replaced
  /\ H([a |-> "closeold"])
  /\ LimU /\ CopU /\ FaultU /\ DevU
  /\ UNCHANGED <<attached, endSt, avail, bridgeClosed, registered, nsend, ended, endMode, errClass, spin>>
  /\ XU

\* ---- the bridge ------------------------------------------------------------------------------
\* splice: a direction that has finished half-closes its destination (CloseWrite): that end sees EOF
\* (as found a forwarded tunnel passes nothing on to the target's connection)
PassesEof(d) == Splice(akind) /\ ~(akind = "fwd" /\ d = "s2t" /\ DevFwdNoEof)
EofTo(d) == seenEOF' = IF PassesEof(d) /\ pc'[d] = "done" /\ pc[d] # "done" THEN [seenEOF EXCEPT ![Dst(d)] = TRUE] ELSE seenEOF

\* the stale-connection sweeper has closed the stream of a tunnel leg it took for a silent control connection
Swept(e) == /\ held
            /\ \/ e = "T" /\ akind = "pkt" /\ "T" \in RegLegs
               \/ e = "T" /\ akind = "fwd" /\ "F" \in RegLegs
               \/ e = "S" /\ skind = "pkt" /\ akind # "fwd" /\ "S" \in RegLegs
\* the connection manager's idle sweep has closed the cross-node connection (this node's source end) of a busy tunnel
IdleCut == held /\ DevIdleSweep /\ akind = "fwd"
Severed(e) == Swept(e) \/ (e = "S" /\ IdleCut)      \* the server itself closed end e's connection, the tunnel not being over
Cut(d) == bridgeClosed \/ Severed(Src(d))           \* the connection direction d reads from was closed under it

\* CopyWithControl of direction d returned.  The s2t goroutine re-enters it when the source
\* forwarder changed meanwhile (and the context is still live); otherwise the goroutine ends.
ExitCopy(d) ==
  IF OnOld(d) /\ ~bridgeClosed
  THEN rdgen' = 2 /\ pc' = [pc EXCEPT ![d] = "read"]
  ELSE rdgen' = rdgen /\ pc' = [pc EXCEPT ![d] = "done"]

Drop(d) == /\ lost' = [lost EXCEPT ![d] = @ + inflight[d]] /\ inflight' = [inflight EXCEPT ![d] = 0]
           /\ rdErr' = [rdErr EXCEPT ![d] = "none"]

\* the t2s goroutine starts running: it evaluates b.targetForwarder and enters CopyWithControl
Enter(d) ==
  /\ pc[d] = "start"
  /\ IF bridgeClosed /\ DevNilFwd
     THEN \* DEVIATION: Close() has already set the field to nil -> src.Read on a nil interface: panic.
          \* The process is gone: nothing runs any more, the kernel closes its sockets, its tunnel map
          \* does not exist any longer.
          /\ crashed' = TRUE /\ pc' = [x \in Dirs |-> "done"] /\ registered' = FALSE
     ELSE /\ crashed' = crashed /\ pc' = [pc EXCEPT ![d] = "read"] /\ registered' = registered
  /\ NoH
  /\ LimU /\ FaultU /\ RepU
  /\ UNCHANGED <<attached, endSt, avail, sent, delivered, rdOff, inflight, rdgen, bridgeClosed, nsend, ended,
                 endMode, errClass, spin, rdErr, devLimErr, devStale, lost, misorder, dropped>>
  /\ EofTo(d) /\ UNCHANGED <<akind, skind, held, statStall, closerBusy>>

\* src.Read(buf)
\* the retry test of CopyWithControl: `continue` on an error that is the expiry of a read deadline.  As is
\* it asks for Timeout() AND Temporary(), which no permanent error class has; the io.Copy loops of the
\* splice kinds have no retry test at all.
Retried(e)  == ~Splice(akind) /\ endSt[e] = "failed" /\ errClass[e] \in RetryOn
RetriedW(e) == ~Splice(akind) /\ endSt[e] = "failed" /\ errClass[e] \in RetryWriteOn
\* ghost: calls direction d has made on a connection that had already failed (capped)
Bump(d) == spin' = [spin EXCEPT ![d] = IF @ < 3 THEN @ + 1 ELSE @]

Read(d) ==
  /\ pc[d] = "read"
  /\ LET ch == RdChan(d) src == Src(d) IN
     \/ \* the bridge closed this connection: Read fails
        /\ Cut(d) /\ ~OnOld(d)
        /\ ExitCopy(d) /\ UNCHANGED <<avail, rdOff, inflight, glitch, rdErr, spin>>
     \/ \* transient timeout without bytes: `continue`
        /\ ~Cut(d) /\ ~OnOld(d) /\ glitch[src] = "t0"
        /\ glitch' = [glitch EXCEPT ![src] = "no"]
        /\ UNCHANGED <<avail, rdOff, inflight, pc, rdgen, rdErr, spin>>
     \/ \* data: one buffer-full at most, never across the end's write boundaries - possibly together
        \* with a temporary timeout, with io.EOF (last bytes of a closed end) or with the connection error
        /\ (Cut(d) => OnOld(d)) /\ (OnOld(d) \/ glitch[src] # "t0")
        /\ avail[ch] # <<>> /\ (OnOld(d) \/ endSt[src] # "failed" \/ endMode[src] = "data")
        /\ LET n    == Min(BUF, Head(avail[ch]))
               last == Len(avail[ch]) = 1 /\ Head(avail[ch]) <= BUF
               with == IF OnOld(d) THEN "none"
                       ELSE IF endSt[src] = "failed" THEN "err"
                       ELSE IF endSt[src] = "closed" /\ endMode[src] = "data" /\ last THEN "eof"
                       ELSE "none"       \* (a timeout that comes with the bytes is retried: same as none)
           IN
           /\ inflight' = [inflight EXCEPT ![d] = n]
           /\ rdOff' = [rdOff EXCEPT ![d] = @ + n]
           /\ avail' = [avail EXCEPT ![ch] = IF Head(@) > n THEN <<Head(@) - n>> \o Tail(@) ELSE Tail(@)]
           /\ rdErr' = [rdErr EXCEPT ![d] = with]
           /\ glitch' = IF ~OnOld(d) /\ glitch[src] = "tn" /\ with = "none" THEN [glitch EXCEPT ![src] = "no"] ELSE glitch
           /\ pc' = [pc EXCEPT ![d] = IF lim = "none" \/ Splice(akind) THEN "write" ELSE "limit"]
           /\ IF with = "err" THEN Bump(d) ELSE spin' = spin
        /\ UNCHANGED <<rdgen>>
     \/ \* end of stream / read error without bytes
        /\ (Cut(d) => OnOld(d)) /\ (OnOld(d) \/ glitch[src] # "t0")
        /\ IF OnOld(d) THEN avail[ch] = <<>> /\ oldClosed
           ELSE avail[ch] = <<>> /\ endSt[src] \in {"closed", "failed"}
        /\ IF ~OnOld(d) /\ Retried(src)
           THEN \* DEVIATION (RetryOn): the permanent error is taken for a deadline expiry - `continue`, and the
                \* next Read returns it again, at once: the copier spins, nothing ever closes the tunnel
                pc' = pc /\ rdgen' = rdgen
           ELSE ExitCopy(d)
        /\ IF ~OnOld(d) /\ endSt[src] = "failed" THEN Bump(d) ELSE spin' = spin
        /\ UNCHANGED <<avail, rdOff, inflight, glitch, rdErr>>
  /\ H([a |-> "R", d |-> d])
  /\ UNCHANGED <<lim, tokens, paid, attached, endSt, sent, delivered, armed, nfault, stalled, routeFail, bridgeClosed, registered,
                 nsend, ended, endMode, errClass>> /\ RepU /\ DevU
  /\ EofTo(d) /\ UNCHANGED <<akind, skind, held, statStall, closerBusy>>

\* rateLimiter.WaitN(ctx, n)
Limit(d) ==
  /\ pc[d] = "limit"
  /\ \/ \* context cancelled (Close): error, the chunk is dropped - the tunnel is ending anyway
        \* (the seeded variant looks at the context only when it enters the wait)
        /\ bridgeClosed /\ (DevSleepLimiter => paid[d] = 0)
        /\ Drop(d) /\ ExitCopy(d) /\ paid' = [paid EXCEPT ![d] = 0]
        /\ UNCHANGED <<tokens, devLimErr>>
     \/ /\ ~bridgeClosed /\ lim = "large"
        /\ pc' = [pc EXCEPT ![d] = "write"]
        /\ UNCHANGED <<tokens, paid, devLimErr, lost, inflight, rdgen, rdErr>>
     \/ \* DEVIATION (DESIGN.md 6 row 16): n exceeds the burst => WaitN fails immediately
        /\ ~bridgeClosed /\ Paced(lim) /\ DevLimiter /\ inflight[d] > Burst(lim)
        /\ devLimErr' = TRUE
        /\ Drop(d) /\ ExitCopy(d)
        /\ UNCHANGED <<tokens, paid>>
     \/ \* enough tokens: take them (as found: the whole chunk; split form: as many as there are)
        \* (one piece = one WaitN(ctx, piece); the seeded variant sleeps on although the bridge is closed)
        /\ (~bridgeClosed \/ (DevSleepLimiter /\ paid[d] > 0))
        /\ Paced(lim) /\ (DevLimiter => inflight[d] <= Burst(lim))
        /\ tokens > 0 /\ (DevLimiter => tokens >= inflight[d])
        /\ LET k == Min(tokens, inflight[d] - paid[d]) IN
           /\ tokens' = tokens - k
           /\ IF paid[d] + k = inflight[d]
              THEN paid' = [paid EXCEPT ![d] = 0] /\ pc' = [pc EXCEPT ![d] = "write"]
              ELSE paid' = [paid EXCEPT ![d] = @ + k] /\ pc' = pc
        /\ UNCHANGED <<devLimErr, lost, inflight, rdgen, rdErr>>
  /\ NoH
  /\ UNCHANGED <<lim, attached, endSt, avail, sent, delivered, rdOff, bridgeClosed, registered, nsend, ended, endMode, errClass, spin,
                 devStale, misorder, crashed, dropped>> /\ FaultU /\ RepU
  /\ EofTo(d) /\ UNCHANGED <<akind, skind, held, statStall, closerBusy>>

\* time passes: the bucket refills (only interesting while a copier waits)
Refill ==
  /\ Paced(lim) /\ tokens < Burst(lim) /\ \E d \in Dirs : pc[d] = "limit"
  /\ tokens' = Burst(lim)
  /\ NoH
  /\ UNCHANGED <<lim, paid, attached, endSt, avail, bridgeClosed, registered, nsend, ended, endMode, errClass, spin>>
  /\ CopU /\ FaultU /\ RepU /\ DevU
  /\ XU

\* dst.Write(buf[:n])
Write(d) ==
  /\ pc[d] = "write"
  /\ LET dst == Dst(d) n == inflight[d] IN
     \/ \* destination gone (closed by the bridge, or the end closed / failed): error, chunk dropped
        /\ bridgeClosed \/ endSt[dst] # "open" \/ Severed(dst)
        /\ IF ~bridgeClosed /\ ~Severed(dst) /\ RetriedW(dst)
           THEN \* DEVIATION (RetryWriteOn): the write error is taken for a deadline expiry, the chunk is offered again
                UNCHANGED <<pc, rdgen, lost, inflight, rdErr>>
           ELSE Drop(d) /\ ExitCopy(d)
        /\ IF ~bridgeClosed /\ endSt[dst] = "failed" THEN Bump(d) ELSE spin' = spin
        /\ UNCHANGED <<delivered, endSt, armed, ended, misorder, errClass>>
     \/ \* short write with error: part of the chunk is taken, the connection is then broken
        /\ ~bridgeClosed /\ endSt[dst] = "open" /\ armed[dst] /\ ~stalled[dst] /\ ~Severed(dst)
        /\ LET k == n \div 2 IN
           /\ delivered' = [delivered EXCEPT ![d] = @ + k]
           /\ misorder' = (misorder \/ rdOff[d] - n # delivered[d])
           /\ lost' = [lost EXCEPT ![d] = @ + (n - k)] /\ inflight' = [inflight EXCEPT ![d] = 0]
        /\ rdErr' = [rdErr EXCEPT ![d] = "none"]
        /\ endSt' = [endSt EXCEPT ![dst] = "failed"] /\ errClass' = [errClass EXCEPT ![dst] = "plain"] /\ spin' = spin
        /\ armed' = [armed EXCEPT ![dst] = FALSE]
        /\ ended' = IF ended = "none" THEN "error" ELSE ended
        /\ ExitCopy(d)
     \/ /\ ~bridgeClosed /\ endSt[dst] = "open" /\ ~armed[dst] /\ ~stalled[dst] /\ ~Severed(dst)    \* (parked while the end does not drain)
        /\ delivered' = [delivered EXCEPT ![d] = @ + n]
        /\ misorder' = (misorder \/ rdOff[d] - n # delivered[d])
        /\ inflight' = [inflight EXCEPT ![d] = 0]
        \* `if err != nil`: a timeout that came with the bytes is retried, EOF / an error end the loop
        \* (DEVIATION RetryOn: a permanent error of a retried class that came with the bytes is retried, too)
        /\ IF rdErr[d] = "none" \/ (rdErr[d] = "err" /\ Retried(Src(d))) THEN pc' = [pc EXCEPT ![d] = "read"] /\ rdgen' = rdgen ELSE ExitCopy(d)
        /\ rdErr' = [rdErr EXCEPT ![d] = "none"]
        /\ UNCHANGED <<endSt, armed, ended, lost, errClass, spin>>
  /\ H([a |-> "W", d |-> d])
  /\ UNCHANGED <<lim, tokens, paid, attached, avail, sent, rdOff, glitch, nfault, stalled, routeFail, bridgeClosed, registered, nsend, endMode,
                 devLimErr, devStale, crashed, dropped>> /\ RepU
  /\ EofTo(d) /\ UNCHANGED <<akind, skind, held, statStall, closerBusy>>

\* closeBridge(): the first copier goroutine that ends runs Bridge.Close() - the current source
\* and target connections are closed (both ends observe closure), then the context is cancelled
\* (seeded variant: Close() needs sourceConnMu, which a t2s Write parked on a non-draining source holds)
LockHeld == DevWriteLock /\ pc["t2s"] = "write" /\ stalled["S"] /\ endSt["S"] = "open"
\* the last traffic report talks to the statistics backend when there is something to report
Traffic == delivered["s2t"] + delivered["t2s"] > 0
\* (seeded variant: the handlers run first - while the backend does not answer nothing gets closed)
BackendFirst == DevCleanupFirst /\ statStall /\ Traffic
CloseBridge ==
  /\ ~bridgeClosed /\ ~LockHeld /\ ~BackendFirst
  /\ IF Splice(akind) THEN \A d \in Dirs : pc[d] = "done" ELSE \E d \in Dirs : pc[d] = "done"
  /\ bridgeClosed' = TRUE /\ closerBusy' = TRUE          \* connections closed, context cancelled; now the handlers
  /\ NoH
  /\ LimU /\ CopU /\ FaultU /\ RepU /\ DevU
  /\ UNCHANGED <<attached, endSt, avail, registered, nsend, ended, endMode, errClass, spin, akind, skind, held, seenEOF, statStall>>

\* Bridge.Close() called by someone else (server shutdown, quota enforcement)
ExtClose ==
  /\ ExtCloseOn /\ ~bridgeClosed /\ ~LockHeld /\ ~BackendFirst /\ registered /\ ended = "none" /\ akind # "fwd"   \* (fwd: no bridge on this node)
  /\ bridgeClosed' = TRUE /\ ended' = "bridge" /\ closerBusy' = TRUE
  /\ H([a |-> "extclose"])
  /\ LimU /\ CopU /\ FaultU /\ RepU /\ DevU
  /\ UNCHANGED <<attached, endSt, avail, registered, nsend, endMode, errClass, spin, akind, skind, held, seenEOF, statStall>>

\* wg.Wait() returned (or Start failed before the target came): runBridgeLifecycle deletes the map entry
Unregister ==
  /\ registered
  \* (the goroutine that ran Close() is one of the two Start waits for: it must be out of the handlers)
  /\ \/ attached /\ ~closerBusy /\ \A d \in Dirs : pc[d] = "done"
     \/ ~attached /\ bridgeClosed                       \* "bridge cancelled before target connection"
  \* delete(tunnelBridges, id), then the routing entry (its storage error is ignored);
  \* seeded variant: routing entry first, `return` on its error - the map entry stays
  /\ registered' = (DevRouteFirst /\ routeFail)
  /\ (~bridgeClosed => ~LockHeld)
  /\ bridgeClosed' = TRUE                                \* deferred bridge.Close()
  /\ NoH
  /\ LimU /\ CopU /\ FaultU /\ RepU /\ DevU
  /\ UNCHANGED <<attached, endSt, avail, nsend, ended, endMode, errClass, spin>>
  /\ XU

\* the 30 s timer of Start fires before a target was attached
ReadyTimeout ==
  /\ registered /\ ~attached /\ ~bridgeClosed
  /\ registered' = FALSE /\ bridgeClosed' = TRUE
  /\ H([a |-> "timeout"])
  /\ LimU /\ CopU /\ FaultU /\ RepU /\ DevU
  /\ UNCHANGED <<attached, endSt, avail, nsend, ended, endMode, errClass, spin>>
  /\ XU

\* ghost: the s2t goroutine is parked in Read on the replaced connection while the tunnel is over
MarkStale ==
  /\ ~devStale /\ bridgeClosed /\ pc["s2t"] = "read" /\ OnOld("s2t") /\ ~oldClosed /\ avail["s1"] = <<>>
  /\ devStale' = TRUE
  /\ NoH
  /\ LimU /\ CopU /\ FaultU /\ RepU
  /\ UNCHANGED <<attached, endSt, avail, bridgeClosed, registered, nsend, ended, devLimErr, lost, misorder, crashed, dropped, endMode, errClass, spin>>
  /\ XU

\* the clean-up handlers of Close() return (the traffic report needs the statistics backend)
CleanupDone ==
  /\ closerBusy /\ ~(statStall /\ Traffic)
  /\ closerBusy' = FALSE
  /\ NoH
  /\ LimU /\ CopU /\ FaultU /\ RepU /\ DevU
  /\ UNCHANGED <<attached, endSt, avail, bridgeClosed, registered, nsend, ended, endMode, errClass, spin, akind, skind, held, seenEOF, statStall>>

\* the statistics backend stops answering / answers again
StatStall ==
  /\ Faults /\ nfault = 0 /\ registered /\ ~bridgeClosed /\ ~statStall /\ ended = "none"
  /\ statStall' = TRUE /\ nfault' = 1
  /\ H([a |-> "statstall"])
  /\ LimU /\ CopU /\ RepU /\ DevU
  /\ UNCHANGED <<attached, endSt, avail, bridgeClosed, registered, nsend, ended, endMode, errClass, spin, armed, glitch, stalled, routeFail,
                 akind, skind, held, seenEOF, closerBusy>>
StatResume ==
  /\ statStall
  /\ statStall' = FALSE
  /\ H([a |-> "statresume"])
  /\ LimU /\ CopU /\ FaultU /\ RepU /\ DevU
  /\ UNCHANGED <<attached, endSt, avail, bridgeClosed, registered, nsend, ended, endMode, errClass, spin, akind, skind, held, seenEOF, closerBusy>>

\* the tunnel outlives the heartbeat timeout and the idle timeout (and a sweep of the stale-connection cleaner
\* and of the connection manager), both ends talking all the while
Hold ==
  /\ HoldOn /\ attached /\ ~held /\ ended = "none" /\ ~bridgeClosed /\ registered
  /\ held' = TRUE
  /\ H([a |-> "hold"])
  /\ LimU /\ CopU /\ FaultU /\ RepU /\ DevU
  /\ UNCHANGED <<attached, endSt, avail, bridgeClosed, registered, nsend, ended, endMode, errClass, spin, akind, skind, seenEOF, statStall, closerBusy>>

\* splice: an end that has seen end-of-stream closes its connection (the peer node's forwarder, a client)
React(e) ==
  /\ Splice(akind) /\ seenEOF[e] /\ endSt[e] = "open" /\ ~bridgeClosed
  /\ endSt' = [endSt EXCEPT ![e] = "closed"]
  /\ NoH
  /\ LimU /\ CopU /\ FaultU /\ RepU /\ DevU
  /\ UNCHANGED <<attached, avail, bridgeClosed, registered, nsend, ended, endMode, errClass, spin>> /\ XU

Copier(d) == Enter(d) \/ Read(d) \/ Limit(d) \/ Write(d)
Env == \/ \E e \in Ends : \E c \in Classes : Send(e, c)
       \/ \E k \in AttachKinds : Attach(k)
       \/ \E e \in Ends : \/ \E w \in {"plain", "data"} : CloseEnd(e, w) \/ \E c \in ErrClasses : ErrorEnd(e, w, c)
                          \/ Arm(e) \/ \E k \in (IF PollOn THEN {"t0", "tn", "tp"} ELSE {"t0", "tn"}) : Glitch(e, k)
                          \/ Stall(e) \/ Unstall(e)
       \/ RouteFail \/ StatStall \/ StatResume \/ Hold
       \/ ReplaceSource \/ CloseOld \/ ExtClose
Sys == (\E d \in Dirs : Copier(d)) \/ Refill \/ CleanupDone \/ (\E e \in Ends : React(e)) \/ CloseBridge \/ Unregister \/ ReadyTimeout \/ MarkStale
Next == Env \/ Sys
Spec == Init /\ [][Next]_vars

\* weak fairness on the copiers, the clock, Close and the lifecycle goroutine - not on the environment
Fair == /\ \A d \in Dirs : WF_vars(Copier(d))
        /\ WF_vars(Refill /\ ~bridgeClosed)        \* once the bridge is closed nothing may wait for the pacing clock
        /\ WF_vars(CloseBridge) /\ WF_vars(CleanupDone) /\ \A e \in Ends : WF_vars(React(e)) /\ WF_vars(Unregister) /\ WF_vars(ReadyTimeout) /\ WF_vars(MarkStale)
LiveSpec == Spec /\ Fair

\* ---- properties (statement of C02) ------------------------------------------------------------
TypeOK == /\ lim \in Lims /\ tokens \in 0..BUF /\ attached \in BOOLEAN /\ bridgeClosed \in BOOLEAN
          /\ \A d \in Dirs : /\ pc[d] \in {"idle", "start", "read", "limit", "write", "done"}
                             /\ inflight[d] \in 0..BUF /\ paid[d] \in 0..BUF
          /\ \A e \in Ends : endSt[e] \in {"open", "closed", "failed"} /\ glitch[e] \in {"no", "t0", "tn", "tp"} /\ endMode[e] \in {"plain", "data"}
          /\ \A e \in Ends : errClass[e] \in {"none", "plain", "tmo", "tmp"} /\ \A d \in Dirs : spin[d] \in 0..3
          /\ \A d \in Dirs : rdErr[d] \in {"none", "eof", "err"}
          /\ \A e \in Ends : stalled[e] \in BOOLEAN /\ seenEOF[e] \in BOOLEAN
          /\ akind \in {"none", "local", "pkt", "xnode", "fwd"} /\ skind \in {"direct", "pkt"} /\ held \in BOOLEAN /\ statStall \in BOOLEAN /\ closerBusy \in BOOLEAN
          /\ rdgen \in {1, 2} /\ ended \in {"none", "close", "error", "bridge"}

\* what an end has received is a prefix of what the other end sent: every chunk is written at the
\* offset it was read from, nothing is written twice, nothing beyond what was sent
Prefix      == \A d \in Dirs : delivered[d] + inflight[d] + lost[d] = rdOff[d] /\ rdOff[d] <= sent[d]
InOrder     == ~misorder
InOrderKnown == misorder => devLimErr          \* a hole can only follow the limiter deviation (+ replacement)

\* no end closed or failed, nobody closed the bridge: the tunnel stays up and nothing is dropped
Untouched == ended = "none" /\ (attached \/ registered)
NoSpontaneousEnd      == Untouched => (~bridgeClosed /\ \A d \in Dirs : pc[d] # "done" /\ lost[d] = 0)
\* as found: a forwarded tunnel that outlives the heartbeat / idle timeout is cut by the sweepers
KnownSweep == held /\ akind = "fwd" /\ ("F" \in RegLegs \/ DevIdleSweep)
NoSpontaneousEndKnown == Untouched => (devLimErr \/ KnownSweep \/ (~bridgeClosed /\ \A d \in Dirs : pc[d] # "done" /\ lost[d] = 0))

\* ... and once the copiers have nothing left to do, everything sent has been delivered
Idle(d) == pc[d] = "read" /\ avail[RdChan(d)] = <<>> /\ glitch[Src(d)] # "t0"
Complete      == (Untouched /\ attached /\ ~replaced /\ \A d \in Dirs : Idle(d)) => \A d \in Dirs : delivered[d] = sent[d]
CompleteKnown == (Untouched /\ attached /\ ~replaced /\ \A d \in Dirs : Idle(d)) => (devLimErr \/ \A d \in Dirs : delivered[d] = sent[d])

\* both directions progress independently: a direction with unread or buffered bytes can always take
\* a step (or only waits for the clock) while the tunnel is up - whatever the other direction does
CanStep(d) == \/ pc[d] = "start"
              \/ pc[d] = "read" /\ (avail[RdChan(d)] # <<>> \/ glitch[Src(d)] = "t0")
              \/ pc[d] = "write"
              \/ pc[d] = "limit" /\ (lim = "large" \/ tokens > 0 \/ inflight[d] > Burst(lim))
              \/ pc[d] = "limit" /\ tokens < Burst(lim)                          \* Refill enabled
\* bytes left on the replaced connection when the copier moved on (or never read it): never delivered
Stranded == rdgen = 2 /\ avail["s1"] # <<>>
\* bytes discarded unread when the replaced connection was closed by the bridge
Gone(d) == IF d = "s2t" THEN dropped ELSE 0
Stuck(d) == /\ ended = "none" /\ ~(d = "s2t" /\ Stranded) /\ ~stalled[Dst(d)] /\ attached /\ ~bridgeClosed /\ ~OnOld(d) /\ pc[d] # "done" /\ endSt[Src(d)] # "failed"
            /\ delivered[d] + lost[d] + Gone(d) < sent[d] /\ ~CanStep(d)
Independent      == \A d \in Dirs : ~Stuck(d)
IndependentKnown == devLimErr \/ KnownSweep \/ Independent     \* limiter error + replacement: the rest of the old connection is never read

\* the server forgets the tunnel only after the bridge is closed; closed implies both ends saw it
ForgetImpliesClosed == ~registered => bridgeClosed
\* the server survives whatever the ends do
NoCrash == ~crashed
\* a permanent failure of an end ends the copy loops that touch it: each direction makes at most one call on
\* a connection that has failed (the Read / Write that learns of it) - no busy loop on a dead connection
\* (the s2t goroutine that was still on a replaced source connection starts over once with the new one)
NoBusyLoop == \A d \in Dirs : spin[d] <= IF replaced THEN 2 ELSE 1

\* ---- liveness (under Fair) ----------------------------------------------------------------------
\* when either end closes or fails, the other end observes closure and the server forgets the tunnel
\* a copier is parked writing to an end that does not drain and no copier has noticed anything yet:
\* the bridge has had no occasion to see the other end go (nothing is demanded before it has)
Unnoticed == (\E d \in Dirs : pc[d] = "write" /\ stalled[Dst(d)]) /\ \A d \in Dirs : pc[d] # "done"
\* (xnode: the other end sees end-of-stream through the half-close; a statistics backend that does not
\* answer may delay the forgetting, never the closure)
ClosureSeen      == \A e \in Ends : (attached /\ endSt[e] # "open") ~> (bridgeClosed \/ seenEOF[Other(e)] \/ Unnoticed)
Forgotten        == (attached /\ ended # "none") ~> (~registered \/ Unnoticed \/ statStall)
KnownNoEof == akind = "fwd" /\ DevFwdNoEof        \* as found: the source's end-of-stream is not passed on to a forwarded target
ClosureSeenKnown == \A e \in Ends : (attached /\ endSt[e] # "open") ~> (bridgeClosed \/ seenEOF[Other(e)] \/ Unnoticed \/ (replaced /\ ~oldClosed) \/ KnownNoEof)
ForgottenKnown   == (attached /\ ended # "none") ~> (~registered \/ Unnoticed \/ statStall \/ crashed \/ devStale \/ (replaced /\ ~oldClosed) \/ KnownNoEof)
\* a tunnel whose target never comes is forgotten as well (30 s timer)
NeverAttached == (~attached) ~> (attached \/ ~registered)
\* bytes sent while both ends stay open are eventually delivered: the copiers always catch up again
CatchUp      == []<>((\E e \in Ends : stalled[e]) \/ Stranded \/ ~attached \/ ended # "none" \/ (replaced /\ ~oldClosed) \/ \A d \in Dirs : delivered[d] + Gone(d) = sent[d])
CatchUpKnown == []<>((\E e \in Ends : stalled[e]) \/ Stranded \/ ~attached \/ ended # "none" \/ (replaced /\ ~oldClosed) \/ devLimErr \/ KnownSweep \/ \A d \in Dirs : delivered[d] + Gone(d) = sent[d])
=============================================================================
