\* C09 behaviour generation for the record write / read path: transition coverage of the as-is
\* state graph (VIEW without hist): every (state, step) pair as a shortest history plus the step.
CONSTANTS
  Tunnels = @@TUNNELS@@
  Lookers = @@LOOKERS@@
  PooledEncode = FALSE
  PooledDecode = FALSE
  MaxHist = @@MAXHIST@@
  Emit = TRUE
INIT Init
NEXT Next
VIEW view
CONSTRAINT Bounded
INVARIANTS TypeOK
CHECK_DEADLOCK FALSE
