\* C07 named deviation "sweepCloseFirst" (sweep-side twin of "kickSendFirst" / seeded change C07-r3m3):
\* CleanupStale collects the stale connections under the read lock, runs the callbacks and only then deletes
\* the client's index entry (unconditionally) and the connection.  A login of the same client on another
\* connection inside that window loses its index entry; the next login leaves two current control connections.
\* TLC must report C07OneX violated: FirstLogin(c1) ; SweepBegin(c1) ; Login(c2,A) ; SweepEnd ; Login(c3,A).
\* The as-is model (Faults = {}) passes: SessionReg_sweep.cfg.
CONSTANTS
  Conn <- Conn3
  Client <- Client1
  MaxNonce = 2
  MaxFail = 3
  MaxCtl = 0
  Faults = {"sweepCloseFirst"}
  Ops = {"FirstLogin", "Login", "Close", "SweepBegin"}
  Types = {"control"}
  PreAccept = TRUE
  Fixes = {"oneIdentity", "atomicEvict"}
  Split = FALSE
  MaxLevel = 8
  Emit = "no"
INIT InitX
NEXT NextX
VIEW viewX
INVARIANTS TypeOKX OnlyProven C07InvX C07OneX SweepComplete
CHECK_DEADLOCK FALSE
