\* C10 bidirectional forwarder, behaviour generation (transition coverage of the as-is model):
\* @@TUN@@ tunnels (two directions each, <= @@CH@@ chunks per direction), buffers from an
\* allocator of four buffers. hist (the schedule) is excluded from the fingerprint; VIEW = control state only.
CONSTANTS
  Tunnels = @@TUN@@
  Chunks = @@CH@@
  Bufs = {b1, b2, b3, b4}
  Static = static
  None = none
  SharedCopyBuffer = FALSE
  PutAtFirstDone = FALSE
  PutBeforeWriteDone = FALSE
  GlobalBuffer = FALSE
  Gen = TRUE
  Emit = TRUE
INIT Init
NEXT Next
VIEW GenView
INVARIANTS TypeOK Unchanged BufferOwned
CHECK_DEADLOCK FALSE
