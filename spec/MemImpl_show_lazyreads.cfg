\* C13 - named deviation of spec/MemImpl.tla: lazy deletion on every read path (Get / Exists / GetList upgrade to the write lock and delete by name). Expected: StoresAgree violated - Set(S); Tick; p1 Get; p2 Set(ttl 0); p1 Evict. (LazyReads = TRUE with Evict = "recheck" passes: thorough tier of ./check C13.)
\*   tlc -config MemImpl_show_lazyreads.cfg MemImpl.tla      (the same constants with Sweep = "locked", Evict = "recheck",
\*   LazyReads / OldCAS / OldSetExp = FALSE pass: ./check C13)
CONSTANTS
  Keys = {"s1"}
  Vals = {"a", "b"}
  MaxClock = 2
  OldCAS = FALSE
  OldSetExp = FALSE
  Procs = {"p1", "p2"}
  Sweepers = {}
  Sweep = "locked"
  Evict = "norecheck"
  LazyReads = TRUE
  Emit = FALSE
INIT Init
NEXT Next
INVARIANTS TypeOK StoresAgree AnswersAgree NeverExpiringStays
PROPERTY SilentInvisible
CHECK_DEADLOCK FALSE
