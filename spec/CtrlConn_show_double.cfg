\* X05 demonstration, EXPECTED TO FAIL: the code as found (Fixed = FALSE) against the strict property - TLC prints the schedule.
\* DoubleConnect: a user's Connect() during the loop's back-off wait, then the loop dials again: two established connections (OneLive)
CONSTANTS
  Users = {"u1", "u2"}
  MaxConn = 3
  Scenes <- McQuick
  RejKinds = {"other"}
  MaxAttempts = 0
  Fixed = FALSE
  Emit = FALSE
SPECIFICATION Spec
VIEW view
INVARIANTS TypeOK OneLive

CHECK_DEADLOCK FALSE
