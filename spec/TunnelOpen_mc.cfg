\* C04 open-tunnel dispatcher: the complete product
\*   identity (5: none = no handshake, noneHs = failed handshake) x credential (7: the five of the
\*   statement + otherId = id of another mapping the stranger listens on + otherSecret = id and
\*   secret of a third mapping the stranger is the target of) x mapping state (7: the five of the
\*   statement + status "error" + a free-form status "suspended") x tunnel state at arrival
\*   (TSTATES; "remote" needs two nodes) x arrival order (2)          = 5*7*7*4*2 = 1960 cells
\* + late classes (tunnel registered while the request is being served: lateLocal, lateRemote;
\*   request first, mapping active)                                     5*7*2     =   70 cells
\* + mapping shapes noListen / noTarget (ListenClientID / TargetClientID = 0; tunnel state none)
\*   5*7*7*2                                                                      =  490 cells
\* + mapping state "expiredJust" (ExpiresAt 20 ms ago when written) everywhere: 8 mapping states
\* + order "slowUsage" (usage write-back held by a slow store; mapping changed after the open was
\*   acknowledged; tunnel state waiting, 7 non-active states)          5*7*7     =  245 cells
\* + tunnel state "prefixRemote" (T and T+ share 16 bytes; request names T+ on node B)   35 cells
\* round 3:
\* + mapping state "lapsed" (natural expiry: the ExpiresAt the record carried from the start passes,
\*   no store write; plain orders, shape std)                         5*7*4*2   =  280 cells
\* + order "closeAfter" (served tunnel carried data; mapping changed; THEN the tunnel closes - final
\*   traffic report - and the requester arrives; 7 non-active states)  5*7*7     =  245 cells
\* + tunnel states "prefixRemoteRev" / "prefixLocal" / "prefixLocalRev" (the victim has the LONG id /
\*   the request arrives on the node holding both bridges)             3*35      =  105 cells
\* each cell is a deterministic run of <= 7 steps.
\* MUT (named seeded deviations, {} here): usageAsync, headerFirst, expirySkew, lookupCache, validityCache,
\*   closeStaleCopy (one TunnelOpen_show_<mut>.cfg each, all must FAIL; TunnelOpen_show_all.cfg checks in one
\*   run, which must PASS, that every one of them - and the as-found tree - is exhibited), authLast
\* FIXES also knows "bindMappingPoll" (second half of patches/C04-3: the comparison on the record
\* found while polling).
\* FIXES / MASKED:  {} / TRUE  = tunnox-core as found (invariants hold "or a named deviation fired")
\*                  {"validateJoin", "secretValidity", "bindMapping", "bindMappingPoll"} / FALSE = with patches/C04-1..3 (strict)
\* EMIT = TRUE prints one behaviour per cell (generation).
CONSTANTS
  FIXES = @@FIXES@@
  Idents = {"none", "noneHs", "listen", "target", "stranger"}
  Creds = {"idOnly", "rightSecret", "wrongSecret", "resume", "nothing", "otherId", "otherSecret"}
  MStates = {"active", "revoked", "expired", "expiredJust", "lapsed", "inactive", "error", "suspended", "missing"}
  Shapes = {"std", "noListen", "noTarget"}
  MUT = {}
  TStates = @@TSTATES@@
  Orders = @@ORDERS@@
  Masked = @@MASKED@@
  Emit = @@EMIT@@
INIT Init
NEXT Next
INVARIANTS TypeOK AttachedEntitled RefusedClean OnlyAttachedRead NoDeviation LegitWorks
CHECK_DEADLOCK FALSE
