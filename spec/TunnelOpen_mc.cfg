\* C04 open-tunnel dispatcher: the complete product
\*   identity (5: none = no handshake, noneHs = failed handshake) x credential (6: the five of the
\*   statement + otherId = id of another, own, mapping) x mapping state (5) x tunnel state at
\*   arrival (TSTATES; "remote" needs two nodes) x arrival order (2)
\* = 5*6*5*4*2 = 1200 cells (900 without "remote"), each a deterministic run of <= 5 steps.
\* FIXES / MASKED:  {} / TRUE  = tunnox-core as found (invariants hold "or a named deviation fired")
\*                  {"validateJoin", "secretValidity", "bindMapping"} / FALSE = with patches/C04-1..3 (strict)
\* EMIT = TRUE prints one behaviour per cell (generation).
CONSTANTS
  FIXES = @@FIXES@@
  Idents = {"none", "noneHs", "listen", "target", "stranger"}
  Creds = {"idOnly", "rightSecret", "wrongSecret", "resume", "nothing", "otherId"}
  MStates = {"active", "revoked", "expired", "inactive", "missing"}
  TStates = @@TSTATES@@
  Orders = {"legitFirst", "reqFirst"}
  Masked = @@MASKED@@
  Emit = @@EMIT@@
INIT Init
NEXT Next
INVARIANTS TypeOK AttachedEntitled RefusedClean OnlyAttachedRead NoDeviation LegitWorks
CHECK_DEADLOCK FALSE
