\* (i) Bidirectional - SEEDED FAULT (C02/r4m2, not in the code): the half-close of the destination is skipped unless the
\* direction ended cleanly.  THIS RUN MUST FAIL with "Invariant BToldSafe is violated": endpoint A fails (reset), direction
\* A->B ends with a read error, B is never told.
CONSTANTS
  MaxSend = 1
  EofWithData = TRUE
  ShapesA <- CwLocal
  ShapesB <- CwShapes
  DevDeadlineAt = "none"
  DevDeadlineHits = {"read"}
  Monitor = FALSE
  IdleMax = 2
  DevMonNoFeed = FALSE
  Reactive = TRUE
  DevNoSignalOnError = TRUE
  DevCloseWriterFallback = FALSE
  Emit = FALSE
  Classes = {1}
  BatchSize = 32
  BatchBuf = 22
  High = 100
  MaxT = 0
  MaxU = 0
  TSeqs <- TSmall
  USeqs <- USmall
  Cuts = "all"
  Chunks = {0}
  Paces = {"burst"}
  DevSpin = FALSE
  DevNoUnblock = FALSE
  DevAliasFlush = FALSE
  SockBatch = FALSE
  DevNoInnerFlush = FALSE
  SockQueue = FALSE
  DevQueueRefs = FALSE
  DevSockDeadline = FALSE
  DevDropOnClose = FALSE
INIT BInit
NEXT BNext
INVARIANTS BTypeOK BPipe BComplete BToldSafe
CHECK_DEADLOCK FALSE
