\* (i) Bidirectional under tunnel.Tunnel - THE CODE AS FOUND before patch C12-4: nothing ever signals activityChan, so
\* the "idle" timer of monitorTimeout is an absolute lifetime.  THIS RUN MUST FAIL with "Invariant BMonitorOnlyIdle is
\* violated": tick, data moves, tick, the monitor closes both conns under a live direction.
CONSTANTS
  MaxSend = 1
  EofWithData = TRUE
  ShapesA <- LocalShapes
  ShapesB <- TwoShapes
  DevDeadlineAt = "none"
  DevDeadlineHits = {"read"}
  Monitor = TRUE
  IdleMax = 2
  DevMonNoFeed = TRUE
  Reactive = FALSE
  DevNoSignalOnError = FALSE
  DevCloseWriterFallback = FALSE
  Emit = FALSE
  Classes = {1}
  BatchSize = 32
  BatchBuf = 22
  High = 100
  MaxT = 0
  MaxU = 0
  TSeqs <- TSmall
  USeqs <- USmall
  Cuts = "all"
  Chunks = {0}
  Paces = {"burst"}
  DevSpin = FALSE
  DevNoUnblock = FALSE
  DevAliasFlush = FALSE
  SockBatch = FALSE
  DevNoInnerFlush = FALSE
  SockQueue = FALSE
  DevQueueRefs = FALSE
  DevSockDeadline = FALSE
  DevDropOnClose = FALSE
INIT BInit
NEXT BNext
INVARIANTS BTypeOK BPipe BComplete BMonitorOnlyIdle
CHECK_DEADLOCK FALSE
