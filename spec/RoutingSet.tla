------------------------------ MODULE RoutingSet ------------------------------
(* C09 - the write and read path of a routing record on a Redis-backed store, at the         *)
(* granularity at which calls of ONE server process overlap                                    *)
(* (tunnel.RoutingTable.RegisterWaitingTunnel -> hybrid.Storage.Set [per-key stripe lock] ->    *)
(*  redis.Storage.Set -> go-redis client;  LookupWaitingTunnel -> hybrid Get -> redis Get).     *)
(*                                                                                            *)
(* The routing table hands the store a *WaitingState; redis.Storage.Set turns it into bytes    *)
(* and only LATER - after go-redis has waited for a pooled connection - are those bytes read    *)
(* and written to the wire.  Between the two, registrations of other tunnels run.               *)
(*                                                                                            *)
(*   Enc(t)      redis.Storage.Set: json.Marshal(value) - the record of t becomes bytes in a     *)
(*               buffer.  As-is json.Marshal returns a fresh slice per call (buffer t, private). *)
(*               PooledEncode = TRUE is the design that encodes into a buffer taken from a       *)
(*               process-wide pool and gives it back when the encoding helper returns, while     *)
(*               the command still refers to the bytes: the next Enc may get the same buffer.    *)
(*   Send(t)     go-redis writes SET key(t) <the bytes the command refers to NOW> ttl; the        *)
(*               record of t is in the shared store when it returns (RegisterWaitingTunnel      *)
(*               returns, the source end waits)                                                *)
(*   LkRecv(l,t) a lookup of a waiting tunnel: GET key(t) answered; the reply is in the command   *)
(*               (as-is a string of its own).  PooledDecode = TRUE is the design in which the     *)
(*               reply lives in a scratch area shared by the lookups of the process until it is   *)
(*               decoded.                                                                       *)
(*   LkDec(l)    LookupWaitingTunnel decodes what the reply refers to NOW and returns it          *)
(*                                                                                            *)
(* Contents are abstract: a buffer / the store / a reply holds "the record registered for t"      *)
(* (named t) or nothing ("-").  Bytes of two records mixed in one buffer are the other record as   *)
(* far as the property is concerned (not exactly the data that was registered).                   *)
(*                                                                                            *)
(* Property (clause "resolves ... to exactly the data that was registered", several tunnels        *)
(* must not interfere):                                                                         *)
(*   StoredOwn   the store holds under the key of t nothing or the record registered for t          *)
(*   LookupOwn   a lookup of a waiting tunnel t returns the record registered for t                 *)
(* As-is both hold.  RoutingSet_show_poolenc.cfg / RoutingSet_show_pooldec.cfg: TLC reports the     *)
(* violation of StoredOwn / LookupOwn for the two pooled designs (deviations "foreignBytes",        *)
(* "foreignReply").                                                                             *)
(*                                                                                            *)
(* Generation (RoutingSet_gen.cfg): transition coverage of the as-is state graph - every           *)
(* (state, step) pair as a shortest history plus the step; the driver realises Enc / Send and        *)
(* LkRecv / LkDec with a go-redis hook that parks the SET before it is sent and the GET after it     *)
(* was answered, completes what is still in flight, and looks every tunnel up from every node.       *)
EXTENDS Naturals, Sequences, FiniteSets, TLC, Json

CONSTANTS Tunnels, Lookers,
          PooledEncode, PooledDecode,
          MaxHist, Emit

VARIABLES reg,      \* t -> [st, b]   st: "idle" | "enc" (encoded, not sent) | "done";  b: the buffer its command refers to
          buf,      \* buffer -> whose record's bytes it holds ("-" none).  Buffers are named after the call that allocated them
          free,     \* pooled buffers that may be handed out again (PooledEncode only)
          store,    \* t -> whose record the shared store holds under key(t) ("-" absent)
          lk,       \* l -> [st, t, val]  st: "idle" | "rcvd";  val: the reply as received
          scratch,  \* the shared reply area (PooledDecode only)
          dev,      \* ghost: deviations that happened: [k |-> "foreignBytes" | "foreignReply", t |-> tunnel]
          hist
vars == <<reg, buf, free, store, lk, scratch, dev, hist>>
view == <<reg, buf, free, store, lk, scratch, dev>>

Init == /\ reg = [t \in Tunnels |-> [st |-> "idle", b |-> "-"]]
        /\ buf = [t \in Tunnels |-> "-"]
        /\ free = {}
        /\ store = [t \in Tunnels |-> "-"]
        /\ lk = [l \in Lookers |-> [st |-> "idle", t |-> "-", val |-> "-"]]
        /\ scratch = "-"
        /\ dev = {}
        /\ hist = <<>>

Log(a, p, t) == /\ hist' = Append(hist, [a |-> a, p |-> p, t |-> t])
                /\ (IF Emit THEN PrintT("BEH " \o ToJson(hist')) ELSE TRUE)

Enc(t) ==
  /\ reg[t].st = "idle"
  /\ \E b \in (IF PooledEncode THEN free \cup {t} ELSE {t}) :
       /\ buf' = [buf EXCEPT ![b] = t]
       /\ reg' = [reg EXCEPT ![t] = [st |-> "enc", b |-> b]]
       /\ free' = IF PooledEncode THEN free \cup {b} ELSE free      \* deferred Put: back in the pool when the helper returns
  /\ UNCHANGED <<store, lk, scratch, dev>>
  /\ Log("Enc", "-", t)

Send(t) ==
  /\ reg[t].st = "enc"
  /\ store' = [store EXCEPT ![t] = buf[reg[t].b]]
  /\ reg' = [reg EXCEPT ![t].st = "done"]
  /\ dev' = IF buf[reg[t].b] # t THEN dev \cup {[k |-> "foreignBytes", t |-> t]} ELSE dev
  /\ UNCHANGED <<buf, free, lk, scratch>>
  /\ Log("Send", "-", t)

LkRecv(l, t) ==
  /\ lk[l].st = "idle" /\ reg[t].st = "done"
  /\ lk' = [lk EXCEPT ![l] = [st |-> "rcvd", t |-> t, val |-> store[t]]]
  /\ scratch' = IF PooledDecode THEN store[t] ELSE scratch
  /\ UNCHANGED <<reg, buf, free, store, dev>>
  /\ Log("LkRecv", l, t)

LkRes(l) == IF PooledDecode THEN scratch ELSE lk[l].val
LkDec(l) ==
  /\ lk[l].st = "rcvd"
  /\ dev' = IF LkRes(l) # store[lk[l].t] THEN dev \cup {[k |-> "foreignReply", t |-> lk[l].t]} ELSE dev
  /\ lk' = [lk EXCEPT ![l] = [st |-> "idle", t |-> "-", val |-> "-"]]
  /\ UNCHANGED <<reg, buf, free, store, scratch>>
  /\ Log("LkDec", l, lk[l].t)

Next == \/ \E t \in Tunnels : Enc(t) \/ Send(t)
        \/ \E l \in Lookers : LkDec(l) \/ \E t \in Tunnels : LkRecv(l, t)
Spec == Init /\ [][Next]_vars
Bounded == Len(hist) <= MaxHist

\* ---- the property ---------------------------------------------------------------------------
StoredOwn == \A t \in Tunnels : store[t] \in {"-", t}
\* every lookup of a waiting tunnel is about to return that tunnel's record
LookupOwn == /\ \A l \in Lookers : lk[l].st = "rcvd" => LkRes(l) = lk[l].t
             /\ \A d \in dev : d.k # "foreignReply"
\* a registered tunnel resolves (the record is there once its registration returned)
Registered == \A t \in Tunnels : reg[t].st = "done" => store[t] # "-"
NoDev == dev = {}

TypeOK == /\ \A t \in Tunnels : reg[t].st \in {"idle", "enc", "done"} /\ buf[t] \in Tunnels \cup {"-"} /\ store[t] \in Tunnels \cup {"-"}
          /\ free \subseteq Tunnels
=============================================================================
