\* C05 named deviation (seeded C05-r3m2 and its neighbours): one exit of ReadPacket / ReadExact / ReadAvailable returns
\* without unlocking readLock.  TLC must report LockFree / NeverBlocked violated: the NEXT call on the connection
\* blocks for ever.  EXIT = one of eof hb lenErr oversize bodyErr enc gzErr jsonErr ok exactEof
CONSTANTS
  MaxFrames = 2
  MaxConns = 1
  NThreads = 2
  RelSites = {}
  LeakAt = {"@@EXIT@@"}
  KeepAt = {}
  Answers = {"refused"}
  Emit = FALSE
SPECIFICATION Spec
INVARIANTS TypeOK @@INV@@
CHECK_DEADLOCK FALSE
