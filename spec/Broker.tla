------------------------------- MODULE Broker -------------------------------
(* X01 (extension) - implementation-shaped model of internal/broker: the MessageBroker used for  *)
(* cross-node notifications, in its two implementations.                                          *)
(*                                                                                              *)
(* Code mapped (internal/broker/memory_broker.go, redis_broker.go):                              *)
(*   Subscribe(t)    one critical section under mu.  memory: a NEW channel (capacity 100) is       *)
(*                   appended to subscribers[t] - several subscribers per topic.  redis: at most    *)
(*                   one local channel per topic ("already subscribed" otherwise); SUBSCRIBE is     *)
(*                   sent on the shared PubSub connection; the receive loop is started "on the      *)
(*                   first subscription" - as the code stands whenever the map has exactly one      *)
(*                   entry afterwards, i.e. AGAIN after Subscribe, Unsubscribe, Subscribe            *)
(*                   (deviation multiLoop; repair "loop1": started once).                            *)
(*   Unsubscribe(t)  one critical section: closes EVERY channel of the topic and deletes the        *)
(*                   topic; an error when the topic has no subscriber.                               *)
(*   Publish(t)      memory: under the read lock, a non-blocking send to every subscriber channel    *)
(*                   of the topic, in list order; a full channel is skipped (the message is dropped  *)
(*                   for that subscriber only), Publish still answers nil.  redis: PUBLISH on the    *)
(*                   client connection; the server pushes the message on the PubSub connection       *)
(*                   (`wire`) when the connection is subscribed to the topic at that moment.         *)
(*   Take(l)         redis receive loop l: ReceiveMessage returned the next pushed message.          *)
(*   Dispatch(l)     repaired code ("lockedSend"): look the topic's channel up and do the            *)
(*                   non-blocking send under the read lock (one critical section).                    *)
(*   Lookup(l), Send(l)   the code as it stands: the channel is looked up under the read lock, the    *)
(*                   lock is released, THEN the send happens - on a channel Unsubscribe may have      *)
(*                   closed meanwhile: "send on closed channel" kills the process (deviation          *)
(*                   sendOnClosed).                                                                    *)
(*   Close           memory: one critical section (closed, every channel closed, map emptied).         *)
(*   CloseBegin / CloseEnd   redis: closed := TRUE and PubSub.Close under the lock; then the context    *)
(*                   is cancelled and Close WAITS for the receive loops; only then are the channels     *)
(*                   closed (second critical section).  Calls in between answer "closed".               *)
(*   CloseAgain, Ping                                                                                   *)
(*   Recv(c)         the consumer takes one message from channel c (makes room).                        *)
(* Sync = TRUE merges Publish with the loop's Take+Dispatch: what a caller sees who waits for            *)
(* quiescence after every call (sequential replay without scheduling the loop).                          *)
(*                                                                                              *)
(* One model message stands for a BATCH of 100/Cap real messages in the driver, so that the model's       *)
(* "buffer full" (Cap batches) is the code's hard-wired capacity of 100.                                  *)
(*                                                                                              *)
(* Ghosts: rcvd (what the consumer took), should (messages published on the topic while the channel       *)
(* was subscribed), fulldrop (those skipped because the channel was full), frozen (content at closure),   *)
(* dev (deviations of the code), crashed.                                                                  *)
EXTENDS Naturals, Sequences, FiniteSets, TLC, Json

CONSTANTS Kind,      \* "memory" | "redis"
          Topics, Cap, MaxSub, MaxMsg,
          Sync,      \* redis: delivery is part of Publish (quiescent observer)
          Fixed,     \* redis repairs present in the code: subset of {"loop1", "lockedSend"}
          MaxLoops,  \* receive-loop goroutines modelled
          Acts,      \* action alphabet
          EmitActs, MaxHist

VARIABLES st, subs, ch, nsub, nmsg, mtopic, wire, loops, started,
          rcvd, should, fulldrop, frozen, dev, crashed, hist
vars == <<st, subs, ch, nsub, nmsg, mtopic, wire, loops, started, rcvd, should, fulldrop, frozen, dev, crashed, hist>>
view == <<st, subs, ch, nsub, nmsg, mtopic, wire, loops, started, rcvd, should, fulldrop, frozen, dev, crashed>>

Chans == 1..MaxSub
Msgs  == 1..MaxMsg
Loops == 1..MaxLoops
NoCh   == [s |-> "none", t |-> "-", buf |-> <<>>]
NoLoop == [pc |-> "off", m |-> 0, c |-> 0]

Init == /\ st = "open" /\ subs = [t \in Topics |-> <<>>] /\ ch = [c \in Chans |-> NoCh]
        /\ nsub = 0 /\ nmsg = 0 /\ mtopic = [m \in Msgs |-> "-"] /\ wire = <<>>
        /\ loops = [l \in Loops |-> NoLoop] /\ started = FALSE
        /\ rcvd = [c \in Chans |-> <<>>] /\ should = [c \in Chans |-> <<>>]
        /\ fulldrop = [c \in Chans |-> {}] /\ frozen = [c \in Chans |-> <<>>]
        /\ dev = {} /\ crashed = FALSE /\ hist = <<>>

Range(s) == {s[i] : i \in 1..Len(s)}
Lens(chx) == [c \in Chans |-> Len(chx[c].buf)]
Sts(chx)  == [c \in Chans |-> chx[c].s]
\* every history entry carries what an observer sees afterwards: buffer length and state per channel
\* MaxHist = 0: exhaustive checking, no history kept
Log(e, chx) == hist' = IF MaxHist = 0 THEN hist ELSE Append(hist, e @@ [lens |-> Lens(chx), sts |-> Sts(chx)])
Got(c) == rcvd[c] \o ch[c].buf
Increasing(s) == \A i, j \in 1..Len(s) : i < j => s[i] < s[j]
Ordered == \A c \in 1..MaxSub : Increasing(Got(c))
Cfg == [kind |-> Kind, cap |-> Cap, sync |-> Sync, fixed |-> Fixed]
Out == IF EmitActs = {} THEN TRUE
       ELSE IF \/ hist'[Len(hist')].a \in EmitActs
               \/ ("dev" \in EmitActs /\ (dev' # dev \/ crashed' # crashed \/ (Ordered /\ (~Ordered)')))
               \/ ("end" \in EmitActs /\ Len(hist') = MaxHist)
            THEN PrintT("BEH " \o ToJson([c |-> Cfg, s |-> hist']))
            ELSE TRUE

Alive == ~crashed
NSubscribed(sb) == Cardinality({t \in Topics : sb[t] # <<>>})

\* non-blocking send of message m to channel c: delivered, or skipped when full
SendTo(chx, c, m) == IF Len(chx[c].buf) < Cap THEN [chx EXCEPT ![c].buf = Append(@, m)] ELSE chx
RECURSIVE SendAll(_, _, _)
SendAll(chx, cs, m) == IF cs = <<>> THEN chx ELSE SendAll(SendTo(chx, Head(cs), m), Tail(cs), m)
Dropped(chx, cs) == {c \in Range(cs) : Len(chx[c].buf) >= Cap}

CloseChans(chx, cs) == [c \in Chans |-> IF c \in cs THEN [chx[c] EXCEPT !.s = "closed"] ELSE chx[c]]
Freeze(cs) == frozen' = [c \in Chans |-> IF c \in cs THEN rcvd[c] \o ch[c].buf ELSE frozen[c]]

\* ---- Subscribe -------------------------------------------------------------------------------
SubOk(t) ==
  /\ "Sub" \in Acts /\ Alive /\ st = "open" /\ nsub < MaxSub
  /\ Kind = "redis" => subs[t] = <<>>
  /\ LET c == nsub + 1
         sb == [subs EXCEPT ![t] = Append(@, c)]
         chx == [ch EXCEPT ![c] = [s |-> "open", t |-> t, buf |-> <<>>]]
         startLoop == Kind = "redis" /\ ~Sync /\
                      (IF "loop1" \in Fixed THEN ~started ELSE NSubscribed(sb) = 1)
         free == {l \in Loops : loops[l].pc = "off"}
     IN /\ startLoop => free # {}
        /\ nsub' = c /\ subs' = sb /\ ch' = chx
        /\ loops' = IF startLoop THEN [loops EXCEPT ![CHOOSE l \in free : \A k \in free : l <= k] = [pc |-> "idle", m |-> 0, c |-> 0]]
                    ELSE loops
        /\ started' = (started \/ startLoop)
        /\ dev' = IF startLoop /\ started THEN dev \cup {"multiLoop"} ELSE dev
        /\ Log([a |-> "Sub", t |-> t, c |-> c, res |-> "ok"], chx)
  /\ UNCHANGED <<st, nmsg, mtopic, wire, rcvd, should, fulldrop, frozen, crashed>>

SubFail(t) ==
  /\ "Sub" \in Acts /\ Alive
  /\ \/ st # "open"
     \/ Kind = "redis" /\ subs[t] # <<>>
  /\ Log([a |-> "Sub", t |-> t, c |-> 0, res |-> IF st # "open" THEN "closed" ELSE "exists"], ch)
  /\ UNCHANGED <<st, subs, ch, nsub, nmsg, mtopic, wire, loops, started, rcvd, should, fulldrop, frozen, dev, crashed>>

\* ---- Unsubscribe -----------------------------------------------------------------------------
Unsub(t) ==
  /\ "Unsub" \in Acts /\ Alive
  /\ IF st = "open" /\ subs[t] # <<>>
     THEN /\ ch' = CloseChans(ch, Range(subs[t])) /\ Freeze(Range(subs[t]))
          /\ subs' = [subs EXCEPT ![t] = <<>>]
          /\ Log([a |-> "Unsub", t |-> t, res |-> "ok"], CloseChans(ch, Range(subs[t])))
     ELSE /\ Log([a |-> "Unsub", t |-> t, res |-> IF st # "open" THEN "closed" ELSE "nosub"], ch)
          /\ UNCHANGED <<ch, subs, frozen>>
  /\ UNCHANGED <<st, nsub, nmsg, mtopic, wire, loops, started, rcvd, should, fulldrop, dev, crashed>>

\* ---- Publish ---------------------------------------------------------------------------------
Deliver(t, m) ==   \* the (non-blocking) sends of one message to the topic's current channels
  /\ ch' = SendAll(ch, subs[t], m)
  /\ fulldrop' = [c \in Chans |-> IF c \in Dropped(ch, subs[t]) THEN fulldrop[c] \cup {m} ELSE fulldrop[c]]

Pub(t) ==
  /\ "Pub" \in Acts /\ Alive
  /\ IF st = "open"
     THEN /\ nmsg < MaxMsg
          /\ LET m == nmsg + 1 IN
             /\ nmsg' = m /\ mtopic' = [mtopic EXCEPT ![m] = t]
             /\ should' = [c \in Chans |-> IF c \in Range(subs[t]) THEN Append(should[c], m) ELSE should[c]]
             /\ IF Kind = "memory" \/ Sync
                THEN /\ Deliver(t, m) /\ UNCHANGED wire
                     /\ Log([a |-> "Pub", t |-> t, m |-> m, res |-> "ok"], SendAll(ch, subs[t], m))
                ELSE /\ wire' = IF subs[t] # <<>> THEN Append(wire, m) ELSE wire
                     /\ UNCHANGED <<ch, fulldrop>>
                     /\ Log([a |-> "Pub", t |-> t, m |-> m, res |-> "ok", routed |-> subs[t] # <<>>], ch)
     ELSE /\ Log([a |-> "Pub", t |-> t, m |-> 0, res |-> "closed"], ch)
          /\ UNCHANGED <<nmsg, mtopic, should, ch, fulldrop, wire>>
  /\ UNCHANGED <<st, subs, nsub, loops, started, rcvd, frozen, dev, crashed>>

\* ---- redis receive loop ----------------------------------------------------------------------
Take(l) ==
  /\ "Loop" \in Acts /\ Alive /\ loops[l].pc = "idle" /\ wire # <<>>
  /\ loops' = [loops EXCEPT ![l] = [pc |-> "got", m |-> Head(wire), c |-> 0]]
  /\ wire' = Tail(wire)
  /\ Log([a |-> "Take", l |-> l, m |-> Head(wire)], ch)
  /\ UNCHANGED <<st, subs, ch, nsub, nmsg, mtopic, started, rcvd, should, fulldrop, frozen, dev, crashed>>

CurSub(t) == IF subs[t] = <<>> THEN 0 ELSE subs[t][1]

Dispatch(l) ==   \* repaired: look-up and send in one critical section
  /\ "Loop" \in Acts /\ Alive /\ "lockedSend" \in Fixed /\ loops[l].pc = "got"
  /\ LET m == loops[l].m  t == mtopic[m] IN
     IF st # "open"
     THEN /\ loops' = [loops EXCEPT ![l] = [pc |-> "dead", m |-> 0, c |-> 0]]
          /\ Log([a |-> "Dispatch", l |-> l, m |-> m, to |-> 0, exit |-> TRUE], ch)
          /\ UNCHANGED <<ch, fulldrop>>
     ELSE /\ loops' = [loops EXCEPT ![l] = [pc |-> "idle", m |-> 0, c |-> 0]]
          /\ Deliver(t, m)
          /\ Log([a |-> "Dispatch", l |-> l, m |-> m, to |-> CurSub(t), exit |-> FALSE], SendAll(ch, subs[t], m))
  /\ UNCHANGED <<st, subs, nsub, nmsg, mtopic, wire, started, rcvd, should, frozen, dev, crashed>>

Lookup(l) ==   \* as the code stands: channel read under the read lock ...
  /\ "Loop" \in Acts /\ Alive /\ "lockedSend" \notin Fixed /\ loops[l].pc = "got"
  /\ LET m == loops[l].m  c == CurSub(mtopic[m]) IN
     /\ loops' = [loops EXCEPT ![l] = IF st # "open" THEN [pc |-> "dead", m |-> 0, c |-> 0]
                                      ELSE IF c = 0 THEN [pc |-> "idle", m |-> 0, c |-> 0]
                                      ELSE [pc |-> "send", m |-> m, c |-> c]]
     /\ Log([a |-> "Lookup", l |-> l, m |-> m, to |-> IF st # "open" THEN 0 ELSE c, exit |-> st # "open"], ch)
  /\ UNCHANGED <<st, subs, ch, nsub, nmsg, mtopic, wire, started, rcvd, should, fulldrop, frozen, dev, crashed>>

Send(l) ==     \* ... and the send after the lock was released
  /\ "Loop" \in Acts /\ Alive /\ loops[l].pc = "send"
  /\ LET m == loops[l].m  c == loops[l].c IN
     IF ch[c].s = "closed"
     THEN /\ crashed' = TRUE /\ dev' = dev \cup {"sendOnClosed"}
          /\ loops' = [loops EXCEPT ![l] = [pc |-> "dead", m |-> 0, c |-> 0]]
          /\ Log([a |-> "Send", l |-> l, m |-> m, to |-> c, panic |-> TRUE], ch)
          /\ UNCHANGED <<ch, fulldrop>>
     ELSE /\ ch' = SendTo(ch, c, m)
          /\ fulldrop' = IF Len(ch[c].buf) >= Cap THEN [fulldrop EXCEPT ![c] = @ \cup {m}] ELSE fulldrop
          /\ loops' = [loops EXCEPT ![l] = [pc |-> IF st = "open" THEN "idle" ELSE "dead", m |-> 0, c |-> 0]]
          /\ Log([a |-> "Send", l |-> l, m |-> m, to |-> c, panic |-> FALSE], SendTo(ch, c, m))
          /\ UNCHANGED <<crashed, dev>>
  /\ UNCHANGED <<st, subs, nsub, nmsg, mtopic, wire, started, rcvd, should, frozen>>

\* ---- Close -----------------------------------------------------------------------------------
OpenChans == {c \in Chans : ch[c].s = "open"}

Close ==       \* memory (and the quiescent view of redis): one step
  /\ "Close" \in Acts /\ Alive /\ st = "open" /\ (Kind = "memory" \/ Sync)
  /\ st' = "closed" /\ ch' = CloseChans(ch, OpenChans) /\ Freeze(OpenChans)
  /\ subs' = [t \in Topics |-> <<>>]
  /\ Log([a |-> "Close", res |-> "ok"], CloseChans(ch, OpenChans))
  /\ UNCHANGED <<nsub, nmsg, mtopic, wire, loops, started, rcvd, should, fulldrop, dev, crashed>>

CloseBegin ==
  /\ "Close" \in Acts /\ Alive /\ st = "open" /\ Kind = "redis" /\ ~Sync
  /\ st' = "closing"
  /\ loops' = [l \in Loops |-> IF loops[l].pc = "idle" THEN [pc |-> "dead", m |-> 0, c |-> 0] ELSE loops[l]]
  /\ Log([a |-> "CloseBegin"], ch)
  /\ UNCHANGED <<subs, ch, nsub, nmsg, mtopic, wire, started, rcvd, should, fulldrop, frozen, dev, crashed>>

CloseEnd ==
  /\ "Close" \in Acts /\ Alive /\ st = "closing" /\ \A l \in Loops : loops[l].pc \in {"off", "dead"}
  /\ st' = "closed" /\ ch' = CloseChans(ch, OpenChans) /\ Freeze(OpenChans)
  /\ subs' = [t \in Topics |-> <<>>]
  /\ Log([a |-> "CloseEnd", res |-> "ok"], CloseChans(ch, OpenChans))
  /\ UNCHANGED <<nsub, nmsg, mtopic, wire, loops, started, rcvd, should, fulldrop, dev, crashed>>

CloseAgain ==
  /\ "Close" \in Acts /\ Alive /\ st = "closed"
  /\ Log([a |-> "Close", res |-> "ok"], ch)
  /\ UNCHANGED <<st, subs, ch, nsub, nmsg, mtopic, wire, loops, started, rcvd, should, fulldrop, frozen, dev, crashed>>

Ping ==
  /\ "Ping" \in Acts /\ Alive
  /\ Log([a |-> "Ping", res |-> IF st = "open" THEN "ok" ELSE "closed"], ch)
  /\ UNCHANGED <<st, subs, ch, nsub, nmsg, mtopic, wire, loops, started, rcvd, should, fulldrop, frozen, dev, crashed>>

\* ---- consumer --------------------------------------------------------------------------------
Recv(c) ==
  /\ "Recv" \in Acts /\ Alive /\ ch[c].s # "none" /\ ch[c].buf # <<>>
  /\ rcvd' = [rcvd EXCEPT ![c] = Append(@, Head(ch[c].buf))]
  /\ ch' = [ch EXCEPT ![c].buf = Tail(@)]
  /\ Log([a |-> "Recv", c |-> c, m |-> Head(ch[c].buf)], [ch EXCEPT ![c].buf = Tail(@)])
  /\ UNCHANGED <<st, subs, nsub, nmsg, mtopic, wire, loops, started, should, fulldrop, frozen, dev, crashed>>

\* A receive loop blocked in ReceiveMessage takes a pushed message at once (it is not the scheduler's
\* choice when): Take has priority over everything else.
Eager == \E l \in Loops : loops[l].pc = "idle" /\ wire # <<>>
Step == IF Eager THEN \E l \in Loops : Take(l)
        ELSE \/ \E t \in Topics : SubOk(t) \/ SubFail(t) \/ Unsub(t) \/ Pub(t)
             \/ \E l \in Loops : Dispatch(l) \/ Lookup(l) \/ Send(l)
             \/ \E c \in Chans : Recv(c)
             \/ Close \/ CloseBegin \/ CloseEnd \/ CloseAgain \/ Ping
Next == (MaxHist = 0 \/ Len(hist) < MaxHist) /\ Step /\ Out
Fair == /\ \A l \in Loops : WF_vars(Take(l)) /\ WF_vars(Dispatch(l)) /\ WF_vars(Lookup(l)) /\ WF_vars(Send(l))
        /\ WF_vars(CloseEnd)
Spec == Init /\ [][Next]_vars
FairSpec == Spec /\ Fair

\* ---- properties ------------------------------------------------------------------------------
TypeOK == /\ st \in {"open", "closing", "closed"} /\ nsub \in 0..MaxSub /\ nmsg \in 0..MaxMsg
          /\ \A c \in Chans : ch[c].s \in {"none", "open", "closed"} /\ Len(ch[c].buf) <= Cap
          /\ \A l \in Loops : loops[l].pc \in {"off", "idle", "got", "send", "dead"}


\* the subscriber lists and the channel states agree; redis keeps one local channel per topic
SubsConsistent == /\ \A t \in Topics : \A i \in 1..Len(subs[t]) : ch[subs[t][i]].s = "open" /\ ch[subs[t][i]].t = t
                  /\ \A c \in Chans : ch[c].s = "open" => Cardinality({i \in 1..Len(subs[ch[c].t]) : subs[ch[c].t][i] = c}) = 1
                  /\ Kind = "redis" => \A t \in Topics : Len(subs[t]) <= 1
\* only messages of the channel's own topic
TopicIsolation == \A c \in Chans : \A m \in Range(Got(c)) : mtopic[m] = ch[c].t
\* publish order per topic per subscriber, nothing twice (message ids grow with publish order)
OrderKept == Ordered
\* a closed channel never changes again: nothing is delivered after Unsubscribe / Close returned
ClosedIsFinal == \A c \in Chans : ch[c].s = "closed" => Got(c) = frozen[c]
\* nobody ever sends on (or closes) a closed channel
NoPanic == ~crashed
\* after Close: every channel closed, no subscriptions
CloseClosesAll == st = "closed" => /\ \A c \in Chans : ch[c].s # "open"
                                   /\ \A t \in Topics : subs[t] = <<>>
\* delivery: once nothing is in flight (and Close has not begun), an OPEN channel holds/has yielded every message published on
\* its topic while it was subscribed, except those skipped because it was full at that moment
Quiet == wire = <<>> /\ \A l \in Loops : loops[l].pc \in {"off", "idle", "dead"}
Delivered == (Quiet /\ st = "open") => \A c \in Chans : ch[c].s = "open" =>
                         \A m \in Range(should[c]) : m \in Range(Got(c)) \/ m \in fulldrop[c]
\* the memory broker delivers inside Publish: exact content at every moment
DeliveredNow == (Kind = "memory" \/ Sync) => \A c \in Chans : ch[c].s # "none" =>
                   Got(c) = SelectSeq(should[c], LAMBDA m : m \notin fulldrop[c])
\* repaired redis broker: one receive loop
OneLoop == Cardinality({l \in Loops : loops[l].pc \notin {"off"}}) <= 1

\* as-is configurations: a violation is excused only by a listed deviation
NoPanicOrKnown   == NoPanic \/ "sendOnClosed" \in dev
OrderKeptOrKnown == OrderKept \/ "multiLoop" \in dev
OneLoopOrKnown   == OneLoop \/ "multiLoop" \in dev

\* liveness (redis, fair loops): Close terminates; everything pushed by the server is dispatched
CloseTerminates == (st = "closing") ~> (st = "closed" \/ crashed)
Drains == []<>(wire = <<>> \/ crashed \/ \A l \in Loops : loops[l].pc \in {"off", "dead"})
=============================================================================
