\* X05 demonstration, EXPECTED TO FAIL: the code as found (Fixed = FALSE) against the strict property - TLC prints the schedule.
\* LostReconnect: the connection the loop has just established is dropped before the loop has released the reconnecting flag (NoLostReconnect; liveness: Recovers)
CONSTANTS
  Users = {"u1", "u2"}
  MaxConn = 3
  Scenes <- LostScenes
  RejKinds = {"other"}
  MaxAttempts = 0
  Fixed = FALSE
  Emit = FALSE
SPECIFICATION Spec
VIEW view
INVARIANTS TypeOK NoLostReconnect

CHECK_DEADLOCK FALSE
