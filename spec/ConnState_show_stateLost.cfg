\* C08 documentation cfg (not run by the check): tlc -config ConnState_show_stateLost.cfg ConnState.tla
\* The tree as it is (C08-1..4): ServerAuthHandler calls ConnectClient when the credential check passes, before the response is written - an undeliverable handshake moves the cloud-control client runtime state away from the client's live connection (deviation stateMovedByLost); heartbeats only touch it. Open finding.
\* Expected: Invariant StateLive is violated.
CONSTANTS
  Nodes = {"A", "B"}
  NConns = 2
  Clients = {"X"}
  TTL = 2
  MaxClock = 1000
  MaxHist = 99
  Shapes = {"str"}
  CasSet = {FALSE}
  FixSets = {{"ptrShape", "condIdxDelete", "hbRefresh", "successOnly"}}
  Causes = {"peer"}
  KeepCreatedAt = FALSE
  UseRequestId = FALSE
  IdxRenew = "checkSet"
  RecRenew = "set"
  Lookups = FALSE
  WritingLookup = FALSE
  InFlight = FALSE
  ClientState = TRUE
  Emit = FALSE
  Only = "all"
INIT Init
NEXT Next
VIEW view
INVARIANTS TypeOK FindLive FindClosed StateLive
CHECK_DEADLOCK FALSE
