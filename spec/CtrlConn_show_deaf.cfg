\* X05 demonstration, EXPECTED TO FAIL: the code as found (Fixed = FALSE) against the strict property - TLC prints the schedule.
\* SkippedReadLoop: Connect finds readLoopRunning still set and starts no read loop; the old loop then goes away (Served; the deviation itself: NoSkippedReadLoop)
CONSTANTS
  Users = {"u1", "u2"}
  MaxConn = 3
  Scenes <- McQuick
  RejKinds = {"other"}
  MaxAttempts = 0
  Fixed = FALSE
  Emit = FALSE
SPECIFICATION Spec
VIEW view
INVARIANTS TypeOK NoSkippedReadLoop

CHECK_DEADLOCK FALSE
