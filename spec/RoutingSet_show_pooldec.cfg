\* Documentation only (not run by the check; verified by hand): the design whose lookups
\* leave the reply in a scratch area shared by the lookups of the process until it is decoded.
\* TLC reports LookupOwn violated: LkRecv(l1,t1), LkRecv(l2,t2), LkDec(l1) returns t2's record.
CONSTANTS
  Tunnels = {"t1", "t2"}
  Lookers = {"l1", "l2"}
  PooledEncode = FALSE
  PooledDecode = TRUE
  MaxHist = 99
  Emit = FALSE
INIT Init
NEXT Next
VIEW view
INVARIANTS TypeOK LookupOwn
CHECK_DEADLOCK FALSE
