\* C18 / BruteForceLists, both deviations (variant "norecheck+stunlocked" - the shape of seeded change C18-r5m2): the pass
\* collects under the read lock, then per key: Lock, delete (no second look), Unlock, storage removal outside the lock.
\* EXPECTED TO FAIL:
\*   tlc -config BruteForceLists_show_r5m2.cfg BruteForceLists.tla         ->  Invariant MemKeeps is violated (7 steps):
\*   a, b expired ; CStart collects <<a, b>>, deletes a, unlocks, stands before Delete(a) ; Call(1, BlkP, b) + Set(b) +
\*   Append(b): AddToBlacklist(b, permanent) returns nil while the pass is busy with a's storage round trip ; St Delete(a) ;
\*   St Remove(a) and on to the next key: Lock, delete(b) - the fresh permanent entry - Unlock.  The following Delete(b) /
\*   Remove(b) take it out of storage as well (StoreKeeps), Query(b) = allowed before and after a restart (BlacklistHolds).
CONSTANTS
  Addrs = {"a", "b"}
  NetOf = {}
  Ops = {1, 2}
  InitKinds = {"none", "exp", "perm"}
  OpKinds = {"BlkP", "Blk", "MUnbl"}
  Variants = {"norecheck+stunlocked"}
  MaxPass = 1
  MaxCalls = 2
  MaxEpoch = 1
  MaxExp = 2
  MaxWait = 1
  Acts = {"Query", "Reload"}
  Emit = {}
INIT Init
NEXT Next
VIEW view
INVARIANTS TypeOK LockOK MemKeeps BlacklistHolds
CHECK_DEADLOCK FALSE
