----------------------------- MODULE CrossFrame -----------------------------
(* C10 - implementation-shaped model of the cross-node frame protocol of tunnox-core          *)
(* (internal/protocol/session/crossnode: frame.go, stream.go) and behaviour generator.        *)
(*                                                                                            *)
(* One TCP connection (`wire`, FIFO of frames) carries                                         *)
(*   - the frames of OUR tunnel written by FrameStream.Write / CloseWrite / Close,             *)
(*   - frames injected by other users of the same connection: data / EOF frames of a FOREIGN   *)
(*     tunnel, and frames of our tunnel with a type the stream does not know.                  *)
(* FrameStream.Read on the peer filters by tunnel id and frame type and hands payload bytes    *)
(* to a caller whose read buffer has size class rsz.                                           *)
(*                                                                                            *)
(* Bytes are abstract: our stream is the counter stream 0,1,2,...; a data frame of ours is     *)
(* [off, len].  MAX is the (scaled-down) frame payload limit; the driver maps size classes to  *)
(* the real MaxFrameSize.                                                                      *)
(*                                                                                            *)
(* Tunnel ids are pairs <<prefix16, rest>>.  The code copies only the first 16 bytes of the id *)
(* string into the header (TunnelIDFromString truncates / zero-pads), and Read compares header *)
(* fields: Hdr(id) = id[1].  Two ids with the same prefix16 and a different rest are DISTINCT  *)
(* tunnels in this specification but indistinguishable to the code.  What the code then does   *)
(* is modelled by the named deviation actions DevReadCollidingData / DevReadCollidingEnd.      *)
EXTENDS Naturals, Sequences, FiniteSets, TLC, Json

CONSTANTS MAX,        \* frame payload limit (model scale, >= 3)
          MaxWrites,  \* bound on Write calls of a script
          MaxInj,     \* bound on injected foreign / unknown frames
          InjKinds,   \* injected frame kinds explored: subset of AllInjKinds
          RSizes,     \* caller read-buffer size classes explored: subset of {"one","small","big"}
          Concurrent, \* TRUE: other tunnels' writers run in parallel with ours on the connection, so their
                      \*       frames may land between the frames of one Write (not only between Write calls)
          AtomicFrames, \* TRUE (the code as it is): WriteFrame puts header+payload on the connection in one
                      \*       step (single writev under the fd write lock); FALSE enables DevTornWriteFrame
          LimitOnlyOnReaderPath, \* FALSE (the code as it is): there is ONE decoder, ReadFrameFromReader, and every
                      \*       entry point that reads frames ends in it; TRUE = named deviation: ReadFrame on a
                      \*       *net.TCPConn has an implementation of its own and the length check lives only in
                      \*       ReadFrameFromReader
          Gen,        \* TRUE: generation mode (scripts only, history kept); FALSE: exhaustive check
          Emit        \* TRUE: print behaviours

VARIABLES wn, ni, wOff, wpend, wst, fin,      \* writer side (script progress, FrameStream.writeEOF)
          wReq,                               \* ghost: bytes handed to Write while the stream was open
          wire,                               \* frames in flight on the connection
          rsz, rbuf, roff, rEOF, dOff,        \* reader side (FrameStream.readBuf/readOff/readEOF)
          devOrder, devColData, devColEnd, foreignDelivered,   \* ghosts
          hist                                \* generation only: the writer script so far

vars == <<wn, ni, wOff, wpend, wst, fin, wReq, wire, rsz, rbuf, roff, rEOF, dOff,
          devOrder, devColData, devColEnd, foreignDelivered, hist>>
view == <<wn, ni, wOff, wpend, wst, fin, wReq, wire, rsz, rbuf, roff, rEOF, dOff,
          devOrder, devColData, devColEnd, foreignDelivered>>

\* ---- sizes ------------------------------------------------------------------------------
SizeClasses == {"z", "one", "Mm1", "M", "Mp1", "2Mp1"}
Size(c) == CASE c = "z" -> 0 [] c = "one" -> 1 [] c = "Mm1" -> MAX - 1
             [] c = "M" -> MAX [] c = "Mp1" -> MAX + 1 [] c = "2Mp1" -> 2 * MAX + 1
RSize(r) == CASE r = "one" -> 1 [] r = "small" -> 2 [] r = "big" -> MAX + 1
Min(a, b) == IF a < b THEN a ELSE b

\* ---- tunnel ids -------------------------------------------------------------------------
\* An id is <<head, tail, rest>>: head = the bytes of the 16-byte header field before its first
\* 0x00 byte, tail = the remainder of the 16-byte field (from that NUL on), rest = what the id
\* string has beyond 16 bytes.  Ids need not be printable: binary / UUID-style ids, the all-zero
\* id of the control-plane frames and zero-padded short ids all have a NUL inside the field.
\* The code compares the whole 16-byte field, Hdr(id) = <<head, tail>>: ids that agree only up
\* to their first NUL (DiffNul) are different tunnels for the code as well; ids that agree on
\* all 16 bytes (Same16) are the known collision.
Own     == <<"P", "x", "a">>
Diff    == <<"Q", "x", "a">>     \* differs before any NUL
DiffNul == <<"P", "y", "a">>     \* same up to the first NUL, differs after it inside the 16 bytes
Same16  == <<"P", "x", "b">>     \* same 16 bytes, differs afterwards
Hdr(id) == <<id[1], id[2]>>      \* what frame.go puts on the wire and stream.go compares

\* ---- frames -----------------------------------------------------------------------------
Frame(id, ty, off, len) == [id |-> id, ty |-> ty, off |-> off, len |-> len]
NoBuf == Frame(Own, "none", 0, 0)

\* injected frame kinds: foreign data / foreign EOF (other prefix or colliding prefix), and a
\* frame of our own tunnel with a type FrameStream.Read has no case for
AllInjKinds == {"fd", "fdn", "fds", "fe", "fen", "fes", "unk"}
ASSUME InjKinds \subseteq AllInjKinds
InjFrame(k) == CASE k = "fd"  -> Frame(Diff,   "data", 0, 1)
                 [] k = "fdn" -> Frame(DiffNul, "data", 0, 1)
                 [] k = "fen" -> Frame(DiffNul, "eof",  0, 0)
                 [] k = "fds" -> Frame(Same16, "data", 0, 1)
                 [] k = "fe"  -> Frame(Diff,   "eof",  0, 0)
                 [] k = "fes" -> Frame(Same16, "eof",  0, 0)
                 [] k = "unk" -> Frame(Own,    "unk",  0, 1)

Init == /\ wn = 0 /\ ni = 0 /\ wOff = 0 /\ wpend = 0 /\ wst = "open" /\ fin = FALSE /\ wReq = 0
        /\ wire = <<>>
        /\ rsz \in RSizes
        /\ rbuf = NoBuf /\ roff = 0 /\ rEOF = FALSE /\ dOff = 0
        /\ devOrder = FALSE /\ devColData = FALSE /\ devColEnd = FALSE /\ foreignDelivered = FALSE
        /\ hist = <<>>

H(x) == hist' = IF Gen THEN Append(hist, x) ELSE hist
WriterIdle == ~fin /\ wpend = 0
RUnch == UNCHANGED <<rsz, rbuf, roff, rEOF, dOff, devOrder, devColData, devColEnd, foreignDelivered>>

\* ---- writer: FrameStream.Write ------------------------------------------------------------
\* Write(p): refused with ErrClosedPipe once writeEOF is set; len 0 sends nothing; otherwise the
\* payload leaves as ceil(n/MAX) data frames (one WriteFrame call each).
WriteCall(c) ==
  /\ WriterIdle /\ wn < MaxWrites
  /\ (wst # "open" => c = "one")          \* one representative refused write is enough
  /\ wn' = wn + 1
  /\ IF wst # "open"
     THEN /\ wpend' = 0 /\ wReq' = wReq /\ H([op |-> "write", c |-> c, exp |-> "refused"])
     \* on an open stream there is no refusing branch, whatever the size: <= MAX goes out as one
     \* frame, > MAX is split (WritesAccepted states this as an invariant)
     ELSE /\ wpend' = Size(c) /\ wReq' = wReq + Size(c) /\ H([op |-> "write", c |-> c, exp |-> "ok"])
  /\ UNCHANGED <<ni, wOff, wst, fin, wire>> /\ RUnch

WriteFrameStep ==
  /\ ~fin /\ wpend > 0
  /\ LET n == Min(MAX, wpend)
     IN /\ wire' = Append(wire, Frame(Own, "data", wOff, n))
        /\ wOff' = wOff + n
        /\ wpend' = wpend - n
  /\ UNCHANGED <<wn, ni, wst, fin, wReq, hist>> /\ RUnch

\* CloseWrite / Close: one empty EOF / Close frame, idempotent through writeEOF
EndCall(kind) ==
  /\ WriterIdle
  /\ IF wst = "open"
     THEN wire' = Append(wire, Frame(Own, kind, 0, 0)) /\ wst' = kind
     ELSE UNCHANGED <<wire, wst>>
  /\ Len(SelectSeq(hist, LAMBDA x : x.op \in {"eof", "close"})) < 2   \* at most two end calls per script
  /\ (~Gen => wst = "open")                                            \* a second call is a no-op: not explored
  /\ H([op |-> kind])
  /\ UNCHANGED <<wn, ni, wOff, wpend, fin, wReq>> /\ RUnch

\* another user of the same connection writes a frame (real WriteFrame on the same TCP conn)
Inject(k) ==
  /\ ~fin /\ (wpend = 0 \/ Concurrent) /\ ni < MaxInj
  /\ wst = "open"                          \* after our end-of-stream the reader has stopped reading
  /\ ni' = ni + 1
  /\ wire' = Append(wire, InjFrame(k))
  /\ H([op |-> "inj", k |-> k])
  /\ UNCHANGED <<wn, wOff, wpend, wst, fin, wReq>> /\ RUnch

\* DEVIATION (not in the code as it is): WriteFrame issues header and payload as two writes and a
\* concurrent writer of another tunnel gets in between.  On the wire our header is followed by
\* the other frame's bytes: the peer's decoder takes them for our payload and loses frame sync.
DevTornWriteFrame(k) ==
  /\ ~AtomicFrames /\ Concurrent /\ ~fin /\ wpend > 0 /\ ni < MaxInj /\ k \in {"fd", "fdn", "fds"}
  /\ LET n == Min(MAX, wpend)
     IN /\ wire' = Append(wire, Frame(Own, "torn", wOff, n))
        /\ wOff' = wOff + n
        /\ wpend' = wpend - n
  /\ ni' = ni + 1
  /\ UNCHANGED <<wn, wst, fin, wReq, hist>> /\ RUnch

Out(b) == IF Emit THEN PrintT("BEH " \o ToJson(b)) ELSE TRUE

\* the script ends once the stream was closed or half-closed
Finish ==
  /\ WriterIdle /\ wst # "open"
  /\ fin' = TRUE
  /\ (Gen => Out([kind |-> "stream", rsz |-> rsz, script |-> hist]))
  /\ UNCHANGED <<wn, ni, wOff, wpend, wst, wReq, wire, hist>> /\ RUnch

\* ---- reader: FrameStream.Read --------------------------------------------------------------
\* frames Read drops and keeps looping on: other header id, unknown type, empty data frame
Skippable(f) == Hdr(f.id) # Hdr(Own) \/ f.ty = "unk" \/ (f.ty = "data" /\ f.len = 0)
\* index of the first frame of the wire that makes Read return (0 = none yet: Read blocks)
FirstRel == IF \E i \in 1..Len(wire) : ~Skippable(wire[i])
            THEN CHOOSE i \in 1..Len(wire) : ~Skippable(wire[i]) /\ \A j \in 1..(i - 1) : Skippable(wire[j])
            ELSE 0
BufHasData == rbuf.ty = "data" /\ roff < rbuf.len

\* hand n bytes of frame f starting at byte o of its payload to the caller
Deliver(f, o, n) ==
  IF f.id = Own
  THEN /\ dOff' = dOff + n
       /\ devOrder' = (devOrder \/ f.off + o # dOff)
       /\ UNCHANGED <<foreignDelivered>>
  ELSE /\ foreignDelivered' = TRUE
       /\ UNCHANGED <<dOff, devOrder>>

WUnch == UNCHANGED <<wn, ni, wOff, wpend, wst, fin, wReq, hist, rsz>>

ReadFromBuf ==
  /\ ~Gen /\ ~rEOF /\ BufHasData
  /\ LET n == Min(RSize(rsz), rbuf.len - roff)
     IN /\ Deliver(rbuf, roff, n)
        /\ IF roff + n >= rbuf.len THEN rbuf' = NoBuf /\ roff' = 0
                                   ELSE rbuf' = rbuf /\ roff' = roff + n
  /\ UNCHANGED <<wire, rEOF, devColData, devColEnd>> /\ WUnch

ReadFrameData(i) ==
  LET f == wire[i]
      n == Min(RSize(rsz), f.len)
  IN /\ Deliver(f, 0, n)
     /\ IF n >= f.len THEN rbuf' = NoBuf /\ roff' = 0 ELSE rbuf' = f /\ roff' = n
     /\ wire' = SubSeq(wire, i + 1, Len(wire))
     /\ UNCHANGED <<rEOF>>

ReadOwnData ==
  /\ ~Gen /\ ~rEOF /\ ~BufHasData /\ FirstRel > 0
  /\ wire[FirstRel].ty = "data" /\ wire[FirstRel].id = Own
  /\ ReadFrameData(FirstRel)
  /\ UNCHANGED <<devColData, devColEnd>> /\ WUnch

ReadOwnEnd ==
  /\ ~Gen /\ ~rEOF /\ ~BufHasData /\ FirstRel > 0
  /\ wire[FirstRel].ty \in {"eof", "close"} /\ wire[FirstRel].id = Own
  /\ rEOF' = TRUE
  /\ wire' = SubSeq(wire, FirstRel + 1, Len(wire))
  /\ UNCHANGED <<rbuf, roff, dOff, devOrder, foreignDelivered, devColData, devColEnd>> /\ WUnch

\* DEVIATION (DESIGN.md 6 row 7): a data frame of a different tunnel whose id shares the first
\* 16 bytes passes the header comparison and its payload is handed to our caller
DevReadCollidingData ==
  /\ ~Gen /\ ~rEOF /\ ~BufHasData /\ FirstRel > 0
  /\ wire[FirstRel].ty = "data" /\ wire[FirstRel].id # Own
  /\ ReadFrameData(FirstRel)
  /\ devColData' = TRUE
  /\ UNCHANGED <<devColEnd>> /\ WUnch

\* DEVIATION: likewise an EOF / Close frame of the colliding tunnel ends our stream early
DevReadCollidingEnd ==
  /\ ~Gen /\ ~rEOF /\ ~BufHasData /\ FirstRel > 0
  /\ wire[FirstRel].ty \in {"eof", "close"} /\ wire[FirstRel].id # Own
  /\ rEOF' = TRUE
  /\ devColEnd' = TRUE
  /\ wire' = SubSeq(wire, FirstRel + 1, Len(wire))
  /\ UNCHANGED <<rbuf, roff, dOff, devOrder, foreignDelivered, devColData>> /\ WUnch

\* what the reader makes of a torn frame: bytes of the other tunnel's frame handed to our caller,
\* frame synchronisation lost
DevReadTorn ==
  /\ ~Gen /\ ~rEOF /\ ~BufHasData /\ FirstRel > 0 /\ wire[FirstRel].ty = "torn"
  /\ foreignDelivered' = TRUE /\ devOrder' = TRUE
  /\ wire' = SubSeq(wire, FirstRel + 1, Len(wire))
  /\ UNCHANGED <<rbuf, roff, rEOF, dOff, devColData, devColEnd>> /\ WUnch

Read == DevReadTorn \/ ReadFromBuf \/ ReadOwnData \/ ReadOwnEnd \/ DevReadCollidingData \/ DevReadCollidingEnd

Next == \/ \E c \in SizeClasses : WriteCall(c)
        \/ WriteFrameStep
        \/ EndCall("eof") \/ EndCall("close")
        \/ \E k \in InjKinds : Inject(k)
        \/ \E k \in InjKinds : DevTornWriteFrame(k)
        \/ Finish
        \/ Read
Spec == Init /\ [][Next]_vars

\* ---- the frame decoder: ReadFrameFromReader on arbitrary bytes ----------------------------
\* input class: hdr = how much of the 21-byte header is present, ty known/unknown,
\* decl = declared payload length class, avail = how much payload follows
DecLens   == {"0", "MAX", "MAXp1", "U32"}
DecHdr    == {"none", "part", "full"}
DecAvail  == {"none", "part", "all", "extra"}     \* relative to the declared length
DecTypes  == {"known", "unknown"}
DecClasses == [hdr : DecHdr, ty : DecTypes, decl : DecLens, avail : DecAvail]
DeclLen(d) == CASE d = "0" -> 0 [] d = "MAX" -> MAX [] d = "MAXp1" -> MAX + 1 [] d = "U32" -> 1000 * MAX
\* what frame.go does: read header fully, reject length > MAX *before* allocating, then read payload fully
DecodeOutcome(c) ==
  IF c.hdr # "full" THEN [res |-> "error", alloc |-> 0]
  ELSE IF DeclLen(c.decl) > MAX THEN [res |-> "error", alloc |-> 0]
  ELSE IF DeclLen(c.decl) = 0 THEN [res |-> "frame", alloc |-> 0]
  ELSE IF c.avail \in {"all", "extra"} THEN [res |-> "frame", alloc |-> DeclLen(c.decl)]
  ELSE [res |-> "error", alloc |-> DeclLen(c.decl)]
\* the frame type plays no role in the decoder (it is the stream that interprets it)
\* ---- entry points: everything exported that reads a frame off a byte source --------------------
\*   rfr      crossnode.ReadFrameFromReader(io.Reader)            sessrfr  session.ReadFrameFromReader (facade)
\*   tcp      crossnode.ReadFrame(*net.TCPConn)                   sess     session.ReadFrame (facade; what the HTTP /
\*                                                                         DNS / command response readers call)
\*   stream   FrameStream.Read (frame loop on the connection)     listener CrossNodeListener.handleConnection (first frame)
DecEntries == {"rfr", "sessrfr", "tcp", "sess", "stream", "listener"}
\* the call graph of the code as it is: every entry point ends in ReadFrameFromReader
Calls(e) == CASE e = "sessrfr" -> "rfr" [] e = "tcp" -> "rfr" [] e = "sess" -> "tcp"
              [] e = "stream" -> "tcp" [] e = "listener" -> "sess" [] OTHER -> "rfr"
\* the decoder implementation an entry point ends in
Impl(e) == IF e \in {"rfr", "sessrfr"} THEN "reader"
           ELSE IF LimitOnlyOnReaderPath THEN "tcp" ELSE "reader"
LimitChecked(e) == Impl(e) = "reader"
\* without the check the announced length is allocated first and the payload read afterwards
DecodeOutcomeAt(c, e) ==
  IF LimitChecked(e) \/ c.hdr # "full" \/ DeclLen(c.decl) <= MAX THEN DecodeOutcome(c)
  ELSE IF c.avail \in {"all", "extra"} THEN [res |-> "frame", alloc |-> DeclLen(c.decl)]
  ELSE [res |-> "error", alloc |-> DeclLen(c.decl)]
DecoderSafeDef == \A c \in DecClasses : \A e \in DecEntries :
                     DecodeOutcomeAt(c, e).alloc <= MAX /\ DecodeOutcomeAt(c, e).res \in {"frame", "error"}
\* every entry point judges a byte string like every other (same outcome, same bound)
EntriesAgreeDef == \A c \in DecClasses : \A e \in DecEntries : DecodeOutcomeAt(c, e) = DecodeOutcome(c)
ASSUME DecoderSafe == (~LimitOnlyOnReaderPath => DecoderSafeDef /\ EntriesAgreeDef)
\* the same as state predicates, so that a cfg can name them (CrossFrame_show_limitpath.cfg)
DecoderBounded == DecoderSafeDef
EntriesAgree == EntriesAgreeDef
\* encode/decode round trip: WriteFrameToWriter refuses len > MAX, everything else decodes to itself
RtLens == {"z", "one", "Mm1", "M", "Mp1"}
RoundTripDef == \A c \in RtLens : Size(c) <= MAX =>
                DecodeOutcome([hdr |-> "full", ty |-> "known", decl |-> (IF Size(c) = 0 THEN "0" ELSE "MAX"), avail |-> "all"]).res = "frame"
ASSUME RoundTrip == RoundTripDef

\* ---- properties (statement of C10) --------------------------------------------------------
TypeOK == /\ wn \in 0..MaxWrites /\ ni \in 0..MaxInj /\ wst \in {"open", "eof", "close"}
          /\ wpend \in 0..(2 * MAX + 1) /\ roff \in 0..MAX /\ dOff \in Nat /\ wOff \in Nat
          /\ \A i \in 1..Len(wire) : wire[i].len <= MAX

\* Write on an open stream never refuses and never comes back short, for any size >= 0: once a
\* call has returned (wpend = 0) every byte handed to it is on the connection, in frames <= MAX
WritesAccepted == /\ wOff + wpend = wReq
                  /\ (wpend = 0 => wOff = wReq)
\* delivered bytes are an in-order prefix of the bytes written to our tunnel
InOrderPrefix == ~devOrder /\ dOff <= wOff
\* nothing of another tunnel / unknown type reaches the caller - except through the named deviation
NoForeign       == ~foreignDelivered
NoForeignStrict == NoForeign
NoForeignKnown  == foreignDelivered => devColData
\* end of stream is seen only after the writer (half-)closed and everything written was delivered
EofComplete       == rEOF => (devColEnd \/ (wst # "open" /\ wpend = 0 /\ dOff = wOff))
EofCompleteStrict == rEOF => (wst # "open" /\ wpend = 0 /\ dOff = wOff)
\* once the script is over and the reader cannot make another step, it has seen end of stream:
\* nothing is stuck in a buffer or behind a skipped frame (completeness, stated without temporal logic)
Quiescent == fin /\ ~ENABLED Read
DoneComplete == Quiescent => rEOF
\* frames of different writers never mix below frame granularity
FramesAtomic == \A i \in 1..Len(wire) : wire[i].ty # "torn"
\* the reader never holds more than one frame payload
ReaderAllocBound == rbuf.len <= MAX

\* ---- generation of the non-stream behaviour classes (printed once from the initial state) --
FwdPatterns == {"half", "full"}
\* concurrent-writer classes: our Write size class, number of other tunnels writing in parallel
\* through their own FrameStream on the same connection, their payload class
ParSizes == {"one", "Mm1", "Mp1"}
ParWriters == {1, 3}
ParPayloads == {"small", "M"}
\* forwarding: traffic counters configured or not (LocalConn wrapped in CountingReadWriter), and the
\* local reader's end-of-stream style: "sep" = (0, EOF) in a call of its own (net.Conn),
\* "with" = the last chunk comes together with EOF (n > 0, EOF), which io.Reader permits
FwdCounters == {"off", "on"}
FwdEofStyles == {"sep", "with"}
\* io.Copy contract the forwarder relies on: every (n, err) read result forwards its n bytes
ReadResults == [n : 0..2, eof : BOOLEAN]
Forwarded(rs) == LET RECURSIVE f(_, _)
                     f(i, acc) == IF i > Len(rs) THEN acc
                                  ELSE IF rs[i].eof THEN acc + rs[i].n ELSE f(i + 1, acc + rs[i].n)
                 IN f(1, 0)
ASSUME CopyForwardsAll == \A a \in ReadResults, b \in ReadResults :
          Forwarded(<<a, b>>) = a.n + (IF a.eof THEN 0 ELSE b.n)
AuxBehaviours ==
  /\ \A c \in DecClasses : \A e \in DecEntries : Out([kind |-> "dec", c |-> c, e |-> e, exp |-> DecodeOutcomeAt(c, e).res])
  /\ \A c \in RtLens : \A t \in DecTypes : Out([kind |-> "rt", len |-> c, ty |-> t])
  /\ \A p \in FwdPatterns : \A a \in SizeClasses : \A b \in SizeClasses : \A cn \in FwdCounters : \A es \in FwdEofStyles :
        (es = "with" => p = "half") =>     \* end-of-stream from the local reader is the half-close
        Out([kind |-> "fwd", pat |-> p, req |-> a, resp |-> b, cnt |-> cn, eofs |-> es])
  /\ \A c \in ParSizes : \A n \in ParWriters : \A pl \in ParPayloads : Out([kind |-> "par", c |-> c, nw |-> n, pl |-> pl])
AuxEmitted == (Gen /\ wn = 0 /\ ni = 0 /\ hist = <<>> /\ ~fin) => AuxBehaviours
=============================================================================
