\* variant: ConnectionCodeRepository.Create (mapquota: PortMappingService.CreatePortMapping) appends the index entry
\* before it writes the records; a list request (no quota mutex) that prunes entries without a record, in between,
\* removes the entry: the code (mapping) goes live uncounted.
\*   tlc -config Limits_show_indexfirst.cfg Limits.tla   (expected: Invariant NoOvershoot is violated, n = 2, limit = 1:
\*   Call(1), Count(1), Index(1), LCall, LList, LPrune, Put(1), Call(2), Count(2), Index(2), Put(2))
CONSTANTS
  Kinds = {"codequota", "mapquota"}
  NS = {2, 3, 4}
  Lims = {0, 1, 2}
  NodeCounts = {1}
  Variants = {"indexfirst"}
  Shape = "free"
  MaxReRel = 2
  Slacks = {1, 2}
  Listers = 1
  Retries = 1
  FixedKinds = {"conncap", "maplimit", "maplive", "codequota", "mapquota"}
  WithRelease = TRUE
  Emit = FALSE
  EmitMaxN = 4
  EmitAll = FALSE
INIT Init
NEXT Next
VIEW view
INVARIANTS TypeOK NoOvershoot
CHECK_DEADLOCK FALSE
