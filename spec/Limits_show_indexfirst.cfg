\* variant: ConnectionCodeRepository.Create appends the index entry before it writes the records; a list request
\* (no quota mutex) in between prunes the entry, the code goes live uncounted.
\*   tlc -config Limits_show_indexfirst.cfg Limits.tla   (expected: Invariant NoOvershoot is violated, n = 2, limit = 1:
\*   Call(1), Count(1), Index(1), LCall, LList, LPrune, Put(1), Call(2), Count(2), Index(2), Put(2))
CONSTANTS
  Kinds = {"codequota"}
  NS = {2, 3, 4}
  Lims = {0, 1, 2}
  NodeCounts = {1}
  Variants = {"indexfirst"}
  Shape = "free"
  MaxReRel = 2
  Slacks = {1, 2}
  Listers = 1
  FixedKinds = {"conncap", "maplimit", "maplive", "codequota", "mapquota"}
  WithRelease = TRUE
  Emit = FALSE
  EmitMaxN = 4
  EmitAll = FALSE
INIT Init
NEXT Next
VIEW view
INVARIANTS TypeOK NoOvershoot
CHECK_DEADLOCK FALSE
