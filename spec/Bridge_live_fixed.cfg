\* C02 liveness under weak fairness on the copiers, the clock, Close and the lifecycle goroutine
\* (not on the environment): after any end closes or fails the other end observes closure and the
\* tunnel is unregistered; a tunnel whose target never comes is forgotten; the copiers always catch
\* up.  Strict forms, for the bridge as the statement needs it (no deviation excused).
CONSTANTS
  BUF = 3
  MaxSends = @@MAXS@@
  MaxSlow = 5
  Lims = {"none", "tiny", "edge", "large"}
  Classes = @@CLS@@
  Faults = @@FAULTS@@
  Replace = @@REPL@@
  ExtCloseOn = TRUE
  DevLimiter = FALSE
  DevNilFwd = FALSE
  DevStaleSrc = FALSE
  DevSleepLimiter = FALSE
  DevWriteLock = FALSE
  DevRouteFirst = FALSE
  DevCleanupFirst = FALSE
  RegLegs = {}
  DevIdleSweep = FALSE
  DevFwdNoEof = FALSE
  SrcKinds = @@SK@@
  ErrClasses = @@EC@@
  PollOn = @@POLL@@
  RetryOn = {}
  RetryWriteOn = {}
  DevBufio = FALSE
  AttachKinds = @@AK@@
  HoldOn = @@HOLD@@
  Gen = FALSE
  Emit = FALSE
SPECIFICATION LiveSpec
VIEW view
INVARIANTS TypeOK
PROPERTIES ClosureSeen Forgotten NeverAttached CatchUp
CHECK_DEADLOCK FALSE
