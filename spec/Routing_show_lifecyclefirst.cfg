\* Documentation only (not run by the check; verified by hand): the design that starts the bridge lifecycle before the registration (LifecycleFirst).
\* TLC reports LookupGone violated: Create, End, Removed, Set - the record lands after its removal (deviation "lateSet").
CONSTANTS
  Nodes = {"A", "B"}
  Tunnels = {"t1", "t2"}
  TTL = 1
  MaxReg = 2
  MaxClock = 1000
  MaxHist = 99
  Shapes = {"jsonString"}
  Mode = "split"
  LifecycleFirst = TRUE
  SkipLocalTarget = FALSE
  EvictingLookup = FALSE
  HonourContext = FALSE
  RejectSeenIds = FALSE
  RegisterBeforeExistsCheck = FALSE
  MaxDup = 0
  Emit = FALSE
  Only = "all"
INIT Init
NEXT Next
VIEW view
INVARIANTS TypeOK LookupGone
CHECK_DEADLOCK FALSE
