\* Deviation RenewTTLTicks < TTLTicks: a renewal grants a lease of only two periods; one transient renewal failure
\* (never two in a row) now lets the claim of a live, renewing node run out: n2 gets the same node id.
\* Not run by the check (it must fail); kept to show the counterexample:
\*   tlc -config IdGen_show_shortlease.cfg IdGen.tla
CONSTANTS
  Mode = "node"
  Procs = {"n1", "n2"}
  HasNX = "yes"
  NCands = 1
  MaxAttempts = 1
  MaxCalls = 1
  Layouts = {"distinct"}
  NSlots = 1
  RenewTier = "claim"
  Wiring = "split"
  TTLTicks = 3
  MaxTicks = 5
  Faults = {}
  MaxRenewFails = 1
  MaxConsecFails = 1
  HbGiveUp = "never"
  GiveUpAfter = 0
  RenewTTLTicks = 2
  Realloc = FALSE
  StopChan = "once"
  MaxU = 1
  ExhaustionReturnsLast = FALSE
  ReturnedIdReleased = FALSE
  WithLapse = FALSE
  Emit = FALSE
INIT Init
NEXT Next
VIEW view
INVARIANTS TypeOK NoForeign NodeUnique
CHECK_DEADLOCK FALSE
