\* C19 - deviation expiredFallsThrough (seeded change C19-r3m2): lookupMapping treats an EXPIRED repository owner as "name not in
\* the repository" and asks the legacy sources. Configuration gen:shadow (sequential: one repository owner that is made
\* inactive / expired, one legacy mapping of the same name - the recorded cross-source finding - and lookups).
\* Expected: Invariant NoShadow is violated - Create(n1) by c1, LegCreate(n1) by c2 on the other node, Update(1, expired),
\* Lookup(n1): L_idx, L_rec -> "leg:1": the request for c1's (expired) name is served by c2's legacy mapping.
\*   tlc -config Domain_show_fallthrough.cfg Domain.tla      (the same constants with Deviate = {} pass: `./check C19`)
CONSTANTS
  ProcsC1 = {"p1"}
  ProcsC2 = {}
  LookProcs = {"lk"}
  Names = {"n1"}
  MaxOps = 2
  MaxLook = 1
  Kinds = {"Create", "Update"}
  Pre = FALSE
  Faults = 0
  Guess = FALSE
  HandlerProcs = {}
  Serial = TRUE
  MaxLegacy = 1
  Fix = TRUE
  Spell = {"plain"}
  CaseFold = TRUE
  OnlyDelete = {}
  OnlyCreate = {}
  Deviate = {"expiredFallsThrough"}
  DelFaults = FALSE
  CreateFaults = FALSE
  ReadFaults = FALSE
  TTLRollback = TRUE
  UpdFields = {"inactive", "expired"}
  LegStatus = {"active"}
  OnlyList = {}
  Emit = FALSE
INIT Init
NEXT Next
VIEW view
INVARIANTS TypeOK NoShadow
CHECK_DEADLOCK FALSE
