\* C16, documentation run (not part of ./check): hypothetical design "splitlatch" alone against the STRICT property.
\* TLC reports "Invariant AtMostOnce is violated":
\* Dispose.Close testing the latch outside the lock (LLatchLoad / LLatchStore): two closers both become
\* winners, every clean-up handler runs twice (dev_split).  Schedule: c1.LatchLoad c2.LatchLoad c1.LatchStore
\* c1.Run:h1 .. c2.LatchStore c2.Run:h1
\* The check itself (Dispose.cfg) verifies the same configuration against  property \/ named deviation  and passes.
CONSTANTS
  Suite = "show_splitlatch"
  Emit = FALSE
INIT Init
NEXT Next
VIEW view
INVARIANTS TypeOK AtMostOnce
CHECK_DEADLOCK FALSE
