\* C10 bidirectional forwarder under the named deviation PutBeforeWriteDone (a copy loop's buffer is returned to the pool before its Write has finished):
\* TLC must report @@INV@@ violated (the driver runs this cfg once per clause the deviation breaks).
CONSTANTS
  Tunnels = {1, 2}
  Chunks = 2
  Bufs = {b1, b2, b3, b4}
  Static = static
  None = none
  SharedCopyBuffer = FALSE
  PutAtFirstDone = FALSE
  PutBeforeWriteDone = TRUE
  GlobalBuffer = FALSE
  Gen = FALSE
  Emit = FALSE
INIT Init
NEXT Next
VIEW View
SYMMETRY BufSym
INVARIANTS TypeOK @@INV@@
CHECK_DEADLOCK FALSE
