---------------------------- MODULE FramingTrace ----------------------------
(* Property-level judges for C01 and C05 over traces of the real stream.StreamProcessor and     *)
(* session.SessionManager.  They know nothing about the wire layout or the reader's structure.  *)
(*                                                                                              *)
(* C01 alphabet (driver c01):                                                                   *)
(*   Write   one per WritePacket call: ok (accepted), cls/cut (input class of the packet and of *)
(*           the chunking that hits it - only used to name the failing input; cut is            *)
(*           <where the reads are cut>[@<transport>]: "msg+.." = the peer's message partition   *)
(*           of a message transport, "writer-msgs" = the messages are the real writer's own     *)
(*           Write calls, transport = ws-c2s | ws-s2c (WebSocket wrappers, [-w] writer direct) | *)
(*           quic | kcp (loopback connections of the real adapters), none = chunk-controlled     *)
(*           reader; cls ends in ":rate" when WritePacket was given a rate limit), base (type   *)
(*           code without flag bits), len (body length), n (byte count WritePacket returned)    *)
(*   Packet  one per successful ReadPacket: base, len, eq (body identical - compared in Go),     *)
(*           consumed (byte count ReadPacket returned)                                          *)
(*   Rejected ReadPacket returned an error for a packet whose type carries a flag the caller     *)
(*           preset (Write.fl = "enc": Encrypted; "zpre": Compressed without compression) and    *)
(*           the driver read on; consumed = bytes that call took from the transport             *)
(*   Held    after the WHOLE sequence has been read: packet i, kept by the caller since its     *)
(*           ReadPacket returned, still has the written body (eq) - a body that a later read    *)
(*           overwrites is not "the same sequence of packets with identical bodies"             *)
(*   Err     ReadPacket failed (kind = "error" | "panic" | "timeout")                           *)
(*   Eof     ReadPacket reported a clean end of stream; rest = bytes the transport still held   *)
(* C01 statement: the packets read are the packets written, in order, with identical types      *)
(* (modulo flag bits, Appendix B) and bodies, each read consumes exactly the bytes of its       *)
(* packet, whatever the chunking; hence no error and nothing missing before the end.            *)
(* "Every packet type and flag combination": a packet with a caller-preset flag is either       *)
(* decoded or refused with an error for THAT packet - having consumed exactly its bytes, so     *)
(* that every following packet still decodes (clause Misaligned/afterRejected:<flag>:...).      *)
(* The statement is silent on what a body flagged Compressed but written raw decodes to: for    *)
(* fl = "zpre" the body is not compared.                                                        *)
(*                                                                                              *)
(* C05 alphabet (driver c05):                                                                   *)
(*   Case      cls = hostile input class                                                        *)
(*   Read      outcome of ReadPacket on the hostile bytes: "Packet" | "Error" (at the end of a  *)
(*             stream also of ReadExact / ReadAvailable: "Data" | "Error")                      *)
(*   Dispatch  outcome of SessionManager.HandlePacket on a fresh connection: "Reply" | "Error"  *)
(*   both with panicked, timedOut, allocKiB (runtime.MemStats.TotalAlloc delta of the call);    *)
(*   Read also with bodyKiB = size of the body of the returned packet (0 if none)               *)
(*   Flood     n copies of one small frame, read and dispatched in a loop - all on one          *)
(*             connection (cls flood:...) or each on a connection of its own that is accepted,  *)
(*             served and closed (cls flood-conns:...); live = heap in use + goroutine stacks:  *)
(*             panicked, timedOut, replies (dispatches that did not refuse), growKiB = live     *)
(*             heap after the second half of the flood minus live heap after the first half     *)
(*             (both after closing nothing, two GCs) - memory RETAINED per refused packet       *)
(*   A Case event may precede every call of a multi-frame stream (cls then names the frame, the *)
(*   frame before it and whether the reader thread changed).                                    *)
(* C05 statement: no panic, no hang on a finite stream, allocation per call at most             *)
(* K * MaxBody + Slack (K fixed per stage), outcome is a packet / an error / a reply; a packet  *)
(* handed out never carries more than MaxBody bytes ("beyond a fixed bound ... including after  *)
(* decompression").  "Retains": what the server keeps after handling REFUSED packets must not   *)
(* grow with their number (clause Retention: growth over the second half of a flood of refused  *)
(* packets above RetainSlackKiB).                                                                *)
EXTENDS VLib

CONSTANTS MaxBodyKiB, KRead, KDispatch, SlackKiB, RetainSlackKiB
\* ReadPacket: pool buffer + copy + inflate output (bytes.Buffer doubling) + JSON decode = 6 units
\* (DESIGN.md Appendix B).  HandlePacket works on an already decoded packet of at most one unit; it may
\* parse it, echo an identifier of it in a reply (marshal buffer doubling + copy) and compress that reply:
\* a fixed multiple as well, taken generously (12) because the statement only demands "a fixed bound tied
\* to the maximum packet body size".
BoundKiB(k) == k * MaxBodyKiB + SlackKiB

VARIABLES written,  \* C01: accepted packets in write order
          nr,       \* C01: ReadPacket calls that returned a packet or refused one so far
          np,       \* C01: of these, calls that returned a packet (the others were refusals of flagged packets)
          nh,       \* C01: Held reports so far (one per decoded packet is mandatory)
          ended,    \* C01: the reader reported Eof or Err
          cls       \* C05: input class of the current case
vars == <<l, viol, written, nr, np, nh, ended, cls>>

Init == l = 1 /\ viol = {} /\ written = <<>> /\ nr = 0 /\ np = 0 /\ nh = 0 /\ ended = FALSE /\ cls = "?"

Detail(i) == IF i <= Len(written) THEN "cut=" \o written[i].cut \o ":" \o written[i].cls ELSE "past-end"
Add(s) == viol' = viol \cup s

(* ------------------------------------ C01 ------------------------------------------------- *)
TrWrite == /\ Is("Write")
           /\ written' = IF Ev.ok THEN Append(written, [cls |-> Ev.cls, cut |-> Ev.cut, base |-> Ev.base,
                                                        len |-> Ev.len, n |-> Ev.n, fl |-> Ev.fl])
                         ELSE written
           /\ l' = l + 1 /\ UNCHANGED <<viol, nr, np, nh, ended, cls>>

TrPacket == /\ Is("Packet")
            /\ LET i == nr + 1 IN
               IF ended THEN Add({V("AfterEnd", Detail(i))})
               ELSE IF i > Len(written) THEN Add({V("Extra", Detail(Len(written)))})
               ELSE LET w == written[i] IN
                    Add(  (IF Ev.base # w.base THEN {V("Type", Detail(i))} ELSE {})
                     \cup (IF w.fl # "zpre" /\ (Ev.len # w.len \/ ~Ev.eq) THEN {V("Body", Detail(i))} ELSE {})
                     \cup (IF Ev.consumed # w.n THEN {V("Consumed", Detail(i))} ELSE {}))
            /\ nr' = nr + 1 /\ np' = np + 1 /\ l' = l + 1 /\ UNCHANGED <<written, nh, ended, cls>>

TrRejected == /\ Is("Rejected")
              /\ LET i == nr + 1 IN
                 IF ended THEN Add({V("AfterEnd", Detail(i))})
                 ELSE IF i > Len(written) THEN Add({V("Extra", Detail(Len(written)))})
                 ELSE LET w == written[i] IN
                      Add(  (IF w.fl = "none" THEN {V("ReadError", Detail(i))} ELSE {})
                       \cup (IF Ev.consumed # w.n THEN {V("Misaligned", "afterRejected:" \o w.fl \o ":" \o Detail(i))} ELSE {}))
              /\ nr' = nr + 1 /\ l' = l + 1 /\ UNCHANGED <<written, np, nh, ended, cls>>

TrHeld == /\ Is("Held")
          /\ Add(IF Ev.eq THEN {} ELSE {V("BodyChangedLater", Detail(Ev.i))})
          /\ nh' = nh + 1 /\ l' = l + 1 /\ UNCHANGED <<written, nr, np, ended, cls>>

TrErr == /\ Is("Err")
         /\ Add({V(CASE Ev.kind = "panic" -> "Panic" [] Ev.kind = "timeout" -> "Hang" [] OTHER -> "ReadError",
                   Detail(nr + 1))})
         /\ ended' = TRUE /\ l' = l + 1 /\ UNCHANGED <<written, nr, np, nh, cls>>

TrEof == /\ Is("Eof")
         /\ Add(  (IF nr < Len(written) THEN {V("Missing", Detail(nr + 1))} ELSE {})
            \cup (IF Ev.rest # 0 THEN {V("Leftover", Detail(nr + 1))} ELSE {}))
         /\ ended' = TRUE /\ l' = l + 1 /\ UNCHANGED <<written, nr, np, nh, cls>>

(* ------------------------------------ C05 ------------------------------------------------- *)
\* every case of a trace must be followed by its report (Read / Flood) before the next case begins
TrCase == /\ Is("Case") /\ cls' = Ev.cls /\ l' = l + 1 /\ ended' = FALSE
          /\ Add(IF cls # "?" /\ ~ended THEN {V("Incomplete", cls)} ELSE {})
          /\ UNCHANGED <<written, nr, np, nh>>

CallX(stage, allowed, k, more) ==
  LET d == cls \o ":" \o stage IN
  Add(more \cup  (IF Ev.panicked THEN {V("Panic", d)} ELSE {})
   \cup (IF Ev.timedOut THEN {V("Hang", d)} ELSE {})
   \cup (IF Ev.allocKiB > BoundKiB(k) THEN {V("AllocBound", d)} ELSE {})
   \cup (IF ~Ev.panicked /\ ~Ev.timedOut /\ Ev.outcome \notin allowed THEN {V("Outcome", d)} ELSE {}))

TooLarge   == IF Ev.outcome = "Packet" /\ Ev.bodyKiB > MaxBodyKiB THEN {V("BodyTooLarge", cls \o ":read")} ELSE {}
TrRead     == Is("Read")     /\ CallX("read", {"Packet", "Error", "Data"}, KRead, TooLarge)    /\ l' = l + 1 /\ ended' = TRUE /\ UNCHANGED <<written, nr, np, nh, cls>>
Call(stage, allowed, k) == CallX(stage, allowed, k, {})
TrDispatch == Is("Dispatch") /\ Call("dispatch", {"Reply", "Error"}, KDispatch) /\ l' = l + 1 /\ UNCHANGED <<written, nr, np, nh, ended, cls>>

TrFlood == /\ Is("Flood")
           /\ Add(  (IF Ev.panicked THEN {V("Panic", cls \o ":flood")} ELSE {})
              \cup (IF Ev.timedOut THEN {V("Hang", cls \o ":flood")} ELSE {})
              \cup (IF ~Ev.panicked /\ ~Ev.timedOut /\ Ev.replies = 0 /\ Ev.growKiB > RetainSlackKiB
                    THEN {V("Retention", cls \o ":flood")} ELSE {}))
           /\ l' = l + 1 /\ ended' = TRUE /\ UNCHANGED <<written, nr, np, nh, cls>>

(* ------------------------------------ common ---------------------------------------------- *)
Known == {"Write", "Packet", "Rejected", "Held", "Err", "Eof", "Case", "Read", "Dispatch", "Flood", "End"}
TrOther == /\ More /\ Ev.ev \notin Known
           /\ Add({V("UnknownEvent", Ev.ev)}) /\ l' = l + 1 /\ UNCHANGED <<written, nr, np, nh, ended, cls>>

\* a C01 trace must contain the reader's own end report and a C05 trace its Read report; a trace
\* without it (dropped events) is rejected
Final == IF ((written # <<>> \/ cls # "?") /\ ~ended) \/ nh # np THEN {V("Incomplete", Detail(nr + 1))} ELSE {}
TrEnd == /\ Is("End")
         /\ PrintT("VERDICT " \o ToJson([tr |-> Ev.tr, viol |-> SetToSeq(viol \cup Final)]))
         /\ l' = l + 1 /\ viol' = {} /\ written' = <<>> /\ nr' = 0 /\ np' = 0 /\ nh' = 0 /\ ended' = FALSE /\ cls' = "?"

Next == TrWrite \/ TrPacket \/ TrRejected \/ TrHeld \/ TrErr \/ TrEof \/ TrCase \/ TrRead \/ TrDispatch \/ TrFlood \/ TrOther \/ TrEnd
Spec == Init /\ [][Next]_vars
=============================================================================
