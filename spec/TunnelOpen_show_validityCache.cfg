\* Named deviation "validityCache": a memoised validation that every WRITE to the mapping's record
\* drops (a "correct-looking" cache).  Every administrative change is a write, so revoked /
\* expired / expiredJust / ... are refused - only natural expiry ("lapsed": the clock passes the
\* ExpiresAt the record has carried all along, nothing is written) still meets the memo.  This is
\* why "lapsed" is a mapping state of its own.
\* Must FAIL (AttachedEntitled, on a lapsed cell only; dev memoisedValidation);
\* the check confirms it through TunnelOpen_show_all.cfg (one run for all named deviations):
\*   tlc -config TunnelOpen_show_validityCache.cfg TunnelOpen.tla
CONSTANTS
  FIXES = {"validateJoin", "secretValidity", "bindMapping", "bindMappingPoll"}
  Idents = {"none", "noneHs", "listen", "target", "stranger"}
  Creds = {"idOnly", "rightSecret", "wrongSecret", "resume", "nothing", "otherId", "otherSecret"}
  MStates = {"active", "revoked", "expired", "expiredJust", "lapsed", "inactive", "error", "suspended", "missing"}
  Shapes = {"std"}
  MUT = {"validityCache"}
  TStates = {"waiting", "served"}
  Orders = {"legitFirst"}
  Masked = FALSE
  Emit = FALSE
INIT Init
NEXT Next
INVARIANTS TypeOK AttachedEntitled RefusedClean OnlyAttachedRead LegitWorks
CHECK_DEADLOCK FALSE
