\* Documentation only (not run by the check): a failed read of the named record skips the party check (class of seeded change
\* C11-r3m3; CommandsExec_show_faultopen.cfg has it step by step).  TLC reports PartyOnly: the stranger C, MappingDelete m1 with flt = "read1".
CONSTANTS
  Sets = {"server", "special"}
  WVs = {"base"}
  Fixes = {"trafficParty", "dnsAuth", "domainAuth", "notifyAuth", "socksAuth"}
  Devs = {"faultOpen"}
  MaxCmds = 1
  RespToo = FALSE
  Emit = FALSE
INIT Init
NEXT Next
VIEW view
INVARIANTS TypeOK EffIdIsAuth UnauthNoEffect UnauthRefused PartyOnly CreatedForCaller DeliveredToParty
CHECK_DEADLOCK FALSE
