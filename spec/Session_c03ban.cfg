\* C03, the protector's background life in depth: control-type messages with bans of every kind (temporary, permanent,
\* run out; made by the operator's BanIP or by accumulated failed handshakes - PermanentBanAt = MaxFailures = 2, so the
\* ban the failures produce is a permanent one), UnbanIP, blacklist entries of every shape and the clean-up tick of
\* BruteForceProtector and IPManager: every message class behind every ban history and behind a tick.
CONSTANTS
  Conn <- Conn2
  Client <- Client2
  MaxNonce = 2
  MaxFail = 2
  MaxCtl = 0
  Faults = {}
  Ops = {"Msg", "Ban", "BanKinds", "Unban", "Cleanup", "PermBan", "Blacklist"}
  Types = {"control"}
  PreAccept = TRUE
  Fixes = @@FIXES@@
  Split = FALSE
  MaxLevel = @@LEVEL@@
  Emit = @@EMIT@@
INIT Init
NEXT Next
VIEW view
INVARIANTS TypeOK OnlyProven StepsOK ProvenIssued C07InvMasked C07OneMasked
CHECK_DEADLOCK FALSE
