\* ConnCode.tla - the repaired design (atomic claim before the create; CreatePortMapping removes the
\* record again when the list append fails): 2 activators + revoker, expiry at any point, one write fault.
\* EXPECTED RESULT: no error (120,785 states generated / 46,571 distinct).
\* AtMostOneMappingR / FailedLeavesNoneR = the strict invariants modulo the residual deviation "rbLost"
\* (expiry between check and Activate() AND the rollback's own record delete fails); with CanExpire = FALSE
\* or MaxFault = 0 the strict AtMostOneMapping / FailedLeavesNone hold (that is what ./check C06 verifies).
CONSTANTS
  Acts = {"a1", "a2"}
  HasRev = TRUE
  CanExpire = TRUE
  MaxFault = 1
  PreSet = {"a1"}
  Quota = 2
  Claim = TRUE
  CreateRb = TRUE
  Node2 = {"a2"}
  ClaimLocal = FALSE
  SameAs = {}
  Reclaim = FALSE
  ResetOnFail = FALSE
  ResetCreate = FALSE
  RelScope = "fail"
  CanTick = FALSE
  ShortClaim = FALSE
  Emit = FALSE
INIT Init
NEXT Next
VIEW view
INVARIANTS TypeOK NoActivationAfterDeath AtMostOneMappingR AtMostOneSuccess SuccessWasValid FailedLeavesNoneR FieldsOK NoLegacyDev ClaimExcludes
CHECK_DEADLOCK FALSE
