\* C19 - deviation listErrPrunes (neighbour of C19-r3m3: the listing's existing write, RemoveFromList of dangling ids): a storage
\* ERROR of the record read is taken for "record gone". Expected: Invariant Consistent / ListPure is violated - the live
\* mapping 1 disappears from its owner's list.
\*   tlc -config Domain_show_listprune.cfg Domain.tla      (the same constants with Deviate = {} pass: `./check C19`)
CONSTANTS
  ProcsC1 = {"p1", "p3"}
  ProcsC2 = {"p2"}
  LookProcs = {"lk"}
  Names = {"n1"}
  MaxOps = 1
  MaxLook = 1
  Kinds = {"Create", "Delete", "List"}
  Pre = TRUE
  Faults = 1
  Guess = FALSE
  HandlerProcs = {"p2"}
  Serial = FALSE
  MaxLegacy = 0
  Fix = TRUE
  Spell = {"plain"}
  CaseFold = TRUE
  OnlyDelete = {"p3"}
  OnlyCreate = {"p2"}
  Deviate = {"listErrPrunes"}
  DelFaults = FALSE
  CreateFaults = FALSE
  ReadFaults = TRUE
  TTLRollback = TRUE
  UpdFields = {"inactive", "expired"}
  LegStatus = {"active"}
  OnlyList = {"p1"}
  Emit = FALSE
INIT Init
NEXT Next
VIEW view
INVARIANTS TypeOK Consistent ListPure
CHECK_DEADLOCK FALSE
