\* C16, documentation run (not part of ./check): hypothetical design "claim" alone against the STRICT property.
\* TLC reports "Invariant TrafficExact is violated":
\* the same design when a cloud-control call fails (RGetFail) and the claim is handed back (RUnclaim) after
\* every other reporter has come and found nothing to report: the bytes are never reported (dev_unclaim)
\* The check itself (Dispose.cfg) verifies the same configuration against  property \/ named deviation  and passes.
CONSTANTS
  Suite = "show_claim_fault"
  Emit = FALSE
INIT Init
NEXT Next
VIEW view
INVARIANTS TypeOK TrafficExact
CHECK_DEADLOCK FALSE
